package main

import (
	"encoding/json"
	"fmt"
	"io"
	"log"
	"os"
	"path"
	"sort"
	"strings"

	"sigs.k8s.io/kustomize/api/krusty"
	"sigs.k8s.io/kustomize/api/types"
	"sigs.k8s.io/kustomize/kyaml/filesys"
	"sigs.k8s.io/kustomize/kyaml/resid"
)

// C11: kustomizations compose transparently.
// Correspondence: (i) legacyIDSorter.Less (verif hook) vs KV.Res.LegacySort.legacy_less on id pairs;
// (ii) krusty.Run of generated trees (files, nested/sibling bases, namePrefix/nameSuffix, sortOptions)
// vs KV.Res.Compose.build: outcome class + ids of the output documents in order.
// Search (implementation only, metamorphic): wrap, move, permute (multiset / legacy bytes), name nesting,
// label nesting - on trees that also carry namespace/labels/generators/patches/images directives.

func init() {
	// krusty warns through the global logger on every build that carries sortOptions
	// (MakeDefaultOptions sets Reorder=none, which counts as "set in a CLI flag"); keep the output readable.
	if len(os.Args) > 0 && os.Args[len(os.Args)-1] == "C11" {
		log.SetOutput(io.Discard)
	}
	register("C11", propDef{
		header:     "From KV Require Import Corr.C11.\nOpen Scope string_scope.\n",
		caseType:   "case11",
		mismatchFn: "mismatches11",
		run:        runC11,
		replay:     replayC11,
	})
}

// ---------------------------------------------------------------- tree representation

type doc11 struct {
	API    string            `json:"api"`
	Kind   string            `json:"kind"`
	NS     string            `json:"ns,omitempty"`
	Name   string            `json:"name"`
	Marker string            `json:"marker,omitempty"` // unique annotation verif/id (rich trees)
	Labels map[string]string `json:"labels,omitempty"`
	Body   string            `json:"body,omitempty"` // further top-level YAML (spec:, data: ...)
}

type file11 struct {
	Name string  `json:"name"`
	Sub  string  `json:"sub,omitempty"` // sub-directory of the kustomization directory holding the file ("sub", "a/b")
	Dot  bool    `json:"dot,omitempty"` // written as ./path in the resources list
	Docs []doc11 `json:"docs"`
}

// relPath is the entry written into the resources list.
func (f *file11) relPath() string {
	p := f.Name
	if f.Sub != "" {
		p = f.Sub + "/" + p
	}
	if f.Dot {
		p = "./" + p
	}
	return p
}

type sort11 struct {
	Order  string   `json:"order"` // legacy | fifo
	Custom bool     `json:"custom,omitempty"`
	First  []string `json:"first,omitempty"`
	Last   []string `json:"last,omitempty"`
}

type cmgen11 struct {
	Name     string   `json:"name"`
	Literals []string `json:"literals"`
	Behavior string   `json:"behavior,omitempty"`
}

type patch11 struct {
	TargetKind string `json:"target_kind"`
	TargetName string `json:"target_name,omitempty"`
	Key        string `json:"key"`
	Value      string `json:"value"`
}

// cfg11: one `configurations:` file adding a nameReference rule
// (target kind <- referrer kind at path), written next to the kustomization file
type cfg11 struct {
	File       string `json:"file"`
	TargetGroup   string `json:"target_group,omitempty"`
	TargetVersion string `json:"target_version,omitempty"`
	TargetKind string `json:"target_kind"`
	RefKind    string `json:"ref_kind"`
	Path       string `json:"path"`
}

type image11 struct {
	Name   string `json:"name"`
	NewTag string `json:"new_tag"`
}

type ent11 struct {
	File *file11 `json:"file,omitempty"`
	Dir  *dir11  `json:"dir,omitempty"`
}

type dir11 struct {
	Name    string  `json:"name"`
	Sibling bool    `json:"sibling,omitempty"` // placed beside its parent (../name) instead of inside it
	Place   string  `json:"place,omitempty"`   // how the parent refers to it: "" (name), dot (./name), slash (name/), aux (../aux/name), deep (sub/name)
	Ents    []ent11 `json:"ents"`
	Prefix  string  `json:"prefix,omitempty"`
	Suffix  string  `json:"suffix,omitempty"`
	// directives outside the Compose model (oracle-only trees)
	Namespace    string            `json:"namespace,omitempty"`
	CommonLabels map[string]string `json:"common_labels,omitempty"`
	Labels       map[string]string `json:"labels,omitempty"`  // labels: [{pairs: ...}] (no selectors)
	Labels2      map[string]string `json:"labels2,omitempty"` // a second entry of the labels: list
	Annotations  map[string]string `json:"annotations,omitempty"`
	CMGens       []cmgen11         `json:"cmgens,omitempty"`
	SecGens      []cmgen11         `json:"secgens,omitempty"`
	Configs      []cfg11           `json:"configs,omitempty"`
	Patches      []patch11         `json:"patches,omitempty"`
	Images       []image11         `json:"images,omitempty"`
	// top-only
	Sort *sort11 `json:"sort,omitempty"`
}

// emptyWithoutTopOnly: the kustomization file has no field besides the top-only ones (sortOptions);
// Kustomization.CheckEmpty rejects it once those move to a wrapper.
func (d *dir11) emptyWithoutTopOnly() bool {
	return len(d.Ents) == 0 && d.Prefix == "" && d.Suffix == "" && d.Namespace == "" && len(d.CommonLabels) == 0 &&
		len(d.Labels) == 0 && len(d.Labels2) == 0 && len(d.Annotations) == 0 && len(d.CMGens) == 0 && len(d.Patches) == 0 && len(d.Images) == 0 &&
		len(d.SecGens) == 0 && len(d.Configs) == 0
}

func (d *dir11) rich() bool {
	if d.Namespace != "" || len(d.CommonLabels) > 0 || len(d.Labels) > 0 || len(d.Labels2) > 0 || len(d.Annotations) > 0 ||
		len(d.CMGens) > 0 || len(d.Patches) > 0 || len(d.Images) > 0 || len(d.SecGens) > 0 || len(d.Configs) > 0 {
		return true
	}
	for _, e := range d.Ents {
		if e.Dir != nil && e.Dir.rich() {
			return true
		}
		if e.File != nil {
			for _, dc := range e.File.Docs {
				if dc.Marker != "" || dc.Body != "" || len(dc.Labels) > 0 {
					return true
				}
			}
		}
	}
	return false
}

func yq(s string) string { // YAML double-quoted scalar
	var b strings.Builder
	b.WriteByte('"')
	for i := 0; i < len(s); i++ {
		c := s[i]
		switch {
		case c == '"' || c == '\\':
			b.WriteByte('\\')
			b.WriteByte(c)
		case c < 0x20 || c >= 0x7f:
			fmt.Fprintf(&b, "\\x%02x", c)
		default:
			b.WriteByte(c)
		}
	}
	b.WriteByte('"')
	return b.String()
}

func sortedMapKeys(m map[string]string) []string {
	ks := make([]string, 0, len(m))
	for k := range m {
		ks = append(ks, k)
	}
	sort.Strings(ks)
	return ks
}

func (d doc11) yaml() string {
	var b strings.Builder
	fmt.Fprintf(&b, "apiVersion: %s\nkind: %s\nmetadata:\n  name: %s\n", yq(d.API), yq(d.Kind), yq(d.Name))
	if d.NS != "" {
		fmt.Fprintf(&b, "  namespace: %s\n", yq(d.NS))
	}
	if d.Marker != "" {
		fmt.Fprintf(&b, "  annotations:\n    verif/id: %s\n", yq(d.Marker))
	}
	if len(d.Labels) > 0 {
		b.WriteString("  labels:\n")
		for _, k := range sortedMapKeys(d.Labels) {
			fmt.Fprintf(&b, "    %s: %s\n", k, yq(d.Labels[k]))
		}
	}
	b.WriteString(d.Body)
	return b.String()
}

func (f *file11) yaml() string {
	parts := make([]string, len(f.Docs))
	for i, d := range f.Docs {
		parts[i] = d.yaml()
	}
	return strings.Join(parts, "---\n")
}

func (d *dir11) relPath() string {
	if d.Sibling {
		return "../" + d.Name
	}
	switch d.Place {
	case "dot":
		return "./" + d.Name
	case "slash":
		return d.Name + "/"
	case "aux":
		return "../aux/" + d.Name
	case "deep":
		return "sub/" + d.Name
	}
	return d.Name
}

func yamlMap(b *strings.Builder, indent string, m map[string]string) {
	for _, k := range sortedMapKeys(m) {
		fmt.Fprintf(b, "%s%s: %s\n", indent, k, yq(m[k]))
	}
}

func (d *dir11) kustomization() string {
	var b strings.Builder
	b.WriteString("apiVersion: kustomize.config.k8s.io/v1beta1\nkind: Kustomization\n")
	if len(d.Ents) > 0 {
		b.WriteString("resources:\n")
		for _, e := range d.Ents {
			if e.File != nil {
				fmt.Fprintf(&b, "- %s\n", e.File.relPath())
			} else {
				fmt.Fprintf(&b, "- %s\n", e.Dir.relPath())
			}
		}
	}
	if d.Prefix != "" {
		fmt.Fprintf(&b, "namePrefix: %s\n", yq(d.Prefix))
	}
	if d.Suffix != "" {
		fmt.Fprintf(&b, "nameSuffix: %s\n", yq(d.Suffix))
	}
	if d.Namespace != "" {
		fmt.Fprintf(&b, "namespace: %s\n", yq(d.Namespace))
	}
	if len(d.CommonLabels) > 0 {
		b.WriteString("commonLabels:\n")
		yamlMap(&b, "  ", d.CommonLabels)
	}
	if len(d.Labels) > 0 || len(d.Labels2) > 0 {
		b.WriteString("labels:\n")
		for _, m := range []map[string]string{d.Labels, d.Labels2} {
			if len(m) > 0 {
				b.WriteString("- pairs:\n")
				yamlMap(&b, "    ", m)
			}
		}
	}
	if len(d.Annotations) > 0 {
		b.WriteString("commonAnnotations:\n")
		yamlMap(&b, "  ", d.Annotations)
	}
	if len(d.CMGens) > 0 {
		b.WriteString("configMapGenerator:\n")
		for _, g := range d.CMGens {
			fmt.Fprintf(&b, "- name: %s\n", g.Name)
			if g.Behavior != "" {
				fmt.Fprintf(&b, "  behavior: %s\n", g.Behavior)
			}
			b.WriteString("  literals:\n")
			for _, l := range g.Literals {
				fmt.Fprintf(&b, "  - %s\n", l)
			}
		}
	}
	if len(d.SecGens) > 0 {
		b.WriteString("secretGenerator:\n")
		for _, g := range d.SecGens {
			fmt.Fprintf(&b, "- name: %s\n  literals:\n", g.Name)
			for _, l := range g.Literals {
				fmt.Fprintf(&b, "  - %s\n", l)
			}
		}
	}
	if len(d.Configs) > 0 {
		b.WriteString("configurations:\n")
		for _, c := range d.Configs {
			fmt.Fprintf(&b, "- %s\n", c.File)
		}
	}
	if len(d.Patches) > 0 {
		b.WriteString("patches:\n")
		for _, p := range d.Patches {
			b.WriteString("- target:\n")
			fmt.Fprintf(&b, "    kind: %s\n", p.TargetKind)
			if p.TargetName != "" {
				fmt.Fprintf(&b, "    name: %s\n", p.TargetName)
			}
			b.WriteString("  patch: |-\n")
			fmt.Fprintf(&b, "    apiVersion: v1\n    kind: %s\n    metadata:\n      name: ignored\n      annotations:\n        %s: %s\n",
				p.TargetKind, p.Key, yq(p.Value))
		}
	}
	if len(d.Images) > 0 {
		b.WriteString("images:\n")
		for _, im := range d.Images {
			fmt.Fprintf(&b, "- name: %s\n  newTag: %s\n", im.Name, yq(im.NewTag))
		}
	}
	if d.Sort != nil {
		fmt.Fprintf(&b, "sortOptions:\n  order: %s\n", d.Sort.Order)
		if d.Sort.Custom {
			b.WriteString("  legacySortOptions:\n")
			fmt.Fprintf(&b, "    orderFirst: [%s]\n", strings.Join(d.Sort.First, ", "))
			fmt.Fprintf(&b, "    orderLast: [%s]\n", strings.Join(d.Sort.Last, ", "))
		}
	}
	return b.String()
}

// materialize writes the tree with its top directory at root.
func (d *dir11) materialize(fs filesys.FileSystem, root string) error {
	if err := fs.MkdirAll(root); err != nil {
		return err
	}
	if err := fs.WriteFile(path.Join(root, "kustomization.yaml"), []byte(d.kustomization())); err != nil {
		return err
	}
	for _, c := range d.Configs {
		txt := fmt.Sprintf("nameReference:\n- kind: %s\n", c.TargetKind)
		if c.TargetGroup != "" {
			txt += fmt.Sprintf("  group: %s\n", c.TargetGroup)
		}
		if c.TargetVersion != "" {
			txt += fmt.Sprintf("  version: %s\n", c.TargetVersion)
		}
		txt += fmt.Sprintf("  fieldSpecs:\n  - kind: %s\n    path: %s\n", c.RefKind, c.Path)
		if err := fs.WriteFile(path.Join(root, c.File), []byte(txt)); err != nil {
			return err
		}
	}
	for _, e := range d.Ents {
		if e.File != nil {
			fp := path.Join(root, e.File.relPath())
			if err := fs.MkdirAll(path.Dir(fp)); err != nil {
				return err
			}
			if err := fs.WriteFile(fp, []byte(e.File.yaml())); err != nil {
				return err
			}
		} else if err := e.Dir.materialize(fs, path.Join(root, e.Dir.relPath())); err != nil {
			return err
		}
	}
	return nil
}

type resInfo11 struct {
	Marker string
	Name   string
	Labels map[string]string
}

type out11 struct {
	Cls  string
	Msg  string
	Yaml string
	Docs []doc11     // ids of the output documents in order
	Res  []resInfo11 // marker annotation, name and labels of every output document
	Refs []string    // spec.ref.name of every MyApp document (nameref-configurations family)
}

// docStrings splits the output stream into its documents (ResMap.AsYaml joins them with "---\n";
// no generated scalar contains a line "---").
func (o out11) docStrings() []string {
	if o.Yaml == "" {
		return nil
	}
	return strings.Split(strings.TrimSuffix(o.Yaml, "\n"), "\n---\n")
}

func runAt(fs filesys.FileSystem, root string) out11 {
	var o out11
	o.Cls, o.Msg = protect(func() error {
		m, err := krusty.MakeKustomizer(krusty.MakeDefaultOptions()).Run(fs, root)
		if err != nil {
			return err
		}
		y, err := m.AsYaml()
		if err != nil {
			return err
		}
		o.Yaml = string(y)
		for _, r := range m.Resources() {
			o.Docs = append(o.Docs, doc11{API: r.GetApiVersion(), Kind: r.GetKind(), NS: r.GetNamespace(), Name: r.GetName()})
			o.Res = append(o.Res, resInfo11{Marker: r.GetAnnotations()["verif/id"], Name: r.GetName(), Labels: r.GetLabels()})
			if r.GetKind() == "MyApp" {
				if v, err := r.GetFieldValue("spec.ref.name"); err == nil {
					o.Refs = append(o.Refs, fmt.Sprint(v))
				}
			}
		}
		return nil
	})
	return o
}

func build11(d *dir11, root string) out11 {
	fs := filesys.MakeFsInMemory()
	if err := d.materialize(fs, root); err != nil {
		return out11{Cls: "setup-error", Msg: err.Error()}
	}
	return runAt(fs, root)
}

const root11 = "/w/k/top"

// ---------------------------------------------------------------- Coq terms

func (d doc11) coq() string {
	return fmt.Sprintf("(mkDoc %s %s %s %s)", coqStr(d.API), coqStr(d.Kind), coqStr(d.NS), coqStr(d.Name))
}

func coqDocs(l []doc11) string {
	parts := make([]string, len(l))
	for i, d := range l {
		parts[i] = d.coq()
	}
	return "[" + strings.Join(parts, "; ") + "]"
}

func (d *dir11) coq() string {
	parts := make([]string, len(d.Ents))
	for i, e := range d.Ents {
		if e.File != nil {
			parts[i] = "(YFile " + coqDocs(e.File.Docs) + ")"
		} else {
			parts[i] = e.Dir.coq()
		}
	}
	return fmt.Sprintf("(YDir [%s] %s %s)", strings.Join(parts, "; "), coqStr(d.Prefix), coqStr(d.Suffix))
}

func coqLabels(m map[string]string) string {
	parts := []string{}
	for _, k := range sortedMapKeys(m) {
		parts = append(parts, fmt.Sprintf("(%s, %s)", coqStr(k), coqStr(m[k])))
	}
	return "[" + strings.Join(parts, "; ") + "]"
}

// coqL prints the tree for the label-layering model (Res/LabelNest.v): ids, own labels, label directives.
func (d *dir11) coqL() string {
	parts := make([]string, len(d.Ents))
	for i, e := range d.Ents {
		if e.File != nil {
			docs := make([]string, len(e.File.Docs))
			for j, dc := range e.File.Docs {
				docs[j] = fmt.Sprintf("(%s, %s)", dc.coq(), coqLabels(dc.Labels))
			}
			parts[i] = "(YLFile [" + strings.Join(docs, "; ") + "])"
		} else {
			parts[i] = e.Dir.coqL()
		}
	}
	entries := []string{}
	for _, m := range []map[string]string{d.Labels, d.Labels2} {
		if len(m) > 0 {
			entries = append(entries, coqLabels(m))
		}
	}
	return fmt.Sprintf("(YLDir [%s] [%s] %s)", strings.Join(parts, "; "), strings.Join(entries, "; "), coqLabels(d.CommonLabels))
}

func coqOrder(custom bool, first, last []string) string {
	if !custom {
		return "None"
	}
	return fmt.Sprintf("(Some (%s, %s))", coqStrList(first), coqStrList(last))
}

func (s *sort11) coq() string {
	if s == nil {
		return "YNone"
	}
	if s.Order != "legacy" {
		return "YFifo"
	}
	return "(YLegacy " + coqOrder(s.Custom, s.First, s.Last) + ")"
}

func splitGV(api string) (string, string) {
	if i := strings.Index(api, "/"); i > -1 {
		return api[:i], api[i+1:]
	}
	return "", api
}

func (d *dir11) allDocs(acc []doc11) []doc11 {
	for _, e := range d.Ents {
		if e.File != nil {
			acc = append(acc, e.File.Docs...)
		} else {
			acc = e.Dir.allDocs(acc)
		}
	}
	return acc
}

// clusterScoped lists the (apiVersion, kind) pairs of the tree that the implementation treats as cluster scoped.
func clusterScoped(docs []doc11) []string {
	seen := map[string]bool{}
	out := []string{}
	for _, d := range docs {
		key := d.API + "\x00" + d.Kind
		if seen[key] {
			continue
		}
		seen[key] = true
		g, v := splitGV(d.API)
		if resid.NewGvk(g, v, d.Kind).IsClusterScoped() {
			out = append(out, fmt.Sprintf("(%s, %s)", coqStr(d.API), coqStr(d.Kind)))
		}
	}
	return out
}

// ---------------------------------------------------------------- generators

type kind11 struct{ API, Kind string }

var c11Kinds = []kind11{
	{"v1", "ConfigMap"}, {"v1", "ConfigMap"}, {"v1", "Secret"}, {"v1", "Service"}, {"apps/v1", "Deployment"},
	{"extensions/v1beta1", "Deployment"}, {"v1", "Namespace"}, {"example.com/v1", "Namespace"},
	{"apiextensions.k8s.io/v1", "CustomResourceDefinition"}, {"apiregistration.k8s.io/v1", "APIService"},
	{"example.com/v1", "APIService"}, {"rbac.authorization.k8s.io/v1", "ClusterRole"},
	{"rbac.authorization.k8s.io/v1", "Role"}, {"v1", "ServiceAccount"},
	{"admissionregistration.k8s.io/v1", "MutatingWebhookConfiguration"}, {"example.com/v1", "Foo"},
	{"z.io/v1beta1", "Bar"}, {"b.example.com/v2", "Namespace"}, {"v1", "PersistentVolume"}, {"batch/v1", "CronJob"},
}

var c11Names = []string{"a", "b", "ab", "x-a", "a-y", "x-a-y", "c", "x-b"}
var c11Namespaces = []string{"", "", "", "default", "ns1", "ns2"}
var c11Prefixes = []string{"", "", "x-", "x-", "p", "q-", "x-x-"}
var c11Suffixes = []string{"", "", "", "-y", "-y", "s", "-z"}
var c11OrderKinds = []string{"Namespace", "ConfigMap", "Deployment", "Foo", "Bar", "Service", "Secret", "Role",
	"CustomResourceDefinition", "MutatingWebhookConfiguration", "APIService", "CronJob"}

type gen11 struct {
	rng    *Rng
	nDir   int
	nFile  int
	nDoc   int
	rich   bool
	unique bool // unique (kind,name) per tree: mostly valid trees
	used   map[string]bool
}

func (g *gen11) doc() doc11 {
	for tries := 0; ; tries++ {
		k := c11Kinds[g.rng.Intn(len(c11Kinds))]
		if !g.unique {
			k = c11Kinds[g.rng.Intn(6)] // few kinds: id collisions become likely
		}
		d := doc11{API: k.API, Kind: k.Kind, Name: g.rng.Pick(c11Names), NS: g.rng.Pick(c11Namespaces)}
		key := d.Kind + "/" + d.Name
		if g.unique && g.used[key] && tries < 30 {
			continue
		}
		g.used[key] = true
		if g.rich {
			g.nDoc++
			d.Marker = fmt.Sprintf("m%d", g.nDoc)
			if g.rng.Chance(30) {
				d.Labels = map[string]string{g.rng.Pick([]string{"app", "tier", "own"}): g.rng.Pick([]string{"o1", "o2"})}
			}
			switch d.Kind {
			case "ConfigMap":
				d.Body = "data:\n  k: v\n"
			case "Deployment":
				img := g.rng.Pick([]string{"nginx:1.0", "busybox", "redis:5"})
				d.Body = "spec:\n  selector:\n    matchLabels:\n      app: " + d.Name + "\n  template:\n    metadata:\n      labels:\n        app: " + d.Name +
					"\n    spec:\n      containers:\n      - name: main\n        image: " + img + "\n"
				if g.rng.Chance(40) {
					d.Body += "        envFrom:\n        - configMapRef:\n            name: " + g.rng.Pick([]string{"a", "b", "gen"}) + "\n"
				}
			case "Service":
				d.Body = "spec:\n  selector:\n    app: " + g.rng.Pick(c11Names) + "\n  ports:\n  - port: 80\n"
			}
		}
		return d
	}
}

func (g *gen11) file() *file11 {
	g.nFile++
	f := &file11{Name: fmt.Sprintf("f%d.yaml", g.nFile)}
	if g.rng.Chance(25) {
		f.Sub = g.rng.Pick([]string{"sub", "a/b", "res"})
	}
	f.Dot = g.rng.Chance(15)
	n := 1 + g.rng.Intn(3)
	if g.rng.Chance(10) {
		n = 0
	}
	for i := 0; i < n; i++ {
		f.Docs = append(f.Docs, g.doc())
	}
	return f
}

func (g *gen11) dir(depth int, top bool) *dir11 {
	g.nDir++
	idx := g.nDir
	d := &dir11{Name: fmt.Sprintf("d%d", idx), Prefix: g.rng.Pick(c11Prefixes), Suffix: g.rng.Pick(c11Suffixes)}
	if !top {
		switch k := g.rng.Intn(10); {
		case k < 3:
			d.Sibling = true
		case k < 4:
			d.Place = "dot"
		case k < 5:
			d.Place = "slash"
		case k < 7:
			d.Place = "aux"
		case k < 8:
			d.Place = "deep"
		}
	}
	n := 1 + g.rng.Intn(4)
	if g.rng.Chance(5) {
		n = 0
	}
	for i := 0; i < n; i++ {
		if depth > 0 && g.rng.Chance(45) {
			d.Ents = append(d.Ents, ent11{Dir: g.dir(depth-1, false)})
		} else {
			d.Ents = append(d.Ents, ent11{File: g.file()})
		}
	}
	if g.rich {
		if g.rng.Chance(25) {
			d.Namespace = g.rng.Pick([]string{"ns1", "ns2", "prod"})
		}
		if g.rng.Chance(30) {
			d.CommonLabels = map[string]string{g.rng.Pick([]string{"app", "tier", "env"}): g.rng.Pick([]string{"l1", "l2", "l3"})}
		}
		if g.rng.Chance(30) {
			d.Labels = map[string]string{g.rng.Pick([]string{"app", "tier", "env", "team"}): g.rng.Pick([]string{"m1", "m2"})}
		}
		if len(d.Labels) > 0 && g.rng.Chance(40) {
			d.Labels2 = map[string]string{g.rng.Pick([]string{"app", "tier", "env", "team"}): g.rng.Pick([]string{"z1", "z2"})}
		}
		if g.rng.Chance(20) {
			d.Annotations = map[string]string{g.rng.Pick([]string{"note", "owner"}): g.rng.Pick([]string{"n1", "n2"})}
		}
		if g.rng.Chance(30) {
			d.CMGens = append(d.CMGens, cmgen11{Name: fmt.Sprintf("gen-%s%d", g.rng.Pick([]string{"a", "b"}), idx),
				Literals: []string{"k=" + g.rng.Pick([]string{"v1", "v2"})}})
		}
		// generators layer like dictionaries: sometimes merge into a generator of a direct child
		for _, e := range d.Ents {
			if e.Dir != nil && len(e.Dir.CMGens) > 0 && e.Dir.CMGens[0].Behavior == "" && g.rng.Chance(35) {
				d.CMGens = append(d.CMGens, cmgen11{Name: e.Dir.CMGens[0].Name, Behavior: "merge",
					Literals: []string{g.rng.Pick([]string{"k", "k2"}) + "=" + g.rng.Pick([]string{"w1", "w2"})}})
				break
			}
		}
		if g.rng.Chance(25) {
			d.Patches = append(d.Patches, patch11{TargetKind: g.rng.Pick([]string{"ConfigMap", "Deployment", "Service"}),
				Key: "patched" + fmt.Sprint(idx), Value: g.rng.Pick([]string{"p1", "p2"})})
		}
		if g.rng.Chance(20) {
			d.Images = append(d.Images, image11{Name: g.rng.Pick([]string{"nginx", "busybox", "redis"}), NewTag: g.rng.Pick([]string{"9.9", "latest"})})
		}
	}
	return d
}

func (g *gen11) sortOpt(allowCustom bool) *sort11 {
	switch k := g.rng.Intn(10); {
	case k < 3:
		return nil
	case k < 4:
		return &sort11{Order: "fifo"}
	case k < 8 || !allowCustom:
		return &sort11{Order: "legacy"}
	default:
		s := &sort11{Order: "legacy", Custom: true}
		nf, nl := g.rng.Intn(5), g.rng.Intn(3)
		for i := 0; i < nf; i++ {
			s.First = append(s.First, g.rng.Pick(c11OrderKinds))
		}
		for i := 0; i < nl; i++ {
			s.Last = append(s.Last, g.rng.Pick(c11OrderKinds))
		}
		return s
	}
}

func genTree11(rng *Rng, rich bool, depth int) *dir11 {
	g := &gen11{rng: rng, rich: rich, unique: rng.Chance(70), used: map[string]bool{}}
	d := g.dir(depth, true)
	d.Sort = g.sortOpt(true)
	return d
}

// genLabelTree11: trees inside the scope of Res/LabelNest.v - unique ids, no renaming, no sortOptions;
// documents with own labels, up to two `labels:` entries and commonLabels per layer, overlapping keys.
func genLabelTree11(rng *Rng, depth int) *dir11 {
	g := &gen11{rng: rng, unique: true, used: map[string]bool{}}
	keys := []string{"app", "tier", "env", "team"}
	var dir func(depth int, top bool) *dir11
	dir = func(depth int, top bool) *dir11 {
		g.nDir++
		d := &dir11{Name: fmt.Sprintf("d%d", g.nDir)}
		if !top && rng.Chance(40) {
			d.Sibling = true
		}
		n := 1 + rng.Intn(3)
		for i := 0; i < n; i++ {
			if depth > 0 && rng.Chance(50) {
				d.Ents = append(d.Ents, ent11{Dir: dir(depth-1, false)})
			} else {
				f := g.file()
				for j := range f.Docs {
					f.Docs[j].NS = ""
					f.Docs[j].Name = fmt.Sprintf("%s%d", f.Docs[j].Name, g.nFile*10+j) // unique ids: the build succeeds
					if rng.Chance(50) {
						f.Docs[j].Labels = map[string]string{rng.Pick(keys): rng.Pick([]string{"o1", "o2"})}
						if rng.Chance(30) {
							f.Docs[j].Labels[rng.Pick(keys)] = "o3"
						}
					}
				}
				d.Ents = append(d.Ents, ent11{File: f})
			}
		}
		if rng.Chance(60) {
			d.Labels = map[string]string{rng.Pick(keys): rng.Pick([]string{"m1", "m2"})}
			if rng.Chance(40) {
				d.Labels[rng.Pick(keys)] = "m3"
			}
			if rng.Chance(50) {
				d.Labels2 = map[string]string{rng.Pick(keys): rng.Pick([]string{"z1", "z2"})}
			}
		}
		if rng.Chance(50) {
			d.CommonLabels = map[string]string{rng.Pick(keys): rng.Pick([]string{"l1", "l2"})}
		}
		return d
	}
	return dir(depth, true)
}

func labelCase11(r *Run, t *dir11, root string) {
	o := build11(t, root)
	r.Count("labels_class", o.Cls)
	if o.Cls != ClsOk {
		// the label model describes successful builds only (errors are CBuild's business)
		r.Meta.Skipped++
		return
	}
	out := make([]string, len(o.Docs))
	overridden := false
	for i, d := range o.Docs {
		out[i] = fmt.Sprintf("(%s, %s)", d.coq(), coqLabels(o.Res[i].Labels))
	}
	for _, d := range t.dirs(nil)[1:] {
		if len(d.Labels) > 0 || len(d.CommonLabels) > 0 {
			overridden = true
		}
	}
	r.Count("labels_layers", fmt.Sprint(len(t.dirs(nil))))
	term := fmt.Sprintf("(CLabels %s [%s])", t.coqL(), strings.Join(out, "; "))
	r.AddCase(term, treeCase11{Kind: "labeltree", Tree: t, Note: "built at " + root}, overridden)
}

// genNamerefTree11: sibling bases (or an inner and an outer layer) whose `configurations:` each add a
// nameReference rule for the SAME referrer field but DIFFERENT target kinds, a referrer whose field holds the
// original name of a target of both kinds, and two targets that end up with different final names. The order in
// which the rule tables are merged follows the resources list; the build must not.
type nrTarget11 struct{ API, Kind string }

var c11NrTargets = []nrTarget11{
	{"v1", "ConfigMap"}, {"v1", "Secret"}, {"v1", "Service"}, {"v1", "ServiceAccount"}, {"v1", "PersistentVolumeClaim"},
	{"apps/v1", "Deployment"}, {"example.com/v1", "Foo"}, {"z.io/v1beta1", "Bar"}, {"batch/v1", "CronJob"},
}

func genNamerefTree11(rng *Rng) *dir11 {
	place := func(d *dir11) *dir11 {
		switch rng.Intn(4) {
		case 0:
			d.Sibling = true
		case 1:
			d.Place = "aux"
		case 2:
			d.Place = "dot"
		}
		return d
	}
	// two different target types
	i := rng.Intn(len(c11NrTargets))
	k := rng.Intn(len(c11NrTargets) - 1)
	if k >= i {
		k++
	}
	if rng.Chance(35) { // the classic pair
		i, k = 0, 1
		if rng.Bool() {
			i, k = 1, 0
		}
	}
	tg := [2]nrTarget11{c11NrTargets[i], c11NrTargets[k]}
	rule := func(t nrTarget11) cfg11 {
		c := cfg11{File: "refs.yaml", TargetKind: t.Kind, RefKind: "MyApp", Path: "spec/ref/name"}
		g, v := splitGV(t.API)
		if rng.Chance(30) {
			c.TargetVersion = v
		}
		if g != "" && rng.Chance(40) {
			c.TargetGroup = g
		}
		return c
	}
	refDoc := doc11{API: "example.com/v1", Kind: "MyApp", Name: "app", Marker: "ref",
		Body: "spec:\n  ref:\n    name: x\n"}
	other := doc11{API: "v1", Kind: "Endpoints", Name: "web", Marker: "ep"}
	a := place(&dir11{Name: "a", Configs: []cfg11{rule(tg[0])}})
	b := place(&dir11{Name: "b", Configs: []cfg11{rule(tg[1])}})
	top := &dir11{Name: "top"}
	docsA, docsB, docsTop := []doc11{}, []doc11{other}, []doc11{}
	switch rng.Intn(3) {
	case 0:
		docsA = append(docsA, refDoc)
	case 1:
		docsB = append(docsB, refDoc)
	default:
		docsTop = append(docsTop, refDoc)
		docsA = append(docsA, doc11{API: "v1", Kind: "LimitRange", Name: "lr", Marker: "lr"})
	}
	a.Ents = []ent11{{File: &file11{Name: "ra.yaml", Docs: docsA}}}
	b.Ents = []ent11{{File: &file11{Name: "rb.yaml", Docs: docsB}}}
	// the two targets, both originally named x, with different final names: generated at the top
	// (ConfigMap / Secret only) or file resources renamed by their own bases
	classic := (tg[0].Kind == "ConfigMap" && tg[1].Kind == "Secret") || (tg[0].Kind == "Secret" && tg[1].Kind == "ConfigMap")
	if classic && rng.Chance(55) {
		top.CMGens = []cmgen11{{Name: "x", Literals: []string{"kind=configmap"}}}
		top.SecGens = []cmgen11{{Name: "x", Literals: []string{"kind=secret"}}}
	} else {
		c1 := place(&dir11{Name: "c1", Prefix: "c-", Ents: []ent11{{File: &file11{Name: "t1.yaml",
			Docs: []doc11{{API: tg[0].API, Kind: tg[0].Kind, Name: "x", Marker: "t1"}}}}}})
		c2 := place(&dir11{Name: "c2", Suffix: "-s", Ents: []ent11{{File: &file11{Name: "t2.yaml",
			Docs: []doc11{{API: tg[1].API, Kind: tg[1].Kind, Name: "x", Marker: "t2"}}}}}})
		top.Ents = append(top.Ents, ent11{Dir: c1}, ent11{Dir: c2})
	}
	if rng.Chance(25) {
		b.Ents = append([]ent11{{Dir: a}}, b.Ents...) // inner / outer instead of siblings
		top.Ents = append(top.Ents, ent11{Dir: b})
	} else {
		top.Ents = append(top.Ents, ent11{Dir: a}, ent11{Dir: b})
	}
	if len(docsTop) > 0 {
		top.Ents = append(top.Ents, ent11{File: &file11{Name: "rt.yaml", Docs: docsTop}})
	}
	for i := len(top.Ents) - 1; i > 0; i-- {
		j := rng.Intn(i + 1)
		top.Ents[i], top.Ents[j] = top.Ents[j], top.Ents[i]
	}
	if rng.Chance(60) {
		top.Sort = &sort11{Order: "legacy"}
	} else if rng.Chance(30) {
		top.Sort = &sort11{Order: "fifo"}
	}
	if rng.Chance(30) {
		top.Prefix = "t-"
	}
	return top
}

// coqC prints the tree for the configurations model (Res/ConfigMerge.v): per directory the nameReference rules of
// its configurations files and its sub-directories in resources order.
func (d *dir11) coqC() string {
	cfgs := make([]string, len(d.Configs))
	for i, c := range d.Configs {
		cfgs[i] = fmt.Sprintf("[NameRefTypes.mkNbr %s %s %s [mkFs \"\" \"\" %s %s false]]",
			coqStr(c.TargetGroup), coqStr(c.TargetVersion), coqStr(c.TargetKind), coqStr(c.RefKind), coqStr(c.Path))
	}
	subs := []string{}
	for _, e := range d.Ents {
		if e.Dir != nil {
			subs = append(subs, e.Dir.coqC())
		}
	}
	return fmt.Sprintf("(ConfigMerge.CDir [%s] [%s])", strings.Join(cfgs, "; "), strings.Join(subs, "; "))
}

// cfgCase11: which candidate did the referrer end up pointing to?
func cfgCase11(r *Run, t *dir11, root string) {
	o := build11(t, root)
	r.Count("cfg_class", o.Cls)
	if o.Cls != ClsOk || len(o.Refs) != 1 {
		r.Meta.Skipped++
		return
	}
	// candidates: the documents / generated resources originally named x
	type cand struct{ api, kind string }
	cands := []cand{}
	for _, dc := range t.allDocs(nil) {
		if dc.Name == "x" {
			cands = append(cands, cand{dc.API, dc.Kind})
		}
	}
	for _, d := range t.dirs(nil) {
		for range d.CMGens {
			cands = append(cands, cand{"v1", "ConfigMap"})
		}
		for range d.SecGens {
			cands = append(cands, cand{"v1", "Secret"})
		}
	}
	observed := "None"
	won := "none"
	for _, doc := range o.Docs {
		if doc.Name == o.Refs[0] {
			for _, c := range cands {
				if c.api == doc.API && c.kind == doc.Kind {
					observed = fmt.Sprintf("(Some (%s, %s))", coqStr(c.api), coqStr(c.kind))
					won = c.kind
				}
			}
		}
	}
	r.Count("cfg_winner", won)
	cs := make([]string, len(cands))
	for i, c := range cands {
		cs[i] = fmt.Sprintf("(%s, %s)", coqStr(c.api), coqStr(c.kind))
	}
	term := fmt.Sprintf("(CCfg %s \"example.com/v1\" \"MyApp\" \"spec/ref/name\" [%s] %s)", t.coqC(), strings.Join(cs, "; "), observed)
	r.AddCase(term, treeCase11{Kind: "cfgtree", Tree: t, Note: "built at " + root}, won != "none")
}

// genTwinTree11: the same group/kind in two API versions, spread over one resources list and sibling bases,
// under the legacy order: the version is the only thing that orders them.
var c11Twins = [][3]string{
	{"autoscaling/v1", "autoscaling/v2", "HorizontalPodAutoscaler"},
	{"batch/v1beta1", "batch/v1", "CronJob"},
	{"example.com/v1", "example.com/v2", "Foo"},
	{"example.com/v1alpha1", "example.com/v1", "Widget"},
	{"networking.k8s.io/v1beta1", "networking.k8s.io/v1", "Ingress"},
	{"v1", "v2", "Thing"},
}

func genTwinTree11(rng *Rng) *dir11 {
	tw := c11Twins[rng.Intn(len(c11Twins))]
	top := &dir11{Name: "top", Sort: &sort11{Order: "legacy"}}
	if rng.Chance(20) {
		top.Sort = &sort11{Order: "legacy", Custom: true, First: []string{"Namespace", tw[2]}, Last: []string{"Secret"}}
	}
	n := 2 + rng.Intn(3)
	for i := 0; i < n; i++ {
		d := doc11{API: tw[i%2], Kind: tw[2], Name: rng.Pick([]string{"a", "a", "b"}), NS: rng.Pick([]string{"", "", "ns1"})}
		if i >= 2 {
			d.Name = fmt.Sprintf("%s%d", d.Name, i) // a third / fourth twin must not collide with the first pair
		}
		f := &file11{Name: fmt.Sprintf("f%d.yaml", i), Docs: []doc11{d}}
		if rng.Chance(25) {
			f.Docs = append(f.Docs, doc11{API: "v1", Kind: "ConfigMap", Name: fmt.Sprintf("c%d", i)})
		}
		if rng.Chance(40) {
			b := &dir11{Name: fmt.Sprintf("b%d", i), Ents: []ent11{{File: f}}}
			if rng.Chance(50) {
				b.Sibling = true
			}
			if rng.Chance(30) {
				b.Suffix = "-s"
			}
			top.Ents = append(top.Ents, ent11{Dir: b})
		} else {
			top.Ents = append(top.Ents, ent11{File: f})
		}
	}
	return top
}

// ---- adversarial ids for the Less correspondence
var lessGroups = []string{"", "", "apps", "a", "b.example.com", "z.io", "~G", "\x7f", "a_b", "~", "batch", "A", "\x80x", "~H"}
var lessVersions = []string{"v1", "v1", "v2", "", "~V", "b_c", "v1beta1", "c", "~", "v1_x"}
var lessKinds = []string{"Namespace", "Namespace", "ConfigMap", "Deployment", "Foo", "Bar", "", "~K", "Secret",
	"ValidatingWebhookConfiguration", "MutatingWebhookConfiguration", "namespace", "CronJob", "PodDisruptionBudget", "Zed", "~"}
var lessNS = []string{"", "", "default", "ns1", "~X", "a|b", "a", "ns2", "~", "\x7f"}
var lessNames = []string{"a", "b", "", "~N", "b|c", "a.b", "a-b", "ab", "|", "~"}

type less11 struct {
	Custom bool     `json:"custom,omitempty"`
	First  []string `json:"first,omitempty"`
	Last   []string `json:"last,omitempty"`
	A      doc11    `json:"a"`
	B      doc11    `json:"b"`
}

func mkAPI(g, v string) string {
	// the inverse of ParseGroupVersion where it has one; a group without a version cannot be written
	if g == "" {
		return v
	}
	return g + "/" + v
}

func genLess11(rng *Rng) less11 {
	id := func() doc11 {
		return doc11{API: mkAPI(rng.Pick(lessGroups), rng.Pick(lessVersions)), Kind: rng.Pick(lessKinds),
			NS: rng.Pick(lessNS), Name: rng.Pick(lessNames)}
	}
	c := less11{A: id(), B: id()}
	// near-equal pairs: copy most fields
	if rng.Chance(60) {
		c.B = c.A
		switch rng.Intn(6) {
		case 0:
			c.B.NS = rng.Pick(lessNS)
		case 1:
			c.B.Name = rng.Pick(lessNames)
		case 2:
			g, _ := splitGV(c.A.API)
			c.B.API = mkAPI(g, rng.Pick(lessVersions))
		case 3:
			_, v := splitGV(c.A.API)
			c.B.API = mkAPI(rng.Pick(lessGroups), v)
		case 4:
			c.B.Kind = rng.Pick(lessKinds)
		}
	}
	if rng.Chance(20) {
		c.Custom = true
		nf, nl := rng.Intn(5), rng.Intn(4)
		for i := 0; i < nf; i++ {
			c.First = append(c.First, rng.Pick(lessKinds))
		}
		for i := 0; i < nl; i++ {
			c.Last = append(c.Last, rng.Pick(lessKinds))
		}
	}
	return c
}

func (d doc11) resid() resid.ResId {
	g, v := splitGV(d.API)
	return resid.NewResIdWithNamespace(resid.Gvk{Group: g, Version: v, Kind: d.Kind}, d.Name, d.NS)
}

func (c less11) opts() *types.LegacySortOptions {
	if !c.Custom {
		return nil
	}
	return &types.LegacySortOptions{OrderFirst: c.First, OrderLast: c.Last}
}

func implLess(c less11) (bool, string) {
	var res bool
	cls, _ := protect(func() error {
		res = krusty.VerifC11LegacyLess(c.A.resid(), c.B.resid(), c.opts())
		return nil
	})
	return res, cls
}

// ---------------------------------------------------------------- tree transformations

func cloneTree(d *dir11) *dir11 {
	data, _ := json.Marshal(d)
	var out dir11
	_ = json.Unmarshal(data, &out)
	return &out
}

// dirs lists every directory of the tree in preorder.
func (d *dir11) dirs(acc []*dir11) []*dir11 {
	acc = append(acc, d)
	for _, e := range d.Ents {
		if e.Dir != nil {
			acc = e.Dir.dirs(acc)
		}
	}
	return acc
}

// wrapTree: an overlay that merely lists T; T's top-only fields move to the wrapper.
func wrapTree(t *dir11, sibling bool) *dir11 {
	inner := cloneTree(t)
	w := &dir11{Name: "wrapper", Sort: inner.Sort}
	inner.Sort = nil
	inner.Sibling = sibling
	inner.Place = ""
	inner.Name = "wrapped"
	w.Ents = []ent11{{Dir: inner}}
	return w
}

func permutations(n int) [][]int {
	var out [][]int
	var rec func(cur []int, used []bool)
	rec = func(cur []int, used []bool) {
		if len(cur) == n {
			out = append(out, append([]int{}, cur...))
			return
		}
		for i := 0; i < n; i++ {
			if !used[i] {
				used[i] = true
				rec(append(cur, i), used)
				used[i] = false
			}
		}
	}
	rec(nil, make([]bool, n))
	return out
}

func randomPerm(rng *Rng, n int) []int {
	p := make([]int, n)
	for i := range p {
		p[i] = i
	}
	for i := n - 1; i > 0; i-- {
		j := rng.Intn(i + 1)
		p[i], p[j] = p[j], p[i]
	}
	return p
}

// ---------------------------------------------------------------- oracles on the implementation

type treeCase11 struct {
	Kind string  `json:"kind"` // "tree"
	Tree *dir11  `json:"tree"`
	Note string  `json:"note,omitempty"`
	Less *less11 `json:"less,omitempty"`
}

func sortedCopy(l []string) []string {
	c := append([]string{}, l...)
	sort.Strings(c)
	return c
}

func eqStrs(a, b []string) bool {
	if len(a) != len(b) {
		return false
	}
	for i := range a {
		if a[i] != b[i] {
			return false
		}
	}
	return true
}

func short(s string) string {
	if len(s) > 600 {
		return s[:600] + "..."
	}
	return s
}

// namespaceIsolated mirrors KV.Res.LegacySort.namespace_isolated: the hypothesis under which the legacy
// order is total (always true for the default lists).
func namespaceIsolated(s *sort11) bool {
	if s == nil || !s.Custom {
		return true
	}
	rank := func(k string) int {
		r := 0
		for i, n := range s.First {
			if n == k {
				r = -len(s.First) + i
			}
		}
		for i, n := range s.Last {
			if n == k {
				r = 1 + i
			}
		}
		return r
	}
	rn := rank("Namespace")
	if rn == 0 {
		return false
	}
	for _, k := range append(append([]string{}, s.First...), s.Last...) {
		if k != "Namespace" && rank(k) == rn {
			return false
		}
	}
	return true
}

// expectedNames computes, from the tree alone, the name every marked file resource must have in the output:
// P_outer ++ ... ++ P_inner ++ name ++ S_inner ++ ... ++ S_outer, unless its kind is on the skip lists.
type expect11 struct {
	Name    string
	AnyName bool
	Labels  map[string]string
}

// skipSide: is the document's type on the runtime skip list of the prefix (suffix) transformer?
// The lists are read from the implementation (verif hook), like the model reads the generated tables.
var skipLists11 struct {
	loaded         bool
	prefix, suffix types.FsSlice
}

func skipSide(d doc11, suffix bool) bool {
	if !skipLists11.loaded {
		skipLists11.prefix, skipLists11.suffix = krusty.VerifC11NameSkipLists()
		skipLists11.loaded = true
	}
	l := skipLists11.prefix
	if suffix {
		l = skipLists11.suffix
	}
	g, v := splitGV(d.API)
	gvk := resid.Gvk{Group: g, Version: v, Kind: d.Kind}
	for i := range l {
		if gvk.IsSelected(&l[i].Gvk) {
			return true
		}
	}
	return false
}

func skipKind(d doc11) bool { return skipSide(d, false) || skipSide(d, true) }

func (d *dir11) expectations(pfx, sfx string, nsDirective bool, outer []map[string]string, acc map[string]expect11) {
	p := pfx + d.Prefix
	s := d.Suffix + sfx
	nsDirective = nsDirective || d.Namespace != ""
	// label layers are applied from the END of this list: innermost directory first and, within one directory,
	// the `labels` entries in order before commonLabels (the order of the LabelTransformer configurator)
	layers := append([]map[string]string{}, outer...)
	layers = append(layers, d.CommonLabels, d.Labels2, d.Labels)
	for _, e := range d.Ents {
		if e.Dir != nil {
			e.Dir.expectations(p, s, nsDirective, layers, acc)
			continue
		}
		for _, dc := range e.File.Docs {
			if dc.Marker == "" {
				continue
			}
			ex := expect11{Name: dc.Name, Labels: map[string]string{}}
			if !skipSide(dc, false) {
				ex.Name = p + ex.Name
			}
			if !skipSide(dc, true) {
				ex.Name = ex.Name + s
			}
			if dc.Kind == "Namespace" && nsDirective {
				// the namespace directive also renames Namespace objects (property C09): no claim here
				ex.AnyName = true
			}
			for k, v := range dc.Labels {
				ex.Labels[k] = v
			}
			for i := len(layers) - 1; i >= 0; i-- {
				for k, v := range layers[i] {
					ex.Labels[k] = v
				}
			}
			acc[dc.Marker] = ex
		}
	}
}

type oracleStats struct {
	builds   int
	maxPerms int // cap on permutation builds per tree (0 = no cap)
}

// implTotalOn: is the implementation's own Less (verif hook) a strict total order on these ids?
func implTotalOn(ids []doc11, s *sort11) bool {
	c := less11{}
	if s != nil && s.Custom {
		c.Custom, c.First, c.Last = true, s.First, s.Last
	}
	n := len(ids)
	lt := make([][]bool, n)
	for i := range ids {
		lt[i] = make([]bool, n)
		for j := range ids {
			c.A, c.B = ids[i], ids[j]
			lt[i][j], _ = implLess(c)
		}
	}
	for i := 0; i < n; i++ {
		if lt[i][i] {
			return false
		}
		for j := 0; j < n; j++ {
			if i != j && lt[i][j] == lt[j][i] {
				return false
			}
			for k := 0; k < n; k++ {
				if lt[i][j] && lt[j][k] && !lt[i][k] {
					return false
				}
			}
		}
	}
	return true
}

// oracles11 evaluates the metamorphic laws on one tree.
func oracles11(r *Run, rng *Rng, t *dir11, st *oracleStats) {
	report := func(law, class, detail string, tree *dir11) {
		r.Violation(OracleViolation{Law: law, Class: class, Detail: detail, Replay: treeCase11{Kind: "tree", Tree: tree, Note: law}})
	}
	base := build11(t, root11)
	st.builds++
	r.Count("oracle_base", base.Cls)
	if base.Cls != ClsOk && base.Cls != ClsErr {
		// a panic is property C12's business; the composition laws below compare outcome classes anyway
		r.Count("oracle_base_other", base.Cls)
	}
	// ---- wrap (domain: T is still a kustomization after its top-only fields moved to the wrapper,
	// hypothesis of C11_wrap)
	for _, sib := range []bool{false, true} {
		if t.emptyWithoutTopOnly() && t.Sort != nil {
			r.Count("oracle_wrap", "skipped-empty-T")
			break
		}
		w := wrapTree(t, sib)
		o := build11(w, root11)
		st.builds++
		if o.Cls != base.Cls || (o.Cls == ClsOk && o.Yaml != base.Yaml) {
			report("wrap", "C11/wrap", fmt.Sprintf("build(wrap(T)) differs from build(T) (wrapped as sibling=%v): class %s vs %s\n--- T:\n%s\n--- wrap(T):\n%s\nmsg=%s / %s",
				sib, base.Cls, o.Cls, short(base.Yaml), short(o.Yaml), short(base.Msg), short(o.Msg)), t)
		}
	}
	// ---- move
	for _, dst := range []string{"/top", "/other/much/deeper/path/top", "/w2/k/moved"} {
		o := build11(t, dst)
		st.builds++
		if o.Cls != base.Cls || (o.Cls == ClsOk && o.Yaml != base.Yaml) {
			report("move", "C11/move", fmt.Sprintf("build(move(T,%s)) differs from build(T): class %s vs %s\n--- T:\n%s\n--- moved:\n%s\nmsg=%s / %s",
				dst, base.Cls, o.Cls, short(base.Yaml), short(o.Yaml), short(base.Msg), short(o.Msg)), t)
		}
	}
	// ---- permute every resources list
	legacy := t.Sort != nil && t.Sort.Order == "legacy"
	dirs := t.dirs(nil)
	type job struct {
		di int
		p  []int
	}
	var jobs []job
	for di := range dirs {
		n := len(dirs[di].Ents)
		if n < 2 {
			continue
		}
		if n <= 4 {
			for _, p := range permutations(n)[1:] {
				jobs = append(jobs, job{di, p})
			}
		} else {
			for i := 0; i < 20; i++ {
				jobs = append(jobs, job{di, randomPerm(rng, n)})
			}
		}
	}
	if st.maxPerms > 0 && len(jobs) > st.maxPerms {
		// quick tier: a random sample of the (resources list, permutation) pairs
		for i := len(jobs) - 1; i > 0; i-- {
			j := rng.Intn(i + 1)
			jobs[i], jobs[j] = jobs[j], jobs[i]
		}
		jobs = jobs[:st.maxPerms]
	}
	r.Count("oracle_perm_jobs", fmt.Sprint((len(jobs)+4)/5*5))
	for _, jb := range jobs {
		di, p := jb.di, jb.p
		pt := cloneTree(t)
		pd := pt.dirs(nil)[di]
		orig := append([]ent11{}, pd.Ents...)
		for i, j := range p {
			pd.Ents[i] = orig[j]
		}
		o := build11(pt, root11)
		st.builds++
		if o.Cls != base.Cls {
			report("permute_class", "C11/permute_class", fmt.Sprintf("permuting resources of %s by %v changes the outcome class: %s (%s) vs %s (%s)",
				dirs[di].Name, p, base.Cls, short(base.Msg), o.Cls, short(o.Msg)), pt)
			continue
		}
		if o.Cls != ClsOk {
			continue
		}
		if !eqStrs(sortedCopy(o.docStrings()), sortedCopy(base.docStrings())) {
			report("permute_multiset", "C11/permute_multiset", fmt.Sprintf("permuting resources of %s by %v changes the set of output documents\n--- T:\n%s\n--- perm:\n%s",
				dirs[di].Name, p, short(base.Yaml), short(o.Yaml)), pt)
			continue
		}
		if legacy && o.Yaml != base.Yaml {
			// Domain of C11_legacy_canonical: the order lists give "Namespace" a rank of its own (always true for
			// the built-in lists). Outside it the known defect applies, but only if the implementation's own Less
			// really is not a strict total order on these ids; any other discrepancy is a new violation.
			class := "C11/permute_legacy"
			if !namespaceIsolated(t.Sort) && !implTotalOn(base.Docs, t.Sort) {
				class = "C11/permute_legacy/custom-order-namespace-not-isolated"
			}
			report("permute_legacy", class, fmt.Sprintf("legacy order depends on the input order: permuting resources of %s by %v\n--- T:\n%s\n--- perm:\n%s",
				dirs[di].Name, p, short(base.Yaml), short(o.Yaml)), pt)
		}
	}
	// ---- name and label nesting of marked file resources
	if base.Cls == ClsOk {
		exp := map[string]expect11{}
		t.expectations("", "", false, nil, exp)
		seen := map[string]bool{}
		for _, res := range base.Res {
			mk := res.Marker
			ex, ok := exp[mk]
			if mk == "" || !ok {
				continue
			}
			seen[mk] = true
			if !ex.AnyName && res.Name != ex.Name {
				report("prefix_nesting", "C11/prefix_nesting", fmt.Sprintf("resource %s: output name %q, layering prescribes %q", mk, res.Name, ex.Name), t)
			}
			for k, v := range ex.Labels {
				if res.Labels[k] != v {
					report("label_nesting", "C11/label_nesting", fmt.Sprintf("resource %s: label %s=%q, layering prescribes %q", mk, k, res.Labels[k], v), t)
				}
			}
			for k := range res.Labels {
				if _, ok := ex.Labels[k]; !ok {
					report("label_nesting", "C11/label_nesting", fmt.Sprintf("resource %s: unexpected label %s=%q", mk, k, res.Labels[k]), t)
				}
			}
		}
		for mk := range exp {
			if !seen[mk] {
				report("prefix_nesting", "C11/resource_lost", fmt.Sprintf("file resource %s is missing from the output", mk), t)
			}
		}
		if len(exp) > 0 {
			r.Count("oracle_nesting", "checked")
		}
		// ---- the FIFO order law (C11_fifo_order): without sortOptions or with order: fifo the file resources
		// come out in depth-first load order (generated resources, which carry no marker, are appended per layer)
		if t.Sort == nil || t.Sort.Order == "fifo" {
			want := []string{}
			for _, dc := range t.allDocs(nil) {
				if dc.Marker != "" {
					want = append(want, dc.Marker)
				}
			}
			got := []string{}
			for _, res := range base.Res {
				if _, ok := exp[res.Marker]; ok && res.Marker != "" {
					got = append(got, res.Marker)
				}
			}
			if len(want) > 0 {
				r.Count("oracle_fifo", "checked")
				if !eqStrs(want, got) {
					report("fifo_order", "C11/fifo_order", fmt.Sprintf("output order %v is not the depth-first load order %v", got, want), t)
				}
			}
		}
	}
}

// ---------------------------------------------------------------- run

// roots11: the path-free model must agree with the implementation wherever the tree is placed
var roots11 = []string{root11, "/top", "/a/b/c/d/e/f/top", "/w/top", "/x-y/k.d/top"}

func modelCase11(r *Run, t *dir11, root string) {
	o := build11(t, root)
	r.Count("build_root_depth", fmt.Sprint(strings.Count(root, "/")))
	r.Count("build_class", o.Cls)
	sortKey := "none"
	if t.Sort != nil {
		sortKey = t.Sort.Order
		if t.Sort.Custom {
			sortKey += "-custom"
		}
	}
	r.Count("build_sort", sortKey)
	r.Count("build_dirs", fmt.Sprint(len(t.dirs(nil))))
	docs := t.allDocs(nil)
	n := len(docs)
	switch {
	case n > 8:
		r.Count("build_docs", "9+")
	default:
		r.Count("build_docs", fmt.Sprint(n))
	}
	if o.Cls != ClsOk && o.Cls != ClsErr {
		r.Meta.Skipped++
		r.Count("build_skipped", o.Cls)
		return
	}
	skipped, renamed := 0, 0
	for _, d := range o.Docs {
		if skipKind(d) {
			skipped++
		}
	}
	for _, d := range t.dirs(nil) {
		if d.Prefix != "" || d.Suffix != "" {
			renamed++
		}
	}
	if skipped > 0 {
		r.Count("build_features", "skip-kind-present")
	}
	if renamed > 1 {
		r.Count("build_features", "nested-rename")
	}
	term := fmt.Sprintf("(CBuild %s %s [%s] %s %s)", t.coq(), t.Sort.coq(), strings.Join(clusterScoped(docs), "; "), o.Cls, coqDocs(o.Docs))
	r.AddCase(term, treeCase11{Kind: "tree", Tree: t, Note: "built at " + root}, o.Cls == ClsOk && len(o.Docs) > 1)
}

func lessCase11(r *Run, c less11) {
	res, cls := implLess(c)
	if cls != ClsOk {
		r.Violation(OracleViolation{Law: "less_total_function", Class: "C11/less_panic", Detail: "legacyIDSorter.Less panicked", Replay: treeCase11{Kind: "less", Less: &c}})
		return
	}
	r.Count("less_result", fmt.Sprint(res))
	r.Count("less_options", map[bool]string{false: "default", true: "custom"}[c.Custom])
	same := c.A.API == c.B.API && c.A.Kind == c.B.Kind
	r.Count("less_branch", map[bool]string{true: "same-gvk", false: "gvk-differs"}[same])
	if c.A.Kind == "Namespace" && c.B.Kind == "Namespace" && !same {
		r.Count("less_branch", "both-Namespace")
	}
	term := fmt.Sprintf("(CLess %s %s %s %s)", coqOrder(c.Custom, c.First, c.Last), c.A.coq(), c.B.coq(), coqBool(res))
	r.AddCase(term, treeCase11{Kind: "less", Less: &c}, !same)
	// law on the implementation: asymmetry and irreflexivity hold for ALL ids
	rev, _ := implLess(less11{Custom: c.Custom, First: c.First, Last: c.Last, A: c.B, B: c.A})
	if res && rev {
		r.Violation(OracleViolation{Law: "legacy_asym", Class: "C11/legacy_asym", Detail: "Less(a,b) and Less(b,a) both hold", Replay: treeCase11{Kind: "less", Less: &c}})
	}
}

// tableCheck11 compares the runtime tables (verif hook) with what the translator generated.
func tableCheck11(r *Run) {
	data, err := os.ReadFile(verifRoot() + "/coq/theories/Gen/LegacyOrder.v")
	if err != nil {
		r.Meta.Notes = append(r.Meta.Notes, "Gen/LegacyOrder.v not readable: "+err.Error())
		return
	}
	txt := string(data)
	first, last := krusty.VerifC11DefaultLegacyOrder()
	pskip, sskip := krusty.VerifC11NameSkipLists()
	want := []string{
		"Definition gen_order_first : list string := " + coqStrList(first) + ".",
		"Definition gen_order_last : list string := " + coqStrList(last) + ".",
	}
	for _, t := range []struct {
		name string
		l    types.FsSlice
	}{{"gen_prefix_skip", pskip}, {"gen_suffix_skip", sskip}} {
		var b strings.Builder
		fmt.Fprintf(&b, "Definition %s : list fieldspec := [\n", t.name)
		for i, f := range t.l {
			sep := ";"
			if i == len(t.l)-1 {
				sep = ""
			}
			fmt.Fprintf(&b, "  mkFs %s %s %s %s %s%s\n", coqStr(f.Group), coqStr(f.Version), coqStr(f.Kind), coqStr(f.Path), coqBool(f.CreateIfNotPresent), sep)
		}
		b.WriteString("].")
		want = append(want, b.String())
	}
	for _, w := range want {
		if !strings.Contains(txt, w) {
			r.Violation(OracleViolation{Law: "translator_table", Class: "C11/translator_table",
				Detail: "runtime table differs from the generated Coq table; expected to find: " + short(w), Replay: treeCase11{Kind: "table"}})
		}
	}
	r.Count("table_check", "done")
}

func runC11(r *Run, rng *Rng, tier string) error {
	nLess, nModel, nOracleSimple, nOracleRich, maxPerms := 1500, 300, 15, 45, 16
	if tier == "thorough" {
		nLess, nModel, nOracleSimple, nOracleRich, maxPerms = 15000, 3000, 120, 350, 0
	}
	r.Meta.Rule = "less: id pairs over adversarial group/version/kind/namespace/name pools (place holders ~G ~V ~K ~X ~N, separators _ |, bytes >= 0x7f, empty fields, " +
		"ranked/unranked kinds, Namespace kind), 60% near-equal pairs, 20% custom order lists; build: trees of 1-3 layers (nested and sibling bases), 0-4 entries per resources list, " +
		"files of 0-3 documents over 20 kinds incl. the prefix-skip kinds and cluster-scoped kinds, names/prefixes/suffixes chosen to collide, sortOptions none/fifo/legacy/legacy-custom, " +
		"each tree materialised at one of 5 root directories of depth 1-7; " +
		"oracle trees additionally carry namespace, commonLabels, labels, commonAnnotations, configMapGenerator, patches, images; two dedicated families: " +
		"nameReference `configurations:` in sibling / nested bases for one referrer field and two target kinds with same-named targets, and the same group/kind in two API versions under the legacy order. non-trivial = Less on different GVKs / a successful build with >=2 documents"
	tableCheck11(r)
	for _, c := range loadCorpus11() {
		runCorpus11(r, rng.Fork(), c)
	}
	// the two kinds of model cases are interleaved so that the Coq shards cost about the same
	perBuild := nLess / nModel
	for i := 0; i < nModel; i++ {
		if i%3 == 0 {
			g := rng.Fork()
			labelCase11(r, genLabelTree11(g, 1+g.Intn(2)), roots11[g.Intn(len(roots11))])
		}
		for j := 0; j < perBuild; j++ {
			lessCase11(r, genLess11(rng.Fork()))
		}
		g := rng.Fork()
		modelCase11(r, genTree11(g, false, 1+g.Intn(2)), roots11[g.Intn(len(roots11))])
	}
	st := &oracleStats{maxPerms: maxPerms}
	for i := 0; i < nOracleSimple; i++ {
		g := rng.Fork()
		t := genTree11(g, false, 1+g.Intn(2))
		oracles11(r, g, t, st)
		b, _ := json.Marshal(t)
		r.AddEval(string(b), true)
	}
	for i := 0; i < nOracleRich; i++ {
		g := rng.Fork()
		t := genTree11(g, true, 1+g.Intn(2))
		oracles11(r, g, t, st)
		b, _ := json.Marshal(t)
		r.AddEval(string(b), true)
	}
	// dedicated families (every permutation of every resources list, also in the quick tier)
	nFam := 8
	if tier == "thorough" {
		nFam = 60
	}
	stFam := &oracleStats{}
	for i := 0; i < nFam; i++ {
		g := rng.Fork()
		t := genNamerefTree11(g)
		r.Count("oracle_family", "nameref-configurations")
		cfgCase11(r, t, roots11[g.Intn(len(roots11))])
		oracles11(r, g, t, stFam)
		b, _ := json.Marshal(t)
		r.AddEval(string(b), true)
		g = rng.Fork()
		t = genTwinTree11(g)
		r.Count("oracle_family", "version-twins")
		modelCase11(r, t, roots11[g.Intn(len(roots11))])
		oracles11(r, g, t, stFam)
		b, _ = json.Marshal(t)
		r.AddEval(string(b), true)
	}
	// the configurations model alone (one build per tree)
	nCfg := 40
	if tier == "thorough" {
		nCfg = 500
	}
	for i := 0; i < nCfg; i++ {
		g := rng.Fork()
		cfgCase11(r, genNamerefTree11(g), roots11[g.Intn(len(roots11))])
	}
	st.builds += stFam.builds
	r.Meta.Notes = append(r.Meta.Notes, fmt.Sprintf("oracle builds: %d", st.builds))
	return nil
}

func runCorpus11(r *Run, rng *Rng, c treeCase11) {
	switch c.Kind {
	case "less":
		if c.Less != nil {
			lessCase11(r, *c.Less)
		}
	case "labeltree":
		if c.Tree != nil {
			labelCase11(r, c.Tree, root11)
		}
	case "cfgtree":
		if c.Tree != nil {
			cfgCase11(r, c.Tree, root11)
			oracles11(r, rng, c.Tree, &oracleStats{})
		}
	case "tree":
		if c.Tree != nil {
			if !c.Tree.rich() {
				modelCase11(r, c.Tree, roots11[rng.Intn(len(roots11))])
			}
			oracles11(r, rng, c.Tree, &oracleStats{})
		}
	}
}

func loadCorpus11() []treeCase11 {
	out := []treeCase11{}
	data, err := os.ReadFile(verifRoot() + "/corpus/C11/cases.json")
	if err != nil {
		return out
	}
	_ = json.Unmarshal(data, &out)
	return out
}

func replayC11(p string) (bool, string, error) {
	data, err := os.ReadFile(p)
	if err != nil {
		return false, "", err
	}
	var rp struct {
		Case treeCase11 `json:"case"`
	}
	if err := json.Unmarshal(data, &rp); err != nil {
		return false, "", err
	}
	r := NewRun("C11", "replay", 0, "", "")
	var detail string
	switch rp.Case.Kind {
	case "less":
		if rp.Case.Less == nil {
			return false, "", fmt.Errorf("no less case")
		}
		res, cls := implLess(*rp.Case.Less)
		detail = fmt.Sprintf("Less(a,b)=%v class=%s", res, cls)
		lessCase11(r, *rp.Case.Less)
	case "tree", "labeltree", "cfgtree":
		if rp.Case.Tree == nil {
			return false, "", fmt.Errorf("no tree")
		}
		o := build11(rp.Case.Tree, root11)
		detail = fmt.Sprintf("class=%s msg=%q\n%s", o.Cls, o.Msg, o.Yaml)
		oracles11(r, NewRng(1), rp.Case.Tree, &oracleStats{})
	case "table":
		tableCheck11(r)
	default:
		return false, "", fmt.Errorf("unknown case kind %q", rp.Case.Kind)
	}
	if len(r.Meta.Violations) > 0 {
		v := r.Meta.Violations[0]
		return true, detail + "\nLAW " + v.Law + " [" + v.Class + "]: " + v.Detail, nil
	}
	return false, detail, nil
}
