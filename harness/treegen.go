package main

import (
	"fmt"
	"sort"
	"strings"

	"sigs.k8s.io/kustomize/api/krusty"
	"sigs.k8s.io/kustomize/api/types"
	"sigs.k8s.io/kustomize/kyaml/filesys"
	syaml "sigs.k8s.io/yaml"
)

// Generated kustomization trees shared by the whole-build properties (C01, C02).
// A tree is a chain of 1-3 layers (base <- overlay <- top); every layer has resource files,
// and a random subset of the modelled directives. Every input resource carries a tracer
// annotation so that outputs can be matched with inputs.

type obj = map[string]interface{}

type GenRes struct {
	Tracer string
	Obj    obj
	Layer  int // index of the layer that lists the resource
}

type GenLayer struct {
	Dir   string
	Kust  obj
	Files map[string]string // relative name -> content
}

type GenTree struct {
	Layers    []*GenLayer // 0 = innermost base
	Resources []*GenRes
	NGenerated int // number of generator-made objects expected in the output
}

func (t *GenTree) TopDir() string { return t.Layers[len(t.Layers)-1].Dir }

// FS materialises the tree on a fresh in-memory file system.
func (t *GenTree) FS() filesys.FileSystem {
	fs := filesys.MakeFsInMemory()
	for _, l := range t.Layers {
		_ = fs.MkdirAll(l.Dir)
		k, _ := syaml.Marshal(l.Kust)
		_ = fs.WriteFile(l.Dir+"/kustomization.yaml", k)
		names := make([]string, 0, len(l.Files))
		for n := range l.Files {
			names = append(names, n)
		}
		sort.Strings(names)
		for _, n := range names {
			_ = fs.WriteFile(l.Dir+"/"+n, []byte(l.Files[n]))
		}
	}
	return fs
}

// Files returns abs path -> content (for replays).
func (t *GenTree) FileMap() map[string]string {
	out := map[string]string{}
	for _, l := range t.Layers {
		k, _ := syaml.Marshal(l.Kust)
		out[l.Dir+"/kustomization.yaml"] = string(k)
		for n, c := range l.Files {
			out[l.Dir+"/"+n] = c
		}
	}
	return out
}

func fsFromFileMap(m map[string]string) filesys.FileSystem {
	fs := filesys.MakeFsInMemory()
	names := make([]string, 0, len(m))
	for n := range m {
		names = append(names, n)
	}
	sort.Strings(names)
	for _, n := range names {
		idx := strings.LastIndex(n, "/")
		if idx > 0 {
			_ = fs.MkdirAll(n[:idx])
		}
		_ = fs.WriteFile(n, []byte(m[n]))
	}
	return fs
}

// buildTree runs the real build.
func buildFS(fs filesys.FileSystem, dir string, legacy bool) (out string, cls string, msg string) {
	cls, msg = protect(func() error {
		opts := krusty.MakeDefaultOptions()
		if legacy {
			opts.Reorder = krusty.ReorderOptionLegacy
		}
		k := krusty.MakeKustomizer(opts)
		m, err := k.Run(fs, dir)
		if err != nil {
			return err
		}
		y, err := m.AsYaml()
		if err != nil {
			return err
		}
		out = string(y)
		return nil
	})
	return out, cls, msg
}

var _ = types.Kustomization{}

// ---------- adversarial scalar dictionary (strings that YAML 1.1 / 1.2 parsers could re-type) ----------

var advStrings = []string{
	"yes", "no", "on", "off", "y", "n", "Y", "N", "True", "FALSE", "~", "null", "Null", "012", "0x1F", "0o17",
	"1e3", "1_000", ".inf", "-.INF", ".nan", "2001-12-14", "2001-12-14t21:59:43.10-05:00", "190:20:30", "1:30",
	" lead", "trail ", "multi\nline", "tab\there", "ünïcödé ✓", "- dash", "? q", ": colon", "a: b", "[x]", "{y}",
	"#hash", "a #b", "&anchor", "*alias", "!tag", "|", ">", "%pct", "@at", "`tick", "'single'", "\"double\"",
	"", " ", "0", "1", "-1", "+1", "1.0", "0.5", "1e-3", "0b101", "123456789012345678901234567890", "<<", "=",
	"plain", "value-1", "x.y", "a/b", "a\\b",
	// a `$` that starts no variable reference, followed by non-ASCII text (the var expander must copy it verbatim)
	"$€uro", "cost $5 ✓", "$ünï", "100$", "$",
}

func advString(r *Rng) string {
	if r.Chance(25) {
		// random printable string
		n := 1 + r.Intn(8)
		var b strings.Builder
		for i := 0; i < n; i++ {
			b.WriteByte(byte(33 + r.Intn(94)))
		}
		return b.String()
	}
	return advStrings[r.Intn(len(advStrings))]
}

// advValue: a typed scalar for an untargeted field
func advValue(r *Rng) interface{} {
	switch r.Intn(10) {
	case 0:
		return r.Intn(1000) - 500
	case 1:
		return r.Bool()
	case 2:
		return float64(r.Intn(1000)) / 8
	case 3:
		return []interface{}{advString(r), r.Intn(10), r.Bool()}
	case 4:
		return obj{"k" + fmt.Sprint(r.Intn(3)): advString(r), "n": r.Intn(5)}
	default:
		return advString(r)
	}
}

// label values must satisfy the k8s label syntax only for real clusters; kustomize does not validate,
// but keep them free of newlines so that the YAML stays readable.
var labelValues = []string{"yes", "no", "012", "true", "1e3", "v1", "web", "on", "null", "0x1F", "x", "~"}

// ---------- resource templates ----------

type kindInfo struct {
	APIVersion string
	Kind       string
	Cluster    bool
}

var treeKinds = []kindInfo{
	{"apps/v1", "Deployment", false}, {"apps/v1", "StatefulSet", false}, {"apps/v1", "DaemonSet", false},
	{"batch/v1", "Job", false}, {"batch/v1", "CronJob", false}, {"v1", "Pod", false},
	{"v1", "Service", false}, {"v1", "ConfigMap", false}, {"v1", "Secret", false},
	{"v1", "ServiceAccount", false}, {"rbac.authorization.k8s.io/v1", "Role", false},
	{"rbac.authorization.k8s.io/v1", "RoleBinding", false},
	{"rbac.authorization.k8s.io/v1", "ClusterRole", true},
	{"rbac.authorization.k8s.io/v1", "ClusterRoleBinding", true},
	{"v1", "Namespace", true}, {"networking.k8s.io/v1", "Ingress", false},
	{"v1", "PersistentVolumeClaim", false}, {"autoscaling/v2", "HorizontalPodAutoscaler", false},
	{"policy/v1", "PodDisruptionBudget", false}, {"networking.k8s.io/v1", "NetworkPolicy", false},
	{"example.com/v1", "MyKind", false}, {"example.com/v1beta1", "Widget", false},
	{"storage.k8s.io/v1", "StorageClass", true},
}

var imageNames = []string{"nginx", "nginx:1.19", "registry:5000/app:v1", "busybox@sha256:24a0c4b4a4c0eb97a1aabb8e29f18e917d05abfe1b7a7c07857230879ce7d3d3", "app", "my.registry/app-1", "x.y", "xzy:1"}

func podSpec(r *Rng) obj {
	cs := []interface{}{}
	n := 1 + r.Intn(2)
	for i := 0; i < n; i++ {
		c := obj{"name": fmt.Sprintf("c%d", i), "image": r.Pick(imageNames)}
		if r.Chance(50) {
			c["env"] = []interface{}{obj{"name": "E" + fmt.Sprint(r.Intn(3)), "value": advString(r)}}
		}
		if r.Chance(30) {
			c["args"] = []interface{}{advString(r), advString(r)}
		}
		cs = append(cs, c)
	}
	ps := obj{"containers": cs}
	if r.Chance(25) {
		ps["initContainers"] = []interface{}{obj{"name": "init", "image": r.Pick(imageNames)}}
	}
	if r.Chance(30) {
		ps["junk"] = advValue(r)
	}
	return ps
}

func genResource(r *Rng, ki kindInfo, name string, tracer string) obj {
	meta := obj{"name": name, "annotations": obj{"tracer": tracer}}
	if r.Chance(30) {
		meta["labels"] = obj{"orig": r.Pick(labelValues)}
	}
	if !ki.Cluster && r.Chance(20) {
		meta["namespace"] = r.Pick([]string{"preset", "other"})
	}
	if r.Chance(30) {
		// an untargeted annotation with adversarial text (metadata/annotations is a varReference path of every kind)
		meta["annotations"].(obj)["note"] = advStringNoNL(r)
	}
	o := obj{"apiVersion": ki.APIVersion, "kind": ki.Kind, "metadata": meta}
	lbl := obj{"app": name}
	switch ki.Kind {
	case "Deployment", "StatefulSet", "DaemonSet":
		spec := obj{"selector": obj{"matchLabels": lbl},
			"template": obj{"metadata": obj{"labels": obj{"app": name}}, "spec": podSpec(r)}}
		if ki.Kind != "DaemonSet" && r.Chance(60) {
			spec["replicas"] = 1 + r.Intn(5)
		}
		if ki.Kind == "StatefulSet" {
			spec["serviceName"] = "svc-x"
		}
		spec["extra"] = advValue(r)
		o["spec"] = spec
	case "Job":
		o["spec"] = obj{"template": obj{"metadata": obj{"labels": obj{"job": name}}, "spec": podSpec(r)}, "extra": advValue(r)}
	case "CronJob":
		o["spec"] = obj{"schedule": "*/5 * * * *", "jobTemplate": obj{"spec": obj{"template": obj{"spec": podSpec(r)}}}, "extra": advValue(r)}
	case "Pod":
		o["spec"] = podSpec(r)
	case "Service":
		o["spec"] = obj{"selector": obj{"app": name}, "ports": []interface{}{obj{"port": 80 + r.Intn(10), "name": advString(r)}}, "extra": advValue(r)}
	case "ConfigMap":
		d := obj{}
		for i := 0; i < 1+r.Intn(3); i++ {
			d["k"+fmt.Sprint(i)] = advString(r)
		}
		o["data"] = d
	case "Secret":
		o["type"] = "Opaque"
		o["stringData"] = obj{"pw": advString(r)}
	case "ServiceAccount":
		o["automountServiceAccountToken"] = r.Bool()
	case "Role", "ClusterRole":
		o["rules"] = []interface{}{obj{"apiGroups": []interface{}{""}, "resources": []interface{}{"pods"}, "verbs": []interface{}{"get", advString(r)}}}
	case "RoleBinding", "ClusterRoleBinding":
		o["roleRef"] = obj{"apiGroup": "rbac.authorization.k8s.io", "kind": "ClusterRole", "name": "external-role"}
		o["subjects"] = []interface{}{obj{"kind": "User", "name": "jane", "apiGroup": "rbac.authorization.k8s.io"}}
	case "Namespace", "StorageClass":
		o["extra"] = advValue(r)
	case "Ingress":
		o["spec"] = obj{"rules": []interface{}{obj{"host": advString(r), "http": obj{"paths": []interface{}{
			obj{"path": "/", "pathType": "Prefix", "backend": obj{"service": obj{"name": "external-svc", "port": obj{"number": 80}}}}}}}}}
	case "PersistentVolumeClaim":
		o["spec"] = obj{"accessModes": []interface{}{"ReadWriteOnce"}, "resources": obj{"requests": obj{"storage": "1Gi"}}, "extra": advValue(r)}
	case "HorizontalPodAutoscaler":
		o["spec"] = obj{"scaleTargetRef": obj{"apiVersion": "apps/v1", "kind": "Deployment", "name": "external-deploy"}, "minReplicas": 1, "maxReplicas": 3 + r.Intn(5)}
	case "PodDisruptionBudget":
		o["spec"] = obj{"minAvailable": 1, "selector": obj{"matchLabels": obj{"app": "x"}}}
	case "NetworkPolicy":
		o["spec"] = obj{"podSelector": obj{"matchLabels": obj{"app": "x"}}, "extra": advValue(r)}
	default: // custom kinds
		o["spec"] = obj{"replicas": r.Intn(4), "selector": obj{"matchLabels": obj{"app": name}},
			"containers": []interface{}{obj{"name": "c", "image": r.Pick(imageNames)}},
			"free": advValue(r), "nested": obj{"deep": obj{"v": advValue(r)}}}
	}
	return o
}

type treeOpts struct {
	MaxLayers   int
	Directives  []string // subset of: prefix suffix namespace commonLabels commonAnnotations labels images replicas patches generators
	ResPerLayer int
}

func hasDir(o treeOpts, d string) bool {
	for _, x := range o.Directives {
		if x == d {
			return true
		}
	}
	return false
}

var allDirectives = []string{"prefix", "suffix", "namespace", "commonLabels", "commonAnnotations", "labels", "images", "replicas", "patches", "generators"}

// genTree generates a chain of layers.
func genTree(r *Rng, o treeOpts) *GenTree {
	nl := 1 + r.Intn(o.MaxLayers)
	t := &GenTree{}
	usedIds := map[string]bool{}
	tr := 0
	for li := 0; li < nl; li++ {
		l := &GenLayer{Dir: fmt.Sprintf("/work/l%d", li), Kust: obj{}, Files: map[string]string{}}
		l.Kust["apiVersion"] = "kustomize.config.k8s.io/v1beta1"
		l.Kust["kind"] = "Kustomization"
		resList := []interface{}{}
		if li > 0 {
			resList = append(resList, fmt.Sprintf("../l%d", li-1))
		}
		nres := 1 + r.Intn(o.ResPerLayer)
		if li > 0 && r.Chance(40) {
			nres = 0
		}
		// 1-2 files
		nfiles := 1
		if nres > 2 && r.Bool() {
			nfiles = 2
		}
		docs := make([][]string, nfiles)
		for i := 0; i < nres; i++ {
			ki := treeKinds[r.Intn(len(treeKinds))]
			name := fmt.Sprintf("%s%d", strings.ToLower(ki.Kind[:3]), r.Intn(4))
			// near-miss names: longer / shorter variants of other names
			switch r.Intn(8) {
			case 0:
				name += "-x"
			case 1:
				name = "x-" + name
			case 2:
				name += "1"
			}
			id := ki.Kind + "/" + name
			if usedIds[id] {
				continue
			}
			usedIds[id] = true
			tracer := fmt.Sprintf("t%d", tr)
			tr++
			ob := genResource(r, ki, name, tracer)
			if m, ok := ob["metadata"].(obj); ok {
				if ns, ok := m["namespace"]; ok && r.Chance(50) {
					_ = ns
				}
			}
			y, _ := syaml.Marshal(ob)
			f := r.Intn(nfiles)
			docs[f] = append(docs[f], string(y))
			t.Resources = append(t.Resources, &GenRes{Tracer: tracer, Obj: ob, Layer: li})
		}
		// RBAC family (C01): several RoleBindings of one namespace whose ServiceAccount subjects live in different
		// other namespaces; with a rename in the tree the name-reference pass must fix every subject, whatever
		// order the referrers are visited in
		if li == 0 && hasDir(o, "rbac") {
			var b strings.Builder
			nsub := 2 + r.Intn(2)
			for k := 0; k < nsub; k++ {
				tSA, tRB := fmt.Sprintf("t%d", tr), fmt.Sprintf("t%d", tr+1)
				tr += 2
				sa := obj{"apiVersion": "v1", "kind": "ServiceAccount",
					"metadata": obj{"name": fmt.Sprintf("op%d", k), "namespace": fmt.Sprintf("team%d", k), "annotations": obj{"tracer": tSA}}}
				rb := obj{"apiVersion": "rbac.authorization.k8s.io/v1", "kind": "RoleBinding",
					"metadata": obj{"name": fmt.Sprintf("bind%d", k), "namespace": "shared", "annotations": obj{"tracer": tRB}},
					"roleRef":  obj{"apiGroup": "rbac.authorization.k8s.io", "kind": "ClusterRole", "name": "external-role"},
					"subjects": []interface{}{obj{"kind": "ServiceAccount", "name": fmt.Sprintf("op%d", k), "namespace": fmt.Sprintf("team%d", k)}}}
				for _, ob := range []obj{sa, rb} {
					y, _ := syaml.Marshal(ob)
					if b.Len() > 0 {
						b.WriteString("---\n")
					}
					b.Write(y)
				}
				t.Resources = append(t.Resources, &GenRes{Tracer: tSA, Obj: sa, Layer: li}, &GenRes{Tracer: tRB, Obj: rb, Layer: li})
			}
			l.Files["rbac.yaml"] = b.String()
			resList = append(resList, "rbac.yaml")
			l.Kust["resources"] = resList
			if _, ok := l.Kust["namePrefix"]; !ok {
				l.Kust["namePrefix"] = "prod-"
			}
		}
		// hand-written documents: YAML anchors / aliases / merge keys, and keep-chomped block scalars that end a
		// non-final document of a multi-document file (their typed value is what a YAML 1.1 reader sees)
		if nres > 0 && r.Chance(35) {
			for _, raw := range rawDocs(r, &tr) {
				var ob obj
				if err := syaml.Unmarshal([]byte(raw.text), &ob); err != nil {
					continue
				}
				id := fmt.Sprint(ob["kind"]) + "/" + fmt.Sprint(ob["metadata"].(obj)["name"])
				if usedIds[id] {
					continue
				}
				usedIds[id] = true
				// put it FIRST in a file so that a keep-chomped scalar is followed by a separator
				f := r.Intn(nfiles)
				docs[f] = append([]string{raw.text}, docs[f]...)
				t.Resources = append(t.Resources, &GenRes{Tracer: raw.tracer, Obj: ob, Layer: li})
			}
		}
		for f := 0; f < nfiles; f++ {
			if len(docs[f]) == 0 {
				continue
			}
			fn := fmt.Sprintf("res%d.yaml", f)
			l.Files[fn] = strings.Join(docs[f], "---\n")
			resList = append(resList, fn)
		}
		l.Kust["resources"] = resList
		// directives
		pick := func(d string, pct int) bool { return hasDir(o, d) && r.Chance(pct) }
		if pick("prefix", 40) {
			l.Kust["namePrefix"] = r.Pick([]string{"p-", "dev-", "a"})
		}
		if pick("suffix", 30) {
			l.Kust["nameSuffix"] = r.Pick([]string{"-s", "-v2", "z"})
		}
		if pick("namespace", 35) {
			l.Kust["namespace"] = r.Pick([]string{"ns1", "prod"})
		}
		if pick("commonLabels", 35) {
			l.Kust["commonLabels"] = obj{r.Pick([]string{"env", "team", "app"}): r.Pick(labelValues)}
		}
		if pick("commonAnnotations", 30) {
			l.Kust["commonAnnotations"] = obj{r.Pick([]string{"note", "owner"}): advStringNoNL(r)}
		}
		if pick("labels", 30) {
			es := []interface{}{}
			keys := []string{"tier", "rel", "zone", "build"}
			for i, n := 0, 1+r.Intn(3); i < n; i++ {
				e := obj{"pairs": obj{keys[(i+r.Intn(2))%len(keys)]: r.Pick(labelValues)}}
				switch r.Intn(3) {
				case 0:
					e["includeSelectors"] = true
				case 1:
					e["includeTemplates"] = true
				}
				es = append(es, e)
			}
			l.Kust["labels"] = es
		}
		if pick("images", 30) {
			e := obj{"name": r.Pick([]string{"nginx", "app", "busybox", "registry:5000/app", "my.registry/app-1"})}
			switch r.Intn(3) {
			case 0:
				e["newTag"] = r.Pick([]string{"2.0", "latest", "012"})
			case 1:
				e["newName"] = "mirror/" + fmt.Sprint(r.Intn(3))
			default:
				e["digest"] = "sha256:24a0c4b4a4c0eb97a1aabb8e29f18e917d05abfe1b7a7c07857230879ce7d3d3"
			}
			l.Kust["images"] = []interface{}{e}
		}
		if pick("replicas", 25) {
			// an existing Deployment/StatefulSet name if there is one
			cands := []string{}
			for _, gr := range t.Resources {
				k := gr.Obj["kind"].(string)
				if k == "Deployment" || k == "StatefulSet" {
					cands = append(cands, gr.Obj["metadata"].(obj)["name"].(string))
				}
			}
			if len(cands) > 0 {
				l.Kust["replicas"] = []interface{}{obj{"name": cands[r.Intn(len(cands))], "count": 2 + r.Intn(7)}}
			}
		}
		if pick("patches", 30) && len(t.Resources) > 0 {
			gr := t.Resources[r.Intn(len(t.Resources))]
			p := obj{"apiVersion": gr.Obj["apiVersion"], "kind": gr.Obj["kind"],
				"metadata": obj{"name": gr.Obj["metadata"].(obj)["name"], "annotations": obj{"patched": advStringNoNL(r)}}}
			y, _ := syaml.Marshal(p)
			tname := gr.Obj["metadata"].(obj)["name"].(string)
			if r.Chance(40) {
				// a regular-expression target: alternation / wildcard forms
				other := t.Resources[r.Intn(len(t.Resources))].Obj["metadata"].(obj)["name"].(string)
				first, last := tname, other
				switch r.Intn(3) {
				case 0:
					tname = first + "|" + last
				case 1:
					first, last = other, tname
					tname = first + "|" + last
				default:
					tname = tname[:len(tname)-1] + "."
					first, last = "", ""
				}
				// near-miss resources of the same kind that an unanchored alternation would catch
				if first != "" && r.Chance(70) {
					var ki kindInfo
					for _, k := range treeKinds {
						if k.Kind == gr.Obj["kind"].(string) {
							ki = k
						}
					}
					docs := []string{}
					for _, nm := range []string{first + "-x", "x-" + last} {
						id := ki.Kind + "/" + nm
						if usedIds[id] {
							continue
						}
						usedIds[id] = true
						tracer := fmt.Sprintf("t%d", tr)
						tr++
						ob := genResource(r, ki, nm, tracer)
						yy, _ := syaml.Marshal(ob)
						docs = append(docs, string(yy))
						t.Resources = append(t.Resources, &GenRes{Tracer: tracer, Obj: ob, Layer: li})
					}
					if len(docs) > 0 {
						l.Files["near.yaml"] = strings.Join(docs, "---\n")
						l.Kust["resources"] = append(l.Kust["resources"].([]interface{}), "near.yaml")
					}
				}
			}
			l.Kust["patches"] = []interface{}{obj{"patch": string(y), "target": obj{"kind": gr.Obj["kind"], "name": tname}}}
		}
		if pick("generators", 30) {
			lits := []interface{}{}
			for i := 0; i < 1+r.Intn(3); i++ {
				lits = append(lits, fmt.Sprintf("K%d=%s", i, advStringNoNL(r)))
			}
			g := obj{"name": fmt.Sprintf("gen%d", li), "literals": lits}
			if r.Chance(30) {
				g["options"] = obj{"disableNameSuffixHash": true}
			}
			l.Kust["configMapGenerator"] = []interface{}{g}
			t.NGenerated++
		}
		if hasDir(o, "configurations") && r.Chance(35) {
			// extra field specs through `configurations:` (custom transformer config merged into the defaults)
			cfg := obj{}
			fs := func() obj {
				// paths and kinds on both sides of the default rows in the sorted tables (a spec that sorts before the
				// default wildcard rows exposes slices shared between kustomizations, seeded C02-f)
				e := obj{"path": r.Pick([]string{"spec/extra/labels", "spec/free", "metadata/labels", "spec/nested/deep", "metadata/aaa", "spec/aaa/labels"}), "create": r.Bool()}
				if r.Bool() {
					e["kind"] = r.Pick([]string{"MyKind", "Widget", "Deployment", "ConfigMap", "Service"})
				}
				return e
			}
			for _, k := range []string{"commonLabels", "commonAnnotations", "namePrefix", "namespace", "images", "replicas"} {
				if r.Chance(40) {
					cfg[k] = []interface{}{fs()}
				}
			}
			if len(cfg) > 0 {
				y, _ := syaml.Marshal(cfg)
				l.Files["kconfig.yaml"] = string(y)
				l.Kust["configurations"] = []interface{}{"kconfig.yaml"}
			}
		}
		t.Layers = append(t.Layers, l)
	}
	if hasDir(o, "vars") && len(t.Resources) > 0 {
		// one well-defined variable in the top layer (never referenced): with `vars:` present the variable expander
		// runs over every varReference path; text that is no reference must pass through unchanged
		gr := t.Resources[r.Intn(len(t.Resources))]
		top := t.Layers[len(t.Layers)-1]
		top.Kust["vars"] = []interface{}{obj{
			"name":     "VERIF_VAR",
			"objref":   obj{"apiVersion": gr.Obj["apiVersion"], "kind": gr.Obj["kind"], "name": gr.Obj["metadata"].(obj)["name"]},
			"fieldref": obj{"fieldpath": "metadata.name"},
		}}
	}
	return t
}

func advStringNoNL(r *Rng) string {
	for i := 0; i < 20; i++ {
		s := advString(r)
		if !strings.ContainsAny(s, "\n\t") && s != "" {
			return s
		}
	}
	return "plain"
}

// chain returns the layers that apply to a resource defined in layer li, innermost first.
func (t *GenTree) chain(li int) []*GenLayer { return t.Layers[li:] }

type rawDoc struct{ text, tracer string }

// rawDocs returns 1-2 documents written as YAML text (not marshalled from objects).
func rawDocs(r *Rng, tr *int) []rawDoc {
	out := []rawDoc{}
	next := func() string { t := fmt.Sprintf("t%d", *tr); *tr++; return t }
	if r.Bool() {
		t := next()
		n := r.Intn(3)
		out = append(out, rawDoc{tracer: t, text: fmt.Sprintf(`apiVersion: example.com/v1
kind: Widget
metadata: &ident
  name: anch%d
  annotations:
    tracer: %s
spec:
  owner:
    <<: *ident
    role: %q
  tmpl: &ctr
    name: c
    image: %s
  containers:
  - <<: *ctr
  - name: d
    image: %s
  fallback: *ctr
  words: &w [a, b]
  again: *w
`, n, t, r.Pick([]string{"admin", "yes", "012"}), r.Pick(imageNames), r.Pick(imageNames))})
	}
	if r.Bool() {
		t := next()
		n := r.Intn(3)
		blanks := strings.Repeat("\n", 1+r.Intn(3))
		style := r.Pick([]string{"|+", "|+", "|+", "|", "|-"}) // literal styles only: folded keep-chomped scalars are read differently by go-yaml v2 and v3
		out = append(out, rawDoc{tracer: t, text: fmt.Sprintf("apiVersion: v1\nkind: ConfigMap\nmetadata:\n  name: motd%d\n  annotations:\n    tracer: %s\ndata:\n  a: plain\n  motd: %s\n    welcome\n    to %s%s",
			n, t, style, r.Pick([]string{"yes", "x: y", "#1"}), "\n"+blanks)})
	}
	return out
}
