package main

// `patches:` in the pipeline correspondence (strategic-merge patches, inline or from a file, with or without a target
// selector).  JSON6902 patches and the options allowNameChange / allowKindChange are not generated (not modelled).

import (
	"fmt"
	"strings"

	kyaml "sigs.k8s.io/kustomize/kyaml/yaml"
	syaml "sigs.k8s.io/yaml"
)

type pipeSel struct {
	Group     string `json:"group,omitempty"`
	Version   string `json:"version,omitempty"`
	Kind      string `json:"kind,omitempty"`
	Name      string `json:"name,omitempty"`
	Namespace string `json:"namespace,omitempty"`
	LabelSel  string `json:"labelSelector,omitempty"`
	AnnoSel   string `json:"annotationSelector,omitempty"`
}

type pipePatch struct {
	Docs   []string `json:"docs"` // YAML text of each document of the patch
	Target *pipeSel `json:"target,omitempty"`
	Inline bool     `json:"inline"` // patch: | text   (otherwise path: file)
	File   string   `json:"file,omitempty"`
}

func pipeDirUnder(x, anc *pipeDir) bool {
	for y := x; y != nil; y = y.parent {
		if y == anc {
			return true
		}
	}
	return false
}

// the containers list of a workload document, if any (path to the pod spec)
func pipePodSpecPath(kind string) []string {
	switch kind {
	case "Deployment", "StatefulSet", "DaemonSet", "Job":
		return []string{"spec", "template", "spec"}
	case "CronJob":
		return []string{"spec", "jobTemplate", "spec", "template", "spec"}
	case "Pod":
		return []string{"spec"}
	}
	return nil
}

func pipeNest(path []string, leaf interface{}) interface{} {
	v := leaf
	for i := len(path) - 1; i >= 0; i-- {
		v = map[string]interface{}{path[i]: v}
	}
	return v
}

func pipeMergeInto(dst map[string]interface{}, src map[string]interface{}) {
	for k, v := range src {
		if dm, ok := dst[k].(map[string]interface{}); ok {
			if sm, ok := v.(map[string]interface{}); ok {
				pipeMergeInto(dm, sm)
				continue
			}
		}
		dst[k] = v
	}
}

// one strategic-merge patch document aimed at o
func (g *pipeGen) patchDoc(rng *Rng, o *pipeObj, withTarget bool) map[string]interface{} {
	md := map[string]interface{}{"name": o.Name}
	if o.Ns != "" {
		md["namespace"] = o.Ns
	}
	if withTarget && rng.Chance(50) {
		md["name"] = "ignored"
		delete(md, "namespace")
	}
	doc := map[string]interface{}{"apiVersion": o.AV, "kind": o.Kind, "metadata": md}
	nmods := 1 + rng.Intn(2)
	for i := 0; i < nmods; i++ {
		switch r := rng.Intn(100); {
		case r < 14:
			md["labels"] = map[string]interface{}{rng.Pick([]string{"patched", "app", "tier"}): rng.Pick(pipeAdvValues)}
		case r < 26:
			md["annotations"] = map[string]interface{}{rng.Pick([]string{"patched", "note"}): rng.Pick(pipeAdvValues)}
		case r < 30:
			// the whole annotation map replaced / deleted: the build annotations (rename history) go with it
			if rng.Chance(50) {
				md["annotations"] = map[string]interface{}{"$patch": "replace", "only": "this"}
			} else {
				md["annotations"] = nil
			}
		case r < 32:
			md["labels"] = nil
		case r < 34:
			// one label deleted with null, one numeric value (finding PIPE/patch-spelling: with a target the copy of
			// the patch is rewritten through map[string]string)
			md["labels"] = map[string]interface{}{rng.Pick(pipeLabelKeys): nil, "n": rng.Intn(3)}
		case r < 50:
			pipeMergeInto(doc, map[string]interface{}{"spec": map[string]interface{}{
				"extra": map[string]interface{}{rng.Pick([]string{"v", "w", "z"}): pipeAdv(rng)}}})
		case r < 56:
			pipeMergeInto(doc, map[string]interface{}{"spec": map[string]interface{}{"extra": nil}})
		case r < 60:
			pipeMergeInto(doc, map[string]interface{}{"spec": map[string]interface{}{
				"extra": map[string]interface{}{"$patch": "replace", "fresh": pipeAdv(rng)}}})
		case r < 82:
			if pth := pipePodSpecPath(o.Kind); pth != nil {
				var c map[string]interface{}
				switch rng.Intn(5) {
				case 0:
					c = map[string]interface{}{"name": "main", "image": rng.Pick([]string{"nginx:9", "patched/img", "busybox"})}
				case 1:
					c = map[string]interface{}{"name": "main", "env": []interface{}{
						map[string]interface{}{"name": "E", "value": rng.Pick(pipeAdvValues)}}}
				case 2:
					c = map[string]interface{}{"name": "side", "image": "side:1"}
				case 3:
					c = map[string]interface{}{"name": "main", "$patch": "delete"}
				default:
					c = map[string]interface{}{"name": "main", "args": []interface{}{"patched"}}
				}
				cs := []interface{}{c}
				if rng.Chance(20) {
					cs = append(cs, map[string]interface{}{"name": "extra", "image": "x"})
				}
				pipeMergeInto(doc, pipeNest(pth, map[string]interface{}{"containers": cs}).(map[string]interface{}))
			} else if o.Kind == "ConfigMap" || o.Kind == "Secret" {
				f := "data"
				// not on a generated Secret: stringData is part of the hashed content, which C06's Hash.content lacks
				if o.Kind == "Secret" && !o.Gen && rng.Chance(50) {
					f = "stringData"
				}
				v := interface{}(rng.Pick(pipeAdvValues))
				if rng.Chance(20) {
					v = nil
				}
				doc[f] = map[string]interface{}{rng.Pick([]string{"k", "a", "added"}): v}
			} else {
				pipeMergeInto(doc, map[string]interface{}{"spec": map[string]interface{}{"size": rng.Intn(9)}})
			}
		case r < 88:
			if o.Kind == "Deployment" {
				pipeMergeInto(doc, map[string]interface{}{"spec": map[string]interface{}{"replicas": rng.Intn(9)}})
			} else {
				doc["extraTop"] = pipeAdv(rng)
			}
		case r < 93:
			// the resource is deleted
			doc["$patch"] = "delete"
		default:
			pipeMergeInto(doc, map[string]interface{}{"spec": map[string]interface{}{
				"selector": map[string]interface{}{"matchLabels": map[string]interface{}{"patched": "yes"}}}})
		}
	}
	return doc
}

func (g *pipeGen) genPatches(rng *Rng) int {
	n := 0
	for _, d := range g.dirs {
		if !rng.Chance(40) {
			continue
		}
		var cands []*pipeObj
		for _, o := range g.objs {
			if pipeDirUnder(o.Layer, d) {
				cands = append(cands, o)
			}
		}
		if len(cands) == 0 {
			continue
		}
		np := 1 + rng.Intn(2)
		for i := 0; i < np; i++ {
			o := cands[rng.Intn(len(cands))]
			p := pipePatch{Inline: rng.Chance(50)}
			if rng.Chance(55) {
				t := &pipeSel{}
				switch rng.Intn(8) {
				case 0:
					t.Kind = o.Kind
				case 1:
					t.Kind, t.Name = o.Kind, o.Name
				case 2:
					t.Name = o.Name
				case 3:
					t.Kind = o.Kind
					t.Namespace = o.Ns
					if t.Namespace == "" {
						t.Namespace = rng.Pick([]string{"default", "ns1"})
					}
				case 4:
					t.LabelSel = rng.Pick([]string{"app", "tier=web", "!team", "env!=x", "app=web,tier"})
				case 5:
					t.AnnoSel = pipeTracer + "=" + o.ID
				case 6:
					t.Kind = o.Kind
					if len(o.Name) > 1 {
						t.Name = o.Name[:1] + ".*"
					}
				default:
					grp, ver := "", o.AV
					if i := strings.Index(o.AV, "/"); i >= 0 {
						grp, ver = o.AV[:i], o.AV[i+1:]
					}
					t.Group, t.Version, t.Kind = grp, ver, o.Kind
					if rng.Chance(30) {
						t.Version = ""
					}
				}
				p.Target = t
			}
			doc := g.patchDoc(rng, o, p.Target != nil)
			b, _ := syaml.Marshal(doc)
			p.Docs = []string{string(b)}
			if rng.Chance(12) {
				// a second document: fine without a target, an error with one
				o2 := cands[rng.Intn(len(cands))]
				b2, _ := syaml.Marshal(g.patchDoc(rng, o2, false))
				p.Docs = append(p.Docs, string(b2))
			}
			if !p.Inline {
				g.srcN++
				p.File = fmt.Sprintf("patch%d.yaml", g.srcN)
			}
			d.Patches = append(d.Patches, p)
			n++
		}
	}
	return n
}

func pipePatchYaml(p pipePatch) map[string]interface{} {
	m := map[string]interface{}{}
	if p.Inline {
		m["patch"] = strings.Join(p.Docs, "---\n")
	} else {
		m["path"] = p.File
	}
	if t := p.Target; t != nil {
		tm := map[string]interface{}{}
		for k, v := range map[string]string{"group": t.Group, "version": t.Version, "kind": t.Kind, "name": t.Name,
			"namespace": t.Namespace, "labelSelector": t.LabelSel, "annotationSelector": t.AnnoSel} {
			if v != "" {
				tm[k] = v
			}
		}
		m["target"] = tm
	}
	return m
}

// Coq term of the patches of one layer; the schema projection is referred to by the name `sch` bound around the case
func pipeCoqPatches(d *pipeDir, vals map[string]bool, nodes *[]*kyaml.RNode) (string, bool) {
	var ps []string
	for _, p := range d.Patches {
		var docs []string
		for _, y := range p.Docs {
			rn, err := kyaml.Parse(y)
			if err != nil {
				return "", false
			}
			scalarValues(rn.YNode(), vals)
			t, ok := coqNode(rn.YNode())
			if !ok {
				return "", false
			}
			docs = append(docs, t)
			*nodes = append(*nodes, rn)
		}
		tgt := "None"
		if t := p.Target; t != nil {
			tgt = fmt.Sprintf("(Some (Selector.mkSel (Selector.mkId (Selector.mkGvk %s %s %s) %s %s) %s %s))",
				coqStr(t.Group), coqStr(t.Version), coqStr(t.Kind), coqStr(t.Name), coqStr(t.Namespace), coqStr(t.AnnoSel), coqStr(t.LabelSel))
		}
		ps = append(ps, fmt.Sprintf("(mkPPatch [%s] %s sch)", strings.Join(docs, "; "), tgt))
	}
	return strings.Join(ps, "; "), true
}

// synthetic documents {kind of a patch, apiVersion of any input}: the roots the walker may look up for a patch copy
func pipePatchRoots(top *pipeDir, nodes []*kyaml.RNode) []*kyaml.RNode {
	avs := map[string]bool{}
	for _, n := range nodes {
		if m, err := n.GetMeta(); err == nil && m.APIVersion != "" {
			avs[m.APIVersion] = true
		}
	}
	kinds := map[string]bool{}
	var walk func(d *pipeDir)
	walk = func(d *pipeDir) {
		for _, p := range d.Patches {
			for _, y := range p.Docs {
				if rn, err := kyaml.Parse(y); err == nil {
					kinds[rn.GetKind()] = true
				}
			}
		}
		for _, e := range d.Ents {
			if e.Dir != nil {
				walk(e.Dir)
			}
		}
	}
	walk(top)
	var out []*kyaml.RNode
	for _, k := range sortedKeys(kinds) {
		for _, av := range sortedKeys(avs) {
			if rn, err := kyaml.Parse(fmt.Sprintf("apiVersion: %s\nkind: %s\n", av, k)); err == nil {
				out = append(out, rn)
			}
		}
	}
	return out
}

func pipeCountPatches(d *pipeDir) int {
	n := len(d.Patches)
	for _, e := range d.Ents {
		if e.Dir != nil {
			n += pipeCountPatches(e.Dir)
		}
	}
	return n
}
