package main

import (
	"os"
	"path/filepath"
	"regexp"
	"strings"

	"sigs.k8s.io/kustomize/kyaml/openapi"
	kyaml "sigs.k8s.io/kustomize/kyaml/yaml"
)

// Shared by the walker properties (C04, C15): compact Coq printers that use the monomorphic
// builders of KV.Corr.SchemaTable (kc/kn, nc/nn, sc/sn, ...), and the schema projection dump.

// String literals dominate Coq's elaboration time of the case files (every character becomes an
// Ascii term). Each distinct string is therefore defined once in the file header and referred to by name.
type strInterner struct {
	ids  map[string]string
	defs []string
}

var wIntern = &strInterner{ids: map[string]string{}}

func qs(s string) string {
	if id, ok := wIntern.ids[s]; ok {
		return id
	}
	id := "s" + itoa(len(wIntern.ids)) + "_"
	wIntern.ids[s] = id
	wIntern.defs = append(wIntern.defs, "Definition "+id+" : string := "+coqStr(s)+".\n")
	return id
}

func itoa(n int) string {
	if n == 0 {
		return "0"
	}
	d := []byte{}
	for n > 0 {
		d = append([]byte{byte('0' + n%10)}, d...)
		n /= 10
	}
	return string(d)
}

// internHeader returns the definitions of every interned string (to be appended to Run.header).
func internHeader() string { return strings.Join(wIntern.defs, "") }

// mNode prints a yaml.Node as a KV.Yaml.Node.node term without polymorphic notations.
func mNode(n *kyaml.Node) (string, bool) {
	var b strings.Builder
	ok := mNodeTo(&b, n)
	return b.String(), ok
}

func mNodeTo(b *strings.Builder, n *kyaml.Node) bool {
	if n == nil {
		return false
	}
	switch n.Kind {
	case kyaml.DocumentNode:
		if len(n.Content) != 1 {
			return false
		}
		return mNodeTo(b, n.Content[0])
	case kyaml.ScalarNode:
		b.WriteString("(Scalar ")
		b.WriteString(coqTag(n.Tag))
		b.WriteString(" ")
		b.WriteString(coqStyle(n.Style))
		b.WriteString(" ")
		b.WriteString(qs(n.Value))
		b.WriteString(")")
		return true
	case kyaml.MappingNode:
		if len(n.Content)%2 != 0 {
			return false
		}
		b.WriteString("(Map ")
		cnt := 0
		for i := 0; i < len(n.Content); i += 2 {
			k := n.Content[i]
			if k.Kind != kyaml.ScalarNode {
				return false
			}
			b.WriteString("(kc ")
			b.WriteString(qs(k.Value))
			b.WriteString(" ")
			if !mNodeTo(b, n.Content[i+1]) {
				return false
			}
			b.WriteString(" ")
			cnt++
		}
		b.WriteString("kn")
		b.WriteString(strings.Repeat(")", cnt+1))
		return true
	case kyaml.SequenceNode:
		b.WriteString("(Seq ")
		for _, c := range n.Content {
			b.WriteString("(nc ")
			if !mNodeTo(b, c) {
				return false
			}
			b.WriteString(" ")
		}
		b.WriteString("nn")
		b.WriteString(strings.Repeat(")", len(n.Content)+1))
		return true
	default:
		if n.Kind == 0 && n.Tag == "" && len(n.Content) == 0 {
			b.WriteString("(Scalar TNone SPlain " + qs(n.Value) + ")")
			return true
		}
		if n.Kind == 0 && n.Tag == kyaml.NodeTagNull && len(n.Content) == 0 {
			// yaml.MakeNullNode(): a tagged-null node without a kind
			b.WriteString("(Scalar TNull SPlain " + qs(n.Value) + ")")
			return true
		}
		return false
	}
}

func mOptNode(n *kyaml.RNode) (string, bool) {
	if n == nil || n.YNode() == nil {
		return "oN", true
	}
	s, ok := mNode(n.YNode())
	return "(oS " + s + ")", ok
}

func mStrList(l []string) string {
	var b strings.Builder
	for _, s := range l {
		b.WriteString("(sc ")
		b.WriteString(qs(s))
		b.WriteString(" ")
	}
	b.WriteString("sn")
	b.WriteString(strings.Repeat(")", len(l)))
	return b.String()
}

// ---------- schema projection of the running openapi package on the paths of a case ----------

type sTree struct {
	schema   *openapi.ResourceSchema
	strategy string
	keys     []string
	fkeys    []string
	fields   map[string]*sTree
	noField  map[string]bool
	elems    *sTree
	noElems  bool
}

func newSTree(s *openapi.ResourceSchema) *sTree {
	st, ks := s.PatchStrategyAndKeyList()
	return &sTree{schema: s, strategy: st, keys: ks, fields: map[string]*sTree{}, noField: map[string]bool{}}
}

// multiKeyDirective is set by grow when a "$patch" key is met anywhere below an element of a list
// whose schema declares more than one merge key (see the domain note in design.d/C04.md).
var multiKeyDirective bool

// what grow saw: a directive below an element of a multi-key list; the key tuples of the elements of multi-key lists
var multiDirSeen bool
var multiTuples [][]string

// tuplesMergeable mirrors associative_sequence.go match(): equal length, no position where both are set and differ,
// at least one position equal.
func tuplesMergeable(a, b []string) bool {
	if len(a) != len(b) {
		return false
	}
	common := false
	for i := range a {
		switch {
		case a[i] == b[i]:
			common = true
		case a[i] != "" && b[i] != "":
			return false
		}
	}
	return common
}

// a key tuple of a multi-key list is walked twice only if mergeValues makes two different tuples equal
func someTuplesMerge() bool {
	for i := range multiTuples {
		for j := i + 1; j < len(multiTuples); j++ {
			same := len(multiTuples[i]) == len(multiTuples[j])
			if same {
				for k := range multiTuples[i] {
					if multiTuples[i][k] != multiTuples[j][k] {
						same = false
					}
				}
			}
			if !same && tuplesMergeable(multiTuples[i], multiTuples[j]) {
				return true
			}
		}
	}
	return false
}

// grow follows the schema along the document subtree n.
func (t *sTree) grow(n *kyaml.Node, inMulti bool) {
	if n == nil {
		return
	}
	switch n.Kind {
	case kyaml.MappingNode:
		for i := 0; i+1 < len(n.Content); i += 2 {
			k := n.Content[i].Value
			if inMulti && k == "$patch" {
				multiDirSeen = true
			}
			c := t.fields[k]
			if c == nil && !t.noField[k] {
				if cs := t.schema.Field(k); cs != nil {
					c = newSTree(cs)
					t.fields[k] = c
					t.fkeys = append(t.fkeys, k)
				} else {
					t.noField[k] = true
				}
			}
			if c != nil {
				c.grow(n.Content[i+1], inMulti)
			}
		}
	case kyaml.SequenceNode:
		if len(n.Content) == 0 {
			return
		}
		if t.elems == nil && !t.noElems {
			if cs := t.schema.Elements(); cs != nil {
				t.elems = newSTree(cs)
			} else {
				t.noElems = true
			}
		}
		if t.elems != nil {
			for _, e := range n.Content {
				if len(t.keys) > 1 {
					// any directive below an element of a multi-key list, also under fields the schema does not know
					allNodes(e, func(x *kyaml.Node) {
						if x.Kind == kyaml.MappingNode {
							for i := 0; i+1 < len(x.Content); i += 2 {
								if x.Content[i].Value == "$patch" {
									multiDirSeen = true
								}
							}
						}
					})
					tup := make([]string, len(t.keys))
					if e.Kind == kyaml.MappingNode {
						for ki, key := range t.keys {
							for i := 0; i+1 < len(e.Content); i += 2 {
								if e.Content[i].Value == key && tup[ki] == "" {
									v := e.Content[i+1]
									if !(v.Kind == kyaml.ScalarNode && v.Tag == "!!null") {
										tup[ki] = v.Value
									}
								}
							}
						}
					}
					multiTuples = append(multiTuples, tup)
				}
				t.elems.grow(e, inMulti || len(t.keys) > 1)
			}
		}
	}
}

func (t *sTree) term(b *strings.Builder) {
	b.WriteString("(ST ")
	b.WriteString(qs(t.strategy))
	b.WriteString(" ")
	b.WriteString(mStrList(t.keys))
	b.WriteString(" ")
	for _, k := range t.fkeys {
		b.WriteString("(fc ")
		b.WriteString(qs(k))
		b.WriteString(" ")
		t.fields[k].term(b)
		b.WriteString(" ")
	}
	b.WriteString("fn")
	b.WriteString(strings.Repeat(")", len(t.fkeys)))
	if t.elems != nil {
		b.WriteString(" (e1 ")
		t.elems.term(b)
		b.WriteString("))")
	} else {
		b.WriteString(" en)")
	}
}

func allNodes(n *kyaml.Node, f func(*kyaml.Node)) {
	if n == nil {
		return
	}
	f(n)
	for _, c := range n.Content {
		allNodes(c, f)
	}
}

// dumpSchemaTree lists every schema node the walker can reach on these sources: for every
// (kind, apiVersion) met anywhere in a source that resolves to a schema, the schema is followed along
// every mapping subtree of every source (an over-approximation of the positions the walker pairs up;
// every recorded fact is a true fact about openapi.ResourceSchema).
func dumpSchemaTree(srcs ...*kyaml.RNode) string {
	type root struct{ kind, av string }
	roots := []root{}
	seenRoot := map[root]bool{}
	for _, s := range srcs {
		if s == nil {
			continue
		}
		allNodes(s.YNode(), func(n *kyaml.Node) {
			if n.Kind != kyaml.MappingNode {
				return
			}
			m, _ := kyaml.NewRNode(n).GetMeta()
			if m.Kind == "" || m.APIVersion == "" {
				return
			}
			r := root{m.Kind, m.APIVersion}
			if !seenRoot[r] {
				seenRoot[r] = true
				roots = append(roots, r)
			}
		})
	}
	var b strings.Builder
	cnt := 0
	multiKeyDirective = false
	multiDirSeen = false
	multiTuples = nil
	for _, r := range roots {
		rs := openapi.SchemaForResourceType(kyaml.TypeMeta{Kind: r.kind, APIVersion: r.av})
		if rs == nil {
			continue
		}
		t := newSTree(rs)
		for _, s := range srcs {
			if s == nil {
				continue
			}
			allNodes(s.YNode(), func(n *kyaml.Node) {
				if n.Kind == kyaml.MappingNode {
					t.grow(n, false)
				}
			})
		}
		b.WriteString("(rc ")
		b.WriteString(qs(r.kind))
		b.WriteString(" ")
		b.WriteString(qs(r.av))
		b.WriteString(" ")
		t.term(&b)
		b.WriteString(" ")
		cnt++
	}
	b.WriteString("rn")
	b.WriteString(strings.Repeat(")", cnt))
	multiKeyDirective = multiDirSeen && someTuplesMerge()
	return b.String()
}

func nonstrOf(nodes ...*kyaml.RNode) []string {
	vals := map[string]bool{}
	for _, n := range nodes {
		if n != nil {
			scalarValues(n.YNode(), vals)
		}
	}
	out := []string{}
	for _, s := range sortedKeys(vals) {
		if kyaml.IsValueNonString(s) {
			out = append(out, s)
		}
	}
	return out
}

func hasAlias(n *kyaml.Node) bool {
	found := false
	allNodes(n, func(x *kyaml.Node) {
		if x.Kind == kyaml.AliasNode || x.Anchor != "" || x.Kind == kyaml.DocumentNode && len(x.Content) != 1 {
			found = true
		}
	})
	return found
}

// knownClasses reads the finding classes recorded for a property (known-findings.txt, findings.d/*.txt).
func knownClasses(prop string) map[string]bool {
	out := map[string]bool{}
	files, _ := filepath.Glob(filepath.Join(verifRoot(), "findings.d", "*.txt"))
	files = append(files, filepath.Join(verifRoot(), "known-findings.txt"))
	re := regexp.MustCompile(`^finding:\s+property=(\S+)\s+class=(\S+)`)
	for _, f := range files {
		data, err := os.ReadFile(f)
		if err != nil {
			continue
		}
		for _, line := range strings.Split(string(data), "\n") {
			if m := re.FindStringSubmatch(strings.TrimSpace(line)); m != nil && m[1] == prop {
				out[m[2]] = true
			}
		}
	}
	return out
}

// resolveSchema mirrors Walker.GetSchema at the root: the schema of the FIRST source whose
// kind/apiVersion the openapi package knows (sources whose version is unknown are skipped).
func resolveSchema(srcs ...*kyaml.RNode) (*openapi.ResourceSchema, string, string) {
	for _, s := range srcs {
		if s == nil {
			continue
		}
		m, _ := s.GetMeta()
		if m.Kind == "" || m.APIVersion == "" {
			continue
		}
		if rs := openapi.SchemaForResourceType(kyaml.TypeMeta{Kind: m.Kind, APIVersion: m.APIVersion}); rs != nil {
			return rs, m.Kind, m.APIVersion
		}
	}
	return nil, "", ""
}
