// Command harness drives the kustomize implementation built from /repo's working tree.
// For one property it generates cases from a single PRNG state, runs the implementation,
// evaluates the property's law oracles directly on the implementation (the "search"),
// and writes Coq case files (input + observed output) for the correspondence check.
package main

import (
	"flag"
	"fmt"
	"os"
	"strconv"
)

type propRunner func(r *Run, rng *Rng, tier string) error
type propReplayer func(path string) (violated bool, detail string, err error)

type propWorker func() error // reads work items from stdin, writes results to stdout (fresh-process executions)

type propDef struct {
	worker     propWorker
	header     string // Coq preamble of the case files
	caseType   string
	mismatchFn string
	run        propRunner
	replay     propReplayer
}

var props = map[string]propDef{}

func register(id string, d propDef) { props[id] = d }

func main() {
	tier := flag.String("tier", "quick", "quick|thorough")
	seed := flag.String("seed", "1", "PRNG seed")
	out := flag.String("out", "", "output directory")
	replay := flag.String("replay", "", "replay file: re-run one recorded input against the implementation")
	worker := flag.Bool("worker", false, "worker mode: execute work items from stdin in this fresh process")
	flag.Parse()
	installGlobalFatalTrap()
	if flag.NArg() != 1 {
		fmt.Fprintln(os.Stderr, "usage: harness [-tier T] [-seed N] [-out DIR] [-replay F] <property>")
		os.Exit(2)
	}
	id := flag.Arg(0)
	d, ok := props[id]
	if !ok {
		fmt.Fprintf(os.Stderr, "unknown property %s\n", id)
		os.Exit(2)
	}
	if *worker {
		if d.worker == nil {
			fmt.Fprintln(os.Stderr, "no worker for", id)
			os.Exit(2)
		}
		if err := d.worker(); err != nil {
			fmt.Fprintln(os.Stderr, "worker error:", err)
			os.Exit(3)
		}
		os.Exit(0)
	}
	if *replay != "" {
		if d.replay == nil {
			fmt.Fprintln(os.Stderr, "no replayer for", id)
			os.Exit(2)
		}
		v, detail, err := d.replay(*replay)
		if err != nil {
			fmt.Fprintln(os.Stderr, "replay error:", err)
			os.Exit(2)
		}
		fmt.Println(detail)
		if v {
			fmt.Printf("VIOLATION property=%s replay=%s\n", id, *replay)
			os.Exit(1)
		}
		os.Exit(0)
	}
	s, err := strconv.ParseUint(*seed, 10, 64)
	if err != nil {
		s = 1
	}
	if *out == "" {
		fmt.Fprintln(os.Stderr, "-out required")
		os.Exit(2)
	}
	r := NewRun(id, *tier, s, *out, d.header)
	if err := d.run(r, NewRng(s), *tier); err != nil {
		fmt.Fprintln(os.Stderr, "harness error:", err)
		os.Exit(3)
	}
	if err := r.Finish(d.caseType, d.mismatchFn); err != nil {
		fmt.Fprintln(os.Stderr, "harness error:", err)
		os.Exit(3)
	}
}
