package main

import (
	"encoding/json"
	"fmt"
	"os"
	"sort"
	"strconv"
	"strings"

	"sigs.k8s.io/kustomize/api/filters/annotations"
	"sigs.k8s.io/kustomize/api/filters/labels"
	"sigs.k8s.io/kustomize/api/krusty"
	"sigs.k8s.io/kustomize/api/types"
	"sigs.k8s.io/kustomize/kyaml/filesys"
	"sigs.k8s.io/kustomize/kyaml/resid"
	kyaml "sigs.k8s.io/kustomize/kyaml/yaml"
)

// C08: labels reach metadata, selectors and templates consistently.
// Correspondence: (a) labels.Filter / annotations.Filter on one document with an explicit FsSlice,
// (b) krusty builds of 1-3 layer trees with commonLabels / labels / commonAnnotations directives,
// both against KV.Res.Labels. Search: the relation oracles of the property on the build outputs.

func init() {
	register("C08", propDef{
		header:     "From KV Require Import Corr.C08.\nOpen Scope string_scope.\n",
		caseType:   "case08",
		mismatchFn: "mismatches08",
		run:        runC08,
		replay:     replayC08,
	})
}

// ---------- ordered document builder (emitted through gnode of c14.go) ----------

func gT(text string) *gnode { return &gnode{kind: 0, text: text} }
func c08gM(c08kv ...interface{}) *gnode {
	g := &gnode{kind: 1}
	for i := 0; i+1 < len(c08kv); i += 2 {
		k := c08kv[i].(string)
		var v *gnode
		switch x := c08kv[i+1].(type) {
		case *gnode:
			v = x
		case string:
			v = gT(x)
		}
		if v == nil {
			continue
		}
		g.keys = append(g.keys, k)
		g.vals = append(g.vals, v)
	}
	return g
}
func c08gS(vals ...*gnode) *gnode { return &gnode{kind: 2, vals: vals} }
func (g *gnode) set(k string, v *gnode) {
	for i := range g.keys {
		if g.keys[i] == k {
			g.vals[i] = v
			return
		}
	}
	g.keys = append(g.keys, k)
	g.vals = append(g.vals, v)
}
func (g *gnode) del(k string) {
	for i := range g.keys {
		if g.keys[i] == k {
			g.keys = append(g.keys[:i], g.keys[i+1:]...)
			g.vals = append(g.vals[:i], g.vals[i+1:]...)
			return
		}
	}
}

type c08kv struct {
	K string `json:"k"`
	V string `json:"v"`
}

var c08Keys = []string{"app", "tier", "env", "team", "k8s.io/name"}
var c08Vals = []string{"x", "y", "z", "web", "1", "true", "on", ""}

// yamlStr writes a string scalar so that it parses back as a string.
func yamlStr(s string) string {
	plain := s != ""
	for i := 0; i < len(s); i++ {
		c := s[i]
		if !(c >= 'a' && c <= 'z' || c >= 'A' && c <= 'Z' || c == '-' || c == '.' || c == '/') {
			plain = false
		}
	}
	if plain && !kyaml.IsValueNonString(s) {
		return s
	}
	return strconv.Quote(s)
}

func labelMapNode(l []c08kv, rng *Rng) *gnode {
	g := &gnode{kind: 1}
	for _, e := range l {
		txt := yamlStr(e.V)
		if rng != nil && rng.Chance(3) && e.V != "" {
			txt = e.V // adversarial: unquoted 1 / true / on
		}
		g.keys = append(g.keys, yamlStr(e.K))
		g.vals = append(g.vals, gT(txt))
	}
	return g
}

func genPairs(rng *Rng, lo, hi int) []c08kv {
	n := lo + rng.Intn(hi-lo+1)
	out := []c08kv{}
	used := map[string]bool{}
	for i := 0; i < n; i++ {
		k := rng.Pick(c08Keys)
		if used[k] {
			continue
		}
		used[k] = true
		out = append(out, c08kv{k, rng.Pick(c08Vals)})
	}
	return out
}

// labelSlot wraps a label list into the shape found at a label location:
// mostly a mapping; sometimes absent / {} / null.
func labelSlot(rng *Rng, l []c08kv) *gnode {
	switch r := rng.Intn(100); {
	case r < 78:
		return labelMapNode(l, rng)
	case r < 86:
		return nil // absent
	case r < 92:
		return gT("{}")
	case r < 97:
		return gT("null")
	default:
		return gT("")
	}
}

type c08Res struct {
	Name string `json:"name"`
	Kind string `json:"kind"`
	Yaml string `json:"yaml"`
	File string `json:"file,omitempty"` // text written to the resource file when it differs from Yaml (anchors / aliases: c08_anchors.go)
}

var c08Kinds = []string{"Deployment", "StatefulSet", "DaemonSet", "ReplicaSet", "Job", "CronJob", "Pod",
	"ReplicationController", "Service", "NetworkPolicy", "PodDisruptionBudget", "ConfigMap", "Widget"}

var c08ApiVersions = map[string][]string{
	"Deployment":            {"apps/v1", "apps/v1", "apps/v1", "apps/v1", "extensions/v1beta1", "apps/v1beta2"},
	"StatefulSet":           {"apps/v1", "apps/v1", "apps/v1", "apps/v1", "apps/v1beta1", "v1"},
	"DaemonSet":             {"apps/v1", "apps/v1", "apps/v1", "extensions/v1beta1"},
	"ReplicaSet":            {"apps/v1", "apps/v1", "apps/v1", "extensions/v1beta1"},
	"Job":                   {"batch/v1", "batch/v1", "batch/v1", "v1"},
	"CronJob":               {"batch/v1", "batch/v1", "batch/v1beta1"},
	"Pod":                   {"v1"},
	"ReplicationController": {"v1", "v1", "v1", "core/v1"},
	"Service":               {"v1", "v1", "v1", "v1", "core/v1"},
	"NetworkPolicy":         {"networking.k8s.io/v1", "networking.k8s.io/v1", "extensions/v1beta1"},
	"PodDisruptionBudget":   {"policy/v1", "policy/v1", "policy/v1beta1"},
	"ConfigMap":             {"v1"},
	"Widget":                {"example.com/v1"},
}

func podTemplate(rng *Rng, podLabels []c08kv) *gnode {
	meta := c08gM()
	if ls := labelSlot(rng, podLabels); ls != nil {
		meta.set("labels", ls)
	}
	if rng.Chance(15) {
		meta.set("annotations", labelMapNode(genPairs(rng, 1, 1), nil))
	}
	spec := c08gM("containers", c08gS(c08gM("name", "c", "image", "nginx")))
	if rng.Chance(10) {
		spec.set("affinity", c08gM("podAntiAffinity", c08gM("requiredDuringSchedulingIgnoredDuringExecution",
			c08gS(c08gM("labelSelector", c08gM("matchLabels", labelMapNode(podLabels, nil)), "topologyKey", "kubernetes.io/hostname")))))
	}
	t := c08gM()
	switch r := rng.Intn(100); {
	case r < 90:
		t.set("metadata", meta)
	case r < 94:
		// no metadata at all
	case r < 97:
		t.set("metadata", gT("null"))
	default:
		t.set("metadata", gT("{}"))
	}
	t.set("spec", spec)
	return t
}

func subsetPairs(rng *Rng, l []c08kv) []c08kv {
	out := []c08kv{}
	for _, e := range l {
		if rng.Chance(70) {
			out = append(out, e)
		}
	}
	if len(out) == 0 && len(l) > 0 {
		out = append(out, l[0])
	}
	return out
}

// genRes builds one resource. pods: label sets of workloads generated earlier in the same layer
// (selecting kinds pick a subset of one of them so that selects_in holds often).
func genRes(rng *Rng, kind, name string, pods *[][]c08kv) c08Res {
	av := rng.Pick(c08ApiVersions[kind])
	meta := c08gM("name", name)
	if rng.Chance(55) {
		if ls := labelSlot(rng, genPairs(rng, 0, 2)); ls != nil {
			meta.set("labels", ls)
		}
	}
	if rng.Chance(25) {
		if ls := labelSlot(rng, genPairs(rng, 1, 2)); ls != nil {
			meta.set("annotations", ls)
		}
	}
	doc := c08gM("apiVersion", av, "kind", kind, "metadata", meta)
	podLabels := genPairs(rng, 1, 2)
	selLabels := subsetPairs(rng, podLabels)
	if rng.Chance(10) {
		selLabels = genPairs(rng, 1, 2) // possibly inconsistent with the template
	}
	pickTarget := func() []c08kv {
		if len(*pods) > 0 && rng.Chance(80) {
			return subsetPairs(rng, (*pods)[rng.Intn(len(*pods))])
		}
		return genPairs(rng, 0, 2)
	}
	matchSel := func(l []c08kv) *gnode {
		s := c08gM()
		switch r := rng.Intn(100); {
		case r < 80:
			if ls := labelSlot(rng, l); ls != nil {
				s.set("matchLabels", ls)
			}
		case r < 90:
			s.set("matchExpressions", c08gS(c08gM("key", "app", "operator", "Exists")))
			if ls := labelSlot(rng, l); ls != nil {
				s.set("matchLabels", ls)
			}
		default:
			return gT("{}")
		}
		if len(s.keys) == 0 {
			return gT("{}")
		}
		return s
	}
	switch kind {
	case "Deployment", "StatefulSet", "DaemonSet", "ReplicaSet":
		spec := c08gM()
		if kind != "DaemonSet" && rng.Chance(50) {
			spec.set("replicas", gT("2"))
		}
		if rng.Chance(88) {
			spec.set("selector", matchSel(selLabels))
		}
		if rng.Chance(95) {
			spec.set("template", podTemplate(rng, podLabels))
		}
		if kind == "StatefulSet" && rng.Chance(40) {
			vm := c08gM("name", "data")
			if rng.Chance(30) {
				vm.set("labels", labelMapNode(genPairs(rng, 1, 1), nil))
			}
			spec.set("volumeClaimTemplates", c08gS(c08gM("metadata", vm, "spec", c08gM("storageClassName", "std"))))
		}
		if kind == "Deployment" && rng.Chance(10) {
			spec.set("strategy", c08gM("type", "Recreate"))
		}
		doc.set("spec", spec)
		*pods = append(*pods, podLabels)
	case "Job":
		spec := c08gM()
		if rng.Chance(35) {
			spec.set("selector", matchSel(selLabels))
		}
		spec.set("template", podTemplate(rng, podLabels))
		doc.set("spec", spec)
		*pods = append(*pods, podLabels)
	case "CronJob":
		jspec := c08gM()
		if rng.Chance(30) {
			jspec.set("selector", matchSel(selLabels))
		}
		jspec.set("template", podTemplate(rng, podLabels))
		jt := c08gM()
		if rng.Chance(30) {
			jt.set("metadata", c08gM("labels", labelMapNode(genPairs(rng, 1, 1), nil)))
		}
		jt.set("spec", jspec)
		doc.set("spec", c08gM("schedule", `"* * * * *"`, "jobTemplate", jt))
		*pods = append(*pods, podLabels)
	case "Pod":
		if ls := labelSlot(rng, podLabels); ls != nil {
			meta.set("labels", ls)
		} else {
			meta.del("labels")
		}
		doc.set("spec", c08gM("containers", c08gS(c08gM("name", "c", "image", "nginx"))))
		*pods = append(*pods, podLabels)
	case "ReplicationController":
		spec := c08gM()
		if rng.Chance(85) {
			if ls := labelSlot(rng, selLabels); ls != nil {
				spec.set("selector", ls)
			}
		}
		spec.set("template", podTemplate(rng, podLabels))
		doc.set("spec", spec)
		*pods = append(*pods, podLabels)
	case "Service":
		spec := c08gM("ports", c08gS(c08gM("port", "80")))
		if rng.Chance(90) {
			if ls := labelSlot(rng, pickTarget()); ls != nil {
				spec.set("selector", ls)
			}
		}
		if rng.Chance(92) {
			doc.set("spec", spec)
		}
	case "NetworkPolicy":
		spec := c08gM("podSelector", matchSel(pickTarget()))
		if rng.Chance(40) {
			spec.set("ingress", c08gS(c08gM("from", c08gS(c08gM("podSelector", matchSel(pickTarget()))))))
		}
		if rng.Chance(20) {
			spec.set("egress", c08gS(c08gM("to", c08gS(c08gM("podSelector", matchSel(pickTarget()))))))
		}
		doc.set("spec", spec)
	case "PodDisruptionBudget":
		doc.set("spec", c08gM("minAvailable", "1", "selector", matchSel(pickTarget())))
	case "ConfigMap":
		doc.set("data", c08gM("k", "v"))
	case "Widget":
		doc.set("spec", c08gM("selector", matchSel(selLabels), "template", podTemplate(rng, podLabels)))
	}
	if rng.Chance(8) {
		perturb08(rng, doc)
	}
	return c08Res{Name: name, Kind: kind, Yaml: doc.yaml()}
}

// perturb08 replaces one random subtree (never apiVersion/kind/metadata.name) by an odd shape.
func perturb08(rng *Rng, doc *gnode) {
	cur := doc
	for depth := 0; depth < 6; depth++ {
		if cur.kind != 1 || len(cur.keys) == 0 {
			return
		}
		cands := []int{}
		for i, k := range cur.keys {
			if depth == 0 && (k == "apiVersion" || k == "kind") {
				continue
			}
			if k == "name" {
				continue
			}
			cands = append(cands, i)
		}
		if len(cands) == 0 {
			return
		}
		i := cands[rng.Intn(len(cands))]
		if depth > 0 && (rng.Chance(35) || cur.vals[i].kind != 1) || (depth == 0 && cur.keys[i] != "metadata" && rng.Chance(15)) {
			if depth == 0 && cur.keys[i] == "metadata" {
				return
			}
			odd := []*gnode{gT("null"), gT("{}"), gT("[]"), gT("foo"), c08gS(c08gM("a", "b")), gT(""), c08gS(gT("x"))}
			cur.vals[i] = odd[rng.Intn(len(odd))]
			return
		}
		cur = cur.vals[i]
	}
}

// ---------- directives ----------

type c08fsSpec struct {
	Group   string `json:"group,omitempty"`
	Version string `json:"version,omitempty"`
	Kind    string `json:"kind,omitempty"`
	Path    string `json:"path"`
	Create  bool   `json:"create,omitempty"`
}

type c08Label struct {
	Pairs            []c08kv     `json:"pairs"`
	IncludeSelectors bool     `json:"includeSelectors,omitempty"`
	IncludeTemplates bool     `json:"includeTemplates,omitempty"`
	Fields           []c08fsSpec `json:"fields,omitempty"`
}

type c08Dirs struct {
	Labels            []c08Label `json:"labels,omitempty"`
	CommonLabels      []c08kv       `json:"commonLabels,omitempty"`
	CommonAnnotations []c08kv       `json:"commonAnnotations,omitempty"`
}

type c08Tree struct {
	Dirs  c08Dirs    `json:"dirs"`
	Own   []c08Res   `json:"own"`
	Bases []*c08Tree `json:"bases,omitempty"`
	Crd   string     `json:"crd,omitempty"` // content of crd.json, declared through `crds:` (c08_crds.go); never sent to the model
}

var c08CustomFields = []c08fsSpec{
	{Group: "apps", Kind: "Deployment", Path: "spec/template/metadata/labels", Create: true}, // narrower twin of a default row
	{Path: "metadata/labels", Create: false},                                                  // conflicts with the default row
	{Kind: "Deployment", Path: "spec/selector/matchLabels", Create: false},                    // conflicts when selectors are included
	{Path: "spec/extra/labels", Create: true},
	{Kind: "Service", Path: "spec/extra/labels", Create: false},
	{Path: "metadata/annotations", Create: true},
	{Kind: "StatefulSet", Path: "spec/volumeClaimTemplates[]/metadata/labels", Create: true},
	{Version: "v1", Kind: "Service", Path: "spec/selector", Create: true},
	{Kind: "Widget", Path: "spec/selector/matchLabels", Create: true},
	{Kind: "Widget", Path: "spec/template/metadata/labels", Create: true},
	{Group: "apps", Version: "v1", Kind: "StatefulSet", Path: "spec/template/metadata/labels", Create: true},
	{Path: "spec/ports[]/labels", Kind: "Service", Create: true},
	// same kind and path as a default row but another group / version: must NOT count as already present
	{Group: "example.com", Kind: "StatefulSet", Path: "spec/template/metadata/labels", Create: true},
	{Group: "batch", Version: "v2", Kind: "Job", Path: "spec/template/metadata/labels", Create: true},
	{Group: "example.com", Kind: "StatefulSet", Path: "spec/selector/matchLabels", Create: true},
	// creating twins of non-creating default rows: a null value that an earlier non-creating row passed must come out
	// with the labels of the creating directive only (regression for R-setentry-null-scalar, corpus builds[4])
	{Kind: "NetworkPolicy", Path: "spec/podSelector/matchLabels", Create: true},
	{Kind: "Deployment", Path: "spec/selector/matchLabels", Create: true},
}

func genDirs(rng *Rng, allowFields bool) c08Dirs {
	d := c08Dirs{}
	if rng.Chance(45) {
		d.CommonLabels = genPairs(rng, 1, 2)
	}
	if rng.Chance(55) {
		n := 1 + rng.Intn(2)
		for i := 0; i < n; i++ {
			e := c08Label{Pairs: genPairs(rng, 1, 2)}
			// a fresh key most of the time: the interesting collisions stay a minority
			if rng.Chance(60) {
				e.Pairs[0].K = rng.Pick([]string{"rel", "owner", "part-of"})
			}
			e.IncludeSelectors = rng.Chance(40)
			e.IncludeTemplates = rng.Chance(40)
			if allowFields && rng.Chance(18) {
				e.Fields = append(e.Fields, c08CustomFields[rng.Intn(len(c08CustomFields))])
				if rng.Chance(20) {
					e.Fields = append(e.Fields, c08CustomFields[rng.Intn(len(c08CustomFields))])
				}
			}
			if rng.Chance(4) {
				e.Pairs = nil
			}
			d.Labels = append(d.Labels, e)
		}
	}
	if rng.Chance(30) {
		d.CommonAnnotations = genPairs(rng, 1, 2)
	}
	return d
}

func c08genTree(rng *Rng, depth int, counter *int, top bool) *c08Tree {
	t := &c08Tree{Dirs: genDirs(rng, true)}
	if depth > 1 {
		nb := 0
		switch r := rng.Intn(100); {
		case r < 55:
			nb = 1
		case r < 70:
			nb = 2
		}
		if top && depth > 1 && nb == 0 && rng.Chance(60) {
			nb = 1
		}
		for i := 0; i < nb; i++ {
			t.Bases = append(t.Bases, c08genTree(rng, depth-1, counter, false))
		}
	}
	n := rng.Intn(4)
	if len(t.Bases) == 0 && n == 0 {
		n = 1 + rng.Intn(3)
	}
	pods := [][]c08kv{}
	for i := 0; i < n; i++ {
		kind := rng.Pick(c08Kinds)
		// selecting kinds after at least one workload, mostly
		if i == 0 && (kind == "Service" || kind == "NetworkPolicy" || kind == "PodDisruptionBudget") && rng.Chance(70) {
			kind = rng.Pick(c08Kinds[:8])
		}
		name := fmt.Sprintf("r%d", *counter)
		*counter++
		t.Own = append(t.Own, genRes(rng, kind, name, &pods))
	}
	return t
}

// ---------- writing the tree to an in-memory file system ----------

func c08q(s string) string { return strconv.Quote(s) }

func pairsYaml(b *strings.Builder, indent string, l []c08kv) {
	for _, e := range l {
		fmt.Fprintf(b, "%s%s: %s\n", indent, c08q(e.K), c08q(e.V))
	}
}

func kustomizationYaml(t *c08Tree) string {
	var b strings.Builder
	b.WriteString("apiVersion: kustomize.config.k8s.io/v1beta1\nkind: Kustomization\n")
	if len(t.Bases)+len(t.Own) > 0 {
		b.WriteString("resources:\n")
		for i := range t.Bases {
			fmt.Fprintf(&b, "- b%d\n", i)
		}
		for _, r := range t.Own {
			fmt.Fprintf(&b, "- %s.yaml\n", r.Name)
		}
	}
	if t.Crd != "" {
		b.WriteString("crds:\n- crd.json\n")
	}
	d := t.Dirs
	if len(d.CommonLabels) > 0 {
		b.WriteString("commonLabels:\n")
		pairsYaml(&b, "  ", d.CommonLabels)
	}
	if len(d.Labels) > 0 {
		b.WriteString("labels:\n")
		for _, e := range d.Labels {
			if len(e.Pairs) == 0 {
				b.WriteString("- pairs: {}\n")
			} else {
				b.WriteString("- pairs:\n")
				pairsYaml(&b, "    ", e.Pairs)
			}
			if e.IncludeSelectors {
				b.WriteString("  includeSelectors: true\n")
			}
			if e.IncludeTemplates {
				b.WriteString("  includeTemplates: true\n")
			}
			if len(e.Fields) > 0 {
				b.WriteString("  fields:\n")
				for _, f := range e.Fields {
					fmt.Fprintf(&b, "  - path: %s\n", c08q(f.Path))
					if f.Group != "" {
						fmt.Fprintf(&b, "    group: %s\n", c08q(f.Group))
					}
					if f.Version != "" {
						fmt.Fprintf(&b, "    version: %s\n", c08q(f.Version))
					}
					if f.Kind != "" {
						fmt.Fprintf(&b, "    kind: %s\n", c08q(f.Kind))
					}
					if f.Create {
						b.WriteString("    create: true\n")
					}
				}
			}
		}
	}
	if len(d.CommonAnnotations) > 0 {
		b.WriteString("commonAnnotations:\n")
		pairsYaml(&b, "  ", d.CommonAnnotations)
	}
	return b.String()
}

func writeTree(fs filesys.FileSystem, dir string, t *c08Tree) error {
	if err := fs.MkdirAll(dir); err != nil {
		return err
	}
	if err := fs.WriteFile(dir+"/kustomization.yaml", []byte(kustomizationYaml(t))); err != nil {
		return err
	}
	if t.Crd != "" {
		if err := fs.WriteFile(dir+"/crd.json", []byte(t.Crd)); err != nil {
			return err
		}
	}
	for _, r := range t.Own {
		text := r.Yaml
		if r.File != "" {
			text = r.File
		}
		if err := fs.WriteFile(dir+"/"+r.Name+".yaml", []byte(text)); err != nil {
			return err
		}
	}
	for i, b := range t.Bases {
		if err := writeTree(fs, fmt.Sprintf("%s/b%d", dir, i), b); err != nil {
			return err
		}
	}
	return nil
}

// flat lists the resources in accumulation order (bases first, then own files) with the directive
// chain of each (innermost layer first).
type flatRes struct {
	Res   c08Res
	Chain []c08Dirs
	Layer int // identity of the innermost layer
}

func flatten(t *c08Tree, layerId *int) []flatRes {
	out := []flatRes{}
	for _, b := range t.Bases {
		for _, fr := range flatten(b, layerId) {
			fr.Chain = append(append([]c08Dirs{}, fr.Chain...), t.Dirs)
			out = append(out, fr)
		}
	}
	*layerId++
	id := *layerId
	for _, r := range t.Own {
		out = append(out, flatRes{Res: r, Chain: []c08Dirs{t.Dirs}, Layer: id})
	}
	return out
}

type buildOut struct {
	cls  string
	msg  string
	outs map[string]*kyaml.RNode // by metadata.name
	n    int
}

func runBuild(t *c08Tree) buildOut {
	fs := filesys.MakeFsInMemory()
	if err := writeTree(fs, "/t", t); err != nil {
		return buildOut{cls: "setup-error", msg: err.Error()}
	}
	bo := buildOut{outs: map[string]*kyaml.RNode{}}
	bo.cls, bo.msg = protect(func() error {
		k := krusty.MakeKustomizer(krusty.MakeDefaultOptions())
		m, err := k.Run(fs, "/t")
		if err != nil {
			return err
		}
		for _, r := range m.Resources() {
			bo.outs[r.GetName()] = r.RNode.Copy()
			bo.n++
		}
		return nil
	})
	return bo
}

// ---------- Coq terms ----------

func c08coqPairs(l []c08kv) string {
	parts := make([]string, len(l))
	for i, e := range l {
		parts[i] = fmt.Sprintf("(%s, %s)", coqStr(e.K), coqStr(e.V))
	}
	return "[" + strings.Join(parts, "; ") + "]"
}

func coqFs(f c08fsSpec) string {
	return fmt.Sprintf("(mkFs %s %s %s %s %s)", coqStr(f.Group), coqStr(f.Version), coqStr(f.Kind), coqStr(f.Path), coqBool(f.Create))
}

func coqFsList(l []c08fsSpec) string {
	parts := make([]string, len(l))
	for i, f := range l {
		parts[i] = coqFs(f)
	}
	return "[" + strings.Join(parts, "; ") + "]"
}

func coqDirs(d c08Dirs) string {
	ls := make([]string, len(d.Labels))
	for i, e := range d.Labels {
		ls[i] = fmt.Sprintf("(mkLD %s %s %s %s)", c08coqPairs(e.Pairs), coqBool(e.IncludeSelectors), coqBool(e.IncludeTemplates), coqFsList(e.Fields))
	}
	return fmt.Sprintf("(mkDirs [%s] %s %s)", strings.Join(ls, "; "), c08coqPairs(d.CommonLabels), c08coqPairs(d.CommonAnnotations))
}

func c08coqLayer(t *c08Tree) (string, bool) {
	if t.Crd != "" {
		return "", false // the CRD loader is outside the model
	}
	own := []string{}
	for _, r := range t.Own {
		n, err := kyaml.Parse(r.Yaml)
		if err != nil {
			return "", false
		}
		s, ok := nodeTerm(n)
		if !ok {
			return "", false
		}
		own = append(own, s)
	}
	bases := []string{}
	for _, b := range t.Bases {
		s, ok := c08coqLayer(b)
		if !ok {
			return "", false
		}
		bases = append(bases, s)
	}
	return fmt.Sprintf("(Layer %s [%s] [%s])", coqDirs(t.Dirs), strings.Join(own, "; "), strings.Join(bases, "; ")), true
}

// ---------- reading label maps on the implementation side (oracles) ----------

// getAt follows mapping fields; nil when the path leaves mappings.
func getAt(n *kyaml.Node, path []string) *kyaml.Node {
	for _, p := range path {
		if n == nil || n.Kind != kyaml.MappingNode {
			return nil
		}
		var next *kyaml.Node
		for i := 0; i+1 < len(n.Content); i += 2 {
			if n.Content[i].Value == p {
				next = n.Content[i+1]
				break
			}
		}
		if next == nil {
			return nil
		}
		n = next
	}
	return n
}

func lmapOf(n *kyaml.Node) []c08kv {
	out := []c08kv{}
	if n == nil || n.Kind != kyaml.MappingNode {
		return out
	}
	for i := 0; i+1 < len(n.Content); i += 2 {
		out = append(out, c08kv{n.Content[i].Value, n.Content[i+1].Value})
	}
	return out
}

func lookupKV(l []c08kv, k string) (string, bool) {
	for _, e := range l {
		if e.K == k {
			return e.V, true
		}
	}
	return "", false
}

// subKV: every requirement of s is met by l; returns the first offending key.
func subKV(s, l []c08kv) (bool, string) {
	for _, e := range s {
		v, _ := lookupKV(s, e.K)
		w, ok := lookupKV(l, e.K)
		if !ok || v != w {
			return false, e.K
		}
	}
	return true, ""
}

var selPaths = map[string]string{
	"Deployment": "spec/selector/matchLabels", "ReplicaSet": "spec/selector/matchLabels",
	"DaemonSet": "spec/selector/matchLabels", "StatefulSet": "spec/selector/matchLabels",
	"Job": "spec/selector/matchLabels", "CronJob": "spec/jobTemplate/spec/selector/matchLabels",
	"ReplicationController": "spec/selector", "Service": "spec/selector",
	"NetworkPolicy": "spec/podSelector/matchLabels", "PodDisruptionBudget": "spec/selector/matchLabels",
}
var tmplPaths = map[string]string{
	"Deployment": "spec/template/metadata/labels", "ReplicaSet": "spec/template/metadata/labels",
	"DaemonSet": "spec/template/metadata/labels", "StatefulSet": "spec/template/metadata/labels",
	"Job": "spec/template/metadata/labels", "CronJob": "spec/jobTemplate/spec/template/metadata/labels",
	"ReplicationController": "spec/template/metadata/labels", "Pod": "metadata/labels",
}

func kindOfNode(n *kyaml.Node) string {
	k := getAt(n, []string{"kind"})
	if k == nil {
		return ""
	}
	return k.Value
}

func selOf(n *kyaml.Node) []c08kv {
	p, ok := selPaths[kindOfNode(n)]
	if !ok {
		return []c08kv{}
	}
	return lmapOf(getAt(n, strings.Split(p, "/")))
}
func podLabelsOf(n *kyaml.Node) []c08kv {
	p, ok := tmplPaths[kindOfNode(n)]
	if !ok {
		return []c08kv{}
	}
	return lmapOf(getAt(n, strings.Split(p, "/")))
}

// shapeOK: along the path every present node is a mapping or null (no sequence, no scalar);
// the domain restriction [no_seq_along] of the theorems.
func shapeOK(n *kyaml.Node, path []string) bool {
	for _, p := range path {
		if n == nil {
			return true
		}
		if n.Kind == kyaml.ScalarNode && n.Tag == kyaml.NodeTagNull {
			return true
		}
		if n.Kind != kyaml.MappingNode {
			return false
		}
		var next *kyaml.Node
		for i := 0; i+1 < len(n.Content); i += 2 {
			if n.Content[i].Value == p {
				next = n.Content[i+1]
				break
			}
		}
		n = next
	}
	if n == nil || n.Kind == kyaml.MappingNode || (n.Kind == kyaml.ScalarNode && n.Tag == kyaml.NodeTagNull) {
		return true
	}
	return false
}

// tmplCovered: the default tables have a create=true pod-template row matching this object
// (table rows: Deployment/ReplicaSet/DaemonSet any group, StatefulSet group apps, Job/CronJob group batch,
// ReplicationController version v1, Pod through metadata/labels).
func tmplCovered(n *kyaml.Node) bool {
	av := ""
	if a := getAt(n, []string{"apiVersion"}); a != nil {
		av = a.Value
	}
	g, v := resid.ParseGroupVersion(av)
	switch kindOfNode(n) {
	case "Deployment", "ReplicaSet", "DaemonSet", "Pod":
		return true
	case "StatefulSet":
		return g == "apps"
	case "Job", "CronJob":
		return g == "batch"
	case "ReplicationController":
		return v == "v1"
	}
	return false
}

func chainHasFields(ch []c08Dirs) bool {
	for _, d := range ch {
		for _, e := range d.Labels {
			if len(e.Fields) > 0 {
				return true
			}
		}
	}
	return false
}

// nonSelectorKeys: keys set by label entries without includeSelectors.
func nonSelectorKeys(ch []c08Dirs) map[string]bool {
	out := map[string]bool{}
	for _, d := range ch {
		for _, e := range d.Labels {
			if !e.IncludeSelectors {
				for _, p := range e.Pairs {
					out[p.K] = true
				}
			}
		}
	}
	return out
}

// selectorKeys: keys set by commonLabels or by labels entries with includeSelectors.
func selectorKeys(ch []c08Dirs) map[string]bool {
	out := map[string]bool{}
	for _, d := range ch {
		for _, p := range d.CommonLabels {
			out[p.K] = true
		}
		for _, e := range d.Labels {
			if e.IncludeSelectors {
				for _, p := range e.Pairs {
					out[p.K] = true
				}
			}
		}
	}
	return out
}

func chainHasSelectors(ch []c08Dirs) bool {
	for _, d := range ch {
		if len(d.CommonLabels) > 0 {
			return true
		}
		for _, e := range d.Labels {
			if e.IncludeSelectors && len(e.Pairs) > 0 {
				return true
			}
		}
	}
	return false
}

func sameChain(a, b flatRes) bool {
	return a.Layer == b.Layer
}

// expectedLabels: the label map a location must end with when every label directive of the chain
// reaches it (which = 0 metadata, 1 pod template): sorted keys per directive, outermost last.
func expectedLabels(in []c08kv, ch []c08Dirs, which int) []c08kv {
	cur := append([]c08kv{}, in...)
	apply := func(l []c08kv) {
		s := append([]c08kv{}, l...)
		sort.Slice(s, func(i, j int) bool { return s[i].K < s[j].K })
		for _, e := range s {
			found := false
			for i := range cur {
				if cur[i].K == e.K {
					cur[i].V = e.V
					found = true
					break
				}
			}
			if !found {
				cur = append(cur, e)
			}
		}
	}
	for _, d := range ch {
		for _, e := range d.Labels {
			if which == 0 || e.IncludeSelectors || (which == 1 && e.IncludeTemplates) {
				apply(e.Pairs)
			}
		}
		apply(d.CommonLabels)
	}
	return cur
}

func firstDiffKey(want, got []c08kv) string {
	for _, e := range want {
		if v, ok := lookupKV(got, e.K); !ok || v != e.V {
			return e.K
		}
	}
	for _, e := range got {
		if _, ok := lookupKV(want, e.K); !ok {
			return e.K
		}
	}
	return ""
}

func isMapAt(n *kyaml.Node, path []string) bool {
	x := getAt(n, path)
	return x != nil && x.Kind == kyaml.MappingNode
}

// selCreates: the default selector row of the kind has create=true.
func selCreates(kind string) bool {
	switch kind {
	case "Service", "ReplicationController", "Deployment", "ReplicaSet", "DaemonSet", "StatefulSet":
		return true
	}
	return false
}

// selCovered: the default tables have a selector row matching this object's apiVersion.
func selCovered(n *kyaml.Node) bool {
	av := ""
	if a := getAt(n, []string{"apiVersion"}); a != nil {
		av = a.Value
	}
	g, v := resid.ParseGroupVersion(av)
	switch kindOfNode(n) {
	case "Deployment", "ReplicaSet", "DaemonSet":
		return true
	case "StatefulSet":
		return g == "apps"
	case "Job", "CronJob":
		return g == "batch"
	case "ReplicationController", "Service":
		return v == "v1"
	case "NetworkPolicy":
		return g == "networking.k8s.io"
	case "PodDisruptionBudget":
		return g == "policy"
	}
	return false
}

func kvEq(a, b []c08kv) bool {
	if len(a) != len(b) {
		return false
	}
	for i := range a {
		if a[i] != b[i] {
			return false
		}
	}
	return true
}

func leaves(n *kyaml.Node, prefix string, acc map[string]string) {
	switch n.Kind {
	case kyaml.MappingNode:
		if len(n.Content) == 0 {
			acc[prefix+"{}"] = ""
		}
		for i := 0; i+1 < len(n.Content); i += 2 {
			leaves(n.Content[i+1], prefix+"/"+n.Content[i].Value, acc)
		}
	case kyaml.SequenceNode:
		if len(n.Content) == 0 {
			acc[prefix+"[]"] = ""
		}
		for i, c := range n.Content {
			leaves(c, fmt.Sprintf("%s/#%d", prefix, i), acc)
		}
	default:
		acc[prefix] = n.Tag + " " + n.Value
	}
}

func labelish(path string) bool {
	for _, seg := range strings.Split(path, "/") {
		switch strings.TrimSuffix(strings.TrimSuffix(seg, "{}"), "[]") {
		case "labels", "annotations", "matchLabels", "selector":
			return true
		}
	}
	return false
}

// oracles08 evaluates the laws of the property on one build (implementation only).
func oracles08(r *Run, t *c08Tree, flat []flatRes, bo buildOut) {
	if bo.cls != ClsOk {
		return
	}
	report := func(law, class, detail string) {
		r.Violation(OracleViolation{Law: law, Class: class, Detail: detail, Replay: t})
	}
	type io struct {
		fr      flatRes
		in, out *kyaml.Node
	}
	ios := []io{}
	for _, fr := range flat {
		in, err := kyaml.Parse(fr.Res.Yaml)
		if err != nil {
			continue
		}
		out, ok := bo.outs[fr.Res.Name]
		if !ok {
			report("resource_kept", "C08/resource_lost", "resource "+fr.Res.Name+" is missing from the build output")
			continue
		}
		ios = append(ios, io{fr, in.YNode(), out.YNode()})
		var dirty []string
		r.Count("oracle", "parse_clean")
		if scalarsWithContent(in.YNode(), "", &dirty); len(dirty) > 0 {
			report("parse_clean", "C08/parse_clean", "a parsed document has a scalar node with children: "+strings.Join(dirty, ", "))
			continue
		}
		r.Count("oracle", "no_hidden_content")
		if scalarsWithContent(out.YNode(), "", &dirty); len(dirty) > 0 {
			report("no_hidden_content", c08HiddenClass, fmt.Sprintf("%s %s: after the build a scalar node carries hidden child nodes: %s", fr.Res.Kind, fr.Res.Name, strings.Join(dirty, ", ")))
		}
	}
	// Only one failure shape of own_selector / selects_preserved is a listed finding (documented behaviour): the
	// broken key was written by a labels entry WITHOUT includeSelectors although a selector uses it - either the
	// input selector or a commonLabels / includeSelectors directive of the chain put it there.
	classify := func(law string, fr flatRes, key string, selIn []c08kv) string {
		_, had := lookupKV(selIn, key)
		if nonSelectorKeys(fr.Chain)[key] && (had || selectorKeys(fr.Chain)[key]) {
			return "C08/" + law + "/selected-key-overridden-without-includeSelectors"
		}
		return "C08/" + law
	}
	for _, x := range ios {
		kind := x.fr.Res.Kind
		// (1) own selector still matches the own pod template
		if tp, isW := tmplPaths[kind]; isW && kind != "Pod" {
			selIn, podIn := selOf(x.in), podLabelsOf(x.in)
			okIn, _ := subKV(selIn, podIn)
			if okIn && shapeOK(x.in, strings.Split(tp, "/")) && !chainHasFields(x.fr.Chain) {
				r.Count("oracle", "own_selector")
				if ok, key := subKV(selOf(x.out), podLabelsOf(x.out)); !ok {
					report("own_selector", classify("own_selector", x.fr, key, selIn),
						fmt.Sprintf("%s %s: selector %v no longer matches its template labels %v (key %q)", kind, x.fr.Res.Name, selOf(x.out), podLabelsOf(x.out), key))
				}
			}
		}
		// (3) no includeSelectors anywhere in the chain, no custom fields: selectors are untouched
		if _, hasSel := selPaths[kind]; hasSel && !chainHasSelectors(x.fr.Chain) && !chainHasFields(x.fr.Chain) {
			r.Count("oracle", "no_selector_change")
			if !kvEq(selOf(x.in), selOf(x.out)) {
				report("no_selector_change", "C08/no_selector_change",
					fmt.Sprintf("%s %s: selector changed from %v to %v without includeSelectors", kind, x.fr.Res.Name, selOf(x.in), selOf(x.out)))
			}
		}
		// (3b) the selector receives exactly the labels of the directives that include selectors
		if sp, hasSel := selPaths[kind]; hasSel && !chainHasFields(x.fr.Chain) && selCovered(x.in) && shapeOK(x.in, strings.Split(sp, "/")) {
			r.Count("oracle", "selector_union")
			selIn := selOf(x.in)
			want := selIn
			if selCreates(kind) || isMapAt(x.in, strings.Split(sp, "/")) {
				want = expectedLabels(selIn, x.fr.Chain, 2)
			}
			if got := selOf(x.out); !kvEq(want, got) {
				report("no_selector_change", "C08/selector_union",
					fmt.Sprintf("%s %s: selector %v, expected %v (labels without includeSelectors must not reach it)", kind, x.fr.Res.Name, got, want))
			}
		}
		// (4) exact locations: metadata labels = input overridden by the chain; pod template likewise;
		// nothing outside label/annotation/selector locations changes
		if !chainHasFields(x.fr.Chain) {
			if shapeOK(x.in, []string{"metadata", "labels"}) {
				r.Count("oracle", "metadata_union")
				want := expectedLabels(lmapOf(getAt(x.in, []string{"metadata", "labels"})), x.fr.Chain, 0)
				got := lmapOf(getAt(x.out, []string{"metadata", "labels"}))
				if !kvEq(want, got) {
					report("exact_locations", "C08/metadata_union",
						fmt.Sprintf("%s %s: metadata.labels %v, expected %v", kind, x.fr.Res.Name, got, want))
				}
			}
			if tp, isW := tmplPaths[kind]; isW && kind != "Pod" && tmplCovered(x.in) && shapeOK(x.in, strings.Split(tp, "/")) {
				r.Count("oracle", "template_union")
				want := expectedLabels(podLabelsOf(x.in), x.fr.Chain, 1)
				got := podLabelsOf(x.out)
				if !kvEq(want, got) {
					report("exact_locations", "C08/template_union",
						fmt.Sprintf("%s %s: pod template labels %v, expected %v", kind, x.fr.Res.Name, got, want))
				}
			}
			li, lo := map[string]string{}, map[string]string{}
			leaves(x.in, "", li)
			leaves(x.out, "", lo)
			for p, v := range li {
				if labelish(p) || strings.HasPrefix(v, "!!null") {
					// a null on the way to a label location is turned into a mapping when the field spec creates
					continue
				}
				if w, ok := lo[p]; !ok || w != v {
					// an empty mapping that received a child is not a change of a documented value
					if strings.HasSuffix(p, "{}") {
						continue
					}
					report("exact_locations", "C08/frame",
						fmt.Sprintf("%s %s: value at %s changed from %q to %q", kind, x.fr.Res.Name, p, v, w))
				}
			}
			for p := range lo {
				if base := strings.TrimSuffix(strings.TrimSuffix(p, "[]"), "{}"); base != p && strings.HasPrefix(li[base], "!!null") {
					continue // a null promoted to an empty sequence / mapping by a field spec passing through it
				}
				if _, ok := li[p]; !ok && !labelish(p) {
					report("exact_locations", "C08/frame",
						fmt.Sprintf("%s %s: new value at undocumented location %s", kind, x.fr.Res.Name, p))
				}
			}
		}
	}
	// (2) who selected whom before still does (same directives = same innermost layer)
	for _, s := range ios {
		if _, isSel := selPaths[s.fr.Res.Kind]; !isSel {
			continue
		}
		selIn := selOf(s.in)
		if len(selIn) == 0 {
			continue
		}
		for _, w := range ios {
			tp, isW := tmplPaths[w.fr.Res.Kind]
			if !isW || s.fr.Res.Name == w.fr.Res.Name || !sameChain(s.fr, w.fr) {
				continue
			}
			if ok, _ := subKV(selIn, podLabelsOf(w.in)); !ok {
				continue
			}
			// domain of C08_selects_preserved_partial: the workload is covered by a create=true template row, a
			// selector row matches the selecting object's apiVersion, no custom fields
			if !shapeOK(w.in, strings.Split(tp, "/")) || !tmplCovered(w.in) || !selCovered(s.in) || chainHasFields(s.fr.Chain) {
				continue
			}
			r.Count("oracle", "selects_preserved")
			if ok, key := subKV(selOf(s.out), podLabelsOf(w.out)); !ok {
				report("selects_preserved", classify("selects_preserved", s.fr, key, selIn),
					fmt.Sprintf("%s %s selected the pods of %s %s before the build and no longer does: selector %v, pod labels %v (key %q)",
						s.fr.Res.Kind, s.fr.Res.Name, w.fr.Res.Kind, w.fr.Res.Name, selOf(s.out), podLabelsOf(w.out), key))
			}
		}
	}
}

// ---------- filter-level cases ----------

type c08FilterCase struct {
	Doc    string   `json:"doc"`
	Labels []c08kv     `json:"labels"`
	Fss    []c08fsSpec `json:"fss"`
	Anno   bool     `json:"anno"`
}

var c08RowPool = []c08fsSpec{
	{Version: "v1", Kind: "Service", Path: "spec/selector", Create: true},
	{Version: "v1", Kind: "ReplicationController", Path: "spec/selector", Create: true},
	{Kind: "Deployment", Path: "spec/selector/matchLabels", Create: true},
	{Group: "apps", Kind: "Deployment", Path: "spec/template/spec/affinity/podAntiAffinity/requiredDuringSchedulingIgnoredDuringExecution/labelSelector/matchLabels"},
	{Kind: "ReplicaSet", Path: "spec/selector/matchLabels", Create: true},
	{Kind: "DaemonSet", Path: "spec/selector/matchLabels", Create: true},
	{Group: "apps", Kind: "StatefulSet", Path: "spec/selector/matchLabels", Create: true},
	{Group: "batch", Kind: "Job", Path: "spec/selector/matchLabels"},
	{Group: "batch", Kind: "CronJob", Path: "spec/jobTemplate/spec/selector/matchLabels"},
	{Group: "policy", Kind: "PodDisruptionBudget", Path: "spec/selector/matchLabels"},
	{Group: "networking.k8s.io", Kind: "NetworkPolicy", Path: "spec/podSelector/matchLabels"},
	{Group: "networking.k8s.io", Kind: "NetworkPolicy", Path: "spec/ingress/from/podSelector/matchLabels"},
	{Group: "networking.k8s.io", Kind: "NetworkPolicy", Path: "spec/egress/to/podSelector/matchLabels"},
	{Path: "metadata/labels", Create: true},
	{Path: "metadata/annotations", Create: true},
	{Version: "v1", Kind: "ReplicationController", Path: "spec/template/metadata/labels", Create: true},
	{Kind: "Deployment", Path: "spec/template/metadata/labels", Create: true},
	{Kind: "ReplicaSet", Path: "spec/template/metadata/labels", Create: true},
	{Kind: "DaemonSet", Path: "spec/template/metadata/labels", Create: true},
	{Group: "apps", Kind: "StatefulSet", Path: "spec/template/metadata/labels", Create: true},
	{Group: "apps", Kind: "StatefulSet", Path: "spec/volumeClaimTemplates[]/metadata/labels", Create: true},
	{Group: "batch", Kind: "Job", Path: "spec/template/metadata/labels", Create: true},
	{Group: "batch", Kind: "CronJob", Path: "spec/jobTemplate/metadata/labels", Create: true},
	{Group: "batch", Kind: "CronJob", Path: "spec/jobTemplate/spec/template/metadata/labels", Create: true},
	{Kind: "Deployment", Path: "spec/template/metadata/annotations", Create: true},
}
var c08OddPaths = []string{"spec/ports[]/labels", "metadata", "spec", "a/b", " spec /x", "/metadata/labels", "metadata/labels/",
	"spec//selector", `spec/a\/b/c`, "spec/template/spec/containers[]/env", "spec/template/spec/containers/name", "0/x", "spec/[name=c]/x",
	"spec/-/x", "metadata/name", "spec/replicas", "kind/x", "spec/template[]/metadata/labels", "spec/selector[]", "*"}

func genFilterCase(rng *Rng) c08FilterCase {
	pods := [][]c08kv{}
	kind := rng.Pick(c08Kinds)
	res := genRes(rng, kind, "r0", &pods)
	c := c08FilterCase{Doc: res.Yaml, Labels: genPairs(rng, 0, 3), Anno: rng.Chance(30)}
	n := 1 + rng.Intn(6)
	for i := 0; i < n; i++ {
		var f c08fsSpec
		switch r := rng.Intn(100); {
		case r < 70:
			f = c08RowPool[rng.Intn(len(c08RowPool))]
			if rng.Chance(50) {
				f.Kind = "" // widen so that it applies to the generated kind
				f.Group = ""
				f.Version = ""
			}
		case r < 85:
			f = c08fsSpec{Path: rng.Pick(c08OddPaths), Create: rng.Bool()}
		default:
			f = c08RowPool[rng.Intn(len(c08RowPool))]
			f.Kind, f.Group, f.Version = kind, "", ""
			f.Create = rng.Bool()
		}
		// No restriction on the create flags of equal / prefix-related paths any more: since the repair
		// R-setentry-null-scalar a non-creating row that ends at a null value leaves it alone (it used to hide the
		// entry in the Content of the null scalar, surfacing under a later creating row - not representable in the
		// model's node type; former domain restriction "uniform create flag", former hypothesis uniform_create).
		c.Fss = append(c.Fss, f)
	}
	return c
}

// scalarsWithContent lists the scalar nodes below n that carry child nodes. go-yaml never produces such a
// node (obligation parse_clean, checked on every parsed input); the encoder ignores the children, so they are
// hidden state: invisible in the output, alive in memory, surfacing when the node is retagged as a mapping.
// This is the reason for the model's domain restriction (uniform_create): Yaml/Node.v scalars have no children,
// i.e. the abstraction yaml.Node -> node is lossless exactly on nodes for which this list is empty.
func scalarsWithContent(n *kyaml.Node, path string, acc *[]string) {
	if n == nil {
		return
	}
	switch n.Kind {
	case kyaml.ScalarNode:
		if len(n.Content) > 0 {
			*acc = append(*acc, fmt.Sprintf("%s (tag %s, %d hidden nodes)", path, n.Tag, len(n.Content)))
		}
	case kyaml.MappingNode:
		for i := 0; i+1 < len(n.Content); i += 2 {
			scalarsWithContent(n.Content[i], path+"/"+n.Content[i].Value+"#key", acc)
			scalarsWithContent(n.Content[i+1], path+"/"+n.Content[i].Value, acc)
		}
	default:
		for i, c := range n.Content {
			scalarsWithContent(c, fmt.Sprintf("%s/%d", path, i), acc)
		}
	}
}

const c08HiddenClass = "C08/no_hidden_content/entries-in-null-scalar"

func toFsSlice(l []c08fsSpec) types.FsSlice {
	out := types.FsSlice{}
	for _, f := range l {
		out = append(out, types.FieldSpec{Gvk: resid.Gvk{Group: f.Group, Version: f.Version, Kind: f.Kind}, Path: f.Path, CreateIfNotPresent: f.Create})
	}
	return out
}

func kvMap(l []c08kv) map[string]string {
	m := map[string]string{}
	for _, e := range l {
		m[e.K] = e.V
	}
	return m
}

func execFilter(c c08FilterCase) (cls string, doc *kyaml.RNode, msg string) {
	doc, err := kyaml.Parse(c.Doc)
	if err != nil {
		return "parse-error", nil, err.Error()
	}
	cls, msg = protect(func() error {
		var e error
		if c.Anno {
			_, e = annotations.Filter{Annotations: kvMap(c.Labels), FsSlice: toFsSlice(c.Fss)}.Filter([]*kyaml.RNode{doc})
		} else {
			_, e = labels.Filter{Labels: kvMap(c.Labels), FsSlice: toFsSlice(c.Fss)}.Filter([]*kyaml.RNode{doc})
		}
		return e
	})
	return cls, doc, msg
}

func runFilterCase(r *Run, c c08FilterCase) {
	orig, err := kyaml.Parse(c.Doc)
	if err != nil {
		r.Meta.Skipped++
		return
	}
	d0, ok := nodeTerm(orig)
	if !ok {
		r.Meta.Skipped++
		return
	}
	r.Count("oracle", "parse_clean")
	var dirty []string
	if scalarsWithContent(orig.YNode(), "", &dirty); len(dirty) > 0 {
		r.Violation(OracleViolation{Law: "parse_clean", Class: "C08/parse_clean", Detail: "a parsed document has a scalar node with children: " + strings.Join(dirty, ", "),
			Replay: map[string]interface{}{"filter": c}})
	}
	cls, doc, _ := execFilter(c)
	if cls == ClsOk {
		r.Count("oracle", "no_hidden_content")
		if scalarsWithContent(doc.YNode(), "", &dirty); len(dirty) > 0 {
			r.Violation(OracleViolation{Law: "no_hidden_content", Class: c08HiddenClass,
				Detail: "after the filter a scalar node carries hidden child nodes: " + strings.Join(dirty, ", "), Replay: map[string]interface{}{"filter": c}})
		}
	}
	r.Count("filter_class", cls)
	r.Count("filter_keys", fmt.Sprint(len(c.Labels)))
	after := `(Scalar TNone SPlain "")`
	changed := false
	if cls == ClsOk {
		a, ok := nodeTerm(doc)
		if !ok {
			r.Meta.Skipped++
			return
		}
		after = a
		changed = a != d0
	}
	if changed {
		r.Count("filter_effect", "changed")
	} else {
		r.Count("filter_effect", "unchanged")
	}
	term := fmt.Sprintf("(CFilter %s %s %s %s %s)", c08coqPairs(c.Labels), coqFsList(c.Fss), d0, cls, after)
	r.AddCase(term, map[string]interface{}{"filter": c}, changed)
}

func countTree(r *Run, t *c08Tree, depth int, maxDepth *int) {
	if depth > *maxDepth {
		*maxDepth = depth
	}
	d := t.Dirs
	if len(d.CommonLabels) > 0 {
		r.Count("directive", "commonLabels")
	}
	if len(d.CommonAnnotations) > 0 {
		r.Count("directive", "commonAnnotations")
	}
	for _, e := range d.Labels {
		k := "labels"
		if e.IncludeSelectors {
			k += "+selectors"
		}
		if e.IncludeTemplates {
			k += "+templates"
		}
		if len(e.Fields) > 0 {
			k += "+fields"
		}
		r.Count("directive", k)
	}
	for _, o := range t.Own {
		r.Count("kind", o.Kind)
	}
	for _, b := range t.Bases {
		countTree(r, b, depth+1, maxDepth)
	}
}

func runBuildCase(r *Run, t *c08Tree, toModel bool) {
	lid := 0
	flat := flatten(t, &lid)
	bo := runBuild(t)
	if bo.cls == "setup-error" {
		r.Meta.Skipped++
		return
	}
	md := 0
	countTree(r, t, 1, &md)
	r.Count("layers", fmt.Sprint(md))
	r.Count("build_class", bo.cls)
	if bo.cls == ClsErr {
		switch {
		case strings.Contains(bo.msg, "conflicting fieldspecs"):
			r.Count("build_error", "conflicting fieldspecs")
		case strings.Contains(bo.msg, "considering field"):
			r.Count("build_error", "field-spec filter error")
		default:
			r.Count("build_error", "other: "+c08firstN(bo.msg, 60))
		}
	}
	oracles08(r, t, flat, bo)
	oracleFields08(r, t, flat, bo)
	if bo.cls != ClsOk {
		// Domain restriction: errors / panics of other build stages (name references, hashing, ...) are
		// outside the model. The tree is sent to the model only if the same tree without any label or
		// annotation directive builds.
		if sb := runBuild(stripDirs(t)); sb.cls != ClsOk {
			r.Count("build_skipped", "fails without directives too ("+sb.cls+")")
			r.Meta.Skipped++
			return
		}
	}
	if !toModel {
		b, _ := json.Marshal(t)
		r.AddEval(string(b), bo.cls == ClsOk)
		return
	}
	lt, ok := c08coqLayer(t)
	if !ok {
		r.Meta.Skipped++
		return
	}
	outs := []string{}
	if bo.cls == ClsOk {
		for _, fr := range flat {
			o, ok := bo.outs[fr.Res.Name]
			if !ok {
				continue
			}
			s, ok := nodeTerm(o)
			if !ok {
				r.Meta.Skipped++
				return
			}
			outs = append(outs, s)
		}
		if bo.n != len(flat) {
			outs = append(outs, `(Scalar TNone SPlain "unexpected extra output resource")`)
		}
	}
	nontrivial := bo.cls == ClsOk && (len(t.Dirs.CommonLabels) > 0 || len(t.Dirs.Labels) > 0 || len(t.Dirs.CommonAnnotations) > 0 || len(t.Bases) > 0)
	term := fmt.Sprintf("(CBuild %s %s [%s])", lt, bo.cls, strings.Join(outs, "; "))
	r.AddCase(term, map[string]interface{}{"build": t}, nontrivial)
}

func stripFields(t *c08Tree) (*c08Tree, bool) {
	out := &c08Tree{Own: t.Own, Dirs: t.Dirs, Crd: t.Crd}
	had := false
	out.Dirs.Labels = nil
	for _, e := range t.Dirs.Labels {
		if len(e.Fields) > 0 {
			had = true
		}
		e.Fields = nil
		out.Dirs.Labels = append(out.Dirs.Labels, e)
	}
	for _, b := range t.Bases {
		sb, h := stripFields(b)
		had = had || h
		out.Bases = append(out.Bases, sb)
	}
	return out, had
}

// narrowerTwin: a custom field spec with the path of a default row and a strictly narrower group/version/kind.
func narrowerTwin(ch []c08Dirs) bool {
	for _, d := range ch {
		for _, e := range d.Labels {
			for _, f := range e.Fields {
				for _, row := range c08RowPool {
					if row.Path != f.Path {
						continue
					}
					covers := (row.Group == "" || row.Group == f.Group) && (row.Version == "" || row.Version == f.Version) && (row.Kind == "" || row.Kind == f.Kind)
					if covers && (row.Group != f.Group || row.Version != f.Version || row.Kind != f.Kind) {
						return true
					}
				}
			}
		}
	}
	return false
}

// oracleFields08: custom field specs only add locations. Every label key that reaches a metadata /
// selector / pod-template location when the `fields` of all entries are removed must also reach it
// with them (FsSlice.MergeAll must not lose a default row).
func oracleFields08(r *Run, t *c08Tree, flat []flatRes, bo buildOut) {
	if bo.cls != ClsOk {
		return
	}
	nf, had := stripFields(t)
	if !had {
		return
	}
	ref := runBuild(nf)
	if ref.cls != ClsOk {
		return
	}
	for _, fr := range flat {
		a, ok1 := bo.outs[fr.Res.Name]
		b, ok2 := ref.outs[fr.Res.Name]
		if !ok1 || !ok2 {
			continue
		}
		r.Count("oracle", "fields_only_add")
		type rd func(*kyaml.Node) []c08kv
		for name, f := range map[string]rd{"metadata.labels": func(n *kyaml.Node) []c08kv { return lmapOf(getAt(n, []string{"metadata", "labels"})) },
			"selector": selOf, "pod template labels": podLabelsOf} {
			with, without := f(a.YNode()), f(b.YNode())
			for _, e := range without {
				if _, ok := lookupKV(with, e.K); !ok {
					cls := "C08/fields_only_add"
					if narrowerTwin(fr.Chain) {
						cls += "/default-row-shadowed-by-narrower-custom-spec"
					}
					r.Violation(OracleViolation{Law: "fields_only_add", Class: cls, Replay: t,
						Detail: fmt.Sprintf("%s %s: label %q reaches %s without the custom `fields` of the labels entries but not with them (%v vs %v)",
							fr.Res.Kind, fr.Res.Name, e.K, name, without, with)})
				}
			}
		}
	}
}

func stripDirs(t *c08Tree) *c08Tree {
	out := &c08Tree{Own: t.Own, Crd: t.Crd}
	for _, b := range t.Bases {
		out.Bases = append(out.Bases, stripDirs(b))
	}
	return out
}

func c08firstN(s string, n int) string {
	if len(s) > n {
		return s[:n]
	}
	return s
}

type c08Corpus struct {
	Builds  []*c08Tree      `json:"builds"`
	Filters []c08FilterCase `json:"filters"`
}

func loadCorpus08() c08Corpus {
	var c c08Corpus
	data, err := os.ReadFile(verifRoot() + "/corpus/C08/cases.json")
	if err != nil {
		return c
	}
	_ = json.Unmarshal(data, &c)
	return c
}

// configBuild08 runs a build whose kustomization adds label field specs through `configurations:`. It is not
// sent to the model (custom transformer configurations are outside it); its purpose is the builds that FOLLOW
// in the same process: the default field-spec tables are process-wide state, and a configuration build that
// leaks into them (e.g. TransformerConfig.DeepCopy sharing a slice) shows up as model mismatches / union
// violations of the ordinary builds after it. The build itself is checked for its documented effect.
func configBuild08(r *Run, rng *Rng) {
	key, val := rng.Pick([]string{"cfg", "origin", "zone"}), rng.Pick([]string{"a", "b"})
	extra := rng.Pick([]string{"spec/extra/labels", "spec/meta/labels", "aaa/labels"})
	fs := filesys.MakeFsInMemory()
	_ = fs.MkdirAll("/c")
	_ = fs.WriteFile("/c/kustomization.yaml", []byte("apiVersion: kustomize.config.k8s.io/v1beta1\nkind: Kustomization\nresources:\n- w.yaml\n- d.yaml\n"+
		"configurations:\n- cfg.yaml\ncommonLabels:\n  "+key+": "+val+"\n"))
	_ = fs.WriteFile("/c/cfg.yaml", []byte("commonLabels:\n- path: "+extra+"\n  create: true\n  kind: Widget\n- path: spec/other/labels\n  create: true\n  kind: Gadget\n"))
	_ = fs.WriteFile("/c/w.yaml", []byte("apiVersion: example.com/v1\nkind: Widget\nmetadata:\n  name: w\nspec:\n  size: 1\n"))
	_ = fs.WriteFile("/c/d.yaml", []byte("apiVersion: apps/v1\nkind: Deployment\nmetadata:\n  name: d\nspec:\n  template:\n    spec:\n      containers:\n      - name: c\n        image: nginx\n"))
	var outs map[string]*kyaml.RNode
	cls, msg := protect(func() error {
		m, err := krusty.MakeKustomizer(krusty.MakeDefaultOptions()).Run(fs, "/c")
		if err != nil {
			return err
		}
		outs = map[string]*kyaml.RNode{}
		for _, res := range m.Resources() {
			outs[res.GetName()] = res.RNode.Copy()
		}
		return nil
	})
	r.Count("config_build", cls)
	r.AddEval("configbuild/"+key+val+extra, cls == ClsOk)
	bad := func(detail string) {
		r.Violation(OracleViolation{Law: "exact_locations", Class: "C08/configurations", Detail: detail,
			Replay: map[string]string{"note": "configuration build (custom commonLabels field spec for kind Widget at " + extra + ")"}})
	}
	if cls != ClsOk {
		bad("build with `configurations:` failed: " + c08firstN(msg, 200))
		return
	}
	want := []c08kv{{key, val}}
	w, d := outs["w"], outs["d"]
	if w == nil || d == nil {
		bad("resource lost")
		return
	}
	if got := lmapOf(getAt(w.YNode(), strings.Split(extra, "/"))); !kvEq(got, want) {
		bad(fmt.Sprintf("Widget: labels at the configured path %s are %v, expected %v", extra, got, want))
	}
	for name, n := range map[string]*kyaml.RNode{"Widget": w, "Deployment": d} {
		if got := lmapOf(getAt(n.YNode(), []string{"metadata", "labels"})); !kvEq(got, want) {
			bad(fmt.Sprintf("%s: metadata.labels %v, expected %v", name, got, want))
		}
	}
	if got := lmapOf(getAt(d.YNode(), []string{"spec", "template", "metadata", "labels"})); !kvEq(got, want) {
		bad(fmt.Sprintf("Deployment: pod template labels %v, expected %v", got, want))
	}
	if got := lmapOf(getAt(d.YNode(), []string{"spec", "selector", "matchLabels"})); !kvEq(got, want) {
		bad(fmt.Sprintf("Deployment: selector %v, expected %v", got, want))
	}
}

func runC08(r *Run, rng *Rng, tier string) error {
	rng = rng.Fork() // decorrelate consecutive seeds (NewRng streams of s and s+1 overlap)
	nBuild, nFilter, nSearch, nCrd, nAnchor := 260, 500, 500, 150, 200
	if tier == "thorough" {
		nBuild, nFilter, nSearch, nCrd, nAnchor = 2200, 4500, 9000, 2500, 3000
	}
	r.Meta.Rule = "builds: kustomization trees of depth 1-3 (0-2 bases per layer, 0-3 resources per layer) over Deployment/StatefulSet/DaemonSet/ReplicaSet/Job/CronJob/Pod/" +
		"ReplicationController/Service/NetworkPolicy/PodDisruptionBudget/ConfigMap/custom kind, label maps present/absent/{}/null, rare odd shapes; directives commonLabels, " +
		"labels(includeSelectors, includeTemplates, fields incl. conflicting and shadowing specs), commonAnnotations on any subset of layers; " +
		"filters: labels.Filter/annotations.Filter with 1-6 field specs (default rows, widened rows, malformed paths). non-trivial = build with a directive or a base / filter changed the document; distinct by hash of the case term"
	corp := loadCorpus08()
	for _, t := range corp.Builds {
		runBuildCase(r, t, true)
	}
	for _, c := range corp.Filters {
		runFilterCase(r, c)
	}
	for i := 0; i < nBuild; i++ {
		g := rng.Fork()
		if i%25 == 3 {
			configBuild08(r, g.Fork()) // process-wide table state: see configBuild08
		}
		cnt := 0
		runBuildCase(r, c08genTree(g, 1+g.Intn(3), &cnt, true), true)
	}
	for i := 0; i < nFilter; i++ {
		runFilterCase(r, genFilterCase(rng.Fork()))
	}
	for i := 0; i < nSearch; i++ {
		g := rng.Fork()
		if i%40 == 7 {
			configBuild08(r, g.Fork())
		}
		cnt := 0
		runBuildCase(r, c08genTree(g, 1+g.Intn(3), &cnt, true), false)
	}
	// resource files with YAML anchors / aliases on their label maps (c08_anchors.go); model and oracles see the expanded documents
	for i := 0; i < nAnchor; i++ {
		g := rng.Fork()
		cnt := 0
		t := c08genTree(g, 1+g.Intn(2), &cnt, true)
		if anchorize08(g, t) == 0 {
			r.Count("anchor_build", "no equal label maps")
			continue
		}
		r.Count("anchor_build", "anchored")
		if g.Chance(70) {
			t, _ = stripFields(t) // custom field specs switch the union laws off
		}
		anchorDirs08(g, t)
		runBuildCase(r, t, i%2 == 0)
	}
	// `crds:` builds (custom kinds declared through OpenAPI extensions), implementation-level laws only: c08_crds.go
	for i := 0; i < nCrd; i++ {
		crdBuild08(r, genCrdCase(rng.Fork()))
	}
	return nil
}

func replayC08(path string) (bool, string, error) {
	data, err := os.ReadFile(path)
	if err != nil {
		return false, "", err
	}
	var rp struct {
		Case json.RawMessage `json:"case"`
	}
	if err := json.Unmarshal(data, &rp); err != nil {
		return false, "", err
	}
	var wrap struct {
		Build  *c08Tree        `json:"build"`
		Filter *c08FilterCase  `json:"filter"`
		Crd    *c08CrdCase     `json:"crd"`
	}
	_ = json.Unmarshal(rp.Case, &wrap)
	if wrap.Crd == nil {
		var cc c08CrdCase
		if err := json.Unmarshal(rp.Case, &cc); err == nil && cc.Tree != nil && cc.Kind != "" {
			wrap.Crd = &cc
		}
	}
	if wrap.Crd != nil && wrap.Crd.Tree != nil {
		rr := NewRun("C08", "replay", 0, "", "")
		crdBuild08(rr, wrap.Crd)
		bo := runBuild(wrap.Crd.Tree)
		var b strings.Builder
		fmt.Fprintf(&b, "class=%s msg=%q\n", bo.cls, bo.msg)
		for name, o := range bo.outs {
			s, _ := o.String()
			fmt.Fprintf(&b, "--- %s\n%s", name, s)
		}
		for _, v := range rr.Meta.Violations {
			fmt.Fprintf(&b, "LAW %s class=%s: %s\n", v.Law, v.Class, v.Detail)
		}
		return len(rr.Meta.Violations) > 0 || bo.cls == ClsPanic, b.String(), nil
	}
	t := wrap.Build
	if t == nil && wrap.Filter == nil {
		var tt c08Tree
		if err := json.Unmarshal(rp.Case, &tt); err == nil && (len(tt.Own) > 0 || len(tt.Bases) > 0) {
			t = &tt
		}
	}
	if wrap.Filter != nil {
		cls, doc, msg := execFilter(*wrap.Filter)
		var dirty []string
		if cls == ClsOk {
			scalarsWithContent(doc.YNode(), "", &dirty)
		}
		law := ""
		if len(dirty) > 0 {
			law = "\nLAW no_hidden_content class=" + c08HiddenClass + ": " + strings.Join(dirty, ", ")
		}
		return cls == ClsPanic || len(dirty) > 0, fmt.Sprintf("class=%s msg=%q after=%s%s", cls, msg, docString(doc), law), nil
	}
	if t == nil {
		return false, "", fmt.Errorf("replay file has neither a build tree nor a filter case")
	}
	r := NewRun("C08", "replay", 0, "", "")
	lid := 0
	flat := flatten(t, &lid)
	bo := runBuild(t)
	oracles08(r, t, flat, bo)
	oracleFields08(r, t, flat, bo)
	var b strings.Builder
	fmt.Fprintf(&b, "class=%s msg=%q\n", bo.cls, bo.msg)
	for _, fr := range flat {
		if o, ok := bo.outs[fr.Res.Name]; ok {
			s, _ := o.String()
			fmt.Fprintf(&b, "--- %s %s\n%s", fr.Res.Kind, fr.Res.Name, s)
		}
	}
	if len(r.Meta.Violations) > 0 {
		for _, v := range r.Meta.Violations {
			fmt.Fprintf(&b, "LAW %s class=%s: %s\n", v.Law, v.Class, v.Detail)
		}
		return true, b.String(), nil
	}
	return bo.cls == ClsPanic, b.String(), nil
}
