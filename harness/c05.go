package main

import (
	"encoding/base64"
	"encoding/json"
	"fmt"
	"io"
	"log"
	"os"
	"os/exec"
	"path/filepath"
	"runtime"
	"runtime/debug"
	"runtime/pprof"
	"strings"
	"sync"
	"time"

	"sigs.k8s.io/kustomize/api/ifc"
	"sigs.k8s.io/kustomize/api/krusty"
	"sigs.k8s.io/kustomize/kyaml/filesys"
	"sigs.k8s.io/kustomize/kyaml/openapi"
)

// C05: root-only load restriction.
//
// Correspondence (model = KV.Fs.Path/MemFs/DiskFs/Loader, evaluated by vm_compute):
//   - filepath.Clean/Join/Split/Dir/Base/IsAbs, StripLeading/TrailingSeps, ConfirmedDir.HasPrefix on
//     every string over {"/", ".", "a"} up to a length bound plus adversarial spellings;
//   - FileSystem.CleanedAbs / ReadFile / IsDir of the in-memory FS and of the real disk (temp dir with
//     symlinks: relative, absolute, chains, loops, dangling, through files);
//   - the real FileLoader (verif hook krusty.VerifC05NewLoader): NewLoader, chains of New, then Load or
//     New, on the structured world for every path expression and on random worlds.
// Search (law oracles on the implementation, expected results from the Go reference resolver):
//   - loader level: a root-only Load succeeds iff the reference resolves the path to a file inside the
//     root, and returns that file's bytes; New succeeds iff the reference resolves to a directory that is
//     not at or above any root on the stack; no error text contains the canary;
//   - build level (krusty.Run): for every path-bearing kustomization field x path expression x
//     {memory, disk} x layer depth: success only if the reference allows it, every allowed file builds,
//     the canary never occurs in output or error text, no canary file is ever read.

func init() {
	register("C05", propDef{
		header:     "From KV Require Import Corr.C05.\nOpen Scope string_scope.\n",
		caseType:   "case05",
		mismatchFn: "mismatches05",
		run:        runC05,
		replay:     replayC05,
	})
}

// ---------- recording / overlay file system ----------

type ovFS struct {
	filesys.FileSystem
	mu    sync.Mutex
	over  map[string]string
	reads []string
	other []string // Open/ReadDir/Glob/Walk calls
}

func (o *ovFS) ReadFile(p string) ([]byte, error) {
	o.mu.Lock()
	o.reads = append(o.reads, p)
	c, ok := o.over[p]
	o.mu.Unlock()
	if ok {
		return []byte(c), nil
	}
	return o.FileSystem.ReadFile(p)
}
func (o *ovFS) Open(p string) (filesys.File, error) {
	o.mu.Lock()
	o.other = append(o.other, "Open "+p)
	o.mu.Unlock()
	return o.FileSystem.Open(p)
}
func (o *ovFS) ReadDir(p string) ([]string, error) {
	o.mu.Lock()
	o.other = append(o.other, "ReadDir "+p)
	o.mu.Unlock()
	return o.FileSystem.ReadDir(p)
}
func (o *ovFS) Glob(p string) ([]string, error) {
	o.mu.Lock()
	o.other = append(o.other, "Glob "+p)
	o.mu.Unlock()
	return o.FileSystem.Glob(p)
}
func (o *ovFS) Walk(p string, fn filepath.WalkFunc) error {
	o.mu.Lock()
	o.other = append(o.other, "Walk "+p)
	o.mu.Unlock()
	return o.FileSystem.Walk(p, fn)
}

// ---------- canary detection (plain and base64 at every alignment) ----------

var canaryNeedles = func() []string {
	out := []string{c05Canary}
	for shift := 0; shift < 3; shift++ {
		enc := base64.StdEncoding.EncodeToString([]byte(strings.Repeat("x", shift) + c05Canary + "yyy"))
		// drop the first group(s) influenced by the padding prefix and the tail influenced by the suffix
		start := 0
		if shift > 0 {
			start = 4
		}
		end := ((shift + len(c05Canary)) / 3) * 4
		if end > start+8 {
			out = append(out, enc[start:end])
		}
	}
	return out
}()

func hasCanary(s string) bool {
	for _, n := range canaryNeedles {
		if strings.Contains(s, n) {
			return true
		}
	}
	return false
}

// ---------- materialised worlds ----------

type liveWorld struct {
	w       *world
	fs      filesys.FileSystem
	kind    string // mem | disk
	ref     c05RefFS
	aborted bool // a build diverged: stop using this process for builds
}

func materialise(w *world, kind, diskBase string) (*liveWorld, error) {
	lw := &liveWorld{w: w, kind: kind}
	full := w.full()
	lw.ref = c05RefFS{root: full, physical: kind == "disk"}
	if kind == "mem" {
		fs, err := full.toMem()
		if err != nil {
			return nil, err
		}
		lw.fs = fs
		return lw, nil
	}
	if err := w.tree.toDisk(diskBase); err != nil {
		return nil, err
	}
	lw.fs = filesys.MakeFsOnDisk()
	return lw, nil
}

// newDiskBase creates a fresh directory and returns its physical path and components.
func newDiskBase(parent string) (string, []string, error) {
	d, err := os.MkdirTemp(parent, "c05-")
	if err != nil {
		return "", nil, err
	}
	// a few private levels above the world: ".." chains of a case stay in directories the model knows
	d = filepath.Join(d, "u1", "u2", "u3")
	if err := os.MkdirAll(d, 0o755); err != nil {
		return "", nil, err
	}
	p, err := filepath.EvalSymlinks(d)
	if err != nil {
		return "", nil, err
	}
	var comps []string
	for _, c := range strings.Split(p, "/") {
		if c != "" {
			comps = append(comps, c)
		}
	}
	return p, comps, nil
}

// ---------- loader chains ----------

type chainCase struct {
	FS       string   `json:"fs"`
	RootOnly bool     `json:"root_only"`
	Target   string   `json:"target"`
	News     []string `json:"news"`
	Op       string   `json:"op"` // load | new | none
	Arg      string   `json:"arg"`
}

type chainObs struct {
	stage int
	cls   string
	root  string
	bytes string
	msg   string
	roots []string // Root() of every loader built, nearest last
}

func isNetworkish(p string) bool {
	return krusty.VerifC05IsRemoteFile(p) || krusty.VerifC05IsRepoURL(p)
}

func execChain(fs filesys.FileSystem, c chainCase) chainObs {
	var o chainObs
	var l ifc.Loader
	o.cls, o.msg = protect(func() error {
		var err error
		l, err = krusty.VerifC05NewLoader(c.RootOnly, c.Target, fs)
		return err
	})
	if o.cls != ClsOk {
		return o
	}
	o.stage = 1
	o.root = l.Root()
	o.roots = append(o.roots, l.Root())
	for _, p := range c.News {
		var l2 ifc.Loader
		o.cls, o.msg = protect(func() error {
			var err error
			l2, err = l.New(p)
			return err
		})
		if o.cls != ClsOk {
			return o
		}
		l = l2
		o.stage++
		o.root = l.Root()
		o.roots = append(o.roots, l.Root())
	}
	switch c.Op {
	case "load":
		o.cls, o.msg = protect(func() error {
			b, err := l.Load(c.Arg)
			if err == nil {
				o.bytes = string(b)
			}
			return err
		})
	case "new":
		var l2 ifc.Loader
		o.cls, o.msg = protect(func() error {
			var err error
			l2, err = l.New(c.Arg)
			return err
		})
		if o.cls == ClsOk {
			o.stage++
			o.root = l2.Root()
			o.roots = append(o.roots, l2.Root())
		}
	}
	return o
}

func chainTerm(fsTerm string, c chainCase, o chainObs) string {
	op := "CNone"
	switch c.Op {
	case "load":
		op = "(CLoad " + coqStr(c.Arg) + ")"
	case "new":
		op = "(CNew " + coqStr(c.Arg) + ")"
	}
	return fmt.Sprintf("(K_chain %s %s %s %s %s %d%%N %s %s %s)", fsTerm, coqBool(c.RootOnly), coqStr(c.Target),
		coqStrList(c.News), op, o.stage, o.cls, coqStr(o.root), coqStr(o.bytes))
}

func splitComps(p string) []string {
	var out []string
	for _, c := range strings.Split(p, "/") {
		if c != "" {
			out = append(out, c)
		}
	}
	return out
}

// chainOracle evaluates the loader laws for one executed chain against the reference resolver.
// The target and the News are assumed to be clean references to existing directories (structured world).
func chainOracle(r *Run, lw *liveWorld, c chainCase, o chainObs, desc interface{}) {
	if !c.RootOnly || o.stage < 1+len(c.News) {
		return
	}
	report := func(law, cls, detail string) {
		r.Violation(OracleViolation{Law: law, Class: cls, Detail: detail, Replay: desc})
	}
	if hasCanary(o.msg) {
		report("canary", "C05/canary/loader", "loader error text contains the canary: "+o.msg)
	}
	// the stack as the implementation reports it (roots are physical, clean paths)
	var stack [][]string
	n := 1 + len(c.News)
	for i := n - 1; i >= 0; i-- {
		stack = append(stack, splitComps(o.roots[i]))
	}
	switch c.Op {
	case "load":
		ok, content, why := lw.ref.refLoad(stack[0], c.Arg)
		if o.cls == ClsOk && !ok {
			report("load_confined", "C05/escape/loader-load", fmt.Sprintf("Load(%q) from root %s succeeded; reference: %s", c.Arg, o.roots[n-1], why))
		}
		if o.cls == ClsOk && ok && content != o.bytes {
			report("load_confined", "C05/wrong-bytes/loader-load", fmt.Sprintf("Load(%q) returned other bytes than the resolved file", c.Arg))
		}
		if o.cls != ClsOk && ok {
			report("load_inside", "C05/inside-rejected/loader-load", fmt.Sprintf("Load(%q) from root %s failed (%s) although the reference resolves it inside the root", c.Arg, o.roots[n-1], o.msg))
		}
		if o.cls == ClsPanic {
			report("no_panic", "C05/panic/loader-load", o.msg)
		}
	case "new":
		ok, nr, why := lw.ref.refNew(stack, c.Arg)
		if o.cls == ClsOk && !ok {
			report("no_cycle", "C05/cycle/loader-new", fmt.Sprintf("New(%q) from root %s succeeded; reference: %s", c.Arg, o.roots[n-1], why))
		}
		if o.cls == ClsOk && ok && absOf(nr) != o.root {
			report("no_cycle", "C05/wrong-root/loader-new", fmt.Sprintf("New(%q) rooted at %s, reference %s", c.Arg, o.root, absOf(nr)))
		}
		if o.cls != ClsOk && ok {
			report("new_legal", "C05/legal-root-rejected/loader-new", fmt.Sprintf("New(%q) from root %s failed (%s) although the reference allows it", c.Arg, o.roots[n-1], o.msg))
		}
		if o.cls == ClsPanic {
			report("no_panic", "C05/panic/loader-new", o.msg)
		}
	}
}

// ---------- build-level scenarios ----------

type runCase struct {
	Kind  string `json:"kind"` // "run"
	Field string `json:"field"`
	FS    string `json:"fs"`
	Depth int    `json:"depth"`
	Expr  string `json:"expr"` // with @ROOT@ / @OUT@ placeholders for absolute prefixes
}

func fieldByID(id string) (fieldDef, bool) {
	for _, f := range c05Fields {
		if f.id == id {
			return f, true
		}
	}
	return fieldDef{}, false
}

func (lw *liveWorld) placeholders(depth int, e string) string {
	root := absOf(lw.w.stackFor(depth)[0])
	e = strings.ReplaceAll(e, caseVariant(root), "@CASE@")
	e = strings.ReplaceAll(e, root+"-evil", "@OUT@")
	e = strings.ReplaceAll(e, root, "@ROOT@")
	return e
}

func (lw *liveWorld) expand(depth int, e string) string {
	root := absOf(lw.w.stackFor(depth)[0])
	e = strings.ReplaceAll(e, "@CASE@", caseVariant(root))
	e = strings.ReplaceAll(e, "@OUT@", root+"-evil")
	e = strings.ReplaceAll(e, "@ROOT@", root)
	return e
}

type runObs struct {
	cls    string
	msg    string
	out    string
	reads  []string
	others []string
}

var c05Kustomizer = krusty.MakeKustomizer(krusty.MakeDefaultOptions())

// a build that does not return within this time is reported as diverging (class CDiverge); the worker
// process then stops (the runaway goroutine cannot be cancelled, it ends with the process).
const c05RunTimeout = 20 * time.Second

func runWithTimeout(fs filesys.FileSystem, target string) runObs {
	done := make(chan runObs, 1)
	go func() {
		var o runObs
		o.cls, o.msg = protect(func() error {
			m, err := c05Kustomizer.Run(fs, target)
			if err != nil {
				return err
			}
			y, err := m.AsYaml()
			o.out = string(y)
			return err
		})
		done <- o
	}()
	select {
	case o := <-done:
		return o
	case <-time.After(c05RunTimeout):
		return runObs{cls: ClsDiverge, msg: "krusty.Run did not return within " + c05RunTimeout.String()}
	}
}

func (lw *liveWorld) execRun(f fieldDef, depth int, e string) runObs {
	names := []string{"top", "mid", "base"}
	ov := &ovFS{FileSystem: lw.fs, over: map[string]string{}}
	for i := 0; i < depth-1; i++ {
		ov.over[absOf(lw.w.abs("zw", names[i], "kustomization.yaml"))] = "resources:\n- ../" + names[i+1] + "\n"
	}
	tested := names[depth-1]
	ov.over[absOf(lw.w.abs("zw", tested, "kustomization.yaml"))] = f.kust(e)
	if f.extra != nil {
		for n, c := range f.extra(e) {
			ov.over[absOf(lw.w.abs("zw", tested, n))] = c
		}
	}
	o := runWithTimeout(ov, absOf(lw.w.abs("zw", "top")))
	if o.cls == ClsDiverge {
		lw.aborted = true
	}
	o.reads = ov.reads
	o.others = ov.other
	if f.id == "openapi.path" || f.id == "crds" {
		openapi.ResetOpenAPI()
	}
	return o
}

// expectation of the reference for one scenario
type runExp struct {
	allowed  bool   // the build may succeed
	required bool   // the build must succeed
	why      string // why not allowed
}

func (lw *liveWorld) expect(f fieldDef, depth int, e string) runExp {
	stack := lw.w.stackFor(depth)
	var ex runExp
	fileOK, _, whyF := lw.ref.refLoad(stack[0], e)
	dirOK, nr, whyD := lw.ref.refNew(stack, e)
	if f.dirMode != 2 && fileOK {
		ex.allowed, ex.required = true, true
	}
	if f.dirMode >= 1 && dirOK {
		ex.allowed = true
		if f.dirMust {
			n := lw.ref.root.at(nr)
			hasK := n != nil && n.child("kustomization.yaml") != nil
			kindOK := true
			if f.component {
				// only the world's sub-bases (zd) are Components; top/mid/base/sib keep kind Kustomization
				kindOK = nr[len(nr)-1] == aDir
			}
			ex.required = ex.required || (hasK && kindOK)
		}
	}
	if !ex.allowed {
		ex.why = "file: " + whyF + "; dir: " + whyD
	}
	return ex
}

func (lw *liveWorld) runOracle(r *Run, f fieldDef, depth int, e string, o runObs) {
	desc := runCase{Kind: "run", Field: f.id, FS: lw.kind, Depth: depth, Expr: lw.placeholders(depth, e)}
	report := func(law, cls, detail string) {
		r.Violation(OracleViolation{Law: law, Class: cls, Detail: detail, Replay: desc})
	}
	ex := lw.expect(f, depth, e)
	if o.cls == ClsPanic {
		report("no_panic", "C05/panic/"+f.id, o.msg)
	}
	if o.cls == ClsDiverge {
		report("terminates", "C05/diverge/"+f.id, fmt.Sprintf("build with %s = %q at depth %d on %s: %s", f.id, e, depth, lw.kind, o.msg))
	}
	if o.cls == ClsOk && !ex.allowed {
		report("build_confined", "C05/escape/"+f.id, fmt.Sprintf("build succeeded with %s = %q at depth %d on %s although the reference rejects it (%s)", f.id, e, depth, lw.kind, ex.why))
	}
	if o.cls != ClsOk && ex.required {
		report("inside_builds", "C05/inside-rejected/"+f.id, fmt.Sprintf("build failed with %s = %q at depth %d on %s although the target is inside the root: %s", f.id, e, depth, lw.kind, o.msg))
	}
	if hasCanary(o.out) {
		report("canary", "C05/canary-output/"+f.id, fmt.Sprintf("canary in build output with %s = %q", f.id, e))
	}
	if hasCanary(o.msg) {
		report("canary", "C05/canary-error/"+f.id, fmt.Sprintf("canary in error text with %s = %q: %s", f.id, e, o.msg))
	}
	for _, p := range o.reads {
		if !strings.HasPrefix(p, "/") {
			continue
		}
		res := lw.ref.resolve(p)
		if res.err == "" && res.node != nil && res.node.kind == vFile && strings.Contains(res.node.content, c05Canary) {
			report("raw_read", "C05/outside-read/"+f.id, fmt.Sprintf("ReadFile(%q) reached a file outside every root with %s = %q", p, f.id, e))
		}
	}
	for _, c := range o.others {
		report("raw_read", "C05/unexpected-fs-call/"+f.id, "the build called "+c)
	}
	r.Count("run_class", o.cls)
	switch {
	case ex.required:
		r.Count("run_expect", "must-build")
	case ex.allowed:
		r.Count("run_expect", "may-build")
	default:
		r.Count("run_expect", "must-fail")
	}
}

// ---------- path function cases ----------

func allStrings(alpha []string, maxLen int) []string {
	out := []string{""}
	level := []string{""}
	for l := 1; l <= maxLen; l++ {
		var next []string
		for _, s := range level {
			for _, a := range alpha {
				next = append(next, s+a)
			}
		}
		out = append(out, next...)
		level = next
	}
	return out
}

func pathFnCases(r *Run, rng *Rng, tier string) {
	n := 6
	if tier == "thorough" {
		n = 8
	}
	strs := allStrings([]string{"/", ".", "a"}, n)
	adversarial := []string{"/root", "/root-evil", "/root/", "/root/../root-evil", "a/b/../../..", "../../a", "/../..", "a/./b/.", "...", "..a", "a..", "/.../", ".../..", "a b/ c", "/a/b/c/../../d",
		"//a//b//", "./../.", "a/..", "a/../", "/a/..", "\x00/..", "é/../x", "a\\b/..", "/tmp/x/../../etc/passwd", "~", "~/.."}
	pieces := []string{"", ".", "..", "a", "b", "root", "root-evil", "...", ".a", "a.", "x y", "k"}
	for i := 0; i < 300; i++ {
		g := rng.Fork()
		k := 1 + g.Intn(6)
		var parts []string
		for j := 0; j < k; j++ {
			parts = append(parts, g.Pick(pieces))
		}
		s := strings.Join(parts, "/")
		if g.Chance(40) {
			s = "/" + s
		}
		if g.Chance(20) {
			s += "/"
		}
		adversarial = append(adversarial, s)
	}
	all := append(append([]string{}, strs...), adversarial...)
	for _, s := range all {
		r.AddCase(fmt.Sprintf("(K_clean %s %s)", coqStr(s), coqStr(filepath.Clean(s))), map[string]string{"kind": "clean", "p": s}, filepath.Clean(s) != s)
		d, f := filepath.Split(s)
		r.AddCase(fmt.Sprintf("(K_split %s %s %s)", coqStr(s), coqStr(d), coqStr(f)), map[string]string{"kind": "split", "p": s}, d != "")
		r.Count("pathfn", "clean+split")
	}
	short := allStrings([]string{"/", ".", "a"}, 4)
	for _, s := range append(short, adversarial...) {
		r.AddCase(fmt.Sprintf("(K_dirbase %s %s %s)", coqStr(s), coqStr(filepath.Dir(s)), coqStr(filepath.Base(s))), map[string]string{"kind": "dirbase", "p": s}, true)
		r.AddCase(fmt.Sprintf("(K_isabs %s %s)", coqStr(s), coqBool(filepath.IsAbs(s))), map[string]string{"kind": "isabs", "p": s}, false)
		r.AddCase(fmt.Sprintf("(K_strip %s %s %s)", coqStr(s), coqStr(filesys.StripLeadingSeps(s)), coqStr(filesys.StripTrailingSeps(s))), map[string]string{"kind": "strip", "p": s}, false)
		r.Count("pathfn", "dirbase+isabs+strip")
	}
	js := allStrings([]string{"/", ".", "a"}, 3)
	for _, a := range js {
		for _, b := range js {
			r.AddCase(fmt.Sprintf("(K_join %s %s %s)", coqStr(a), coqStr(b), coqStr(filepath.Join(a, b))), map[string]string{"kind": "join", "a": a, "b": b}, true)
			r.Count("pathfn", "join")
		}
	}
	for i := 0; i < 200; i++ {
		a, b := adversarial[rng.Intn(len(adversarial))], adversarial[rng.Intn(len(adversarial))]
		r.AddCase(fmt.Sprintf("(K_join %s %s %s)", coqStr(a), coqStr(b), coqStr(filepath.Join(a, b))), map[string]string{"kind": "join", "a": a, "b": b}, true)
	}
	dirs := []string{"/", "/root", "/root-evil", "/root/x", "/roo", "/root/x/y", "/r", "/rootx", "/root-", "/a/b", "/a", "/a/bc", "/a/b/c",
		"/Root", "/ROOT/x", "/root/X", "/A/b", "/a/B/c"} // letter case: these file systems are case-sensitive
	for _, d := range dirs {
		for _, p := range dirs {
			b := filesys.ConfirmedDir(d).HasPrefix(filesys.ConfirmedDir(p))
			r.AddCase(fmt.Sprintf("(K_hasprefix %s %s %s)", coqStr(d), coqStr(p), coqBool(b)), map[string]string{"kind": "hasprefix", "d": d, "p": p}, b)
			r.Count("pathfn", "hasprefix")
			// law: component-wise containment
			want := compsHasPrefix(splitComps(d), splitComps(p))
			if b != want {
				r.Violation(OracleViolation{Law: "prefix_is_containment", Class: "C05/hasprefix", Detail: fmt.Sprintf("ConfirmedDir(%q).HasPrefix(%q) = %v", d, p, b), Replay: map[string]string{"kind": "hasprefix", "d": d, "p": p}})
			}
		}
	}
}

// ---------- structured world: loader level ----------

func structuredLoaderCases(r *Run, lw *liveWorld, fsTerm string, maxLen int, toModel bool) {
	names := []string{"top", "mid", "base"}
	for depth := 1; depth <= 3; depth++ {
		var news []string
		for i := 1; i < depth; i++ {
			news = append(news, "../"+names[i])
		}
		for _, e := range lw.w.exprs(depth, maxLen) {
			for _, op := range []string{"load", "new"} {
				c := chainCase{FS: lw.kind, RootOnly: true, Target: absOf(lw.w.abs("zw", "top")), News: news, Op: op, Arg: e}
				o := execChain(lw.fs, c)
				desc := map[string]interface{}{"kind": "chain-structured", "fs": lw.kind, "depth": depth, "op": op, "expr": lw.placeholders(depth, e)}
				r.Count("loader_"+op+"_"+lw.kind, o.cls)
				if toModel {
					r.AddCase(chainTerm(fsTerm, c, o), desc, o.cls == ClsOk)
				} else {
					r.AddEval(fmt.Sprint(desc), o.cls == ClsOk)
				}
				chainOracle(r, lw, c, o, desc)
			}
		}
	}
}

// ---------- random worlds ----------

var rwNames = []string{"qa", "qb", "qc", "qrt", "qrt-evil", "qk.yaml", "qx"}

func genRandTree(g *Rng, links bool, absPrefix string) *vnode {
	root := newDir()
	type slot struct {
		dir  *vnode
		here []string
		name string
	}
	var linkSlots []slot
	var fill func(d *vnode, depth int, here []string)
	fill = func(d *vnode, depth int, here []string) {
		n := 2 + g.Intn(4)
		for i := 0; i < n; i++ {
			name := g.Pick(rwNames)
			if d.child(name) != nil {
				continue
			}
			k := g.Intn(10)
			switch {
			case k < 4 && depth > 0:
				fill(d.put(name, newDir()), depth-1, append(append([]string{}, here...), name))
			case k < 7 || !links:
				d.put(name, &vnode{kind: vFile, content: "content of " + strings.Join(append(append([]string{}, here...), name), "/")})
			default:
				// placeholder, the target is chosen once the tree is complete
				d.put(name, &vnode{kind: vLink, target: "."})
				linkSlots = append(linkSlots, slot{d, append([]string{}, here...), name})
			}
		}
	}
	fill(root, 3, nil)
	all := root.paths()
	for _, sl := range linkSlots {
		var t string
		if g.Chance(70) && len(all) > 0 {
			// an existing entry (possibly another link: chains and loops), relative or absolute
			tgt := all[g.Intn(len(all))]
			isAbs := g.Chance(30)
			if isAbs {
				t = strings.Join(tgt, "/")
			} else {
				t = relPath(sl.here, tgt)
			}
			if g.Chance(15) {
				t = perturb(g, t)
			}
			if isAbs {
				// perturbations stay inside the world: the real ancestors of a disk world are not modelled
				t = absPrefix + "/" + t
			}
		} else {
			t = genLinkTarget(g, absPrefix)
		}
		sl.dir.kids[sl.name].target = t
	}
	return root
}

// paths lists every entry of the tree (no links followed), as component paths.
func (n *vnode) paths() [][]string {
	var out [][]string
	n.walk(nil, func(comps []string, x *vnode) {
		if len(comps) > 0 {
			out = append(out, comps)
		}
	})
	return out
}

// relPath spells target relative to the directory from (both component paths).
func relPath(from, target []string) string {
	i := 0
	for i < len(from) && i < len(target) && from[i] == target[i] {
		i++
	}
	var parts []string
	for j := i; j < len(from); j++ {
		parts = append(parts, "..")
	}
	parts = append(parts, target[i:]...)
	if len(parts) == 0 {
		return "."
	}
	return strings.Join(parts, "/")
}

// perturb rewrites a path into an equivalent-looking or slightly wrong spelling.
func perturb(g *Rng, p string) string {
	parts := strings.Split(p, "/")
	i := g.Intn(len(parts) + 1)
	var ins []string
	switch g.Intn(6) {
	case 0:
		ins = []string{"."}
	case 1:
		ins = []string{g.Pick(rwNames), ".."}
	case 2:
		ins = []string{""}
	case 3:
		ins = []string{".."}
	case 4:
		ins = []string{g.Pick(rwNames)}
	default:
		ins = []string{"qnope", ".."}
	}
	out := append(append(append([]string{}, parts[:i]...), ins...), parts[i:]...)
	return strings.Join(out, "/")
}

func genLinkTarget(g *Rng, absPrefix string) string {
	k := 1 + g.Intn(4)
	var parts []string
	for i := 0; i < k; i++ {
		switch g.Intn(8) {
		case 0:
			parts = append(parts, ".")
		case 1, 2:
			parts = append(parts, "..")
		case 3:
			if g.Chance(30) {
				parts = append(parts, "")
			} else {
				parts = append(parts, g.Pick(rwNames))
			}
		default:
			parts = append(parts, g.Pick(rwNames))
		}
	}
	t := strings.Join(parts, "/")
	if g.Chance(25) {
		t = absPrefix + "/" + t
	}
	if g.Chance(8) {
		t += "/"
	}
	if t == "" {
		t = "."
	}
	return t
}

// genQueryPath: mostly an existing entry of the tree (absolute, or relative to the directory from),
// sometimes perturbed; sometimes a random walk over the name pool.
func genQueryPath(g *Rng, all [][]string, from []string, absPrefix string, allowRel bool) string {
	if g.Chance(75) && len(all) > 0 {
		tgt := all[g.Intn(len(all))]
		var p string
		isAbs := !(allowRel && g.Chance(50))
		if isAbs {
			p = strings.Join(tgt, "/")
		} else {
			p = relPath(from, tgt)
		}
		for g.Chance(35) {
			p = perturb(g, p)
		}
		if g.Chance(5) {
			p += "/"
		}
		if isAbs {
			// perturbations stay inside the world: the real ancestors of a disk world are not modelled
			p = absPrefix + "/" + p
		}
		return p
	}
	k := 1 + g.Intn(5)
	var parts []string
	for i := 0; i < k; i++ {
		switch g.Intn(10) {
		case 0:
			parts = append(parts, ".")
		case 1:
			parts = append(parts, "..")
		case 2:
			if g.Chance(40) {
				parts = append(parts, "")
			} else {
				parts = append(parts, "qnope")
			}
		default:
			parts = append(parts, g.Pick(rwNames))
		}
	}
	p := strings.Join(parts, "/")
	if !allowRel || g.Chance(70) {
		p = absPrefix + "/" + p
	}
	if g.Chance(8) {
		p += "/"
	}
	return p
}

// existing directories of a tree, as component paths (no links followed)
func (n *vnode) dirs() [][]string {
	var out [][]string
	n.walk(nil, func(comps []string, x *vnode) {
		if x.kind == vDir {
			out = append(out, comps)
		}
	})
	return out
}

func randomWorldCases(r *Run, rng *Rng, kind string, nWorlds, nQueries int, diskParent string, defs *strings.Builder) error {
	for wi := 0; wi < nWorlds; wi++ {
		g := rng.Fork()
		var prefix []string
		base := ""
		if kind == "disk" {
			var err error
			base, prefix, err = newDiskBase(diskParent)
			if err != nil {
				return err
			}
		}
		absPrefix := ""
		if len(prefix) > 0 {
			absPrefix = absOf(prefix)
		}
		tree := genRandTree(g, kind == "disk", absPrefix)
		w := &world{tree: tree, prefix: prefix, links: kind == "disk"}
		lw, err := materialise(w, kind, base)
		if err != nil {
			return err
		}
		name := fmt.Sprintf("rw_%s_%d", kind, wi)
		var fsTerm string
		if kind == "mem" {
			fmt.Fprintf(defs, "Definition %s : mnode := %s.\n", name, w.full().coqMem())
			fsTerm = "(VMem " + name + ")"
		} else {
			fmt.Fprintf(defs, "Definition %s : dnode := %s.\n", name, w.full().coqDisk())
			fsTerm = "(VDisk " + name + ")"
		}
		dirs := tree.dirs()
		all := tree.paths()
		if kind == "disk" {
			if err := relativeDiskCases(r, g, lw, w, name, dirs, all, nQueries/3); err != nil {
				return err
			}
		}
		for qi := 0; qi < nQueries; qi++ {
			p := genQueryPath(g, all, nil, absPrefix, kind == "mem")
			switch g.Intn(5) {
			case 0:
				var d filesys.ConfirmedDir
				var f string
				cls, _ := protect(func() error {
					var err error
					d, f, err = lw.fs.CleanedAbs(p)
					return err
				})
				if cls != ClsOk {
					d, f = "", ""
				}
				r.AddCase(fmt.Sprintf("(K_abs %s %s %s %s %s)", fsTerm, coqStr(p), cls, coqStr(string(d)), coqStr(f)),
					map[string]interface{}{"kind": "abs", "fs": kind, "world": wi, "p": p}, cls == ClsOk)
				r.Count("cleanedabs_"+kind, cls)
			case 1:
				var b []byte
				cls, _ := protect(func() error {
					var err error
					b, err = lw.fs.ReadFile(p)
					return err
				})
				if cls != ClsOk {
					b = nil
				}
				r.AddCase(fmt.Sprintf("(K_read %s %s %s %s)", fsTerm, coqStr(p), cls, coqStr(string(b))),
					map[string]interface{}{"kind": "read", "fs": kind, "world": wi, "p": p}, cls == ClsOk)
				r.Count("readfile_"+kind, cls)
				r.AddCase(fmt.Sprintf("(K_isdir %s %s %s)", fsTerm, coqStr(p), coqBool(lw.fs.IsDir(p))),
					map[string]interface{}{"kind": "isdir", "fs": kind, "world": wi, "p": p}, lw.fs.IsDir(p))
			default:
				// loader chain: root at a random existing directory, optional New, then Load or New
				rootDir := dirs[g.Intn(len(dirs))]
				c := chainCase{FS: kind, RootOnly: !g.Chance(10), Target: absOf(w.abs(strings.Join(rootDir, "/")))}
				cur := rootDir
				if g.Chance(40) {
					// a further root: mostly an existing directory, spelled relative to the current root
					nd := dirs[g.Intn(len(dirs))]
					ref := relPath(cur, nd)
					if g.Chance(20) {
						ref = genRelRef(g)
					}
					c.News = append(c.News, ref)
					cur = nd
				}
				c.Op = "load"
				if g.Chance(30) {
					c.Op = "new"
				}
				c.Arg = genQueryPath(g, all, cur, absPrefix, true)
				if c.Op == "new" && g.Chance(70) {
					c.Arg = relPath(cur, dirs[g.Intn(len(dirs))])
					if g.Chance(25) {
						c.Arg = perturb(g, c.Arg)
					}
				}
				if isNetworkish(c.Arg) || isNetworkish(c.Target) {
					r.Meta.Skipped++
					continue
				}
				o := execChain(lw.fs, c)
				desc := map[string]interface{}{"kind": "chain-random", "fs": kind, "world": wi, "case": c}
				r.AddCase(chainTerm(fsTerm, c, o), desc, o.cls == ClsOk)
				r.Count("rand_"+c.Op+"_"+kind, o.cls)
				if c.RootOnly && o.stage >= 1+len(c.News) {
					// reference oracle needs the roots as physical component lists: the implementation's Root() values
					chainOracleRandom(r, lw, c, o, desc)
				}
			}
		}
	}
	return nil
}

// relativeDiskCases: the process changes into a directory of the world; relative paths are then resolved
// against it by filepath.Abs (CleanedAbs) and by the kernel (ReadFile, IsDir).  Model: disk_ops d cwd.
func relativeDiskCases(r *Run, g *Rng, lw *liveWorld, w *world, worldName string, dirs, all [][]string, n int) error {
	orig, err := os.Getwd()
	if err != nil {
		return err
	}
	defer os.Chdir(orig)
	for i := 0; i < n; i++ {
		cwdDir := dirs[g.Intn(len(dirs))]
		cwd := absOf(w.abs(strings.Join(cwdDir, "/")))
		if err := os.Chdir(cwd); err != nil {
			return err
		}
		fsTerm := fmt.Sprintf("(VDiskAt %s %s)", worldName, coqStr(cwd))
		rel := func() string {
			var p string
			if g.Chance(80) && len(all) > 0 {
				p = relPath(cwdDir, all[g.Intn(len(all))])
			} else {
				p = genRelRef(g)
			}
			for g.Chance(30) {
				p = perturb(g, p)
			}
			if strings.HasPrefix(p, "/") {
				p = "." + p
			}
			return p
		}
		p := rel()
		desc := map[string]interface{}{"kind": "disk-relative", "cwd": strings.Join(cwdDir, "/"), "p": p}
		switch g.Intn(5) {
		case 4:
			var ev string
			cls, _ := protect(func() error {
				var err error
				ev, err = filepath.EvalSymlinks(p)
				return err
			})
			if cls != ClsOk {
				ev = ""
			}
			r.AddCase(fmt.Sprintf("(K_evalsym %s %s %s %s)", fsTerm, coqStr(p), cls, coqStr(ev)), desc, cls == ClsOk)
			r.Count("rel_evalsymlinks_disk", cls)
		case 0:
			var d filesys.ConfirmedDir
			var f string
			cls, _ := protect(func() error {
				var err error
				d, f, err = lw.fs.CleanedAbs(p)
				return err
			})
			if cls != ClsOk {
				d, f = "", ""
			}
			r.AddCase(fmt.Sprintf("(K_abs %s %s %s %s %s)", fsTerm, coqStr(p), cls, coqStr(string(d)), coqStr(f)), desc, cls == ClsOk)
			r.Count("rel_cleanedabs_disk", cls)
		case 1:
			var b []byte
			cls, _ := protect(func() error {
				var err error
				b, err = lw.fs.ReadFile(p)
				return err
			})
			if cls != ClsOk {
				b = nil
			}
			r.AddCase(fmt.Sprintf("(K_read %s %s %s %s)", fsTerm, coqStr(p), cls, coqStr(string(b))), desc, cls == ClsOk)
			r.AddCase(fmt.Sprintf("(K_isdir %s %s %s)", fsTerm, coqStr(p), coqBool(lw.fs.IsDir(p))), desc, lw.fs.IsDir(p))
			r.Count("rel_readfile_disk", cls)
		default:
			// a loader whose target is relative to the working directory, then a load
			target := "."
			rootDir := cwdDir
			if g.Chance(60) {
				rootDir = dirs[g.Intn(len(dirs))]
				target = relPath(cwdDir, rootDir)
			}
			c := chainCase{FS: "disk", RootOnly: true, Target: target, Op: "load", Arg: rel()}
			if g.Chance(60) {
				// a reference spelled relative to the loader's root (which itself was given relative to the cwd)
				c.Arg = relPath(rootDir, all[g.Intn(len(all))])
			}
			if g.Chance(25) {
				c.Op = "new"
				c.Arg = relPath(rootDir, dirs[g.Intn(len(dirs))])
				if g.Chance(20) {
					c.Arg = perturb(g, c.Arg)
				}
			}
			if isNetworkish(c.Arg) || isNetworkish(c.Target) {
				r.Meta.Skipped++
				continue
			}
			o := execChain(lw.fs, c)
			r.AddCase(chainTerm(fsTerm, c, o), map[string]interface{}{"kind": "chain-relative", "cwd": strings.Join(cwdDir, "/"), "case": c}, o.cls == ClsOk)
			r.Count("rel_"+c.Op+"_disk", o.cls)
			if o.stage >= 1 {
				chainOracle(r, lw, c, o, desc)
			}
		}
	}
	return nil
}

func genRelRef(g *Rng) string {
	k := 1 + g.Intn(4)
	var parts []string
	for i := 0; i < k; i++ {
		switch g.Intn(6) {
		case 0:
			parts = append(parts, "..")
		case 1:
			parts = append(parts, ".")
		default:
			parts = append(parts, g.Pick(rwNames))
		}
	}
	return strings.Join(parts, "/")
}

// chainOracleRandom: same laws as chainOracle. The in-memory FS resolves lexically, the reference
// follows it; New on the in-memory FS from "/" etc. is covered by the same code.
func chainOracleRandom(r *Run, lw *liveWorld, c chainCase, o chainObs, desc interface{}) {
	chainOracle(r, lw, c, o, desc)
}

// ---------- the recursion over bases: krusty.Run on kustomizations that only list directories ----------

// visitCases: random directory trees in which every directory holds a kustomization listing 0-2 directory
// references (children, siblings, parents, itself, through links, missing).  The build reads the
// kustomization file of every root it visits, in order: that sequence and the outcome class are compared
// with the model (visit_trace with [bases] read off the tree).
func visitCases(r *Run, rng *Rng, kind string, n int, diskParent string, defs *strings.Builder) error {
	names := []string{"va", "vb", "vc", "vd"}
	for it := 0; it < n; it++ {
		g := rng.Fork()
		var prefix []string
		base := ""
		if kind == "disk" {
			var err error
			base, prefix, err = newDiskBase(diskParent)
			if err != nil {
				return err
			}
		}
		absPrefix := ""
		if len(prefix) > 0 {
			absPrefix = absOf(prefix)
		}
		// directories
		tree := newDir()
		var dirs [][]string
		var grow func(d *vnode, here []string, depth int)
		grow = func(d *vnode, here []string, depth int) {
			dirs = append(dirs, here)
			if depth == 0 {
				return
			}
			for _, nm := range names[:1+g.Intn(3)] {
				if len(dirs) >= 7 || g.Chance(35) {
					continue
				}
				grow(d.put(nm, newDir()), append(append([]string{}, here...), nm), depth-1)
			}
		}
		top := tree.put("top", newDir())
		grow(top, []string{"top"}, 2)
		if g.Chance(60) {
			sib := tree.put("sib", newDir())
			grow(sib, []string{"sib"}, 1)
		}
		// links to directories (disk)
		if kind == "disk" {
			for k := 0; k < g.Intn(3); k++ {
				from := dirs[g.Intn(len(dirs))]
				to := dirs[g.Intn(len(dirs))]
				nm := fmt.Sprintf("vl%d", k)
				if tree.at(from).child(nm) == nil {
					t := relPath(from, to)
					if g.Chance(30) {
						t = absPrefix + "/" + strings.Join(to, "/")
					}
					tree.at(from).put(nm, &vnode{kind: vLink, target: t})
				}
			}
		}
		// resource files (withFiles: the build also reads resources; compared with load_tree)
		withFiles := it%2 == 1
		if withFiles {
			for _, d := range dirs {
				tree.at(d).put("vr.yaml", &vnode{kind: vFile, content: fmt.Sprintf("apiVersion: v1\nkind: ConfigMap\nmetadata:\n  name: r-%s\n", strings.Join(d, "-"))})
			}
		}
		var kustTerms []string
		// kustomizations
		var basesTerm []string
		basesDesc := map[string][]string{}
		for _, d := range dirs {
			nrefs := g.Intn(3)
			if len(d) == 1 && d[0] == "top" && nrefs == 0 {
				nrefs = 1
			}
			var refs []string
			for k := 0; k < nrefs; k++ {
				var ref string
				switch g.Intn(10) {
				case 0:
					ref = g.Pick([]string{".", "..", "../..", "vmissing", "./va/.."})
				case 1, 2:
					// through an entry of this directory (a link, if there is one)
					ent := tree.at(d).names
					if len(ent) > 0 {
						ref = ent[g.Intn(len(ent))]
					} else {
						ref = "va"
					}
				default:
					ref = relPath(d, dirs[g.Intn(len(dirs))])
					if g.Chance(15) {
						ref = perturb(g, ref)
					}
				}
				if withFiles && g.Chance(45) {
					// a resource file: mostly the directory's own, sometimes another directory's (outside the root: refused)
					if g.Chance(70) {
						ref = "vr.yaml"
					} else {
						ref = relPath(d, append(append([]string{}, dirs[g.Intn(len(dirs))]...), "vr.yaml"))
					}
				}
				if ref == "" || strings.HasPrefix(ref, "/") || isNetworkish(ref) || ref == "kustomization.yaml" {
					ref = "."
				}
				refs = append(refs, ref)
			}
			var b strings.Builder
			b.WriteString("namePrefix: p-\n")
			if len(refs) > 0 {
				b.WriteString("resources:\n")
				for _, ref := range refs {
					b.WriteString("- " + q(ref) + "\n")
				}
			}
			tree.at(d).put("kustomization.yaml", &vnode{kind: vFile, content: b.String()})
			kustTerms = append(kustTerms, fmt.Sprintf("(%s, %s)", coqStr(b.String()), coqStrList(refs)))
			root := absPrefix + "/" + strings.Join(d, "/")
			basesTerm = append(basesTerm, fmt.Sprintf("(%s, %s)", coqStr(root), coqStrList(refs)))
			basesDesc[strings.Join(d, "/")] = refs
		}
		w := &world{tree: tree, prefix: prefix, links: kind == "disk"}
		lw, err := materialise(w, kind, base)
		if err != nil {
			return err
		}
		name := fmt.Sprintf("vw_%s_%d", kind, it)
		var fsTerm string
		if kind == "mem" {
			fmt.Fprintf(defs, "Definition %s : mnode := %s.\n", name, w.full().coqMem())
			fsTerm = "(VMem " + name + ")"
		} else {
			fmt.Fprintf(defs, "Definition %s : dnode := %s.\n", name, w.full().coqDisk())
			fsTerm = "(VDisk " + name + ")"
		}
		ov := &ovFS{FileSystem: lw.fs, over: map[string]string{}}
		target := absPrefix + "/top"
		o := runWithTimeout(ov, target)
		var trace []string
		for _, p := range ov.reads {
			if filepath.Base(p) == "kustomization.yaml" {
				trace = append(trace, filepath.Dir(p))
			}
		}
		desc := map[string]interface{}{"kind": "visit", "fs": kind, "bases": basesDesc, "class": o.cls, "trace": trace}
		if o.cls == ClsDiverge {
			r.Violation(OracleViolation{Law: "terminates", Class: "C05/diverge/bases", Detail: "a build over bases did not return", Replay: desc})
			return nil
		}
		if o.cls == ClsPanic {
			r.Violation(OracleViolation{Law: "no_panic", Class: "C05/panic/bases", Detail: o.msg, Replay: desc})
		}
		if withFiles {
			// the same resource read twice is an id conflict of the build, which the loading model does not know
			if strings.Contains(o.msg, "already registered id") || strings.Contains(o.msg, "conflict") {
				r.Meta.Skipped++
				continue
			}
			reads := ov.reads
			if o.cls != ClsOk {
				reads = nil
			}
			r.AddCase(fmt.Sprintf("(K_build %s %s [%s] %s %s)", fsTerm, coqStr(target), strings.Join(kustTerms, "; "), o.cls, coqStrList(reads)), desc, o.cls == ClsOk && len(reads) > 1)
			r.Count("buildreads_"+kind, fmt.Sprintf("%s/%d", o.cls, len(reads)))
			continue
		}
		r.AddCase(fmt.Sprintf("(K_visit %s %s [%s] %s %s)", fsTerm, coqStr(target), strings.Join(basesTerm, "; "), o.cls, coqStrList(trace)), desc, o.cls == ClsOk && len(trace) > 1)
		r.Count("visit_"+kind, fmt.Sprintf("%s/%d", o.cls, len(trace)))
	}
	return nil
}

// ---------- crafted disk worlds: link-count limits ----------

func linkChainCases(r *Run, diskParent string, defs *strings.Builder) error {
	base, prefix, err := newDiskBase(diskParent)
	if err != nil {
		return err
	}
	tree := newDir()
	tree.addFile("end", "END")
	n := 300
	tree.addLink("l0", "end")
	for i := 1; i < n; i++ {
		tree.addLink(fmt.Sprintf("l%d", i), fmt.Sprintf("l%d", i-1))
	}
	tree.addLink("self", "self")
	tree.addLink("ping", "pong")
	tree.addLink("pong", "ping")
	w := &world{tree: tree, prefix: prefix, links: true}
	lw, err := materialise(w, "disk", base)
	if err != nil {
		return err
	}
	fmt.Fprintf(defs, "Definition chainw : dnode := %s.\n", w.full().coqDisk())
	fsTerm := "(VDisk chainw)"
	for _, name := range []string{"end", "l0", "l1", "l38", "l39", "l40", "l41", "l100", "l253", "l254", "l255", "l256", "l299", "self", "ping", "l10/x", "end/.."} {
		p := base + "/" + name
		var d filesys.ConfirmedDir
		var f string
		cls, _ := protect(func() error {
			var err error
			d, f, err = lw.fs.CleanedAbs(p)
			return err
		})
		if cls != ClsOk {
			d, f = "", ""
		}
		r.AddCase(fmt.Sprintf("(K_abs %s %s %s %s %s)", fsTerm, coqStr(p), cls, coqStr(string(d)), coqStr(f)),
			map[string]interface{}{"kind": "abs-linkchain", "p": name}, cls == ClsOk)
		r.Count("linkchain_cleanedabs", name+"="+cls)
		var b []byte
		cls, _ = protect(func() error {
			var err error
			b, err = lw.fs.ReadFile(p)
			return err
		})
		if cls != ClsOk {
			b = nil
		}
		r.AddCase(fmt.Sprintf("(K_read %s %s %s %s)", fsTerm, coqStr(p), cls, coqStr(string(b))),
			map[string]interface{}{"kind": "read-linkchain", "p": name}, cls == ClsOk)
		r.Count("linkchain_readfile", name+"="+cls)
		var ev string
		cls, _ = protect(func() error {
			var err error
			ev, err = filepath.EvalSymlinks(p)
			return err
		})
		if cls != ClsOk {
			ev = ""
		}
		r.AddCase(fmt.Sprintf("(K_evalsym %s %s %s %s)", fsTerm, coqStr(p), cls, coqStr(ev)),
			map[string]interface{}{"kind": "evalsym-linkchain", "p": name}, cls == ClsOk)
	}
	return nil
}

// ---------- the run ----------

// compileWorlds puts the world definitions in their own Coq file, compiled once, so that the case
// shards only load the .vo. Falls back to inlining the definitions.
func compileWorlds(outDir, defs string) string {
	src := "From KV Require Import Corr.C05.\nOpen Scope string_scope.\n" + defs
	if err := os.WriteFile(filepath.Join(outDir, "c05worlds.v"), []byte(src), 0o644); err != nil {
		return defs
	}
	cmd := exec.Command("timeout", "600", "coqc", "-Q", filepath.Join(verifRoot(), "coq", "theories"), "KV", "c05worlds.v")
	cmd.Dir = outDir
	if out, err := cmd.CombinedOutput(); err != nil {
		_ = os.WriteFile(filepath.Join(outDir, "c05worlds.log"), out, 0o644)
		return defs
	}
	return "Require Import c05worlds.\n"
}

func quietStderr() func() {
	old := os.Stderr
	if dn, err := os.OpenFile(os.DevNull, os.O_WRONLY, 0); err == nil {
		os.Stderr = dn
		return func() { os.Stderr = old; dn.Close() }
	}
	return func() {}
}

func runC05(r *Run, rng *Rng, tier string) error {
	log.SetOutput(io.Discard)
	defer quietStderr()()
	if pf := os.Getenv("C05_PROF"); pf != "" {
		if f, err := os.Create(pf); err == nil {
			_ = pprof.StartCPUProfile(f)
			defer pprof.StopCPUProfile()
		}
	}
	debug.SetGCPercent(400)
	if part := os.Getenv("C05_PART"); part != "" {
		var i, n int
		if _, err := fmt.Sscanf(part, "%d/%d", &i, &n); err != nil || n < 1 {
			return fmt.Errorf("bad C05_PART %q", part)
		}
		return runC05Builds(r, tier, i, n)
	}
	if err := os.MkdirAll(r.OutDir, 0o755); err != nil {
		return err
	}
	children, err := startChildren(r, tier)
	if err != nil {
		return err
	}
	// NewRng(seed) states of consecutive seeds are one step apart: fork once so that seeds give unrelated runs
	rng = rng.Fork()
	r.Meta.Rule = "path functions: every string over {/ . a} up to length 6 (8 thorough) + adversarial spellings; file systems: random trees (names qa,qb,qc,qrt,qrt-evil,qk.yaml,qx; " +
		"links relative/absolute/dangling/looping/with dots and trailing slashes) in memory and on disk; loader: structured world (3 stacked roots, sibling base, outside directory with canary files, " +
		"links in/out) x every path expression of <=3 (model) / <=4 (reference) atoms (<=6 thorough) over {., .., dir, file, link-in-dir, link-out-dir, link-in-file, link-out-file, /abs-root, /abs-outside, /abs-root-in-other-letter-case} + relative paths to that sibling x depth 1..3 x {Load, New}; " +
		"builds: the same expressions x 21 path-bearing fields through krusty.Run. non-trivial = the operation succeeded"
	modelLen, refLen := 3, 4
	nWorlds, nQueries := 12, 60
	if tier == "thorough" {
		modelLen, refLen = 4, 6
		nWorlds, nQueries = 60, 100
	}
	diskParent, err := os.MkdirTemp("", "verif-c05-")
	if err != nil {
		return err
	}
	defer os.RemoveAll(diskParent)
	// atom names must not exist in the real ancestors of the temp dir
	for d := filepath.Dir(diskParent); ; d = filepath.Dir(d) {
		for _, a := range append([]string{aFile, aDir, aLid, aLod, aLif, aLof, "zw", "qnope"}, rwNames...) {
			if _, err := os.Lstat(filepath.Join(d, a)); err == nil {
				return fmt.Errorf("atom name %s exists in %s", a, d)
			}
		}
		if d == "/" || d == "." {
			break
		}
	}
	var defs strings.Builder

	// 1. path functions
	pathFnCases(r, rng.Fork(), tier)

	// 2. structured world, loader level (field-independent: the "resources" flavour of the world)
	resField, _ := fieldByID("resources")
	memW := buildWorld(resField, nil, false)
	memLW, err := materialise(memW, "mem", "")
	if err != nil {
		return err
	}
	fmt.Fprintf(&defs, "Definition sw_mem : mnode := %s.\n", memW.full().coqMem())
	base, prefix, err := newDiskBase(diskParent)
	if err != nil {
		return err
	}
	diskW := buildWorld(resField, prefix, true)
	diskLW, err := materialise(diskW, "disk", base)
	if err != nil {
		return err
	}
	fmt.Fprintf(&defs, "Definition sw_disk : dnode := %s.\n", diskW.full().coqDisk())
	structuredLoaderCases(r, memLW, "(VMem sw_mem)", modelLen+1, true)
	structuredLoaderCases(r, diskLW, "(VDisk sw_disk)", modelLen, true)
	if refLen > modelLen {
		// longer expressions: reference oracle only (the shorter ones were just covered)
		structuredLoaderCases(r, diskLW, "", refLen, false)
	}

	// 3. random worlds + link-count limits
	if err := randomWorldCases(r, rng.Fork(), "mem", nWorlds, nQueries, diskParent, &defs); err != nil {
		return err
	}
	if err := randomWorldCases(r, rng.Fork(), "disk", nWorlds, nQueries, diskParent, &defs); err != nil {
		return err
	}
	if err := linkChainCases(r, diskParent, &defs); err != nil {
		return err
	}
	nVisit := 100
	if tier == "thorough" {
		nVisit = 1500
	}
	if err := visitCases(r, rng.Fork(), "mem", nVisit, diskParent, &defs); err != nil {
		return err
	}
	if err := visitCases(r, rng.Fork(), "disk", nVisit, diskParent, &defs); err != nil {
		return err
	}
	r.header += compileWorlds(r.OutDir, defs.String())

	// 4. builds: every field x expression x fs x depth, in worker processes (krusty.Run keeps global
	// OpenAPI state; separate processes keep the builds independent of each other)
	if err := mergeChildren(r, children); err != nil {
		return err
	}
	r.Meta.Exhaustive = true
	return nil
}


// runC05Builds: the build-level search for the fields assigned to this worker (index part of nparts).
func runC05Builds(r *Run, tier string, part, nparts int) error {
	runLen, deepLen := 4, 2
	if tier == "thorough" {
		runLen, deepLen = 6, 4
	}
	diskParent, err := os.MkdirTemp("", "verif-c05-")
	if err != nil {
		return err
	}
	defer os.RemoveAll(diskParent)
	for fi, f := range c05Fields {
		if fi%nparts != part {
			continue
		}
		mw := buildWorld(f, nil, false)
		mlw, err := materialise(mw, "mem", "")
		if err != nil {
			return err
		}
		b, pfx, err := newDiskBase(diskParent)
		if err != nil {
			return err
		}
		dw := buildWorld(f, pfx, true)
		dlw, err := materialise(dw, "disk", b)
		if err != nil {
			return err
		}
		for _, lw := range []*liveWorld{mlw, dlw} {
			for depth := 1; depth <= 3; depth++ {
				ml := runLen
				if depth > 1 {
					ml = deepLen
					if f.dirMode >= 1 {
						ml = deepLen + 1
					}
				}
				for _, e := range lw.w.exprs(depth, ml) {
					if lw.aborted {
						return nil
					}
					o := lw.execRun(f, depth, e)
					r.AddEval(fmt.Sprintf("run|%s|%s|%d|%s", f.id, lw.kind, depth, lw.placeholders(depth, e)), o.cls == ClsOk)
					r.Count("run_field", f.id)
					r.Count("run_fs_depth", fmt.Sprintf("%s/%d", lw.kind, depth))
					lw.runOracle(r, f, depth, e, o)
				}
			}
		}
		// the kustomization file itself is a link (disk only)
		for _, root := range []string{"klo", "kli"} {
			ov := &ovFS{FileSystem: dlw.fs, over: map[string]string{}}
			ko := runWithTimeout(ov, absOf(dw.abs("zw", root)))
			cls, msg, out := ko.cls, ko.msg, ko.out
			if cls == ClsDiverge {
				r.Violation(OracleViolation{Law: "terminates", Class: "C05/diverge/kustomization-file", Detail: msg, Replay: map[string]string{"kind": "kustfile", "root": root, "field": f.id}})
				return nil
			}
			r.AddEval("kustfile|"+f.id+"|"+root, cls == ClsOk)
			r.Count("kustfile_link", root+"="+cls)
			desc := map[string]string{"kind": "kustfile", "root": root, "field": f.id}
			if root == "klo" && cls == ClsOk {
				r.Violation(OracleViolation{Law: "build_confined", Class: "C05/escape/kustomization-file", Detail: "a kustomization.yaml that is a link to a file outside the root was accepted", Replay: desc})
			}
			if root == "kli" && cls != ClsOk {
				r.Violation(OracleViolation{Law: "inside_builds", Class: "C05/inside-rejected/kustomization-file", Detail: "a kustomization.yaml that is a link to a file inside the root was rejected: " + msg, Replay: desc})
			}
			if hasCanary(out) || hasCanary(msg) {
				r.Violation(OracleViolation{Law: "canary", Class: "C05/canary/kustomization-file", Detail: "canary leaked through a linked kustomization file: " + msg, Replay: desc})
			}
		}
	}
	return nil
}

type childProc struct {
	cmd *exec.Cmd
	dir string
	out *strings.Builder
}

func startChildren(r *Run, tier string) ([]childProc, error) {
	n := runtime.NumCPU() / 2
	if n > 8 {
		n = 8
	}
	if tier == "thorough" && runtime.NumCPU() >= 16 {
		n = 12
	}
	if n < 1 {
		n = 1
	}
	var out []childProc
	for i := 0; i < n; i++ {
		dir := filepath.Join(r.OutDir, fmt.Sprintf("part-%d", i))
		if err := os.MkdirAll(dir, 0o755); err != nil {
			return nil, err
		}
		cmd := exec.Command(os.Args[0], "-tier", tier, "-seed", fmt.Sprint(r.Meta.Seed), "-out", dir, "C05")
		cmd.Env = append(os.Environ(), fmt.Sprintf("C05_PART=%d/%d", i, n))
		var sb strings.Builder
		cmd.Stdout = &sb
		cmd.Stderr = &sb
		if err := cmd.Start(); err != nil {
			return nil, err
		}
		out = append(out, childProc{cmd: cmd, dir: dir, out: &sb})
	}
	return out, nil
}

func mergeChildren(r *Run, children []childProc) error {
	for _, c := range children {
		if err := c.cmd.Wait(); err != nil {
			return fmt.Errorf("build worker %s failed: %v\n%s", c.dir, err, c.out.String())
		}
		data, err := os.ReadFile(filepath.Join(c.dir, "meta.json"))
		if err != nil {
			return err
		}
		var m Meta
		if err := json.Unmarshal(data, &m); err != nil {
			return err
		}
		r.Meta.Evaluations += m.Evaluations
		r.Meta.DistinctNontriv += m.DistinctNontriv
		r.Meta.Skipped += m.Skipped
		for dim, kv := range m.Distribution {
			for k, v := range kv {
				for i := 0; i < v; i++ {
					r.Count(dim, k)
				}
			}
		}
		for _, v := range m.Violations {
			r.Violation(v)
		}
		_ = os.RemoveAll(c.dir)
	}
	return nil
}

func replayC05(path string) (bool, string, error) {
	log.SetOutput(io.Discard)
	defer quietStderr()()
	data, err := os.ReadFile(path)
	if err != nil {
		return false, "", err
	}
	var rp struct {
		Case json.RawMessage `json:"case"`
		Cls  string          `json:"cls"`
	}
	if err := json.Unmarshal(data, &rp); err != nil {
		return false, "", err
	}
	var k struct {
		Kind string `json:"kind"`
	}
	_ = json.Unmarshal(rp.Case, &k)
	tmp, err := os.MkdirTemp("", "verif-c05-replay-")
	if err != nil {
		return false, "", err
	}
	defer os.RemoveAll(tmp)
	r := NewRun("C05", "replay", 1, tmp, "")
	switch k.Kind {
	case "run":
		var c runCase
		if err := json.Unmarshal(rp.Case, &c); err != nil {
			return false, "", err
		}
		f, ok := fieldByID(c.Field)
		if !ok {
			return false, "", fmt.Errorf("unknown field %s", c.Field)
		}
		var lw *liveWorld
		if c.FS == "mem" {
			lw, err = materialise(buildWorld(f, nil, false), "mem", "")
		} else {
			var b string
			var pfx []string
			b, pfx, err = newDiskBase(tmp)
			if err == nil {
				lw, err = materialise(buildWorld(f, pfx, true), "disk", b)
			}
		}
		if err != nil {
			return false, "", err
		}
		e := lw.expand(c.Depth, c.Expr)
		o := lw.execRun(f, c.Depth, e)
		lw.runOracle(r, f, c.Depth, e, o)
		detail := fmt.Sprintf("field=%s fs=%s depth=%d expr=%q\nclass=%s\nerror=%s\noutput=%s\nreads=%v\nexpectation=%+v", c.Field, c.FS, c.Depth, e, o.cls, o.msg, o.out, o.reads, lw.expect(f, c.Depth, e))
		for _, v := range r.Meta.Violations {
			detail += "\nVIOLATED " + v.Law + " [" + v.Class + "]: " + v.Detail
		}
		return len(r.Meta.Violations) > 0, detail, nil
	case "chain-structured":
		var c struct {
			FS    string `json:"fs"`
			Depth int    `json:"depth"`
			Op    string `json:"op"`
			Expr  string `json:"expr"`
		}
		if err := json.Unmarshal(rp.Case, &c); err != nil {
			return false, "", err
		}
		f, _ := fieldByID("resources")
		var lw *liveWorld
		if c.FS == "mem" {
			lw, err = materialise(buildWorld(f, nil, false), "mem", "")
		} else {
			var b string
			var pfx []string
			b, pfx, err = newDiskBase(tmp)
			if err == nil {
				lw, err = materialise(buildWorld(f, pfx, true), "disk", b)
			}
		}
		if err != nil {
			return false, "", err
		}
		names := []string{"top", "mid", "base"}
		var news []string
		for i := 1; i < c.Depth; i++ {
			news = append(news, "../"+names[i])
		}
		cc := chainCase{FS: c.FS, RootOnly: true, Target: absOf(lw.w.abs("zw", "top")), News: news, Op: c.Op, Arg: lw.expand(c.Depth, c.Expr)}
		o := execChain(lw.fs, cc)
		chainOracle(r, lw, cc, o, rp.Case)
		detail := fmt.Sprintf("chain %+v\nobserved stage=%d class=%s root=%s bytes=%q error=%s", cc, o.stage, o.cls, o.root, o.bytes, o.msg)
		for _, v := range r.Meta.Violations {
			detail += "\nVIOLATED " + v.Law + " [" + v.Class + "]: " + v.Detail
		}
		return len(r.Meta.Violations) > 0, detail, nil
	case "hasprefix":
		var c struct{ D, P string }
		_ = json.Unmarshal(rp.Case, &c)
		b := filesys.ConfirmedDir(c.D).HasPrefix(filesys.ConfirmedDir(c.P))
		want := compsHasPrefix(splitComps(c.D), splitComps(c.P))
		return b != want, fmt.Sprintf("ConfirmedDir(%q).HasPrefix(%q) = %v, component-wise containment = %v", c.D, c.P, b, want), nil
	}
	return false, "replay of case kind " + k.Kind + " is not supported (random worlds are regenerated from the seed by ./check)", nil
}
