package main

import (
	"sync"

	"sigs.k8s.io/kustomize/kyaml/openapi"
)

// C15: primitive "set" lists -- lists with `x-kubernetes-patch-strategy: merge` and no merge key -- whose elements are
// not strings. The built-in schema only has string set lists (finalizers ...), where re-tagging an element as !!str
// is invisible in the typed result; a custom kind declared through openapi.AddSchema gives integer and boolean ones.

const setListSchema15 = `{"definitions": {"com.example.v1.Bar": {"type": "object",
  "x-kubernetes-group-version-kind": [{"group": "example.com", "kind": "Bar", "version": "v1"}],
  "properties": {"apiVersion": {"type": "string"}, "kind": {"type": "string"}, "metadata": {"type": "object"},
    "spec": {"type": "object", "properties": {
      "nums":  {"type": "array", "items": {"type": "integer"}, "x-kubernetes-patch-strategy": "merge"},
      "flags": {"type": "array", "items": {"type": "boolean"}, "x-kubernetes-patch-strategy": "merge"},
      "words": {"type": "array", "items": {"type": "string"},  "x-kubernetes-patch-strategy": "merge"},
      "plain": {"type": "array", "items": {"type": "integer"}}}}}}}}`

var schema15Once sync.Once

func ensureSchema15() {
	schema15Once.Do(func() {
		if err := openapi.AddSchema([]byte(setListSchema15)); err != nil {
			panic(err)
		}
	})
}

func genSetList15(rng *Rng) case15 {
	pool := map[string][]string{
		"nums":  {"1", "2", "3", "80", "443"},
		"flags": {"true", "false"},
		"words": {"a", "b", `"1"`, "c d"},
		"plain": {"1", "2", "3"},
	}
	spec := &g4{kind: 1}
	for _, f := range []string{"nums", "flags", "words", "plain"} {
		if rng.Chance(75) || f == "nums" {
			l := &g4{kind: 2}
			for _, v := range pickN(rng, pool[f], 1+rng.Intn(2)) {
				l.vals = append(l.vals, gS(v))
			}
			spec.set(f, l)
		}
	}
	if rng.Chance(40) {
		spec.set("size", gS("3"))
	}
	o := gM("apiVersion", "example.com/v1", "kind", "Bar", "metadata", gM("name", "obj"), "spec", spec)
	edit := func(d *g4, tag string) *g4 {
		e := d.clone()
		s := e.get("spec")
		f := rng.Pick([]string{"nums", "flags", "words"})
		l := s.get(f)
		if l == nil {
			l = &g4{kind: 2}
			s.set(f, l)
		}
		switch f {
		case "nums":
			l.vals = append(l.vals, gS(map[string]string{"l": "7001", "u": "9001"}[tag]))
		case "flags":
			if len(l.vals) < 2 {
				have := ""
				if len(l.vals) == 1 {
					have = l.vals[0].text
				}
				if have == "true" {
					l.vals = append(l.vals, gS("false"))
				} else {
					l.vals = append(l.vals, gS("true"))
				}
			}
		default:
			l.vals = append(l.vals, gS(map[string]string{"l": "local", "u": "upstream"}[tag]))
		}
		if rng.Chance(30) {
			s.set("size", gS(map[string]string{"l": "4", "u": "5"}[tag]))
		}
		return e
	}
	c := case15{Infer: rng.Chance(30), Note: "set-list kind Bar"}
	switch k := rng.Intn(100); {
	case k < 30:
		c.Law = "L1"
		c.Local, c.Orig, c.Upd = edit(o, "l").yaml(), o.yaml(), o.yaml()
	case k < 60:
		c.Law = "L2"
		c.Local, c.Orig, c.Upd = o.yaml(), o.yaml(), edit(o, "u").yaml()
	case k < 80:
		c.Law = "L3"
		c.Local, c.Orig, c.Upd = o.yaml(), o.yaml(), o.yaml()
	default:
		c.Local, c.Orig, c.Upd = edit(o, "l").yaml(), o.yaml(), edit(o, "u").yaml()
	}
	return c
}

// ---------- package-level family: kio/filters.Merge3{...}.Merge() over three directories ----------
//
// The three laws at package level, with option combinations: MatchFilesGlob (default / a custom glob that also selects
// files the default does not), resources in sub-directories. Files hold one ConfigMap-like resource each; the edits are
// scalar changes and added scalar fields (none of the recorded node-level finding classes).

type pkgFile15 struct {
	Path string `json:"path"`
	Orig string `json:"orig,omitempty"`
	Upd  string `json:"upd,omitempty"`
	Dest string `json:"dest,omitempty"`
}

type pkgCase15 struct {
	Glob  []string    `json:"glob,omitempty"` // nil = the default
	Law   string      `json:"law"`
	Files []pkgFile15 `json:"files"`
}
