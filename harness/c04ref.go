// C04 reference oracle: adapter that applies a Kubernetes strategic merge patch with the
// REFERENCE implementation (k8s.io/apimachinery/pkg/util/strategicpatch), using
// merge-key / patch-strategy metadata taken from kustomize's kyaml openapi
// package.
package main

import (
	"bytes"
	stdjson "encoding/json"
	"fmt"
	"strings"

	k8sjson "k8s.io/apimachinery/pkg/util/json"
	"k8s.io/apimachinery/pkg/util/strategicpatch"
	"sigs.k8s.io/kustomize/kyaml/openapi"
	"sigs.k8s.io/kustomize/kyaml/yaml"
)

// kyamlLookup implements strategicpatch.LookupPatchMeta on top of the kyaml
// openapi schema. A nil / empty schema answers "no strategy, no merge key"
// everywhere (lists are replaced, maps are merged).
type kyamlLookup struct{ s *openapi.ResourceSchema }

var _ strategicpatch.LookupPatchMeta = kyamlLookup{}

func (l kyamlLookup) schemaless() bool {
	return l.s == nil || l.s.Schema == nil
}

// field returns the schema of field `key` (nil when unknown) and its PatchMeta.
func (l kyamlLookup) field(key string) (*openapi.ResourceSchema, strategicpatch.PatchMeta) {
	var pm strategicpatch.PatchMeta
	pm.SetPatchStrategies([]string{})
	pm.SetPatchMergeKey("")
	if l.schemaless() {
		return nil, pm
	}
	fs := l.s.Field(key)
	if fs == nil || fs.Schema == nil {
		return nil, pm
	}
	strategy, mergeKey := fs.PatchStrategyAndKey()
	if strategy != "" {
		pm.SetPatchStrategies(strings.Split(strategy, ","))
	}
	pm.SetPatchMergeKey(mergeKey)
	return fs, pm
}

func (l kyamlLookup) LookupPatchMetadataForStruct(key string) (strategicpatch.LookupPatchMeta, strategicpatch.PatchMeta, error) {
	fs, pm := l.field(key)
	return kyamlLookup{s: fs}, pm, nil
}

func (l kyamlLookup) LookupPatchMetadataForSlice(key string) (strategicpatch.LookupPatchMeta, strategicpatch.PatchMeta, error) {
	fs, pm := l.field(key)
	if fs == nil {
		return kyamlLookup{}, pm, nil
	}
	// Elements() dereferences rs.Schema before its own nil check; fs.Schema is
	// non-nil here (checked in field()).
	return kyamlLookup{s: fs.Elements()}, pm, nil
}

func (l kyamlLookup) Name() string {
	if l.schemaless() {
		return "<schemaless>"
	}
	if l.s.Schema.ID != "" {
		return l.s.Schema.ID
	}
	if l.s.Schema.Title != "" {
		return l.s.Schema.Title
	}
	return "<kyaml-openapi>"
}

// k8sSMP applies patchJSON (a strategic merge patch) to targetJSON with the
// reference implementation; metadata comes from kyaml's builtin openapi schema
// for (kind, apiVersion). Unknown kinds get a schema-less lookup.
func k8sSMP(kind, apiVersion string, targetJSON, patchJSON []byte) (out []byte, err error) {
	defer func() {
		if r := recover(); r != nil {
			out, err = nil, fmt.Errorf("panic: %v", r)
		}
	}()
	root := openapi.SchemaForResourceType(yaml.TypeMeta{Kind: kind, APIVersion: apiVersion})
	lookup := kyamlLookup{s: root}

	original := map[string]interface{}{}
	if err := k8sjson.Unmarshal(targetJSON, &original); err != nil {
		return nil, fmt.Errorf("target: %w", err)
	}
	patch := map[string]interface{}{}
	if err := k8sjson.Unmarshal(patchJSON, &patch); err != nil {
		return nil, fmt.Errorf("patch: %w", err)
	}
	res, err := strategicpatch.StrategicMergeMapPatchUsingLookupPatchMeta(original, patch, lookup)
	if err != nil {
		return nil, err
	}
	// encoding/json sorts map keys.
	var buf bytes.Buffer
	enc := stdjson.NewEncoder(&buf)
	enc.SetEscapeHTML(false)
	if err := enc.Encode(map[string]interface{}(res)); err != nil {
		return nil, err
	}
	return bytes.TrimRight(buf.Bytes(), "\n"), nil
}
