package main

import (
	"fmt"
	"strings"
)

// ---------- C05: the path-bearing kustomization fields and the structured world ----------

const c05Canary = "CANARY7f3a9c51e2"

// file/dir names used as path atoms. Distinctive, so that they never exist in the real
// ancestors of the temporary directory of a disk world.
const (
	aFile = "zf.yaml" // "file": the field's file, present in every directory of the world
	aDir  = "zd"      // "dir": a sub-directory (a valid sub-base inside every root)
	aLid  = "zlid"    // link to an inside directory
	aLod  = "zlod"    // link to an outside directory
	aLif  = "zlif"    // link to an inside file
	aLof  = "zlof"    // link to an outside file
)

type fieldDef struct {
	id string
	// kust: the tested layer's kustomization (body without apiVersion/kind) referencing expression e
	kust func(e string) string
	// content: the field's file content, carrying marker m (the canary for files outside every root)
	content func(id, m string) string
	// extra overlay files of the tested root (name -> content), e.g. a transformer config holding e
	extra func(e string) map[string]string
	// dirMode: 0 = file only (Load); 1 = file, else directory (Load then New); 2 = directory only (New)
	dirMode int
	// dirMust: a legal directory reference must build (resources/bases/components)
	dirMust bool
	// component: sub-bases of the world are kind Component
	component bool
}

func q(s string) string { return "'" + strings.ReplaceAll(s, "'", "''") + "'" }

const cmYaml = `apiVersion: v1
kind: ConfigMap
metadata:
  name: cm
  labels:
    v: ok
data:
  where: local
`

func resContent(id, m string) string {
	return fmt.Sprintf("apiVersion: v1\nkind: ConfigMap\nmetadata:\n  name: r-%s\ndata:\n  where: %s\n", id, m)
}

var c05Fields = []fieldDef{
	{id: "resources", dirMode: 1, dirMust: true,
		kust:    func(e string) string { return "resources:\n- " + q(e) + "\n" },
		content: resContent},
	{id: "bases", dirMode: 1, dirMust: true,
		kust:    func(e string) string { return "bases:\n- " + q(e) + "\n" },
		content: resContent},
	{id: "components", dirMode: 2, dirMust: true, component: true,
		kust:    func(e string) string { return "components:\n- " + q(e) + "\n" },
		content: resContent},
	{id: "patches.path",
		kust: func(e string) string {
			return "resources:\n- cm.yaml\npatches:\n- path: " + q(e) + "\n  target:\n    kind: ConfigMap\n"
		},
		content: func(id, m string) string {
			return fmt.Sprintf("apiVersion: v1\nkind: ConfigMap\nmetadata:\n  name: whatever\ndata:\n  patched: %s\n", m)
		}},
	{id: "patchesStrategicMerge",
		kust: func(e string) string { return "resources:\n- cm.yaml\npatchesStrategicMerge:\n- " + q(e) + "\n" },
		content: func(id, m string) string {
			return fmt.Sprintf("apiVersion: v1\nkind: ConfigMap\nmetadata:\n  name: cm\ndata:\n  patched: %s\n", m)
		}},
	{id: "patchesJson6902.path",
		kust: func(e string) string {
			return "resources:\n- cm.yaml\npatchesJson6902:\n- path: " + q(e) + "\n  target:\n    version: v1\n    kind: ConfigMap\n    name: cm\n"
		},
		content: func(id, m string) string {
			return fmt.Sprintf("[{\"op\": \"add\", \"path\": \"/data/patched\", \"value\": \"%s\"}]\n", m)
		}},
	{id: "configMapGenerator.files",
		kust: func(e string) string {
			return "configMapGenerator:\n- name: g\n  files:\n  - " + q("k="+e) + "\n"
		},
		content: func(id, m string) string { return "content " + m + "\n" }},
	{id: "configMapGenerator.envs",
		kust: func(e string) string {
			return "configMapGenerator:\n- name: g\n  envs:\n  - " + q(e) + "\n"
		},
		content: func(id, m string) string { return "WHERE=" + m + "\n" }},
	{id: "secretGenerator.files",
		kust: func(e string) string {
			return "secretGenerator:\n- name: s\n  files:\n  - " + q("k="+e) + "\n"
		},
		content: func(id, m string) string { return "content " + m + "\n" }},
	{id: "secretGenerator.envs",
		kust: func(e string) string {
			return "secretGenerator:\n- name: s\n  envs:\n  - " + q(e) + "\n"
		},
		content: func(id, m string) string { return "WHERE=" + m + "\n" }},
	{id: "configurations",
		kust: func(e string) string { return "resources:\n- cm.yaml\nconfigurations:\n- " + q(e) + "\n" },
		content: func(id, m string) string {
			return fmt.Sprintf("namePrefix:\n- path: metadata/name\n  kind: %s\n", m)
		}},
	{id: "crds",
		kust: func(e string) string { return "resources:\n- cm.yaml\ncrds:\n- " + q(e) + "\n" },
		content: func(id, m string) string {
			return fmt.Sprintf("{\"example.com/v1.Bee\": {\"Schema\": {\"type\": \"object\", \"description\": \"%s\", "+
				"\"properties\": {\"spec\": {\"type\": \"object\"}}}}}\n", m)
		}},
	{id: "openapi.path",
		kust: func(e string) string { return "resources:\n- cm.yaml\nopenapi:\n  path: " + q(e) + "\n" },
		content: func(id, m string) string {
			return fmt.Sprintf("{\"definitions\": {\"v1.Bee\": {\"type\": \"object\", \"description\": \"%s\", "+
				"\"x-kubernetes-group-version-kind\": [{\"group\": \"example.com\", \"kind\": \"Bee\", \"version\": \"v1\"}]}}}\n", m)
		}},
	{id: "replacements.path",
		kust: func(e string) string { return "resources:\n- cm.yaml\nreplacements:\n- path: " + q(e) + "\n" },
		content: func(id, m string) string {
			return fmt.Sprintf("# %s\nsource:\n  kind: ConfigMap\n  name: cm\n  fieldPath: data.where\ntargets:\n- select:\n    kind: ConfigMap\n    name: cm\n"+
				"  fieldPaths:\n  - data.copy\n  options:\n    create: true\n", m)
		}},
	{id: "generators", dirMode: 1,
		kust: func(e string) string { return "generators:\n- " + q(e) + "\n" },
		content: func(id, m string) string {
			return fmt.Sprintf("apiVersion: builtin\nkind: ConfigMapGenerator\nmetadata:\n  name: gen-%s\nliterals:\n- where=%s\n", id, m)
		}},
	{id: "transformers", dirMode: 1,
		kust: func(e string) string { return "resources:\n- cm.yaml\ntransformers:\n- " + q(e) + "\n" },
		content: func(id, m string) string {
			return fmt.Sprintf("apiVersion: builtin\nkind: LabelTransformer\nmetadata:\n  name: lt-%s\nlabels:\n  where: %s\nfieldSpecs:\n- path: metadata/labels\n  create: true\n", id, m)
		}},
	{id: "validators", dirMode: 1,
		kust: func(e string) string { return "resources:\n- cm.yaml\nvalidators:\n- " + q(e) + "\n" },
		content: func(id, m string) string {
			return fmt.Sprintf("# %s\napiVersion: builtin\nkind: LabelTransformer\nmetadata:\n  name: va-%s\nlabels: {}\nfieldSpecs:\n- path: metadata/labels\n  create: true\n", m, id)
		}},
	{id: "transformers>PatchTransformer.path",
		kust: func(e string) string { return "resources:\n- cm.yaml\ntransformers:\n- tp.yaml\n" },
		extra: func(e string) map[string]string {
			return map[string]string{"tp.yaml": "apiVersion: builtin\nkind: PatchTransformer\nmetadata:\n  name: pt\npath: " + q(e) + "\ntarget:\n  kind: ConfigMap\n"}
		},
		content: func(id, m string) string {
			return fmt.Sprintf("apiVersion: v1\nkind: ConfigMap\nmetadata:\n  name: whatever\ndata:\n  patched: %s\n", m)
		}},
	{id: "generators>ConfigMapGenerator.files",
		kust: func(e string) string { return "generators:\n- gp.yaml\n" },
		extra: func(e string) map[string]string {
			return map[string]string{"gp.yaml": "apiVersion: builtin\nkind: ConfigMapGenerator\nmetadata:\n  name: gg\nfiles:\n- " + q("k="+e) + "\n"}
		},
		content: func(id, m string) string { return "content " + m + "\n" }},
	{id: "transformers>ReplacementTransformer.path",
		kust: func(e string) string { return "resources:\n- cm.yaml\ntransformers:\n- tp.yaml\n" },
		extra: func(e string) map[string]string {
			return map[string]string{"tp.yaml": "apiVersion: builtin\nkind: ReplacementTransformer\nmetadata:\n  name: rt\nreplacements:\n- path: " + q(e) + "\n"}
		},
		content: func(id, m string) string {
			return fmt.Sprintf("# %s\nsource:\n  kind: ConfigMap\n  name: cm\n  fieldPath: data.where\ntargets:\n- select:\n    kind: ConfigMap\n    name: cm\n"+
				"  fieldPaths:\n  - data.copy\n  options:\n    create: true\n", m)
		}},
	{id: "transformers>PatchJson6902Transformer.path",
		kust: func(e string) string { return "resources:\n- cm.yaml\ntransformers:\n- tp.yaml\n" },
		extra: func(e string) map[string]string {
			return map[string]string{"tp.yaml": "apiVersion: builtin\nkind: PatchJson6902Transformer\nmetadata:\n  name: pj\npath: " + q(e) +
				"\ntarget:\n  version: v1\n  kind: ConfigMap\n  name: cm\n"}
		},
		content: func(id, m string) string {
			return fmt.Sprintf("[{\"op\": \"add\", \"path\": \"/data/patched\", \"value\": \"%s\"}]\n", m)
		}},
}

// ---------- the structured world ----------
//
//   W/zf.yaml                         outside (canary)
//   W/zw/zf.yaml                      outside (canary)
//   W/zw/R  for R in top, mid, base, sib:
//       kustomization.yaml cm.yaml tp.yaml gp.yaml zf.yaml
//       zd/{kustomization.yaml cm.yaml zf.yaml zd/zf.yaml
//           zlid -> zd   zlod -> <abs W>/zw/R-evil   zlif -> ../zf.yaml   zlof -> <abs W>/zw/R-evil/zf.yaml}
//       zlid -> zd   zlod -> ../R-evil   zlif -> zd/zf.yaml   zlof -> ../R-evil/zf.yaml
//   W/zw/R-evil/{zf.yaml, kust.yaml, zd/zf.yaml, zlid -> ../R, zlod -> zd}     outside (canary), no kustomization.
//       The name of the outside directory extends the root's name: a string-prefix containment test
//       (instead of a component-wise one) would take it for a part of the root.
//   W/zw/Top, Mid, Base, Sib/{zf.yaml, kust.yaml, zd/zf.yaml}   outside (canary): the root's name up to letter case.
//   W/zw/klo/kustomization.yaml -> ../top-evil/kust.yaml   (a root whose kustomization file is a link to the outside)
//   W/zw/kli/kustomization.yaml -> real.yaml               (… to a file inside)
//
// Directories that may become roots (they hold a kustomization file): top, mid, base, sib, R/zd, klo, kli.

var c05Roots = []string{"top", "mid", "base", "sib"}

type world struct {
	tree   *vnode   // from the world root W
	prefix []string // names from "/" to W (empty for the in-memory FS)
	links  bool
}

func (w *world) full() *vnode { return w.tree.under(w.prefix) }

func (w *world) abs(rel ...string) []string {
	out := append([]string{}, w.prefix...)
	for _, r := range rel {
		for _, c := range strings.Split(r, "/") {
			if c != "" {
				out = append(out, c)
			}
		}
	}
	return out
}

func subKust(component bool) string {
	if component {
		return "apiVersion: kustomize.config.k8s.io/v1alpha1\nkind: Component\nresources:\n- cm.yaml\n"
	}
	return "resources:\n- cm.yaml\n"
}

func buildWorld(f fieldDef, prefix []string, links bool) *world {
	w := &world{tree: newDir(), prefix: prefix, links: links}
	t := w.tree
	absW := absOf(prefix)
	if len(prefix) == 0 {
		absW = ""
	}
	can := func(id string) string { return f.content(id, c05Canary+"-"+id) }
	in := func(id string) string { return f.content(id, "inside-"+id) }
	t.addFile(aFile, can("w0"))
	t.addFile("zw/"+aFile, can("w1"))
	for _, r := range c05Roots {
		b := "zw/" + r + "/"
		ev := "zw/" + r + "-evil/"
		t.addFile(ev+aFile, can(r+"-evil"))
		t.addFile(ev+aDir+"/"+aFile, can(r+"-evil-d"))
		t.addFile(ev+"kust.yaml", "namePrefix: "+c05Canary+"-\nresources:\n- cm.yaml\n")
		// … and a sibling whose name is the root's name up to letter case (top / Top): a containment test
		// that folds case (right for some other platforms' file systems, wrong here) would take it for the root
		cv := "zw/" + titleName(r) + "/"
		t.addFile(cv+aFile, can(r+"-case"))
		t.addFile(cv+aDir+"/"+aFile, can(r+"-case-d"))
		t.addFile(cv+"kust.yaml", "namePrefix: "+c05Canary+"-\nresources:\n- cm.yaml\n")
		if links {
			t.addLink(ev+aLid, "../"+r)
			t.addLink(ev+aLod, aDir)
		}
		t.addFile(b+"kustomization.yaml", "resources:\n- cm.yaml\n")
		t.addFile(b+"cm.yaml", cmYaml)
		t.addFile(b+"tp.yaml", "# placeholder\n")
		t.addFile(b+"gp.yaml", "# placeholder\n")
		t.addFile(b+aFile, in(r))
		t.addFile(b+aDir+"/kustomization.yaml", subKust(f.component))
		t.addFile(b+aDir+"/cm.yaml", cmYaml)
		t.addFile(b+aDir+"/"+aFile, in(r+"-d"))
		t.addFile(b+aDir+"/"+aDir+"/"+aFile, in(r+"-dd"))
		if links {
			t.addLink(b+aLid, aDir)
			t.addLink(b+aLod, "../"+r+"-evil")
			t.addLink(b+aLif, aDir+"/"+aFile)
			t.addLink(b+aLof, "../"+r+"-evil/"+aFile)
			t.addLink(b+aDir+"/"+aLid, aDir)
			t.addLink(b+aDir+"/"+aLod, absW+"/zw/"+r+"-evil")
			t.addLink(b+aDir+"/"+aLif, "../"+aFile)
			t.addLink(b+aDir+"/"+aLof, absW+"/zw/"+r+"-evil/"+aFile)
		}
	}
	if links {
		t.addFile("zw/klo/cm.yaml", cmYaml)
		t.addLink("zw/klo/kustomization.yaml", "../top-evil/kust.yaml")
		t.addFile("zw/kli/cm.yaml", cmYaml)
		t.addFile("zw/kli/real.yaml", "resources:\n- cm.yaml\n")
		t.addLink("zw/kli/kustomization.yaml", "real.yaml")
	}
	return w
}

// chain of roots for a tested layer at depth k (1..3): the stack, nearest root first.
func (w *world) stackFor(depth int) [][]string {
	names := []string{"top", "mid", "base"}[:depth]
	var st [][]string
	for i := depth - 1; i >= 0; i-- {
		st = append(st, w.abs("zw", names[i]))
	}
	return st
}

// atoms of path expressions.
type atom struct {
	text   string
	term   bool // names a file: nothing useful can follow
	first  bool // only as the first atom (absolute prefix)
	isLink bool
}

func (w *world) atoms(depth int) []atom {
	root := absOf(w.stackFor(depth)[0])
	out := []atom{{text: "."}, {text: ".."}, {text: aDir}, {text: aFile, term: true}}
	if w.links {
		out = append(out, atom{text: aLid, isLink: true}, atom{text: aLod, isLink: true},
			atom{text: aLif, term: true, isLink: true}, atom{text: aLof, term: true, isLink: true})
	}
	out = append(out, atom{text: root, first: true}, atom{text: root + "-evil", first: true}, atom{text: caseVariant(root), first: true})
	return out
}

func titleName(s string) string { return strings.ToUpper(s[:1]) + s[1:] }

// caseVariant: the sibling directory whose path is the root's up to letter case (…/zw/top -> …/zw/Top).
func caseVariant(root string) string {
	i := strings.LastIndex(root, "/")
	return root[:i+1] + titleName(root[i+1:])
}

// exprs enumerates the path expressions of 1..maxLen atoms: an absolute prefix only in first
// position; after a file-naming atom at most one more atom (covering "file/x" = not a directory).
func (w *world) exprs(depth, maxLen int) []string {
	atoms := w.atoms(depth)
	var out []string
	var rec func(cur []string, n int, afterTerm bool)
	rec = func(cur []string, n int, afterTerm bool) {
		if n > 0 {
			out = append(out, strings.Join(cur, "/"))
		}
		if n == maxLen || (afterTerm && n >= 2) {
			return
		}
		for _, a := range atoms {
			if a.first && n > 0 {
				continue
			}
			rec(append(append([]string{}, cur...), a.text), n+1, afterTerm || a.term)
		}
	}
	rec(nil, 0, false)
	// the case-variant sibling by relative paths
	cap := titleName([]string{"top", "mid", "base"}[depth-1])
	out = append(out, "../"+cap, "../"+cap+"/"+aFile, "../"+cap+"/"+aDir+"/"+aFile, aDir+"/../../"+cap+"/"+aFile, "../"+cap+"/../"+cap+"/kust.yaml")
	return out
}
