package main

import (
	"encoding/json"
	"fmt"
	"os"
	"reflect"
	"sort"
	"strings"

	"sigs.k8s.io/kustomize/api/filters/nameref"
	"sigs.k8s.io/kustomize/api/hasher"
	"sigs.k8s.io/kustomize/api/krusty"
	"sigs.k8s.io/kustomize/api/resmap"
	"sigs.k8s.io/kustomize/api/resource"
	"sigs.k8s.io/kustomize/api/types"
	"sigs.k8s.io/kustomize/kyaml/filesys"
	"sigs.k8s.io/kustomize/kyaml/resid"
	kutils "sigs.k8s.io/kustomize/kyaml/utils"
	kyaml "sigs.k8s.io/kustomize/kyaml/yaml"
	syaml "sigs.k8s.io/yaml"
)

// C03: name references follow every rename and never change their referent.
//
// Correspondence (model = KV.Res.NameRef / KV.Res.Rename, evaluated inside Coq):
//   CTable  the rule table an accumulator holds at run time vs. merge+sort of the GENERATED table
//   CBook   layering (namespace / namePrefix / nameSuffix per layer, resources, generated resources, bases)
//           vs. identity + rename history of every resource just before FixBackReferences (hook)
//   CRef    the resource map just before FixBackReferences vs. every document just after it (hook);
//           also on synthetic resource maps with hand-made rename histories (adversarial sieve inputs)
// Oracles on the implementation (krusty build of generated graphs x layerings):
//   refs_follow         for every generated edge (a.field -> b) inside the domain: out(a).field == out(b).name
//   external_untouched  references to names not in the build are unchanged
//   no_retarget         no generated reference ends up holding the output name of another resource
//   staged_equals_real  the staged run used for the correspondence produces the same documents as krusty.Run

func init() {
	register("C03", propDef{
		header:     "From KV Require Import Corr.C03.\nOpen Scope string_scope.\n",
		caseType:   "case03",
		mismatchFn: "mismatches03",
		run:        runC03,
		replay:     replayC03,
	})
}

const c03Tracer = "verif.c03/id"
const c03BuildAnnoPrefix = "internal.config.kubernetes.io/"

// ---------------------------------------------------------------- catalogue

var c03APIVersion = map[string]string{
	"Deployment": "apps/v1", "ReplicationController": "v1", "ReplicaSet": "apps/v1", "StatefulSet": "apps/v1",
	"DaemonSet": "apps/v1", "ConfigMap": "v1", "Secret": "v1", "Service": "v1", "ServiceAccount": "v1",
	"PersistentVolumeClaim": "v1", "PersistentVolume": "v1", "Pod": "v1", "PodTemplate": "v1", "Node": "v1",
	"Job": "batch/v1", "CronJob": "batch/v1",
	"Role": "rbac.authorization.k8s.io/v1", "ClusterRole": "rbac.authorization.k8s.io/v1",
	"RoleBinding": "rbac.authorization.k8s.io/v1", "ClusterRoleBinding": "rbac.authorization.k8s.io/v1",
	"StorageClass": "storage.k8s.io/v1", "PriorityClass": "scheduling.k8s.io/v1",
	"IngressClass": "networking.k8s.io/v1", "Ingress": "networking.k8s.io/v1",
	"HorizontalPodAutoscaler": "autoscaling/v2", "APIService": "apiregistration.k8s.io/v1",
	"ValidatingWebhookConfiguration": "admissionregistration.k8s.io/v1",
	"MutatingWebhookConfiguration":   "admissionregistration.k8s.io/v1",
	"ValidatingAdmissionPolicy":        "admissionregistration.k8s.io/v1",
	"ValidatingAdmissionPolicyBinding": "admissionregistration.k8s.io/v1",
}

// path segments that are lists in the real API objects (the field spec syntax does not say)
var c03ListSegs = map[string]bool{
	"containers": true, "initContainers": true, "env": true, "envFrom": true, "volumes": true, "sources": true,
	"imagePullSecrets": true, "rules": true, "paths": true, "tls": true, "webhooks": true,
	"volumeClaimTemplates": true,
}

func c03Group(apiVersion string) string {
	g, _ := resid.ParseGroupVersion(apiVersion)
	return g
}

// apiVersion of a generated object of the given kind, honouring a group/version demanded by a field spec
func c03APIVersionFor(kind, group, version string) string {
	av, known := c03APIVersion[kind]
	if known {
		g, v := resid.ParseGroupVersion(av)
		if (group == "" || group == g) && (version == "" || version == v) {
			return av
		}
	}
	if version == "" {
		version = "v1"
	}
	if group == "" {
		return version
	}
	return group + "/" + version
}

func c03ClusterScoped(apiVersion, kind string) bool {
	g, v := resid.ParseGroupVersion(apiVersion)
	return resid.NewGvk(g, v, kind).IsClusterScoped()
}

// ---------------------------------------------------------------- generated builds

type c03Res struct {
	ID         string                 `json:"id"`
	APIVersion string                 `json:"apiVersion"`
	Kind       string                 `json:"kind"`
	Name       string                 `json:"name"`
	Namespace  string                 `json:"namespace"`
	Layer      int                    `json:"layer"`
	Generated  bool                   `json:"generated"`
	NoHash     bool                   `json:"noHash"`
	Doc        map[string]interface{} `json:"-"`
}

type c03Edge struct {
	From     string        `json:"from"`
	To       string        `json:"to"` // "" = external name
	Addr     []interface{} `json:"addr"`
	Old      string        `json:"old"`
	RulePath string        `json:"rulePath"`
	Target   string        `json:"target"` // rule row kind
	Mapping  bool          `json:"mapping"`
	SubjNs   string        `json:"subjNs,omitempty"` // namespace field written beside the name (mapping leaves)
	HasSubNs bool          `json:"hasSubjNs,omitempty"`
}

type c03Layer struct {
	Dir       string   `json:"dir"`
	Parent    int      `json:"parent"`
	Prefix    string   `json:"prefix"`
	Suffix    string   `json:"suffix"`
	Namespace string   `json:"namespace"`
	Entries   []string `json:"entries"` // resources: entries in order ("res:<id>" or "dir:<layer index>")
	Gens      []string `json:"gens"`    // generated resource ids, in order
	// JSON6902 patches of the `patches:` field that set or remove the WHOLE annotations map of a resource
	// (the build annotations carrying the rename history must survive them)
	Patches []c03Patch `json:"patches,omitempty"`
}

type c03Patch struct {
	ID   string `json:"id"`   // target resource
	Op   string `json:"op"`   // JSON6902: add | replace | remove (followed by an add restoring the user annotations); merge = strategic merge patch
	Kind string `json:"kind"` // target kind
}

type c03Build struct {
	Layers []c03Layer        `json:"layers"`
	Res    []*c03Res         `json:"resources"`
	Edges  []c03Edge         `json:"edges"`
	Files  map[string]string `json:"files"`
	Top    string            `json:"top"`
	Shape  string            `json:"shape"`
}

func (b *c03Build) res(id string) *c03Res {
	for _, r := range b.Res {
		if r.ID == id {
			return r
		}
	}
	return nil
}

var c03Names = []string{"a", "b", "c", "web", "db", "cfg", "app", "x1"}
var c03Prefixes = []string{"p-", "q-", "dev-"}
var c03Suffixes = []string{"-s", "-v2"}
var c03Nss = []string{"ns1", "ns2"}

type c03Gen struct {
	rng     *Rng
	rules   []krusty.VerifC03Rule
	b       *c03Build
	useNs   bool
	nextID  int
	extra   int
	affixes []string
}

func (g *c03Gen) newID() string {
	id := fmt.Sprintf("r%d", g.nextID)
	g.nextID++
	return id
}

func (g *c03Gen) taken(kind, name, ns string) bool {
	for _, r := range g.b.Res {
		if r.Kind == kind && r.Name == name && r.Namespace == ns {
			return true
		}
	}
	return false
}

// pickName returns a name that keeps (kind, name, namespace) unique; adversarial shapes on purpose:
// names shared with resources of other kinds, names that look like an already prefixed/suffixed name.
func (g *c03Gen) pickName(kind, ns string) string {
	for try := 0; try < 50; try++ {
		n := g.rng.Pick(c03Names)
		if g.rng.Chance(15) && len(g.b.Res) > 0 {
			o := g.b.Res[g.rng.Intn(len(g.b.Res))]
			n = o.Name
			if g.rng.Chance(50) {
				if g.rng.Bool() {
					n = g.rng.Pick(c03Prefixes) + n
				} else {
					n = n + g.rng.Pick(c03Suffixes)
				}
			}
		}
		if !g.taken(kind, n, ns) {
			return n
		}
	}
	g.extra++
	return fmt.Sprintf("u%d", g.extra)
}

func (g *c03Gen) pickNs(kind, apiVersion string) string {
	if !g.useNs || c03ClusterScoped(apiVersion, kind) {
		return ""
	}
	switch g.rng.Intn(4) {
	case 0:
		return ""
	case 1:
		return "ns2"
	default:
		return "ns1"
	}
}

func (g *c03Gen) newRes(kind, apiVersion, ns string, layer int) *c03Res {
	name := g.pickName(kind, ns)
	r := &c03Res{ID: g.newID(), APIVersion: apiVersion, Kind: kind, Name: name, Namespace: ns, Layer: layer}
	md := map[string]interface{}{"name": name, "annotations": map[string]interface{}{c03Tracer: r.ID}}
	if ns != "" {
		md["namespace"] = ns
	}
	r.Doc = map[string]interface{}{"apiVersion": apiVersion, "kind": kind, "metadata": md}
	switch kind {
	case "ConfigMap":
		r.Doc["data"] = map[string]interface{}{"k": "v" + r.ID}
	case "Secret":
		r.Doc["stringData"] = map[string]interface{}{"k": "v"}
	}
	g.b.Res = append(g.b.Res, r)
	return r
}

// ruleSelects: does the rule row (as a selector) select an object of this apiVersion/kind
func c03RuleSelects(group, version, kind, apiVersion, objKind string) bool {
	g, v := resid.ParseGroupVersion(apiVersion)
	x := resid.Gvk{Group: g, Version: v, Kind: objKind}
	return x.IsSelected(&resid.Gvk{Group: group, Version: version, Kind: kind})
}

// insertRef writes a reference at the field spec path into doc. Returns the concrete address of the
// scalar holding the name.
func (g *c03Gen) insertRef(doc map[string]interface{}, path string, name string, e *c03Edge, refKind string, refNs string) ([]interface{}, bool) {
	segs := kutils.PathSplitter(path, "/")
	var addr []interface{}
	cur := doc
	for i, s := range segs {
		last := i == len(segs)-1
		if !last {
			child, ok := cur[s]
			if !ok {
				if c03ListSegs[s] {
					m := map[string]interface{}{}
					cur[s] = []interface{}{m}
					addr = append(addr, s, 0)
					cur = m
				} else {
					m := map[string]interface{}{}
					cur[s] = m
					addr = append(addr, s)
					cur = m
				}
				continue
			}
			switch c := child.(type) {
			case map[string]interface{}:
				addr = append(addr, s)
				cur = c
			case []interface{}:
				if g.rng.Chance(60) || len(c) == 0 {
					m := map[string]interface{}{}
					c = append(c, m)
					cur[s] = c
					addr = append(addr, s, len(c)-1)
					cur = m
				} else {
					idx := g.rng.Intn(len(c))
					m, ok := c[idx].(map[string]interface{})
					if !ok {
						return nil, false
					}
					addr = append(addr, s, idx)
					cur = m
				}
			default:
				return nil, false
			}
			continue
		}
		// leaf
		switch {
		case s == "resourceNames":
			l, _ := cur[s].([]interface{})
			if _, exists := cur[s]; exists && l == nil {
				return nil, false
			}
			l = append(l, name)
			cur[s] = l
			if _, ok := cur["resources"]; !ok {
				cur["resources"] = []interface{}{"things"}
			}
			return append(addr, s, len(l)-1), true
		case path == "subjects":
			l, _ := cur[s].([]interface{})
			if _, exists := cur[s]; exists && l == nil {
				return nil, false
			}
			m := map[string]interface{}{"kind": refKind, "name": name}
			e.Mapping = true
			if g.rng.Chance(75) {
				ns := refNs
				if ns == "" && g.rng.Chance(50) {
					ns = "default"
				}
				if ns != "" {
					m["namespace"] = ns
					e.HasSubNs, e.SubjNs = true, ns
				}
			}
			l = append(l, m)
			cur[s] = l
			return append(addr, s, len(l)-1, "name"), true
		case strings.HasSuffix(path, "clientConfig/service") || path == "spec/configSource/configMap":
			if _, exists := cur[s]; exists {
				return nil, false
			}
			m := map[string]interface{}{"name": name}
			e.Mapping = true
			if g.rng.Chance(70) {
				ns := refNs
				if ns == "" {
					ns = "default"
				}
				m["namespace"] = ns
				e.HasSubNs, e.SubjNs = true, ns
			}
			cur[s] = m
			return append(addr, s, "name"), true
		default:
			if _, exists := cur[s]; exists {
				return nil, false
			}
			cur[s] = name
			if path == "roleRef/name" {
				cur["kind"] = refKind
				cur["apiGroup"] = "rbac.authorization.k8s.io"
			}
			if strings.HasSuffix(path, "scaleTargetRef/name") {
				cur["kind"] = refKind
			}
			return append(addr, s), true
		}
	}
	return nil, false
}

// addEdge creates one reference (a.field -> b) whose row and field spec are drawn from the rule table
// the generator was given: the committed REFERENCE table (plus whatever the run-time table has on top).
func (g *c03Gen) addEdge(b *c03Res, external bool) bool {
	// rows for the referent's kind (by kind only: a row whose group/version can never match is still a rule
	// the table advertises for that kind)
	var rows []krusty.VerifC03Rule
	for _, r := range g.rules {
		if r.Kind == b.Kind && len(r.Referrers) > 0 {
			rows = append(rows, r)
		}
	}
	if len(rows) == 0 {
		return false
	}
	row := rows[g.rng.Intn(len(rows))]
	fs := row.Referrers[g.rng.Intn(len(row.Referrers))]
	return g.addEdgeWith(b, row, fs, external, false)
}

// addEdgeWith creates the reference for one given (row, field spec). sameLayer forces a fresh referrer
// in the referent's layer.
func (g *c03Gen) addEdgeWith(b *c03Res, row krusty.VerifC03Rule, fs types.FieldSpec, external, sameLayer bool) bool {
	if fs.Kind == "" {
		return false
	}
	av := c03APIVersionFor(fs.Kind, fs.Group, fs.Version)
	// referrer: reuse an existing one of that kind or make a new one
	var a *c03Res
	if !sameLayer && g.rng.Chance(45) {
		var cands []*c03Res
		for _, r := range g.b.Res {
			if r.Kind == fs.Kind && r.APIVersion == av && !r.Generated && r != b {
				cands = append(cands, r)
			}
		}
		if len(cands) > 0 {
			a = cands[g.rng.Intn(len(cands))]
		}
	}
	fresh := false
	if a == nil {
		ns := ""
		if g.useNs && !c03ClusterScoped(av, fs.Kind) {
			if g.rng.Chance(80) {
				ns = b.Namespace
			} else {
				ns = g.pickNs(fs.Kind, av)
			}
		}
		// layer: same as the referent, an ancestor of it, or anywhere
		layer := b.Layer
		pick := g.rng.Intn(4)
		if sameLayer {
			pick = 3
		}
		switch pick {
		case 0:
			for layer != 0 && g.rng.Bool() {
				layer = g.b.Layers[layer].Parent
			}
		case 1:
			layer = g.rng.Intn(len(g.b.Layers))
		}
		a = g.newRes(fs.Kind, av, ns, layer)
		fresh = true
	}
	e := c03Edge{From: a.ID, To: b.ID, Old: b.Name, RulePath: fs.Path, Target: row.Kind}
	name := b.Name
	if external {
		name = fmt.Sprintf("ext-%d", g.rng.Intn(3))
		e.To, e.Old = "", name
	}
	refNs := b.Namespace
	addr, ok := g.insertRef(a.Doc, fs.Path, name, &e, b.Kind, refNs)
	if !ok {
		if fresh {
			g.b.Res = g.b.Res[:len(g.b.Res)-1]
		}
		return false
	}
	e.Addr = addr
	g.b.Edges = append(g.b.Edges, e)
	return true
}

var c03Shapes = []string{"single", "overlay", "siblings", "chain3", "tree3"}

// genBuild: resource graph x layering x directives
func c03GenBuild(rng *Rng, rules []krusty.VerifC03Rule) *c03Build {
	b := &c03Build{Files: map[string]string{}}
	g := &c03Gen{rng: rng, rules: rules, b: b, useNs: rng.Chance(45)}
	b.Shape = rng.Pick(c03Shapes)
	switch b.Shape {
	case "single":
		b.Layers = []c03Layer{{Dir: "/top", Parent: -1}}
	case "overlay":
		b.Layers = []c03Layer{{Dir: "/top", Parent: -1}, {Dir: "/base", Parent: 0}}
	case "siblings":
		b.Layers = []c03Layer{{Dir: "/top", Parent: -1}, {Dir: "/basea", Parent: 0}, {Dir: "/baseb", Parent: 0}}
	case "chain3":
		b.Layers = []c03Layer{{Dir: "/top", Parent: -1}, {Dir: "/mid", Parent: 0}, {Dir: "/base", Parent: 1}}
	default:
		b.Layers = []c03Layer{{Dir: "/top", Parent: -1}, {Dir: "/mid", Parent: 0}, {Dir: "/basea", Parent: 1}, {Dir: "/baseb", Parent: 1}}
	}
	b.Top = "/top"
	for i := range b.Layers {
		l := &b.Layers[i]
		if rng.Chance(60) {
			l.Prefix = rng.Pick(c03Prefixes)
		}
		if rng.Chance(30) {
			l.Suffix = rng.Pick(c03Suffixes)
		}
		if rng.Chance(18) {
			l.Namespace = rng.Pick([]string{"nsx", "ns1"})
		}
	}
	// referents
	var refKinds []string
	seen := map[string]bool{}
	for _, r := range rules {
		if !seen[r.Kind] && r.Kind != "" {
			seen[r.Kind] = true
			refKinds = append(refKinds, r.Kind)
		}
	}
	nRef := 2 + rng.Intn(4)
	var referents []*c03Res
	for i := 0; i < nRef; i++ {
		kind := rng.Pick(refKinds)
		if rng.Chance(35) {
			kind = rng.Pick([]string{"ConfigMap", "Secret", "ConfigMap", "ServiceAccount", "Service"})
		}
		var row krusty.VerifC03Rule
		for _, r := range rules {
			if r.Kind == kind {
				row = r
			}
		}
		av := c03APIVersionFor(kind, "", "")
		if _, known := c03APIVersion[kind]; !known {
			av = c03APIVersionFor(kind, row.Group, row.Version)
		}
		layer := rng.Intn(len(b.Layers))
		if rng.Chance(50) {
			layer = len(b.Layers) - 1
		}
		r := g.newRes(kind, av, g.pickNs(kind, av), layer)
		if (kind == "ConfigMap" || kind == "Secret") && rng.Chance(35) {
			r.Generated = true
			r.NoHash = rng.Chance(25)
		}
		referents = append(referents, r)
	}
	// every kustomization needs something to accumulate
	for i := range b.Layers {
		has := false
		for _, r := range b.Res {
			if r.Layer == i {
				has = true
			}
		}
		for j := range b.Layers {
			if b.Layers[j].Parent == i {
				has = true
			}
		}
		if !has {
			g.newRes("ConfigMap", "v1", g.pickNs("ConfigMap", "v1"), i)
		}
	}
	nEdges := 1 + rng.Intn(5)
	for i, tries := 0, 0; i < nEdges && tries < 40; tries++ {
		bres := referents[rng.Intn(len(referents))]
		if g.addEdge(bres, rng.Chance(12)) {
			i++
		}
	}
	if (b.Shape == "siblings" || b.Shape == "tree3") && rng.Chance(40) {
		c03AddTwins(g)
	}
	if len(b.Layers) > 1 && len(b.Edges) > 0 && rng.Chance(25) {
		// a rival: another resource of the referent's kind and original name, in another kustomization
		e := b.Edges[rng.Intn(len(b.Edges))]
		if t := b.res(e.To); t != nil && !t.Generated {
			layer := rng.Intn(len(b.Layers))
			if layer != t.Layer && g.countIn(t.Kind, t.Name, t.Namespace, layer) == 0 {
				c := &c03Res{ID: g.newID(), APIVersion: t.APIVersion, Kind: t.Kind, Name: t.Name, Namespace: t.Namespace, Layer: layer}
				raw, _ := json.Marshal(t.Doc)
				_ = json.Unmarshal(raw, &c.Doc)
				if md, ok := c.Doc["metadata"].(map[string]interface{}); ok {
					c03SetTracer(md, c.ID)
				}
				b.Res = append(b.Res, c)
			}
		}
	}
	if rng.Chance(30) {
		c03AddAnnotationPatches(g)
	}
	c03Render(b, rng)
	return b
}

// c03AddAnnotationPatches: an outer kustomization patches (JSON6902, `patches:` field) the whole
// /metadata/annotations map of a referent that an inner kustomization has already renamed, or of a generated
// referent that still awaits its hash.  The value keeps the user annotations (tracer, annotation-path
// reference fields) so nothing observable changes but the rename history is at stake.
func c03AddAnnotationPatches(g *c03Gen) {
	b, rng := g.b, g.rng
	var targets []*c03Res
	seen := map[string]bool{}
	for _, e := range b.Edges {
		if t := b.res(e.To); t != nil && !seen[t.ID] {
			seen[t.ID] = true
			targets = append(targets, t)
		}
	}
	n := 0
	for _, t := range targets {
		if n >= 2 {
			break
		}
		// candidate kustomizations: proper ancestors of the referent's layer; its own layer when it is generated
		var where []int
		if t.Generated {
			where = append(where, t.Layer)
		}
		for p := b.Layers[t.Layer].Parent; p >= 0; p = b.Layers[p].Parent {
			where = append(where, p)
		}
		if len(where) == 0 || !rng.Chance(70) {
			continue
		}
		at := where[rng.Intn(len(where))]
		b.Layers[at].Patches = append(b.Layers[at].Patches,
			c03Patch{ID: t.ID, Kind: t.Kind, Op: rng.Pick([]string{"add", "replace", "remove", "add", "replace", "remove", "merge"})})
		n++
	}
}

// c03PatchEntry renders one annotation patch as an entry of the `patches:` field.
func c03PatchEntry(b *c03Build, p c03Patch) map[string]interface{} {
	value := map[string]interface{}{c03Tracer: p.ID, "verif.c03/patched": "yes"}
	if t := b.res(p.ID); t != nil && !t.Generated {
		if md, ok := t.Doc["metadata"].(map[string]interface{}); ok {
			if an, ok := md["annotations"].(map[string]interface{}); ok {
				for k, v := range an {
					value[k] = v
				}
			}
		}
	}
	target := map[string]interface{}{"kind": p.Kind, "annotationSelector": c03Tracer + "=" + p.ID}
	if p.Op == "merge" {
		// a strategic merge patch through the same field: no StorePreviousId (name / kind changes not allowed)
		t := b.res(p.ID)
		av := "v1"
		if t != nil {
			av = t.APIVersion
		}
		doc := map[string]interface{}{"apiVersion": av, "kind": p.Kind,
			"metadata": map[string]interface{}{"name": "any", "annotations": map[string]interface{}{"verif.c03/patched": "yes"}}}
		return map[string]interface{}{"target": target, "patch": c03Yaml(doc)}
	}
	var ops []interface{}
	switch p.Op {
	case "remove":
		ops = append(ops, map[string]interface{}{"op": "remove", "path": "/metadata/annotations"},
			map[string]interface{}{"op": "add", "path": "/metadata/annotations", "value": value})
	default:
		ops = append(ops, map[string]interface{}{"op": p.Op, "path": "/metadata/annotations", "value": value})
	}
	raw, err := json.Marshal(ops)
	if err != nil {
		panic(err)
	}
	return map[string]interface{}{"target": target, "patch": string(raw)}
}

// c03AddTwins: in a build with two sibling bases, copy a referent and a referrer of it from one base into
// the other under the same names (each base is a self-contained copy of an application).  Original
// names are then ambiguous and only the prefix/suffix context of the layers tells the two apart.
func c03AddTwins(g *c03Gen) {
	b := g.b
	sib := map[int]int{}
	for i := range b.Layers {
		for j := range b.Layers {
			if i != j && b.Layers[i].Parent == b.Layers[j].Parent && b.Layers[i].Parent >= 0 {
				sib[i] = j
			}
		}
	}
	var cands []int
	for k, e := range b.Edges {
		a, t := b.res(e.From), b.res(e.To)
		if a == nil || t == nil || t.Generated || a.Layer != t.Layer {
			continue
		}
		if _, ok := sib[a.Layer]; ok {
			cands = append(cands, k)
		}
	}
	if len(cands) == 0 {
		return
	}
	e := b.Edges[cands[g.rng.Intn(len(cands))]]
	a, t := b.res(e.From), b.res(e.To)
	other := sib[a.Layer]
	if g.taken(a.Kind, a.Name, a.Namespace) && g.countIn(a.Kind, a.Name, a.Namespace, other) > 0 {
		return
	}
	if g.countIn(t.Kind, t.Name, t.Namespace, other) > 0 {
		return
	}
	clone := func(r *c03Res) *c03Res {
		c := &c03Res{ID: g.newID(), APIVersion: r.APIVersion, Kind: r.Kind, Name: r.Name, Namespace: r.Namespace, Layer: other}
		raw, _ := json.Marshal(r.Doc)
		_ = json.Unmarshal(raw, &c.Doc)
		if md, ok := c.Doc["metadata"].(map[string]interface{}); ok {
			c03SetTracer(md, c.ID)
		}
		b.Res = append(b.Res, c)
		return c
	}
	t2, a2 := clone(t), clone(a)
	// every edge of the original referrer is repeated in the copy; the copied edge to t goes to t2
	for _, x := range append([]c03Edge{}, b.Edges...) {
		if x.From != a.ID {
			continue
		}
		y := x
		y.From = a2.ID
		if x.To == t.ID {
			y.To = t2.ID
		}
		y.Addr = append([]interface{}{}, x.Addr...)
		b.Edges = append(b.Edges, y)
	}
}

// c03SetTracer rewrites only the tracer entry of a copied metadata (other annotations may be reference fields)
func c03SetTracer(md map[string]interface{}, id string) {
	an, ok := md["annotations"].(map[string]interface{})
	if !ok {
		an = map[string]interface{}{}
		md["annotations"] = an
	}
	an[c03Tracer] = id
}

func (g *c03Gen) countIn(kind, name, ns string, layer int) int {
	n := 0
	for _, r := range g.b.Res {
		if r.Kind == kind && r.Name == name && r.Namespace == ns && r.Layer == layer {
			n++
		}
	}
	return n
}

// c03SweepBuild: one small build for one (row, field spec) of the rule table: the referent in a base,
// the referrer beside it or in the overlay, at least one rename on the way.
func c03SweepBuild(rng *Rng, rules []krusty.VerifC03Rule, row krusty.VerifC03Rule, fs types.FieldSpec) *c03Build {
	b := &c03Build{Files: map[string]string{}, Top: "/top"}
	g := &c03Gen{rng: rng, rules: rules, b: b, useNs: rng.Chance(30)}
	if rng.Bool() {
		b.Shape = "sweep-single"
		b.Layers = []c03Layer{{Dir: "/top", Parent: -1}}
	} else {
		b.Shape = "sweep-overlay"
		b.Layers = []c03Layer{{Dir: "/top", Parent: -1}, {Dir: "/base", Parent: 0}}
	}
	for i := range b.Layers {
		l := &b.Layers[i]
		if rng.Chance(50) {
			l.Prefix = rng.Pick(c03Prefixes)
		}
		if rng.Chance(30) {
			l.Suffix = rng.Pick(c03Suffixes)
		}
	}
	if b.Layers[0].Prefix == "" && b.Layers[0].Suffix == "" {
		b.Layers[0].Prefix = rng.Pick(c03Prefixes)
	}
	kind := row.Kind
	av := c03APIVersionFor(kind, "", "")
	if _, known := c03APIVersion[kind]; !known {
		av = c03APIVersionFor(kind, row.Group, row.Version)
	}
	t := g.newRes(kind, av, g.pickNs(kind, av), len(b.Layers)-1)
	if (kind == "ConfigMap" || kind == "Secret") && rng.Chance(20) {
		t.Generated = true
	}
	for tries := 0; tries < 5; tries++ {
		if g.addEdgeWith(t, row, fs, false, rng.Chance(70)) {
			break
		}
	}
	for i := range b.Layers {
		has := false
		for _, r := range b.Res {
			if r.Layer == i {
				has = true
			}
		}
		for j := range b.Layers {
			if b.Layers[j].Parent == i {
				has = true
			}
		}
		if !has {
			g.newRes("ConfigMap", "v1", "", i)
		}
	}
	c03Render(b, rng)
	return b
}

// c03GenBindingBuild: several RoleBindings / ClusterRoleBindings that share a namespace, whose
// ServiceAccount subjects are spread over several namespaces (the bindings' own included); the accounts are
// renamed by the layers.  What a RoleBinding may refer to depends on the namespaces its OWN subjects name
// (SubsetThatCouldBeReferencedByResource), so every binding needs its own candidate set.
func c03GenBindingBuild(rng *Rng, rules []krusty.VerifC03Rule) *c03Build {
	b := &c03Build{Files: map[string]string{}, Top: "/top", Shape: "bindings"}
	g := &c03Gen{rng: rng, rules: rules, b: b, useNs: true}
	if rng.Chance(40) {
		b.Layers = []c03Layer{{Dir: "/top", Parent: -1}}
	} else {
		b.Layers = []c03Layer{{Dir: "/top", Parent: -1}, {Dir: "/base", Parent: 0}}
	}
	for i := range b.Layers {
		l := &b.Layers[i]
		if rng.Chance(60) {
			l.Prefix = rng.Pick(c03Prefixes)
		}
		if rng.Chance(30) {
			l.Suffix = rng.Pick(c03Suffixes)
		}
	}
	deep := len(b.Layers) - 1
	if b.Layers[deep].Prefix == "" && b.Layers[deep].Suffix == "" {
		b.Layers[deep].Prefix = rng.Pick(c03Prefixes)
	}
	if rng.Chance(8) {
		b.Layers[0].Namespace = "nsx"
	}
	nsPool := []string{"ns1", "ns2", "ns3", "team"}
	home := rng.Pick(nsPool)
	// service accounts: distinct names (rarely one name in two namespaces), spread over the namespaces
	nSA := 2 + rng.Intn(4)
	var sas []*c03Res
	for i := 0; i < nSA; i++ {
		ns := rng.Pick(nsPool)
		if i == 0 {
			ns = home
		}
		if i == 1 {
			for ns == home {
				ns = rng.Pick(nsPool)
			}
		}
		layer := deep
		if rng.Chance(25) {
			layer = rng.Intn(len(b.Layers))
		}
		var r *c03Res
		if i > 0 && rng.Chance(12) && sas[i-1].Namespace != ns {
			// the same account name in another namespace
			name := sas[i-1].Name
			r = &c03Res{ID: g.newID(), APIVersion: "v1", Kind: "ServiceAccount", Name: name, Namespace: ns, Layer: layer}
			r.Doc = map[string]interface{}{"apiVersion": "v1", "kind": "ServiceAccount",
				"metadata": map[string]interface{}{"name": name, "namespace": ns, "annotations": map[string]interface{}{c03Tracer: r.ID}}}
			b.Res = append(b.Res, r)
		} else {
			name := []string{"builder", "deployer", "runner", "ops", "ci", "web"}[i%6]
			r = &c03Res{ID: g.newID(), APIVersion: "v1", Kind: "ServiceAccount", Name: name, Namespace: ns, Layer: layer}
			r.Doc = map[string]interface{}{"apiVersion": "v1", "kind": "ServiceAccount",
				"metadata": map[string]interface{}{"name": name, "namespace": ns, "annotations": map[string]interface{}{c03Tracer: r.ID}}}
			b.Res = append(b.Res, r)
		}
		sas = append(sas, r)
	}
	role := g.newRes("Role", "rbac.authorization.k8s.io/v1", home, deep)
	crole := g.newRes("ClusterRole", "rbac.authorization.k8s.io/v1", "", deep)
	nB := 2 + rng.Intn(3)
	for i := 0; i < nB; i++ {
		kind, ns := "RoleBinding", home
		if rng.Chance(20) {
			kind, ns = "ClusterRoleBinding", ""
		} else if rng.Chance(10) {
			ns = rng.Pick(nsPool)
		}
		layer := deep
		if rng.Chance(35) {
			layer = rng.Intn(len(b.Layers))
		}
		a := g.newRes(kind, "rbac.authorization.k8s.io/v1", ns, layer)
		rr := role
		if kind == "ClusterRoleBinding" || rng.Chance(30) {
			rr = crole
		}
		a.Doc["roleRef"] = map[string]interface{}{"apiGroup": "rbac.authorization.k8s.io", "kind": rr.Kind, "name": rr.Name}
		if rr.Layer >= a.Layer || true {
			b.Edges = append(b.Edges, c03Edge{From: a.ID, To: rr.ID, Addr: []interface{}{"roleRef", "name"}, Old: rr.Name,
				RulePath: "roleRef/name", Target: rr.Kind})
		}
		nSub := 1 + rng.Intn(3)
		var subjects []interface{}
		used := map[int]bool{}
		for j := 0; j < nSub; j++ {
			k := rng.Intn(len(sas))
			if i < len(sas) && j == 0 {
				k = i // spread: binding i names account i first
			}
			if used[k] {
				continue
			}
			used[k] = true
			sa := sas[k]
			if rng.Chance(35) {
				// a subject without namespace (User / Group carry none) ahead of the account: the accounts
				// listed after it must still be found in their own namespaces
				who := rng.Pick([]string{"User", "Group"})
				subjects = append(subjects, map[string]interface{}{"kind": who, "apiGroup": "rbac.authorization.k8s.io",
					"name": rng.Pick([]string{"alice", "auditors", "system:masters"})})
			}
			subjects = append(subjects, map[string]interface{}{"kind": "ServiceAccount", "name": sa.Name, "namespace": sa.Namespace})
			b.Edges = append(b.Edges, c03Edge{From: a.ID, To: sa.ID, Addr: []interface{}{"subjects", len(subjects) - 1, "name"}, Old: sa.Name,
				RulePath: "subjects", Target: "ServiceAccount", Mapping: true, HasSubNs: true, SubjNs: sa.Namespace})
		}
		a.Doc["subjects"] = subjects
	}
	for i := range b.Layers {
		has := false
		for _, r := range b.Res {
			if r.Layer == i {
				has = true
			}
		}
		for j := range b.Layers {
			if b.Layers[j].Parent == i {
				has = true
			}
		}
		if !has {
			g.newRes("ConfigMap", "v1", "", i)
		}
	}
	c03Render(b, rng)
	return b
}

// c03LoadRefRules reads the committed reference copy of the rule table ("the documented rule set",
// corpus/fieldspecs.ref.json, key nameReference).
func c03LoadRefRules() ([]krusty.VerifC03Rule, error) {
	data, err := os.ReadFile(verifRoot() + "/corpus/fieldspecs.ref.json")
	if err != nil {
		return nil, err
	}
	var d struct {
		NameReference []struct {
			Group      string `json:"group"`
			Version    string `json:"version"`
			Kind       string `json:"kind"`
			FieldSpecs []struct {
				Group   string `json:"group"`
				Version string `json:"version"`
				Kind    string `json:"kind"`
				Path    string `json:"path"`
				Create  bool   `json:"create"`
			} `json:"fieldSpecs"`
		} `json:"nameReference"`
	}
	if err := json.Unmarshal(data, &d); err != nil {
		return nil, err
	}
	if len(d.NameReference) == 0 {
		return nil, fmt.Errorf("corpus/fieldspecs.ref.json: no nameReference rows")
	}
	var out []krusty.VerifC03Rule
	for _, r := range d.NameReference {
		row := krusty.VerifC03Rule{Group: r.Group, Version: r.Version, Kind: r.Kind}
		for _, f := range r.FieldSpecs {
			fs := types.FieldSpec{Path: f.Path, CreateIfNotPresent: f.Create}
			fs.Group, fs.Version, fs.Kind = f.Group, f.Version, f.Kind
			row.Referrers = append(row.Referrers, fs)
		}
		out = append(out, row)
	}
	return out, nil
}

// c03UnionRules: the reference rows, plus every referrer the run-time table has and the reference has not
// (rules added to the source are exercised automatically).
func c03UnionRules(ref, runtime []krusty.VerifC03Rule) []krusty.VerifC03Rule {
	out := make([]krusty.VerifC03Rule, len(ref))
	for i, r := range ref {
		out[i] = krusty.VerifC03Rule{Group: r.Group, Version: r.Version, Kind: r.Kind,
			Referrers: append([]types.FieldSpec{}, r.Referrers...)}
	}
	for _, rr := range runtime {
		idx := -1
		for i := range out {
			if out[i].Group == rr.Group && out[i].Version == rr.Version && out[i].Kind == rr.Kind {
				idx = i
			}
		}
		if idx < 0 {
			out = append(out, krusty.VerifC03Rule{Group: rr.Group, Version: rr.Version, Kind: rr.Kind})
			idx = len(out) - 1
		}
		for _, f := range rr.Referrers {
			have := false
			for _, g := range out[idx].Referrers {
				if g.Group == f.Group && g.Version == f.Version && g.Kind == f.Kind && g.Path == f.Path {
					have = true
				}
			}
			if !have {
				out[idx].Referrers = append(out[idx].Referrers, f)
			}
		}
	}
	return out
}

func c03Yaml(doc map[string]interface{}) string {
	out, err := syaml.Marshal(doc)
	if err != nil {
		panic(err)
	}
	return string(out)
}

// c03Render writes the kustomization tree.
func c03Render(b *c03Build, rng *Rng) {
	for i := range b.Layers {
		l := &b.Layers[i]
		l.Entries, l.Gens = nil, nil
		var ents []string
		for _, r := range b.Res {
			if r.Layer == i {
				if r.Generated {
					l.Gens = append(l.Gens, r.ID)
				} else {
					ents = append(ents, "res:"+r.ID)
				}
			}
		}
		for j := range b.Layers {
			if b.Layers[j].Parent == i {
				ents = append(ents, fmt.Sprintf("dir:%d", j))
			}
		}
		// shuffle
		for k := len(ents) - 1; k > 0; k-- {
			j := rng.Intn(k + 1)
			ents[k], ents[j] = ents[j], ents[k]
		}
		l.Entries = ents
	}
	for i := range b.Layers {
		l := &b.Layers[i]
		k := map[string]interface{}{}
		var resources []interface{}
		for _, e := range l.Entries {
			if strings.HasPrefix(e, "res:") {
				id := e[4:]
				fn := id + ".yaml"
				b.Files[l.Dir+"/"+fn] = c03Yaml(b.res(id).Doc)
				resources = append(resources, fn)
			} else {
				var j int
				fmt.Sscanf(e, "dir:%d", &j)
				resources = append(resources, ".."+b.Layers[j].Dir)
			}
		}
		if len(resources) > 0 {
			k["resources"] = resources
		}
		var cmg, sg []interface{}
		for _, id := range l.Gens {
			r := b.res(id)
			args := map[string]interface{}{"name": r.Name, "literals": []interface{}{"k=v" + r.ID},
				"options": map[string]interface{}{"annotations": map[string]interface{}{c03Tracer: r.ID}, "disableNameSuffixHash": r.NoHash}}
			if r.Namespace != "" {
				args["namespace"] = r.Namespace
			}
			if r.Kind == "Secret" {
				sg = append(sg, args)
			} else {
				cmg = append(cmg, args)
			}
		}
		// the generator lists are processed configMapGenerator first, then secretGenerator
		var order []string
		for _, id := range l.Gens {
			if b.res(id).Kind != "Secret" {
				order = append(order, id)
			}
		}
		for _, id := range l.Gens {
			if b.res(id).Kind == "Secret" {
				order = append(order, id)
			}
		}
		l.Gens = order
		if len(cmg) > 0 {
			k["configMapGenerator"] = cmg
		}
		if len(sg) > 0 {
			k["secretGenerator"] = sg
		}
		if l.Prefix != "" {
			k["namePrefix"] = l.Prefix
		}
		if l.Suffix != "" {
			k["nameSuffix"] = l.Suffix
		}
		if l.Namespace != "" {
			k["namespace"] = l.Namespace
		}
		if len(l.Patches) > 0 {
			var ps []interface{}
			for _, p := range l.Patches {
				ps = append(ps, c03PatchEntry(b, p))
			}
			k["patches"] = ps
		}
		b.Files[l.Dir+"/kustomization.yaml"] = c03Yaml(k)
	}
}

func c03MakeFs(files map[string]string) filesys.FileSystem {
	fs := filesys.MakeFsInMemory()
	names := make([]string, 0, len(files))
	for n := range files {
		names = append(names, n)
	}
	sort.Strings(names)
	for _, n := range names {
		_ = fs.WriteFile(n, []byte(files[n]))
	}
	return fs
}

// ---------------------------------------------------------------- Coq terms

func c03OptStr(m map[string]string, key string) string {
	v, ok := m[key]
	return coqOpt(ok, coqStr(v))
}

// stripped copy of the document: build annotations removed (they are passed beside the node).
// The entries are deleted from the yaml node directly so that nothing else is re-created.
func c03StrippedNode(r *resource.Resource) *kyaml.RNode {
	n := r.RNode.Copy()
	y := n.YNode()
	if y == nil || y.Kind != kyaml.MappingNode {
		return n
	}
	for i := 0; i+1 < len(y.Content); i += 2 {
		if y.Content[i].Value != "metadata" || y.Content[i+1].Kind != kyaml.MappingNode {
			continue
		}
		md := y.Content[i+1]
		for j := 0; j+1 < len(md.Content); j += 2 {
			if md.Content[j].Value != "annotations" || md.Content[j+1].Kind != kyaml.MappingNode {
				continue
			}
			an := md.Content[j+1]
			var kept []*kyaml.Node
			for k := 0; k+1 < len(an.Content); k += 2 {
				if !strings.HasPrefix(an.Content[k].Value, c03BuildAnnoPrefix) {
					kept = append(kept, an.Content[k], an.Content[k+1])
				}
			}
			if len(kept) == len(an.Content) {
				break
			}
			if len(kept) == 0 {
				md.Content = append(md.Content[:j:j], md.Content[j+2:]...)
			} else {
				an.Content = kept
			}
			break
		}
		break
	}
	return n
}

func c03ResTerm(r *resource.Resource, vals map[string]bool) (string, bool) {
	n := c03StrippedNode(r)
	t, ok := coqNode(n.YNode())
	if !ok {
		return "", false
	}
	scalarValues(n.YNode(), vals)
	a := r.GetAnnotations()
	nh := a[c03BuildAnnoPrefix+"needsHashSuffix"] == "enabled"
	return fmt.Sprintf("(mkRes %s %s %s %s %s %s %s)", t,
		c03OptStr(a, c03BuildAnnoPrefix+"previousNames"), c03OptStr(a, c03BuildAnnoPrefix+"previousNamespaces"),
		c03OptStr(a, c03BuildAnnoPrefix+"previousKinds"), c03OptStr(a, c03BuildAnnoPrefix+"prefixes"),
		c03OptStr(a, c03BuildAnnoPrefix+"suffixes"), coqBool(nh)), true
}

func c03BookTerm(r *resource.Resource) string {
	a := r.GetAnnotations()
	return fmt.Sprintf("(mkBook %s %s %s %s %s %s %s %s %s)", coqStr(r.GetApiVersion()), coqStr(r.GetKind()),
		coqStr(r.GetName()), coqStr(r.GetNamespace()),
		c03OptStr(a, c03BuildAnnoPrefix+"previousNames"), c03OptStr(a, c03BuildAnnoPrefix+"previousNamespaces"),
		c03OptStr(a, c03BuildAnnoPrefix+"previousKinds"), c03OptStr(a, c03BuildAnnoPrefix+"prefixes"),
		c03OptStr(a, c03BuildAnnoPrefix+"suffixes"))
}

// cluster-scope oracle table: (apiVersion as Gvk.ApiVersion prints it, kind) pairs that are cluster scoped
func c03CsTerm(pairs map[[2]string]bool) string {
	var keys [][2]string
	for k, v := range pairs {
		if v {
			keys = append(keys, k)
		}
	}
	sort.Slice(keys, func(i, j int) bool {
		if keys[i][0] != keys[j][0] {
			return keys[i][0] < keys[j][0]
		}
		return keys[i][1] < keys[j][1]
	})
	parts := make([]string, len(keys))
	for i, k := range keys {
		parts[i] = fmt.Sprintf("(%s, %s)", coqStr(k[0]), coqStr(k[1]))
	}
	return "[" + strings.Join(parts, "; ") + "]"
}

func c03NoteScope(pairs map[[2]string]bool, apiVersion, kind string) {
	g, v := resid.ParseGroupVersion(apiVersion)
	gvk := resid.NewGvk(g, v, kind)
	pairs[[2]string{gvk.ApiVersion(), kind}] = gvk.IsClusterScoped()
}

func c03NonstrTerm(vals map[string]bool) string {
	ns := []string{}
	for _, s := range sortedKeys(vals) {
		if kyaml.IsValueNonString(s) {
			ns = append(ns, s)
		}
	}
	return coqStrList(ns)
}

func c03RulesTerm(rules []krusty.VerifC03Rule) string {
	rows := make([]string, len(rules))
	for i, r := range rules {
		fss := make([]string, len(r.Referrers))
		for j, f := range r.Referrers {
			fss[j] = fmt.Sprintf("mkFs %s %s %s %s %s", coqStr(f.Group), coqStr(f.Version), coqStr(f.Kind), coqStr(f.Path), coqBool(f.CreateIfNotPresent))
		}
		rows[i] = fmt.Sprintf("mkNbr %s %s %s [%s]", coqStr(r.Group), coqStr(r.Version), coqStr(r.Kind), strings.Join(fss, "; "))
	}
	return "(CTable [" + strings.Join(rows, "; ") + "])"
}

// c03RefCtor: the implementation under test either has the repair nameref.ResolvedFields (a field reached by
// the rows of several kinds is settled by the first row that resolves it) or not; the observation is compared
// with the matching model (Res/NameRefResolved.v or Res/NameRef.v).
func c03RefCtor() string {
	if _, ok := reflect.TypeOf(nameref.Filter{}).FieldByName("Resolved"); ok {
		return "CRefR"
	}
	return "CRef"
}

// CRef term from a before/after pair of resource maps (after == nil when the transformer failed)
func c03RefTerm(before resmap.ResMap, cls string, after resmap.ResMap) (string, bool) {
	vals := map[string]bool{}
	pairs := map[[2]string]bool{}
	var rs []string
	for _, r := range before.Resources() {
		t, ok := c03ResTerm(r, vals)
		if !ok {
			return "", false
		}
		rs = append(rs, t)
		c03NoteScope(pairs, r.GetApiVersion(), r.GetKind())
	}
	var as []string
	if cls == ClsOk && after != nil {
		bres := before.Resources()
		for i, r := range after.Resources() {
			n := c03StrippedNode(r)
			t, ok := coqNode(n.YNode())
			if !ok {
				return "", false
			}
			scalarValues(n.YNode(), vals)
			if i < len(bres) {
				if bt, ok := coqNode(c03StrippedNode(bres[i]).YNode()); ok && bt == t {
					as = append(as, "None")
					continue
				}
			}
			as = append(as, "(Some "+t+")")
		}
	}
	return fmt.Sprintf("(%s %s %s [%s] %s [%s])", c03RefCtor(), c03CsTerm(pairs), c03NonstrTerm(vals),
		strings.Join(rs, "; "), cls, strings.Join(as, "; ")), true
}

// the layering as a KV.Res.Rename.layer term; leaves are the documents as kustomize reads them
func c03LayerTerm(b *c03Build, i int, vals map[string]bool, pairs map[[2]string]bool) (string, bool) {
	l := b.Layers[i]
	var items []string
	leaf := func(docText string, needsHash bool) (string, bool) {
		n, err := kyaml.Parse(docText)
		if err != nil {
			return "", false
		}
		t, ok := coqNode(n.YNode())
		if !ok {
			return "", false
		}
		scalarValues(n.YNode(), vals)
		c03NoteScope(pairs, n.GetApiVersion(), n.GetKind())
		return fmt.Sprintf("(mkRes %s None None None None None %s)", t, coqBool(needsHash)), true
	}
	for _, e := range l.Entries {
		if strings.HasPrefix(e, "res:") {
			t, ok := leaf(c03Yaml(b.res(e[4:]).Doc), false)
			if !ok {
				return "", false
			}
			items = append(items, "IRes "+t)
		} else {
			var j int
			fmt.Sscanf(e, "dir:%d", &j)
			t, ok := c03LayerTerm(b, j, vals, pairs)
			if !ok {
				return "", false
			}
			items = append(items, "ISub "+t)
		}
	}
	for _, id := range l.Gens {
		r := b.res(id)
		md := map[string]interface{}{"name": r.Name}
		if r.Namespace != "" {
			md["namespace"] = r.Namespace
		}
		doc := map[string]interface{}{"apiVersion": "v1", "kind": r.Kind, "metadata": md}
		t, ok := leaf(c03Yaml(doc), !r.NoHash)
		if !ok {
			return "", false
		}
		items = append(items, "IGen "+t)
	}
	// the patch entries: one selection (flags over the accumulated resources, in order) per entry
	ids := c03LayerIDs(b, i)
	var touches []string
	for _, p := range l.Patches {
		if p.Op == "merge" {
			continue // ApplySmPatch records the id only when the patch may change name or kind
		}
		flags := make([]string, len(ids))
		for k, id := range ids {
			flags[k] = coqBool(id == p.ID)
		}
		touches = append(touches, "["+strings.Join(flags, "; ")+"]")
	}
	return fmt.Sprintf("(Layer %s %s %s [%s] [%s])", coqStr(l.Namespace), coqStr(l.Prefix), coqStr(l.Suffix),
		strings.Join(touches, "; "), strings.Join(items, "; ")), true
}

// c03LayerIDs: the resources kustomization i accumulates, in accumulation order (entries, bases flattened, then
// the generated ones) - the order of the items of c03LayerTerm.
func c03LayerIDs(b *c03Build, i int) []string {
	l := b.Layers[i]
	var ids []string
	for _, e := range l.Entries {
		if strings.HasPrefix(e, "res:") {
			ids = append(ids, e[4:])
		} else {
			var j int
			fmt.Sscanf(e, "dir:%d", &j)
			ids = append(ids, c03LayerIDs(b, j)...)
		}
	}
	return append(ids, l.Gens...)
}

// ---------------------------------------------------------------- running a build

type c03Outcome struct {
	stages   *krusty.VerifC03Stages
	stageCls string
	stageMsg string
	real     resmap.ResMap
	realCls  string
	realMsg  string
}

func c03Run(b *c03Build) c03Outcome {
	var o c03Outcome
	o.stageCls, o.stageMsg = protect(func() error {
		k := krusty.MakeKustomizer(krusty.MakeDefaultOptions())
		st, err := k.VerifC03RunStages(c03MakeFs(b.Files), b.Top)
		o.stages = st
		return err
	})
	o.realCls, o.realMsg = protect(func() error {
		k := krusty.MakeKustomizer(krusty.MakeDefaultOptions())
		m, err := k.Run(c03MakeFs(b.Files), b.Top)
		o.real = m
		return err
	})
	return o
}

func c03ByTracer(m resmap.ResMap) map[string]*resource.Resource {
	out := map[string]*resource.Resource{}
	if m == nil {
		return out
	}
	for _, r := range m.Resources() {
		if id, ok := r.GetAnnotations()[c03Tracer]; ok {
			out[id] = r
		}
	}
	return out
}

func c03ReadAddr(r *resource.Resource, addr []interface{}) (string, bool) {
	y := r.YNode()
	for _, step := range addr {
		if y == nil {
			return "", false
		}
		switch s := step.(type) {
		case string:
			if y.Kind != kyaml.MappingNode {
				return "", false
			}
			var next *kyaml.Node
			for i := 0; i+1 < len(y.Content); i += 2 {
				if y.Content[i].Value == s {
					next = y.Content[i+1]
					break
				}
			}
			y = next
		case int:
			if y.Kind != kyaml.SequenceNode || s >= len(y.Content) {
				return "", false
			}
			y = y.Content[s]
		case float64: // JSON replay
			i := int(s)
			if y.Kind != kyaml.SequenceNode || i >= len(y.Content) {
				return "", false
			}
			y = y.Content[i]
		default:
			return "", false
		}
	}
	if y == nil || y.Kind != kyaml.ScalarNode {
		return "", false
	}
	return y.Value, true
}

func c03EffNs(apiVersion, kind, ns string) string {
	g, v := resid.ParseGroupVersion(apiVersion)
	return resid.NewResIdWithNamespace(resid.NewGvk(g, v, kind), "x", ns).EffectiveNamespace()
}

// inDomain: the hypotheses under which the property promises that the edge follows.
//   (D1) the referent is the only resource of the build whose ORIGINAL name is the referenced name and whose
//        kind the rule row is about (unambiguous original names), or (D1') the rivals live in an
//        incompatible prefix/suffix context while referrer and referent share one kustomization;
//   (D2) in the output, referrer and referent are in the same namespace, or one of them is cluster scoped,
//        or a RoleBinding subject names a ServiceAccount together with the namespace it ends up in;
//   (D3) no OTHER rule row that reaches the same field finds a candidate for the referenced name
//        (the field names exactly one kind of object);
//   (D4) a mapping reference that carries a namespace names the referent's original namespace.
// Returns a reason when outside.
func c03InDomain(b *c03Build, e c03Edge, out map[string]*resource.Resource, rules []krusty.VerifC03Rule) (bool, string) {
	a, t := b.res(e.From), b.res(e.To)
	oa, ot := out[e.From], out[e.To]
	if a == nil || t == nil || oa == nil || ot == nil {
		return false, "missing"
	}
	if rivals, resolves := c03ContextResolves(b, e); rivals && !resolves {
		return false, "ambiguous-original-name"
	}
	ida, idt := oa.CurId(), ot.CurId()
	// a RoleBinding may name a ServiceAccount of another namespace, by that namespace
	crossSA := a.Kind == "RoleBinding" && t.Kind == "ServiceAccount" && e.Mapping && e.HasSubNs && e.SubjNs == ot.GetNamespace()
	if !(ida.IsClusterScoped() || idt.IsClusterScoped() || ida.IsNsEquals(idt) || crossSA) {
		return false, "cross-namespace"
	}
	if c03FieldSharedHit(b, e, rules) {
		return false, "field-shared-by-kinds"
	}
	if e.Mapping && e.HasSubNs {
		if c03EffNs(t.APIVersion, t.Kind, e.SubjNs) != c03EffNs(t.APIVersion, t.Kind, t.Namespace) {
			return false, "mapping-namespace-mismatch"
		}
	}
	return true, ""
}

// the prefixes / suffixes the layers put on a resource, innermost first (what the build annotations record)
func c03Affixes(b *c03Build, r *c03Res) (pfx, sfx []string) {
	if c03SkipsAffixes(r) {
		return nil, nil
	}
	for l := r.Layer; l >= 0; l = b.Layers[l].Parent {
		if b.Layers[l].Prefix != "" {
			pfx = append(pfx, b.Layers[l].Prefix)
		}
		if b.Layers[l].Suffix != "" {
			sfx = append(sfx, b.Layers[l].Suffix)
		}
	}
	return
}

// c03ContextResolves: (D1') the same original name more than once is still inside the domain when the
// prefix/suffix context of the layers singles the referent out, by the specification of the two context
// sieves (C03_unique_in_context / C03_unique_in_strict_context): the referent passes the coarse pass, and
// either no rival does, or the referent passes the strict pass and no rival passing the coarse pass does.
// A referent no transformer ever touched has no previous id and is no candidate at all: not resolved.
func c03ContextResolves(b *c03Build, e c03Edge) (rivals, resolves bool) {
	a, t := b.res(e.From), b.res(e.To)
	if a == nil || t == nil {
		return false, false
	}
	pa, sa := c03Affixes(b, a)
	coarse := func(x *c03Res) bool {
		px, sx := c03Affixes(b, x)
		return (len(px) == 0 || len(pa) == 0 || c03SameEnding(px, pa)) && (len(sx) == 0 || len(sa) == 0 || c03SameEnding(sx, sa))
	}
	strict := func(x *c03Res) bool {
		px, sx := c03Affixes(b, x)
		return c03SameEnding(px, pa) && c03SameEnding(sx, sa)
	}
	rivalCoarse, rivalStrict := false, false
	for _, r := range b.Res {
		if r != t && r.Name == e.Old && r.Kind == t.Kind {
			rivals = true
			if coarse(r) {
				rivalCoarse = true
				if strict(r) {
					rivalStrict = true
				}
			}
		}
	}
	if !rivals {
		return false, true
	}
	return true, c03HasHistory(b, t) && coarse(t) && (!rivalCoarse || (strict(t) && !rivalStrict))
}

// the namespace a resource ends up in, from the layering alone
func c03FinalEffNs(b *c03Build, r *c03Res) string {
	ns := r.Namespace
	for l := r.Layer; l >= 0; l = b.Layers[l].Parent {
		if b.Layers[l].Namespace != "" {
			ns = b.Layers[l].Namespace
		}
	}
	return c03EffNs(r.APIVersion, r.Kind, ns)
}

// c03FieldSharedHit: (D3 violated) another rule row that reaches the same field of the referrer finds a
// resource of its own kind that had the referenced name at some point
func c03FieldSharedHit(b *c03Build, e c03Edge, rules []krusty.VerifC03Rule) bool {
	a, t := b.res(e.From), b.res(e.To)
	if a == nil || t == nil {
		return false
	}
	for _, row := range rules {
		if row.Kind == t.Kind {
			continue
		}
		reaches := false
		for _, fs := range row.Referrers {
			if fs.Path == e.RulePath && c03RuleSelects(fs.Group, fs.Version, fs.Kind, a.APIVersion, a.Kind) {
				reaches = true
			}
		}
		if !reaches {
			continue
		}
		for _, r := range b.Res {
			if r.Kind == row.Kind && c03NameInHistory(b, r, e.Old) {
				return true
			}
		}
	}
	return false
}

// c03ErrorUnexplained: a build that fails with "multiple possible referrals" although, edge by edge, the
// specification of the sieves singles out one referent: no intermediate-name collision anywhere, every edge
// with rivals is resolved by the layering context, its referent is visible to the referrer, and it is a
// plain scalar reference, and no other row reaching a referenced field has a candidate of its own (D3).
func c03ErrorUnexplained(b *c03Build, rules []krusty.VerifC03Rule) bool {
	for _, r1 := range b.Res {
		for _, r2 := range b.Res {
			if r1 != r2 && r1.Kind == r2.Kind && r1.Name != r2.Name && c03NameInHistory(b, r2, r1.Name) {
				return false
			}
		}
	}
	for _, e := range b.Edges {
		if e.To == "" {
			continue
		}
		a, t := b.res(e.From), b.res(e.To)
		if a == nil || t == nil {
			return false
		}
		if c03FieldSharedHit(b, e, rules) {
			return false
		}
		rivals, resolves := c03ContextResolves(b, e)
		if !rivals {
			continue
		}
		if !resolves || e.Mapping {
			return false
		}
		na, nt := c03FinalEffNs(b, a), c03FinalEffNs(b, t)
		if na != nt && na != resid.TotallyNotANamespace && nt != resid.TotallyNotANamespace {
			return false
		}
	}
	return true
}

// c03HasHistory: some transformer recorded a previous id for the resource (prefix, suffix, namespace, hash)
func c03HasHistory(b *c03Build, r *c03Res) bool {
	if r.Generated && !r.NoHash {
		return true
	}
	p, s := c03Affixes(b, r)
	if len(p) > 0 || len(s) > 0 {
		return true
	}
	for l := r.Layer; l >= 0; l = b.Layers[l].Parent {
		if b.Layers[l].Namespace != "" {
			return true
		}
	}
	return false
}

// kinds the prefix / suffix transformers never rename
func c03SkipsAffixes(r *c03Res) bool {
	return r.Kind == "CustomResourceDefinition" || r.Kind == "Namespace" ||
		(r.Kind == "APIService" && c03Group(r.APIVersion) == "apiregistration.k8s.io")
}

// the specification of utils.SameEndingSubSlice: one list is a suffix of the other, and an empty list only
// matches an empty list
func c03SameEnding(x, y []string) bool {
	if len(x) > len(y) {
		x, y = y, x
	}
	if len(x) == 0 {
		return len(y) == 0
	}
	d := len(y) - len(x)
	for i := range x {
		if y[i+d] != x[i] {
			return false
		}
	}
	return true
}

func c03Min(a, b int) int {
	if a < b {
		return a
	}
	return b
}

// c03Ambiguity: "original" when two resources of one kind share their original name (in any namespaces),
// "intermediate" when the original name of one is a LATER name of another of the same kind, "" otherwise.
func c03Ambiguity(b *c03Build) string {
	res := ""
	for _, r1 := range b.Res {
		for _, r2 := range b.Res {
			if r1 == r2 || r1.Kind != r2.Kind {
				continue
			}
			if r1.Name == r2.Name {
				return "original"
			}
			if c03NameInHistory(b, r2, r1.Name) {
				res = "intermediate"
			}
		}
	}
	return res
}

// names a resource can have had during the build: original name with the affixes of its layers applied in order
func c03NameInHistory(b *c03Build, r *c03Res, name string) bool {
	n := r.Name
	if n == name {
		return true
	}
	for l := r.Layer; l >= 0; l = b.Layers[l].Parent {
		if b.Layers[l].Prefix != "" {
			n = b.Layers[l].Prefix + n
			if n == name {
				return true
			}
		}
		if b.Layers[l].Suffix != "" {
			n = n + b.Layers[l].Suffix
			if n == name {
				return true
			}
		}
	}
	return false
}

// c03Oracles evaluates the laws on the output of the real build.
func c03Oracles(r *Run, b *c03Build, o c03Outcome, rules []krusty.VerifC03Rule) {
	report := func(law, class, detail string) {
		r.Violation(OracleViolation{Law: law, Class: class, Detail: detail, Replay: b})
	}
	if o.realCls == ClsPanic {
		report("no_panic", "C03/panic", "krusty.Run panicked: "+o.realMsg)
		return
	}
	if o.realCls != o.stageCls {
		report("staged_equals_real", "C03/staged_equals_real",
			fmt.Sprintf("staged run %s (%s) but krusty.Run %s (%s)", o.stageCls, o.stageMsg, o.realCls, o.realMsg))
		return
	}
	if o.realCls != ClsOk {
		kind := c03ErrKind(o.realMsg)
		r.Count("build_error", kind)
		if kind == "multiple-referrals" {
			// the build refuses to choose: expected only when the graph itself is ambiguous
			amb := c03Ambiguity(b)
			r.Count("multiple_referrals", amb)
			switch amb {
			case "original":
				// ambiguous original names: outside the domain of the property, unless the layering context
				// resolves every reference by the specification of the sieves
				if c03ErrorUnexplained(b, rules) {
					report("refs_follow", "C03/unexpected-multiple-referrals",
						"build fails although the prefix/suffix context of the layers singles out one referent for every reference: "+
							o.realMsg[:c03Min(len(o.realMsg), 300)])
				}
			case "intermediate":
				report("refs_follow", "C03/intermediate-name-collision",
					"build fails with 'multiple possible referrals' although original names are unambiguous: "+
						"an intermediate name of one resource equals the original name of another of the same kind")
			default:
				report("refs_follow", "C03/unexpected-multiple-referrals", "build fails: "+o.realMsg[:c03Min(len(o.realMsg), 400)])
			}
		}
		return
	}
	out := c03ByTracer(o.real)
	// staged == real
	if o.stages != nil && o.stages.Post != nil {
		post := c03ByTracer(o.stages.Post)
		for id, rr := range out {
			sp := post[id]
			if sp == nil {
				report("staged_equals_real", "C03/staged_equals_real", "resource "+id+" missing from the staged run")
				continue
			}
			c := sp.DeepCopy()
			c.RemoveBuildAnnotations()
			y1, _ := c.AsYAML()
			y2, _ := rr.AsYAML()
			if string(y1) != string(y2) {
				report("staged_equals_real", "C03/staged_equals_real",
					fmt.Sprintf("resource %s differs:\nstaged:\n%s\nreal:\n%s", id, y1, y2))
			}
		}
	}
	if o.stages != nil && o.stages.Pre != nil && o.stages.Post != nil {
		for _, d := range c03ChainOracle(o.stages.Pre, o.stages.Post) {
			report("no_retarget_chain", "C03/no_retarget_chain", d)
		}
	}
	outNames := map[string]string{} // output name -> tracer id (first)
	for id, rr := range out {
		if _, dup := outNames[rr.GetName()]; !dup {
			outNames[rr.GetName()] = id
		}
	}
	for _, e := range b.Edges {
		oa := out[e.From]
		if oa == nil {
			continue
		}
		got, ok := c03ReadAddr(oa, e.Addr)
		if !ok {
			report("refs_follow", "C03/field-lost", fmt.Sprintf("edge %v: the reference field is no longer a scalar in the output", e))
			continue
		}
		if e.To == "" {
			r.Count("edge", "external")
			if got != e.Old {
				report("external_untouched", "C03/external_untouched",
					fmt.Sprintf("reference to %q (not in the build) at %v of %s became %q", e.Old, e.Addr, e.From, got))
			}
			continue
		}
		ot := out[e.To]
		if ot == nil {
			continue
		}
		want := ot.GetName()
		dom, why := c03InDomain(b, e, out, rules)
		if !dom {
			r.Count("edge", "outside:"+why)
			continue
		}
		t := b.res(e.To)
		if got == want {
			for _, x := range b.Res {
				if x != t && x.Name == e.Old && x.Kind == t.Kind {
					r.Count("edge_context", "rival-resolved-by-context")
					break
				}
			}
			if want != e.Old {
				r.Count("edge", "followed-rename")
			} else {
				r.Count("edge", "unchanged-name")
			}
			continue
		}
		cls := c03ViolationClass(b, e, t, rules)
		law := "refs_follow"
		if got != e.Old {
			law = "no_retarget"
			if c03IsCascade(b, e, got, want, out, rules) {
				cls = "C03/rewrite-cascade:" + e.RulePath
			}
		}
		report(law, cls, fmt.Sprintf("edge %s.%v -> %s (%s %q, rule path %s): field holds %q, referent's output name is %q",
			e.From, e.Addr, e.To, t.Kind, e.Old, e.RulePath, got, want))
	}
}

// c03ViolationClass: the finding class of a failed in-domain edge. Only one shape is classified:
// the rule row for the referent's kind can never select an object of that kind (its group does not parse).
func c03ViolationClass(b *c03Build, e c03Edge, t *c03Res, rules []krusty.VerifC03Rule) string {
	selects := false
	for _, row := range rules {
		if row.Kind == t.Kind && c03RuleSelects(row.Group, row.Version, row.Kind, t.APIVersion, t.Kind) {
			selects = true
		}
	}
	if !selects && c03APIVersion[t.Kind] == t.APIVersion {
		return "C03/rule-row-never-selects:" + t.Kind
	}
	// another resource of the referent's kind went through the referenced name on its way
	for _, r := range b.Res {
		if r != t && r.Kind == t.Kind && r.Name != e.Old && c03NameInHistory(b, r, e.Old) {
			return "C03/intermediate-name-collision"
		}
	}
	return "C03/refs_follow"
}

// c03IsCascade: the specification of the rewrite cascade, after theorem C03_no_retarget_chain.  The field is
// reached by the rows of several kinds.  The row of the referent's kind rewrote the referenced name to the
// referent's final name [want]; then one or more OTHER rows reaching the same field each found a resource of
// their kind that once had exactly the field's current text as its name and rewrote the field to that
// resource's final name, ending in [got].  A deviation is a cascade instance exactly when [got] is produced
// from [want] by such a chain of at least one further row rewrite (>= 2 rewrites in all).  The order of the
// rows in the table is deliberately not used.
func c03IsCascade(b *c03Build, e c03Edge, got, want string, out map[string]*resource.Resource, rules []krusty.VerifC03Rule) bool {
	a, t := b.res(e.From), b.res(e.To)
	if a == nil || t == nil || got == want {
		return false
	}
	// kinds of the rows that reach this field of this referrer
	// (a row that lists the field twice - the Secret row has Ingress spec/tls/secretName twice and the merge of
	// the default table keeps duplicates inside a row - visits it twice: it can follow its own rewrite)
	reaching := map[string]bool{}
	visits := map[string]int{}
	total := 0
	for _, row := range rules {
		for _, fs := range row.Referrers {
			if fs.Path == e.RulePath && c03RuleSelects(fs.Group, fs.Version, fs.Kind, a.APIVersion, a.Kind) {
				reaching[row.Kind] = true
				visits[row.Kind]++
				total++
			}
		}
	}
	if !reaching[t.Kind] || total < 2 {
		return false
	}
	type state struct{ text, lastKind string }
	seen := map[state]bool{{want, t.Kind}: true}
	todo := []state{{want, t.Kind}}
	for steps := 0; len(todo) > 0 && steps < 64; steps++ {
		cur := todo[0]
		todo = todo[1:]
		for _, r := range b.Res {
			o := out[r.ID]
			if o == nil || !reaching[r.Kind] || (r.Kind == cur.lastKind && visits[r.Kind] < 2) || !c03NameInHistory(b, r, cur.text) {
				continue
			}
			next := o.GetName()
			if next == cur.text {
				continue
			}
			if next == got {
				return true
			}
			st := state{next, r.Kind}
			if !seen[st] {
				seen[st] = true
				todo = append(todo, st)
			}
		}
	}
	return false
}

func c03ErrKind(msg string) string {
	switch {
	case strings.Contains(msg, "already registered id"):
		return "id-conflict-append"
	case strings.Contains(msg, "namespace transformation produces ID conflict"):
		return "id-conflict-namespace"
	case strings.Contains(msg, "multiple possible referrals"):
		return "multiple-referrals"
	case strings.Contains(msg, "behavior must be merge or replace"):
		return "generator-id-exists"
	default:
		if len(msg) > 160 {
			msg = msg[len(msg)-160:]
		}
		return "other:" + msg
	}
}

// c03Cases adds the correspondence cases of one build.
func c03Cases(r *Run, b *c03Build, o c03Outcome) {
	if o.stageCls == ClsPanic || o.stages == nil {
		r.Meta.Skipped++
		return
	}
	st := o.stages
	// ---- CBook: layering -> identity + history before FixBackReferences
	if st.Stage == "" || st.Stage == "accumulate" || st.Stage == "hash" || st.Stage == "nameref" {
		vals := map[string]bool{}
		pairs := map[[2]string]bool{}
		lt, ok := c03LayerTerm(b, 0, vals, pairs)
		cls := ClsOk
		if st.Stage == "accumulate" || st.Stage == "hash" {
			cls = o.stageCls
		}
		if ok {
			var hs, books []string
			good := true
			if cls == ClsOk {
				acc, pre := st.Acc.Resources(), st.Pre.Resources()
				if len(acc) != len(pre) {
					good = false
				}
				h := &hasher.Hasher{}
				for i := range acc {
					hv := ""
					if acc[i].NeedHashSuffix() {
						x, err := h.Hash(&acc[i].RNode)
						if err != nil {
							good = false
						}
						hv = x
					}
					hs = append(hs, coqStr(hv))
				}
				for _, p := range pre {
					books = append(books, c03BookTerm(p))
					c03NoteScope(pairs, p.GetApiVersion(), p.GetKind())
				}
			}
			if good {
				term := fmt.Sprintf("(CBook %s %s %s [%s] %s [%s])", c03CsTerm(pairs), c03NonstrTerm(vals), lt,
					strings.Join(hs, "; "), cls, strings.Join(books, "; "))
				renamed := false
				for _, l := range b.Layers {
					if l.Prefix != "" || l.Suffix != "" || l.Namespace != "" {
						renamed = true
					}
				}
				r.AddCase(term, map[string]interface{}{"kind": "book", "build": b}, renamed && cls == ClsOk)
				r.Count("case", "book:"+cls)
			} else {
				r.Meta.Skipped++
			}
		} else {
			r.Meta.Skipped++
		}
	}
	// ---- CRef: before -> after FixBackReferences
	if st.Pre != nil && (st.Stage == "" || st.Stage == "nameref") {
		cls := ClsOk
		if st.Stage == "nameref" {
			cls = o.stageCls
		}
		term, ok := c03RefTerm(st.Pre, cls, st.Post)
		if ok {
			changed := false
			if cls == ClsOk {
				pre, post := st.Pre.Resources(), st.Post.Resources()
				for i := range pre {
					if i < len(post) {
						y1, _ := c03StrippedNode(pre[i]).String()
						y2, _ := c03StrippedNode(post[i]).String()
						if y1 != y2 {
							changed = true
						}
					}
				}
			}
			r.AddCase(term, map[string]interface{}{"kind": "ref", "build": b}, changed)
			r.Count("case", "ref:"+cls)
		} else {
			r.Meta.Skipped++
		}
	}
}

// ---------------------------------------------------------------- synthetic resource maps

type c03SynRes struct {
	Doc        string `json:"doc"`
	PrevNames  string `json:"previousNames,omitempty"`
	PrevNss    string `json:"previousNamespaces,omitempty"`
	PrevKinds  string `json:"previousKinds,omitempty"`
	Prefixes   string `json:"prefixes,omitempty"`
	Suffixes   string `json:"suffixes,omitempty"`
	HasHistory bool   `json:"hasHistory"`
}

type c03Syn struct {
	Res []c03SynRes `json:"resources"`
	// scalar reference fields of the last resource whose expected value the selection laws determine
	Refs []c03SynRef `json:"refs,omitempty"`
}

// one scalar reference of a namespaced referrer to objects of one kind (reached by exactly one rule row)
type c03SynRef struct {
	Addr   []interface{} `json:"addr"`
	Value  string        `json:"value"`
	Target string        `json:"target"` // kind of the rule row
}

var c03SynOld = []string{"x", "y", "z"}

// directed scenarios: several candidates that once had the same name, so that the later sieves
// (namespace, prefix/suffix coarse and strict, identical names) decide
func c03GenSynDirected(rng *Rng) c03Syn {
	var s c03Syn
	pick := func(l []string) string { return l[rng.Intn(len(l))] }
	cnt := 0
	uniq := func(base string) string { cnt++; return fmt.Sprintf("%s%d", base, cnt) }
	nsLine := func(ns string) string {
		if ns == "" {
			return ""
		}
		return "  namespace: " + ns + "\n"
	}
	affixLists := func(pool [][]string) string { return strings.Join(pool[rng.Intn(len(pool))], ",") }
	pfxPool := [][]string{{}, {}, {"p-"}, {"q-"}, {"p-", "q-"}, {"q-", "p-"}, {"p-", "p-"}, {"q-", "p-", "q-"}}
	sfxPool := [][]string{{}, {}, {}, {"-s"}, {"-t"}, {"-s", "-t"}, {"-t", "-s"}}
	hist := func(r *c03SynRes, names []string, kind string, nss []string) {
		var ns, ks []string
		for i := range names {
			ns = append(ns, nss[i%len(nss)])
			ks = append(ks, kind)
		}
		r.HasHistory = true
		r.PrevNames, r.PrevNss, r.PrevKinds = strings.Join(names, ","), strings.Join(ns, ","), strings.Join(ks, ",")
	}
	ctx := func(r *c03SynRes) {
		r.Prefixes = affixLists(pfxPool)
		r.Suffixes = affixLists(sfxPool)
	}
	effNs := func(ns string) string {
		if ns == "" {
			return "default"
		}
		return ns
	}
	if rng.Chance(55) {
		// A: ConfigMaps / Secrets that were all called "x" once
		home := pick([]string{"", "n1", "n2"})
		clusterReferrer := rng.Chance(30)
		n := 2 + rng.Intn(2)
		usedCur := map[string]bool{}
		for i := 0; i < n; i++ {
			var r c03SynRes
			ns := home
			if clusterReferrer || rng.Chance(15) {
				ns = pick([]string{"", "n1", "n2"})
			}
			kind := "ConfigMap"
			if rng.Chance(15) {
				kind = "Secret"
			}
			cur := uniq("cm")
			if rng.Chance(35) {
				cur = pick([]string{"x", "y", "y", "same"})
			}
			if usedCur[kind+"/"+cur+"/"+effNs(ns)] {
				cur = uniq("cm")
			}
			usedCur[kind+"/"+cur+"/"+effNs(ns)] = true
			r.Doc = "apiVersion: v1\nkind: " + kind + "\nmetadata:\n  name: " + cur + "\n" + nsLine(ns)
			if rng.Chance(88) {
				names := []string{pick([]string{"x", "x", "y"})}
				if rng.Chance(40) {
					names = append(names, pick([]string{"p-x", "y", "x"}))
				}
				prevNs := effNs(ns)
				if rng.Chance(20) {
					prevNs = pick([]string{"default", "n1", "n2"})
				}
				hist(&r, names, kind, []string{prevNs})
			}
			ctx(&r)
			s.Res = append(s.Res, r)
		}
		var r c03SynRes
		if clusterReferrer {
			r.Doc = "apiVersion: rbac.authorization.k8s.io/v1\nkind: ClusterRole\nmetadata:\n  name: " + uniq("cr") +
				"\nrules:\n- resources: [configmaps, secrets]\n  resourceNames: [x, y, same, ext]\n"
			hist(&r, []string{"cr"}, "ClusterRole", []string{"_non_namespaceable_"})
		} else {
			third := pick([]string{"y", "same", "x"})
			r.Doc = "apiVersion: apps/v1\nkind: Deployment\nmetadata:\n  name: " + uniq("dep") + "\n" + nsLine(home) +
				"spec:\n  template:\n    spec:\n      containers:\n      - name: c\n        envFrom:\n        - configMapRef:\n            name: x\n" +
				"        - secretRef:\n            name: x\n        - configMapRef:\n            name: " + third +
				"\n      volumes:\n      - configMap:\n          name: x\n"
			env := []interface{}{"spec", "template", "spec", "containers", 0, "envFrom"}
			at := func(i int, k string) []interface{} { return append(append([]interface{}{}, env...), i, k, "name") }
			s.Refs = []c03SynRef{
				{Addr: at(0, "configMapRef"), Value: "x", Target: "ConfigMap"},
				{Addr: at(1, "secretRef"), Value: "x", Target: "Secret"},
				{Addr: at(2, "configMapRef"), Value: third, Target: "ConfigMap"},
				{Addr: []interface{}{"spec", "template", "spec", "volumes", 0, "configMap", "name"}, Value: "x", Target: "ConfigMap"},
			}
			hist(&r, []string{"dep"}, "Deployment", []string{effNs(home)})
		}
		ctx(&r)
		s.Res = append(s.Res, r)
		return s
	}
	// B: a RoleBinding, Roles / ClusterRoles once called "x", ServiceAccounts once called "y"
	nss := []string{"", "n1", "n2"}
	a := pick(nss)
	b := pick([]string{"default", "n1", "n2", "n3"})
	nRoles := 1 + rng.Intn(2)
	for i := 0; i < nRoles; i++ {
		var r c03SynRes
		ns := pick([]string{a, b, pick(nss)})
		if ns == "default" && rng.Bool() {
			ns = ""
		}
		if ns == "n3" {
			ns = "n2"
		}
		r.Doc = "apiVersion: rbac.authorization.k8s.io/v1\nkind: Role\nmetadata:\n  name: " + uniq("role") + "\n" + nsLine(ns)
		hist(&r, []string{"x"}, "Role", []string{effNs(ns)})
		ctx(&r)
		s.Res = append(s.Res, r)
	}
	if rng.Chance(50) {
		var r c03SynRes
		r.Doc = "apiVersion: rbac.authorization.k8s.io/v1\nkind: ClusterRole\nmetadata:\n  name: " + uniq("crole") + "\n"
		hist(&r, []string{"x"}, "ClusterRole", []string{"_non_namespaceable_"})
		ctx(&r)
		s.Res = append(s.Res, r)
	}
	nSA := 1 + rng.Intn(3)
	for i := 0; i < nSA; i++ {
		var r c03SynRes
		ns := pick([]string{a, b, pick(nss)})
		if ns == "n3" {
			ns = "n1"
		}
		raw := ns
		if raw == "default" && rng.Bool() {
			raw = ""
		}
		r.Doc = "apiVersion: v1\nkind: ServiceAccount\nmetadata:\n  name: " + uniq("sa") + "\n" + nsLine(raw)
		prevNs := effNs(raw)
		if rng.Chance(35) {
			prevNs = pick([]string{"default", "n1", "n2"})
		}
		hist(&r, []string{"y"}, "ServiceAccount", []string{prevNs})
		ctx(&r)
		s.Res = append(s.Res, r)
	}
	if rng.Chance(40) {
		var r c03SynRes
		ns := pick([]string{a, b})
		if ns == "n3" || ns == "default" {
			ns = ""
		}
		r.Doc = "apiVersion: v1\nkind: ConfigMap\nmetadata:\n  name: " + uniq("cm") + "\n" + nsLine(ns)
		hist(&r, []string{pick([]string{"x", "y"})}, "ConfigMap", []string{effNs(ns)})
		s.Res = append(s.Res, r)
	}
	var r c03SynRes
	subj := "- kind: ServiceAccount\n  name: y\n"
	if rng.Chance(85) {
		subj += "  namespace: " + b + "\n"
	}
	if rng.Chance(40) {
		subj += "- kind: ServiceAccount\n  name: y\n  namespace: " + pick([]string{"default", "n1", "n2"}) + "\n"
	}
	if rng.Chance(25) {
		subj += "- kind: User\n  name: x\n"
	}
	r.Doc = "apiVersion: rbac.authorization.k8s.io/v1\nkind: RoleBinding\nmetadata:\n  name: " + uniq("rb") + "\n" + nsLine(a) +
		"roleRef:\n  apiGroup: rbac.authorization.k8s.io\n  kind: " + pick([]string{"Role", "Role", "ClusterRole"}) + "\n  name: x\nsubjects:\n" + subj
	hist(&r, []string{"rb"}, "RoleBinding", []string{effNs(a)})
	ctx(&r)
	s.Res = append(s.Res, r)
	return s
}

func c03GenSyn(rng *Rng) c03Syn {
	if rng.Chance(45) {
		return c03GenSynDirected(rng)
	}
	var s c03Syn
	nsPool := []string{"", "default", "n1", "n2"}
	pick := func(l []string) string { return l[rng.Intn(len(l))] }
	csvOf := func(pool []string, max int) string {
		n := rng.Intn(max + 1)
		var l []string
		for i := 0; i < n; i++ {
			l = append(l, pick(pool))
		}
		return strings.Join(l, ",")
	}
	cnt := 0
	uniq := func(base string) string { cnt++; return fmt.Sprintf("%s%d", base, cnt) }
	addHist := func(r *c03SynRes, kind string, clusterScoped bool) {
		if rng.Chance(85) {
			n := 1 + rng.Intn(2)
			var names, nss, kinds []string
			for i := 0; i < n; i++ {
				names = append(names, pick(c03SynOld))
				if clusterScoped {
					nss = append(nss, "_non_namespaceable_")
				} else {
					nss = append(nss, pick([]string{"default", "n1", "n2"}))
				}
				k := kind
				if rng.Chance(5) {
					k = "Other"
				}
				kinds = append(kinds, k)
			}
			r.HasHistory = true
			r.PrevNames, r.PrevNss, r.PrevKinds = strings.Join(names, ","), strings.Join(nss, ","), strings.Join(kinds, ",")
		}
		if rng.Chance(60) {
			r.Prefixes = csvOf([]string{"p-", "q-"}, 2)
		}
		if rng.Chance(30) {
			r.Suffixes = csvOf([]string{"-s", "-t"}, 2)
		}
	}
	nsLine := func(ns string) string {
		if ns == "" {
			return ""
		}
		return "  namespace: " + ns + "\n"
	}
	// referents
	nRef := 2 + rng.Intn(4)
	for i := 0; i < nRef; i++ {
		var r c03SynRes
		switch rng.Intn(7) {
		case 0, 1, 2:
			r.Doc = "apiVersion: v1\nkind: ConfigMap\nmetadata:\n  name: " + uniq("cm") + "\n" + nsLine(pick(nsPool))
			addHist(&r, "ConfigMap", false)
		case 3:
			r.Doc = "apiVersion: v1\nkind: Secret\nmetadata:\n  name: " + uniq("sec") + "\n" + nsLine(pick(nsPool))
			addHist(&r, "Secret", false)
		case 4:
			r.Doc = "apiVersion: v1\nkind: ServiceAccount\nmetadata:\n  name: " + uniq("sa") + "\n" + nsLine(pick(nsPool))
			addHist(&r, "ServiceAccount", false)
		case 5:
			r.Doc = "apiVersion: rbac.authorization.k8s.io/v1\nkind: Role\nmetadata:\n  name: " + uniq("role") + "\n" + nsLine(pick(nsPool))
			addHist(&r, "Role", false)
		default:
			r.Doc = "apiVersion: rbac.authorization.k8s.io/v1\nkind: ClusterRole\nmetadata:\n  name: " + uniq("crole") + "\n"
			addHist(&r, "ClusterRole", true)
		}
		if rng.Chance(12) && i > 0 {
			// same current name as the previous referent of the same kind is impossible (ids are unique),
			// but the same name in another namespace is fine: rewrite name to collide on purpose
			_ = i
		}
		s.Res = append(s.Res, r)
	}
	// referrers
	nRer := 1 + rng.Intn(3)
	for i := 0; i < nRer; i++ {
		var r c03SynRes
		ns := pick(nsPool)
		switch rng.Intn(5) {
		case 0, 1:
			r.Doc = "apiVersion: apps/v1\nkind: Deployment\nmetadata:\n  name: " + uniq("dep") + "\n" + nsLine(ns) +
				"spec:\n  template:\n    spec:\n      serviceAccountName: " + pick(c03SynOld) + "\n      containers:\n      - name: c\n        envFrom:\n        - configMapRef:\n            name: " + pick(c03SynOld) +
				"\n        - secretRef:\n            name: " + pick(c03SynOld) + "\n      volumes:\n      - configMap:\n          name: " + pick(c03SynOld) + "\n"
			addHist(&r, "Deployment", false)
		case 2:
			r.Doc = "apiVersion: rbac.authorization.k8s.io/v1\nkind: Role\nmetadata:\n  name: " + uniq("rr") + "\n" + nsLine(ns) +
				"rules:\n- resources: [configmaps, secrets]\n  resourceNames: [" + pick(c03SynOld) + ", " + pick(c03SynOld) + ", ext]\n"
			addHist(&r, "Role", false)
		case 3:
			subj := "- kind: ServiceAccount\n  name: " + pick(c03SynOld) + "\n"
			if rng.Chance(70) {
				subj += "  namespace: " + pick([]string{"default", "n1", "n2", "n3"}) + "\n"
			}
			if rng.Chance(40) {
				subj += "- kind: ServiceAccount\n  name: " + pick(c03SynOld) + "\n  namespace: " + pick([]string{"default", "n1", "n2"}) + "\n"
			}
			rk := pick([]string{"Role", "ClusterRole"})
			r.Doc = "apiVersion: rbac.authorization.k8s.io/v1\nkind: RoleBinding\nmetadata:\n  name: " + uniq("rb") + "\n" + nsLine(ns) +
				"roleRef:\n  apiGroup: rbac.authorization.k8s.io\n  kind: " + rk + "\n  name: " + pick(c03SynOld) + "\nsubjects:\n" + subj
			addHist(&r, "RoleBinding", false)
		default:
			r.Doc = "apiVersion: rbac.authorization.k8s.io/v1\nkind: ClusterRoleBinding\nmetadata:\n  name: " + uniq("crb") + "\n" +
				"roleRef:\n  apiGroup: rbac.authorization.k8s.io\n  kind: ClusterRole\n  name: " + pick(c03SynOld) +
				"\nsubjects:\n- kind: ServiceAccount\n  name: " + pick(c03SynOld) + "\n  namespace: " + pick([]string{"default", "n1", "n2"}) + "\n"
			addHist(&r, "ClusterRoleBinding", true)
		}
		s.Res = append(s.Res, r)
	}
	return s
}

func c03BuildSyn(s c03Syn) (resmap.ResMap, error) {
	k := krusty.MakeKustomizer(krusty.MakeDefaultOptions())
	_ = k
	rf := resmap.NewFactory(resource.NewFactory(&hasher.Hasher{}))
	m := resmap.New()
	for _, sr := range s.Res {
		r, err := rf.RF().FromBytes([]byte(sr.Doc))
		if err != nil {
			return nil, err
		}
		a := r.GetAnnotations()
		set := func(key, v string, present bool) {
			if present {
				a[c03BuildAnnoPrefix+key] = v
			}
		}
		set("previousNames", sr.PrevNames, sr.HasHistory)
		set("previousNamespaces", sr.PrevNss, sr.HasHistory)
		set("previousKinds", sr.PrevKinds, sr.HasHistory)
		set("prefixes", sr.Prefixes, sr.Prefixes != "")
		set("suffixes", sr.Suffixes, sr.Suffixes != "")
		if len(a) > 0 {
			if err := r.SetAnnotations(a); err != nil {
				return nil, err
			}
		}
		if err := m.Append(r); err != nil {
			return nil, err
		}
	}
	return m, nil
}

func c03RunSyn(r *Run, s c03Syn, rules []krusty.VerifC03Rule) {
	m, err := c03BuildSyn(s)
	if err != nil {
		r.Meta.Skipped++
		return
	}
	before := m.DeepCopy()
	cls, msg := protect(func() error { return krusty.VerifC03FixBackReferences(m, rules) })
	term, ok := c03RefTerm(before, cls, m)
	if !ok {
		r.Meta.Skipped++
		return
	}
	changed := false
	if cls == ClsOk {
		y1, _ := before.AsYaml()
		y2, _ := m.AsYaml()
		changed = string(y1) != string(y2)
	} else {
		r.Count("syn_error", c03ErrKind(msg))
	}
	for _, d := range c03SynSelectionOracle(s, before, m, cls) {
		r.Violation(OracleViolation{Law: "unique_in_context", Class: "C03/context_selection", Detail: d,
			Replay: map[string]interface{}{"kind": "syn", "syn": s}})
	}
	if len(s.Refs) > 0 {
		r.Count("syn", "selection-law-evaluated")
	}
	if cls == ClsOk {
		for _, d := range c03ChainOracle(before, m) {
			r.Violation(OracleViolation{Law: "no_retarget_chain", Class: "C03/no_retarget_chain", Detail: d,
				Replay: map[string]interface{}{"kind": "syn", "syn": s}})
		}
	} else if cls == ClsPanic {
		r.Violation(OracleViolation{Law: "no_panic", Class: "C03/panic", Detail: "name reference transformer panicked: " + msg,
			Replay: map[string]interface{}{"kind": "syn", "syn": s}})
	}
	r.AddCase(term, map[string]interface{}{"kind": "syn", "syn": s}, changed)
	r.Count("case", "syn:"+cls)
	if cls == ClsOk {
		if changed {
			r.Count("syn", "rewrote")
		} else {
			r.Count("syn", "no-change")
		}
	}
}

// ---------------------------------------------------------------- whole-transformer oracle

// c03ChainOracle evaluates the law of theorem C03_no_retarget_chain on the implementation: between the
// resource map just before and just after FixBackReferences, every document keeps its shape, and every
// scalar (not under a key "namespace") keeps its text or follows a chain of renames, each link going from
// a text to the CURRENT name of a resource that once had exactly that text as its name.  Texts nobody ever
// had as a name (references to objects outside the build) therefore stay as they are.
func c03ChainOracle(before, after resmap.ResMap) []string {
	var out []string
	if before == nil || after == nil {
		return out
	}
	bs, as := before.Resources(), after.Resources()
	if len(bs) != len(as) {
		return []string{fmt.Sprintf("%d resources before, %d after", len(bs), len(as))}
	}
	// renamed: text -> current names of the resources that once had it
	step := map[string][]string{}
	for _, r := range bs {
		a := r.GetAnnotations()
		pn, ok := a[c03BuildAnnoPrefix+"previousNames"]
		if !ok {
			continue
		}
		for _, n := range strings.Split(pn, ",") {
			step[n] = append(step[n], r.GetName())
		}
	}
	reach := func(from, to string) bool {
		seen := map[string]bool{from: true}
		todo := []string{from}
		for len(todo) > 0 {
			x := todo[0]
			todo = todo[1:]
			if x == to {
				return true
			}
			for _, y := range step[x] {
				if !seen[y] {
					seen[y] = true
					todo = append(todo, y)
				}
			}
		}
		return false
	}
	var walk func(id string, path string, x, y *kyaml.Node)
	walk = func(id, path string, x, y *kyaml.Node) {
		if x == nil || y == nil {
			return
		}
		if x.Kind != y.Kind {
			out = append(out, fmt.Sprintf("%s %s: node kind changed", id, path))
			return
		}
		switch x.Kind {
		case kyaml.ScalarNode:
			if x.Value != y.Value && !reach(x.Value, y.Value) {
				out = append(out, fmt.Sprintf("%s %s: %q became %q, which is not the current name of anything once called %q (nor of a chain of such renames)",
					id, path, x.Value, y.Value, x.Value))
			}
		case kyaml.MappingNode:
			for i := 0; i+1 < len(x.Content); i += 2 {
				k := x.Content[i].Value
				if k == "namespace" || (path == "/metadata" && k == "annotations") {
					continue
				}
				var v *kyaml.Node
				for j := 0; j+1 < len(y.Content); j += 2 {
					if y.Content[j].Value == k {
						v = y.Content[j+1]
						break
					}
				}
				if v == nil {
					out = append(out, fmt.Sprintf("%s %s: field %q disappeared", id, path, k))
					continue
				}
				walk(id, path+"/"+k, x.Content[i+1], v)
			}
		case kyaml.SequenceNode:
			if len(x.Content) != len(y.Content) {
				out = append(out, fmt.Sprintf("%s %s: sequence length changed", id, path))
				return
			}
			for i := range x.Content {
				walk(id, fmt.Sprintf("%s/%d", path, i), x.Content[i], y.Content[i])
			}
		}
	}
	for i := range bs {
		// the annotations mapping also holds the build annotations (refBy is appended there): compare the rest
		walk(bs[i].CurId().String(), "", c03StrippedNode(bs[i]).YNode(), c03StrippedNode(as[i]).YNode())
		if bs[i].CurId().String() != as[i].CurId().String() {
			out = append(out, fmt.Sprintf("%s: identity changed to %s", bs[i].CurId(), as[i].CurId()))
		}
	}
	return out
}

// c03SynSelectionOracle evaluates the selection laws (C03_unique_candidate, C03_unique_in_context,
// C03_unique_in_strict_context, C03_external_no_candidate) on the implementation for the recorded scalar
// references of a synthetic resource map: the referrer is the last resource, namespaced, and each recorded
// field is reached by exactly one rule row.  The expected candidate is computed from the SPECIFICATION of
// the sieves: previous name + kind, same effective namespace, then the prefix/suffix context (coarse pass;
// strict pass when several remain).  Returns the violations and whether an error was to be expected.
func c03SynSelectionOracle(s c03Syn, before, after resmap.ResMap, cls string) []string {
	var out []string
	if len(s.Refs) == 0 || before == nil {
		return out
	}
	bs := before.Resources()
	ref := bs[len(bs)-1]
	csv := func(r *resource.Resource, key string) []string {
		v, ok := r.GetAnnotations()[c03BuildAnnoPrefix+key]
		if !ok {
			return nil
		}
		return strings.Split(v, ",")
	}
	pa, sa := csv(ref, "prefixes"), csv(ref, "suffixes")
	refNs := c03EffNs(ref.GetApiVersion(), ref.GetKind(), ref.GetNamespace())
	errorExpected := false
	type want struct {
		ref  c03SynRef
		name string // "" = unchanged
	}
	var wants []want
	for _, f := range s.Refs {
		var l4 []*resource.Resource
		for _, c := range bs[:len(bs)-1] {
			names, kinds := csv(c, "previousNames"), csv(c, "previousKinds")
			hit, kindOk := false, false
			for i, n := range names {
				if n == f.Value {
					hit = true
				}
				if i < len(kinds) && kinds[i] == f.Target {
					kindOk = true
				}
			}
			if !hit || !kindOk || c.GetApiVersion() != "v1" {
				continue
			}
			if c03EffNs(c.GetApiVersion(), c.GetKind(), c.GetNamespace()) != refNs {
				continue
			}
			l4 = append(l4, c)
		}
		coarse := func(c *resource.Resource) bool {
			pc, sc := csv(c, "prefixes"), csv(c, "suffixes")
			return (len(pc) == 0 || len(pa) == 0 || c03SameEnding(pc, pa)) && (len(sc) == 0 || len(sa) == 0 || c03SameEnding(sc, sa))
		}
		strict := func(c *resource.Resource) bool {
			return c03SameEnding(csv(c, "prefixes"), pa) && c03SameEnding(csv(c, "suffixes"), sa)
		}
		sel := l4
		if len(sel) != 1 {
			var l5 []*resource.Resource
			for _, c := range l4 {
				if coarse(c) {
					l5 = append(l5, c)
				}
			}
			sel = l5
			if len(l5) > 1 {
				sel = nil
				for _, c := range l5 {
					if strict(c) {
						sel = append(sel, c)
					}
				}
			}
		}
		switch len(sel) {
		case 0:
			wants = append(wants, want{f, ""})
		case 1:
			wants = append(wants, want{f, sel[0].GetName()})
		default:
			same := true
			for _, c := range sel {
				if c.GetName() != sel[0].GetName() {
					same = false
				}
			}
			if same {
				wants = append(wants, want{f, sel[0].GetName()})
			} else {
				errorExpected = true
			}
		}
	}
	if cls == ClsErr {
		if !errorExpected {
			out = append(out, "the transformer fails although the specification of the sieves selects at most one referent for every recorded reference")
		}
		return out
	}
	if cls != ClsOk || errorExpected || after == nil {
		if cls == ClsOk && errorExpected {
			out = append(out, "the transformer succeeds although one recorded reference has several distinct candidates left after all sieves")
		}
		return out
	}
	as := after.Resources()
	got := as[len(as)-1]
	for _, w := range wants {
		v, ok := c03ReadAddr(got, w.ref.Addr)
		exp := w.name
		if exp == "" {
			exp = w.ref.Value
		}
		if !ok || v != exp {
			out = append(out, fmt.Sprintf("reference %v to the %s once called %q: holds %q, the sieves' specification selects %q", w.ref.Addr, w.ref.Target, w.ref.Value, v, exp))
		}
	}
	return out
}

// ---------------------------------------------------------------- driver

func runC03(r *Run, rng *Rng, tier string) error {
	nBuild, nSyn, nLaw := 90, 240, 250
	if tier == "thorough" {
		nBuild, nSyn, nLaw = 1500, 4000, 6000
	}
	r.Meta.Rule = "builds: resource graphs (2-5 referents of the kinds of the committed REFERENCE rule table + run-time extras, 1-5 reference edges whose field is drawn " +
		"from that table, one sweep build per (row, referrer field spec) every run, twin applications in sibling bases, ~12% references to names outside the build, adversarial names: shared across kinds / looking like affixed names) " +
		"x layerings (single, overlay, two sibling bases, chain of 3, tree of 3 levels) x namePrefix/nameSuffix/namespace per layer x " +
		"configMap/secret generators with and without hash; synthetic resource maps: 3-9 resources with hand-made rename histories over " +
		"the names x/y/z, namespaces, prefix/suffix lists. non-trivial = some document changed (ref/syn) or some layer renames (book); distinct by hash of the case term"
	// NewRng(seed) and NewRng(seed+1) are the same stream shifted by one step: restart from a mixed output
	rng = rng.Fork()
	// the case terms are large (whole documents): small shards keep the Coq front end parallel
	r.shard = 30
	rules, err := krusty.VerifC03MergedDefaultRules()
	if err != nil {
		return err
	}
	// reference fields are drawn from the committed REFERENCE table (the documented rule set), so that a
	// row changed or deleted in the source shows up as a reference that no longer follows its referent;
	// rows the source has on top of the reference are exercised too
	ref, err := c03LoadRefRules()
	if err != nil {
		return err
	}
	gen := c03UnionRules(ref, rules)
	r.AddCase(c03RulesTerm(rules), map[string]interface{}{"kind": "table"}, true)
	for _, b := range loadCorpus03() {
		o := c03Run(b)
		c03Cases(r, b, o)
		c03Oracles(r, b, o, gen)
	}
	for i := 0; i < nBuild; i++ {
		b := c03GenBuild(rng.Fork(), gen)
		o := c03Run(b)
		r.Count("shape", b.Shape)
		r.Count("build", o.realCls)
		c03Cases(r, b, o)
		c03Oracles(r, b, o, gen)
	}
	for i := 0; i < nSyn; i++ {
		c03RunSyn(r, c03GenSyn(rng.Fork()), rules)
	}
	// sweep: every (row, referrer field spec) of the table gets its own small build, every run
	sweeps := 1
	if tier == "thorough" {
		sweeps = 6
	}
	for k := 0; k < sweeps; k++ {
		for _, row := range gen {
			for _, fs := range row.Referrers {
				b := c03SweepBuild(rng.Fork(), gen, row, fs)
				if len(b.Edges) == 0 {
					r.Count("sweep", "no-edge:"+row.Kind+"<-"+fs.Kind+":"+fs.Path)
					continue
				}
				o := c03Run(b)
				r.Count("sweep", o.realCls)
				fp, _ := json.Marshal(b.Files)
				r.AddEval(string(fp), o.realCls == ClsOk)
				c03Oracles(r, b, o, gen)
			}
		}
	}
	// bindings sharing a namespace: the transformer visits referrers in map order, so every tree is built
	// several times in one run (a candidate set wrongly shared between referrers shows up for some orders only)
	nBind, reps := 14, 4
	if tier == "thorough" {
		nBind, reps = 200, 5
	}
	for i := 0; i < nBind; i++ {
		b := c03GenBindingBuild(rng.Fork(), gen)
		for k := 0; k < reps; k++ {
			o := c03Run(b)
			r.Count("shape", b.Shape)
			r.Count("build", o.realCls)
			if k == 0 {
				c03Cases(r, b, o)
			} else {
				fp, _ := json.Marshal(b.Files)
				r.AddEval(fmt.Sprintf("%s#%d", fp, k), o.realCls == ClsOk)
			}
			c03Oracles(r, b, o, gen)
		}
	}
	for i := 0; i < nLaw; i++ {
		b := c03GenBuild(rng.Fork(), gen)
		o := c03Run(b)
		r.Count("shape", b.Shape)
		r.Count("build", o.realCls)
		fp, _ := json.Marshal(b.Files)
		r.AddEval(string(fp), o.realCls == ClsOk && len(b.Edges) > 0)
		c03Oracles(r, b, o, gen)
	}
	return nil
}

func loadCorpus03() []*c03Build {
	out := []*c03Build{}
	data, err := os.ReadFile(verifRoot() + "/corpus/C03/builds.json")
	if err != nil {
		return out
	}
	_ = json.Unmarshal(data, &out)
	for _, b := range out {
		c03RestoreDocs(b)
	}
	return out
}

// c03RestoreDocs re-reads the documents of a build loaded from JSON (the corpus) from its files.
func c03RestoreDocs(b *c03Build) {
	for _, r := range b.Res {
		if r.Doc != nil || r.Generated || r.Layer < 0 || r.Layer >= len(b.Layers) {
			continue
		}
		txt, ok := b.Files[b.Layers[r.Layer].Dir+"/"+r.ID+".yaml"]
		if !ok {
			continue
		}
		var d map[string]interface{}
		if syaml.Unmarshal([]byte(txt), &d) == nil {
			r.Doc = d
		}
	}
}

func replayC03(path string) (bool, string, error) {
	data, err := os.ReadFile(path)
	if err != nil {
		return false, "", err
	}
	var rp struct {
		Case json.RawMessage `json:"case"`
	}
	if err := json.Unmarshal(data, &rp); err != nil {
		return false, "", err
	}
	raw := rp.Case
	// a correspondence case description wraps the build: {"kind":..., "build":...}
	var wrap struct {
		Kind  string          `json:"kind"`
		Build json.RawMessage `json:"build"`
		Syn   *c03Syn         `json:"syn"`
	}
	if json.Unmarshal(raw, &wrap) == nil && (wrap.Build != nil || wrap.Syn != nil) {
		if wrap.Syn != nil {
			// a synthetic resource map: run the transformer and evaluate the whole-transformer law on it
			rules, _ := krusty.VerifC03MergedDefaultRules()
			m, err := c03BuildSyn(*wrap.Syn)
			if err != nil {
				return false, "", err
			}
			before := m.DeepCopy()
			cls, msg := protect(func() error { return krusty.VerifC03FixBackReferences(m, rules) })
			y, _ := m.AsYaml()
			detail := fmt.Sprintf("class=%s msg=%q\n%s", cls, msg, y)
			if cls == ClsPanic {
				return true, detail + "\nLAW no_panic [C03/panic]", nil
			}
			if v := c03SynSelectionOracle(*wrap.Syn, before, m, cls); len(v) > 0 {
				return true, detail + "\nLAW unique_in_context [C03/context_selection]: " + strings.Join(v, "; "), nil
			}
			if cls == ClsOk {
				if v := c03ChainOracle(before, m); len(v) > 0 {
					return true, detail + "\nLAW no_retarget_chain [C03/no_retarget_chain]: " + strings.Join(v, "; "), nil
				}
			}
			return false, detail, nil
		}
		raw = wrap.Build
	}
	var b c03Build
	if err := json.Unmarshal(raw, &b); err != nil {
		return false, "", err
	}
	c03RestoreDocs(&b)
	rules, err := krusty.VerifC03MergedDefaultRules()
	if err != nil {
		return false, "", err
	}
	gen := rules
	if ref, err := c03LoadRefRules(); err == nil {
		gen = c03UnionRules(ref, rules)
	}
	// the build is run again and every oracle is evaluated on it: refs_follow / external_untouched /
	// no_retarget on the generated edges, staged_equals_real and the whole-transformer chain law
	r := NewRun("C03", "replay", 0, "", "")
	o := c03Run(&b)
	c03Oracles(r, &b, o, gen)
	detail := fmt.Sprintf("build class=%s msg=%q", o.realCls, o.realMsg)
	if o.real != nil {
		y, _ := o.real.AsYaml()
		detail += "\n" + string(y)
	}
	for k, v := range r.Meta.Distribution["edge"] {
		detail += fmt.Sprintf("\nedges %s: %d", k, v)
	}
	if len(r.Meta.Violations) > 0 {
		v := r.Meta.Violations[0]
		return true, detail + "\nLAW " + v.Law + " [" + v.Class + "]: " + v.Detail, nil
	}
	return false, detail, nil
}

var _ = types.FieldSpec{}
