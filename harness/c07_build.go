package main

// C07 part 2: the property's laws evaluated directly on krusty.Run for generated kustomization trees:
// every output document has kind and name; identities pairwise distinct; no internal annotation unless
// requested; the emitted YAML parses back to the same objects; a second build over the emitted text
// reproduces it byte for byte.

import (
	"bytes"
	"encoding/json"
	"fmt"
	"os"
	"path/filepath"
	"reflect"
	"sort"
	"strings"

	"sigs.k8s.io/kustomize/api/krusty"
	"sigs.k8s.io/kustomize/api/resmap"
	"sigs.k8s.io/kustomize/api/resource"
	"sigs.k8s.io/kustomize/api/types"
	"sigs.k8s.io/kustomize/kyaml/filesys"
	"sigs.k8s.io/yaml"
)

type tree07 struct {
	Files   map[string]string `json:"files"`
	Dir     string            `json:"dir"`
	Reorder string            `json:"reorder,omitempty"` // krusty.Options.Reorder: "" / "none" (library default), "legacy" (CLI default), "unspecified"
	// Exec: paths (among Files) of executable KRM-function scripts. A tree with scripts is built on the real file system
	// in a temporary directory with exec functions enabled (types.EnabledPluginConfig + FnpLoadingOptions.EnableExec).
	Exec []string `json:"exec,omitempty"`
	Note string   `json:"note,omitempty"`
}

// ---------- document generation ----------

type c07Kdoc struct {
	api, kind string
	body      func(g *c07Bgen, name string) string // YAML below metadata (top-level keys), may be ""
	clusterSc bool
}

type c07Bgen struct {
	rng      *Rng
	n        int
	forceTag bool // every resource name of the layer being generated carries the layer tag
}

// scalar values that stress the YAML emitter / parser round trip (always emitted double-quoted in the input)
var c07Scalars = []string{
	"v", "x y", "yes", "no", "on", "off", "true", "null", "~", "0777", "0o17", "1e3", "1_000", "0x1F", ".inf", "-.Inf", ".nan",
	"12:30:00", "2001-01-01", "2001-12-14t21:59:43.10-05:00", "1.0", "+1", "", " ", " lead", "trail ", "a: b", "a #b", "#c",
	"- x", "[a]", "{a: b}", "a,b", "*a", "&a", "!t", "|", ">", "%d", "@at", "`bt", "'q'", "\"dq\"", "back\\slash",
	"line1\nline2", "line1\nline2\n", "\nlead-nl", "tab\there", "trailing-nl\n\n", "ünï-çødé", "日本語", "emoji-✓",
	"---", "...", "--- x", "=", "<<", "y", "n", "Y", "N", "0", "007", "1.", ".5", "0.", "1e", "0b11", "1:2", "_1",
	strings.Repeat("long-", 30) + "end", strings.Repeat("w ", 60) + "end", "a b", "nul-like\\0", "cr\rhere", "a b", "é",
}

// unquoted scalars (resolved by the YAML parser: numbers in all notations, booleans, nulls, timestamps, tagged values,
// flow collections)
var c07RawScalars = []string{"1", "0", "-3", "1.5", "true", "null", "1e3", "0x10", "010", "1e400", "9223372036854775808",
	"18446744073709551616", "0o17", "1_000", "12:30:00", "2001-01-01", "2001-12-14t21:59:43.10-05:00", "~", "yes", "No", "on",
	"0x1F", "0b11", "+1", "1.", "1.0", "1.50", "-0", "0.0", "1E3", "1.5e+3", "077", "08", "Null", "TRUE", "!!str 5",
	"!!binary aGVsbG8=", "!!float 1", "'single'", "[1, 2]", "{a: 1}", "<<", "=", "1,000", "0x", "1e", "--", ".inf", ".nan", "1", "2", "3"}

// string values whose trailing newlines matter: emitted as keep-chomped block scalars (|+), they put blank lines
// right before the next "---" when they are the last scalar of a non-last output document, which is where the
// document splitter of kio.ByteReader has to give back the newline it consumed
var c07TrailNL = []string{"echo hello\n\n", "text\n\n\n", "text\n", "\n", "\n\n", "\n\n\n", "a\nb\n\n", "x\n\n",
	"two\nlines\n\n\n", " \n\n", "ends: colon\n\n", "#hash\n\n"}

func (g *c07Bgen) trailNL() string { return g.rng.Pick(c07TrailNL) }

func (g *c07Bgen) scalar() string {
	if g.rng.Chance(8) {
		return g.trailNL()
	}
	if g.rng.Chance(45) {
		return g.rng.Pick([]string{"v", "a", "b", "hello", "1", "x"})
	}
	return g.rng.Pick(c07Scalars)
}

func c07Yq(s string) string { // a YAML double-quoted scalar (JSON string syntax is valid YAML)
	b, _ := json.Marshal(s)
	return string(b)
}

func (g *c07Bgen) dataBlock(key string) string {
	n := 1 + g.rng.Intn(3)
	var b strings.Builder
	b.WriteString(key + ":\n")
	used := map[string]bool{}
	for i := 0; i < n; i++ {
		k := g.rng.Pick([]string{"k1", "k2", "conf.yaml", "A_B", "z", "on", "1"})
		if used[k] {
			continue
		}
		used[k] = true
		fmt.Fprintf(&b, "  %s: %s\n", c07Yq(k), c07Yq(g.scalar()))
	}
	return b.String()
}

func c07PodSpec(g *c07Bgen, indent string) string {
	img := g.rng.Pick([]string{"nginx", "nginx:1.2", "busybox@sha256:abc", "reg.io:5000/app:v1"})
	s := indent + "containers:\n" + indent + "- name: c\n" + indent + "  image: " + img + "\n"
	if g.rng.Chance(30) {
		s += indent + "  env:\n" + indent + "  - name: E\n" + indent + "    value: " + c07Yq(g.scalar()) + "\n"
	}
	if g.rng.Chance(25) {
		s += indent + "  envFrom:\n" + indent + "  - configMapRef:\n" + indent + "      name: " + g.rng.Pick([]string{"cm1", "gcm"}) + "\n"
	}
	if g.rng.Chance(20) {
		s += indent + "volumes:\n" + indent + "- name: v\n" + indent + "  configMap:\n" + indent + "    name: " + g.rng.Pick([]string{"cm1", "gcm"}) + "\n"
	}
	return s
}

func c07Workload(g *c07Bgen, name string) string {
	r := ""
	if g.rng.Chance(60) {
		r = fmt.Sprintf("  replicas: %d\n", 1+g.rng.Intn(3))
	}
	return "spec:\n" + r + "  selector:\n    matchLabels:\n      app: " + name + "\n  template:\n    metadata:\n      labels:\n        app: " + name +
		"\n    spec:\n" + c07PodSpec(g, "      ")
}

// lastScalarBlock: a mapping under key whose alphabetically last entry carries a value with trailing newlines
func (g *c07Bgen) lastScalarBlock(key string) string {
	var b strings.Builder
	b.WriteString(key + ":\n")
	if g.rng.Chance(60) {
		fmt.Fprintf(&b, "  a: %s\n", c07Yq(g.scalar()))
	}
	v := g.trailNL()
	if g.rng.Chance(15) {
		v = g.scalar()
	}
	fmt.Fprintf(&b, "  zz-last: %s\n", c07Yq(v))
	return b.String()
}

var c07DocKinds = []c07Kdoc{
	// Secret without `type`: stringData is the last top-level key of the emitted document, and Secrets sort early
	{"v1", "Secret", func(g *c07Bgen, n string) string { return g.lastScalarBlock("stringData") }, false},
	{"v1", "Secret", func(g *c07Bgen, n string) string { return g.lastScalarBlock("stringData") }, false},
	// custom kind: spec is the last top-level key
	{"example.com/v1", "Widget", func(g *c07Bgen, n string) string { return g.lastScalarBlock("spec") }, false},
	// ServiceAccount-like early-sorting kind with a free-form last key
	{"v1", "ServiceAccount", func(g *c07Bgen, n string) string { return g.lastScalarBlock("zextra") }, false},
	{"v1", "ConfigMap", func(g *c07Bgen, n string) string { return g.dataBlock("data") }, false},
	{"v1", "ConfigMap", func(g *c07Bgen, n string) string { return g.dataBlock("data") }, false},
	{"v1", "Secret", func(g *c07Bgen, n string) string { return "type: Opaque\n" + g.dataBlock("stringData") }, false},
	{"apps/v1", "Deployment", c07Workload, false},
	{"apps/v1", "Deployment", c07Workload, false},
	{"apps/v1", "StatefulSet", func(g *c07Bgen, n string) string { return c07Workload(g, n) + "  serviceName: " + n + "\n" }, false},
	{"apps/v1", "DaemonSet", c07Workload, false},
	{"v1", "Service", func(g *c07Bgen, n string) string {
		return "spec:\n  selector:\n    app: " + n + "\n  ports:\n  - port: 80\n    targetPort: 8080\n"
	}, false},
	{"v1", "ServiceAccount", func(g *c07Bgen, n string) string { return "" }, false},
	{"v1", "Namespace", func(g *c07Bgen, n string) string { return "" }, true},
	{"rbac.authorization.k8s.io/v1", "Role", func(g *c07Bgen, n string) string {
		return "rules:\n- apiGroups: [\"\"]\n  resources: [\"configmaps\"]\n  verbs: [\"get\"]\n"
	}, false},
	{"rbac.authorization.k8s.io/v1", "ClusterRole", func(g *c07Bgen, n string) string {
		return "rules:\n- apiGroups: [\"\"]\n  resources: [\"pods\"]\n  verbs: [\"list\"]\n"
	}, true},
	{"rbac.authorization.k8s.io/v1", "RoleBinding", func(g *c07Bgen, n string) string {
		return "roleRef:\n  apiGroup: rbac.authorization.k8s.io\n  kind: Role\n  name: role1\nsubjects:\n- kind: ServiceAccount\n  name: sa1\n  namespace: " +
			g.rng.Pick([]string{"default", "ns1"}) + "\n"
	}, false},
	{"rbac.authorization.k8s.io/v1", "ClusterRoleBinding", func(g *c07Bgen, n string) string {
		return "roleRef:\n  apiGroup: rbac.authorization.k8s.io\n  kind: ClusterRole\n  name: cr1\nsubjects:\n- kind: ServiceAccount\n  name: sa1\n  namespace: default\n"
	}, true},
	{"batch/v1", "Job", func(g *c07Bgen, n string) string {
		return "spec:\n  template:\n    spec:\n      restartPolicy: Never\n" + c07PodSpec(g, "      ")
	}, false},
	{"batch/v1", "CronJob", func(g *c07Bgen, n string) string {
		return "spec:\n  schedule: \"*/5 * * * *\"\n  jobTemplate:\n    spec:\n      template:\n        spec:\n          restartPolicy: Never\n" + c07PodSpec(g, "          ")
	}, false},
	{"networking.k8s.io/v1", "Ingress", func(g *c07Bgen, n string) string {
		return "spec:\n  rules:\n  - host: a.example.com\n    http:\n      paths:\n      - path: /\n        pathType: Prefix\n        backend:\n          service:\n            name: svc1\n            port:\n              number: 80\n"
	}, false},
	{"v1", "PersistentVolumeClaim", func(g *c07Bgen, n string) string {
		return "spec:\n  accessModes: [ReadWriteOnce]\n  resources:\n    requests:\n      storage: 1Gi\n"
	}, false},
	{"autoscaling/v2", "HorizontalPodAutoscaler", func(g *c07Bgen, n string) string {
		return "spec:\n  minReplicas: 1\n  maxReplicas: 3\n  scaleTargetRef:\n    apiVersion: apps/v1\n    kind: Deployment\n    name: dep1\n"
	}, false},
	{"policy/v1", "PodDisruptionBudget", func(g *c07Bgen, n string) string {
		return "spec:\n  minAvailable: 1\n  selector:\n    matchLabels:\n      app: " + n + "\n"
	}, false},
	{"storage.k8s.io/v1", "StorageClass", func(g *c07Bgen, n string) string { return "provisioner: example.com/p\n" }, true},
	{"example.com/v1", "Widget", func(g *c07Bgen, n string) string {
		return "spec:\n  size: " + c07Yq(g.scalar()) + "\n  count: " + g.rng.Pick(c07RawScalars) + "\n"
	}, false},
	{"example.com/v1", "Widget", func(g *c07Bgen, n string) string {
		return "spec:\n  items:\n  - " + c07Yq(g.scalar()) + "\n  - " + c07Yq(g.scalar()) + "\n  nested:\n    deep:\n      value: " + c07Yq(g.scalar()) + "\n  emptyMap: {}\n  emptyList: []\n"
	}, false},
	{"admissionregistration.k8s.io/v1", "ValidatingWebhookConfiguration", func(g *c07Bgen, n string) string { return "webhooks: []\n" }, true},
}

// names per kind prefix so that references (cm1, sa1, role1, svc1, dep1) resolve
func c07ShortKind(k string) string {
	switch k {
	case "ConfigMap":
		return "cm"
	case "Secret":
		return "sec"
	case "Deployment":
		return "dep"
	case "Service":
		return "svc"
	case "ServiceAccount":
		return "sa"
	case "Role":
		return "role"
	case "ClusterRole":
		return "cr"
	case "Namespace":
		return "ns"
	}
	return strings.ToLower(k[:3])
}

type c07DocInfo struct {
	api, kind, name, ns string
}

func (g *c07Bgen) doc(layerTag string, used map[string]bool) (string, *c07DocInfo) {
	k := c07DocKinds[g.rng.Intn(len(c07DocKinds))]
	name := fmt.Sprintf("%s%d", c07ShortKind(k.kind), 1+g.rng.Intn(2))
	if g.forceTag || g.rng.Chance(25) {
		name += layerTag
	}
	ns := ""
	if !k.clusterSc && g.rng.Chance(30) {
		ns = g.rng.Pick([]string{"ns1", "default", "ns2"})
	}
	key := k.api + "|" + k.kind + "|" + name + "|" + ns
	if used[key] && !g.rng.Chance(4) { // rarely keep a duplicate: the build must then fail
		return "", nil
	}
	used[key] = true
	var b strings.Builder
	fmt.Fprintf(&b, "apiVersion: %s\nkind: %s\nmetadata:\n  name: %s\n", k.api, k.kind, name)
	if ns != "" {
		fmt.Fprintf(&b, "  namespace: %s\n", ns)
	}
	if g.rng.Chance(30) {
		b.WriteString("  labels:\n")
		fmt.Fprintf(&b, "    tier: %s\n", c07Yq(g.rng.Pick([]string{"web", "db", "yes", "1", "true", "a.b-c_d"})))
	}
	if g.rng.Chance(35) {
		b.WriteString("  annotations:\n")
		nA := 1 + g.rng.Intn(2)
		usedA := map[string]bool{}
		for i := 0; i < nA; i++ {
			ak := g.rng.Pick([]string{"note", "example.com/owner", "desc", "config.kubernetes.io/local-config",
				"internal.config.kubernetes.io/path", "config.kubernetes.io/index", "config.kubernetes.io/origin", "kubectl.kubernetes.io/last-applied-configuration"})
			if usedA[ak] {
				continue
			}
			usedA[ak] = true
			av := g.scalar()
			switch ak {
			case "config.kubernetes.io/local-config":
				av = g.rng.Pick([]string{"true", "false", "true"})
			case "config.kubernetes.io/origin":
				av = "path: somewhere.yaml\n"
			}
			fmt.Fprintf(&b, "    %s: %s\n", ak, c07Yq(av))
		}
	}
	b.WriteString(k.body(g, name))
	return b.String(), &c07DocInfo{k.api, k.kind, name, ns}
}

// ---------- kustomization generation ----------

type layer07 struct {
	dir   string
	docs  []*c07DocInfo // resources defined in this layer's own files
	gens  []string      // names of configMapGenerator entries
	sgens []string
}

func (g *c07Bgen) layer(t *tree07, dir, tag string, bases []*layer07, top bool) *layer07 {
	l := &layer07{dir: dir}
	var k strings.Builder
	k.WriteString("apiVersion: kustomize.config.k8s.io/v1beta1\nkind: Kustomization\n")
	res := []string{}
	for _, b := range bases {
		res = append(res, "../"+strings.TrimPrefix(b.dir, "/"))
	}
	used := map[string]bool{}
	nFiles := g.rng.Intn(3)
	if len(bases) == 0 {
		nFiles = 1 + g.rng.Intn(3)
	}
	for f := 0; f < nFiles; f++ {
		fname := fmt.Sprintf("r%d.yaml", f)
		var fb strings.Builder
		nd := 1 + g.rng.Intn(3)
		first := true
		for d := 0; d < nd; d++ {
			txt, info := g.doc(tag, used)
			if info == nil {
				continue
			}
			if !first {
				fb.WriteString("---\n")
			}
			first = false
			fb.WriteString(txt)
			l.docs = append(l.docs, info)
		}
		switch g.rng.Intn(14) {
		case 0:
			fb.WriteString("---\n---\n") // empty documents
		case 1:
			// a List with items: inlined by the loader
			fmt.Fprintf(&fb, "---\napiVersion: v1\nkind: ConfigMapList\nitems:\n- apiVersion: v1\n  kind: ConfigMap\n  metadata:\n    name: li%s%d\n  data:\n    a: %s\n", tag, f, c07Yq(g.scalar()))
		case 2:
			// a nameless List kind without items: passes validation (name not required) and is emitted as is
			fmt.Fprintf(&fb, "---\napiVersion: example.com/v1\nkind: WidgetList\nmetadata:\n  labels:\n    l: %s%d\n", tag, f)
		}
		if fb.Len() == 0 {
			continue
		}
		t.Files[dir+"/"+fname] = fb.String()
		res = append(res, fname)
	}
	if len(res) > 0 {
		k.WriteString("resources:\n")
		for _, r := range res {
			k.WriteString("- " + r + "\n")
		}
	}
	if g.rng.Chance(35) {
		k.WriteString("namePrefix: " + c07Yq(g.rng.Pick([]string{"p-", tag + "-", "x"})) + "\n")
	}
	if g.rng.Chance(25) {
		k.WriteString("nameSuffix: " + c07Yq(g.rng.Pick([]string{"-s", "-" + tag, "y"})) + "\n")
	}
	if g.rng.Chance(30) {
		k.WriteString("namespace: " + g.rng.Pick([]string{"ns1", "prod", "default"}) + "\n")
	}
	if g.rng.Chance(35) {
		k.WriteString("labels:\n- pairs:\n    team: " + c07Yq(g.rng.Pick([]string{"a", "true", "yes", "1"})) + "\n  includeSelectors: " + g.rng.Pick([]string{"true", "false"}) +
			"\n  includeTemplates: " + g.rng.Pick([]string{"true", "false"}) + "\n")
	}
	if g.rng.Chance(25) {
		k.WriteString("commonAnnotations:\n  ca: " + c07Yq(g.scalar()) + "\n")
	}
	// generators
	ng := g.rng.Intn(3)
	if ng > 0 {
		k.WriteString("configMapGenerator:\n")
		usedG := map[string]bool{}
		for i := 0; i < ng; i++ {
			name := g.rng.Pick([]string{"gcm", "gcm2", "gcm" + tag})
			beh := ""
			for _, b := range bases {
				for _, bn := range b.gens {
					if bn == name {
						if g.rng.Chance(92) {
							beh = g.rng.Pick([]string{"merge", "replace"})
						}
					}
				}
			}
			if usedG[name] {
				continue
			}
			usedG[name] = true
			fmt.Fprintf(&k, "- name: %s\n  literals:\n  - a=%s\n  - %s=b\n", name, strings.ReplaceAll(g.rng.Pick([]string{"1", "x y", "yes", "tag-" + tag}), "\n", ""), g.rng.Pick([]string{"k", "K2"}))
			if beh != "" {
				k.WriteString("  behavior: " + beh + "\n")
			}
			if g.rng.Chance(25) {
				k.WriteString("  options:\n    disableNameSuffixHash: true\n")
			}
			if beh == "" && g.rng.Chance(15) {
				k.WriteString("  namespace: ns1\n")
			}
			l.gens = append(l.gens, name)
		}
	}
	baseHasSec := false
	for _, b := range bases {
		if len(b.sgens) > 0 {
			baseHasSec = true
		}
	}
	if g.rng.Chance(25) && (!baseHasSec || g.rng.Chance(8)) {
		k.WriteString("secretGenerator:\n- name: gsec\n  literals:\n  - pw=" + g.rng.Pick([]string{"s3cr3t", "a b", "123"}) + "\n")
		if g.rng.Chance(30) {
			k.WriteString("  type: Opaque\n")
		}
		l.sgens = append(l.sgens, "gsec")
	}
	if g.rng.Chance(15) {
		k.WriteString("generatorOptions:\n  labels:\n    gen: \"yes\"\n")
		if g.rng.Chance(40) {
			k.WriteString("  disableNameSuffixHash: true\n")
		}
	}
	// everything this layer can see (own docs and the docs of its bases), for targeting
	visible := append([]*c07DocInfo{}, l.docs...)
	for _, b := range bases {
		visible = append(visible, b.docs...)
	}
	// patches that do not rewrite identity
	if len(visible) > 0 && g.rng.Chance(45) {
		k.WriteString("patches:\n")
		np := 1 + g.rng.Intn(2)
		for i := 0; i < np; i++ {
			tg := visible[g.rng.Intn(len(visible))]
			if g.rng.Chance(60) {
				// strategic merge patch, inline, by kind+name target
				fmt.Fprintf(&k, "- target:\n    kind: %s\n    name: %s\n  patch: |-\n    apiVersion: %s\n    kind: %s\n    metadata:\n      name: ignored\n      labels:\n        patched: %s\n",
					tg.kind, tg.name, tg.api, tg.kind, c07Yq(g.rng.Pick([]string{"yes", "1", "p"})))
			} else {
				fmt.Fprintf(&k, "- target:\n    kind: %s\n  patch: |-\n    - op: add\n      path: /metadata/annotations\n      value:\n        jp: %s\n",
					tg.kind, c07Yq(g.scalar()))
			}
		}
	}
	if g.rng.Chance(25) {
		k.WriteString("images:\n- name: nginx\n  newTag: " + c07Yq(g.rng.Pick([]string{"1.21", "latest", "1e3", "007"})) + "\n")
	}
	hasDep1 := false
	for _, d := range visible {
		if d.kind == "Deployment" && d.name == "dep1" {
			hasDep1 = true
		}
	}
	if hasDep1 && g.rng.Chance(40) {
		k.WriteString("replicas:\n- name: dep1\n  count: 5\n")
	}
	if top {
		bm := []string{}
		if g.rng.Chance(20) {
			bm = append(bm, "originAnnotations")
		}
		if g.rng.Chance(15) {
			bm = append(bm, "transformerAnnotations")
		}
		if g.rng.Chance(15) {
			bm = append(bm, "managedByLabel")
		}
		if len(bm) > 0 {
			k.WriteString("buildMetadata: [" + strings.Join(bm, ", ") + "]\n")
		}
		switch g.rng.Intn(5) {
		case 0, 1:
			k.WriteString("sortOptions:\n  order: fifo\n")
		case 2:
			k.WriteString("sortOptions:\n  order: legacy\n")
		}
	}
	t.Files[dir+"/kustomization.yaml"] = k.String()
	// what upper layers may aim at
	for _, b := range bases {
		l.docs = append(l.docs, b.docs...)
		l.gens = append(l.gens, b.gens...)
		l.sgens = append(l.sgens, b.sgens...)
	}
	return l
}

func genTree07(rng *Rng) tree07 {
	g := &c07Bgen{rng: rng}
	t := tree07{Files: map[string]string{}}
	switch rng.Intn(4) {
	case 0:
		g.layer(&t, "/top", "t", nil, true)
	case 1:
		b := g.layer(&t, "/base", "b", nil, false)
		g.layer(&t, "/top", "t", []*layer07{b}, true)
	case 2:
		b := g.layer(&t, "/base", "b", nil, false)
		m := g.layer(&t, "/mid", "m", []*layer07{b}, false)
		g.layer(&t, "/top", "t", []*layer07{m}, true)
	default:
		b1 := g.layer(&t, "/base", "b", nil, false)
		g.forceTag = true
		b2 := g.layer(&t, "/base2", "c", nil, false)
		// the two bases must not both generate the same ConfigMap/Secret
		dup := false
		for _, x := range b1.gens {
			for _, y := range b2.gens {
				if x == y {
					dup = true
				}
			}
		}
		if dup || (len(b1.sgens) > 0 && len(b2.sgens) > 0) {
			delete(t.Files, "/base2/kustomization.yaml")
			g.forceTag = true
			b2 = &layer07{dir: "/base2"}
			t.Files["/base2/kustomization.yaml"] = "resources:\n- only.yaml\n"
			t.Files["/base2/only.yaml"] = "apiVersion: v1\nkind: ConfigMap\nmetadata:\n  name: onlyc\ndata:\n  a: b\n"
			b2.docs = []*c07DocInfo{{"v1", "ConfigMap", "onlyc", ""}}
		}
		g.forceTag = false
		g.layer(&t, "/top", "t", []*layer07{b1, b2}, true)
	}
	t.Dir = "/top"
	t.Reorder = rng.Pick([]string{"none", "none", "legacy", "legacy", "unspecified"})
	return t
}

// ---------- running a build ----------

// c07RunKrustyExec builds a tree that contains exec KRM functions: real files under a temporary directory.
func c07RunKrustyExec(t tree07) (m resmap.ResMap, cls string, msg string) {
	root, err := os.MkdirTemp("", "c07exec")
	if err != nil {
		return nil, ClsErr, "harness: " + err.Error()
	}
	defer os.RemoveAll(root)
	if r, e := filepath.EvalSymlinks(root); e == nil {
		root = r
	}
	for p, c := range t.Files {
		full := filepath.Join(root, p)
		if err := os.MkdirAll(filepath.Dir(full), 0o755); err != nil {
			return nil, ClsErr, "harness: " + err.Error()
		}
		mode := os.FileMode(0o644)
		if c07StrIn(p, t.Exec) {
			mode = 0o755
		}
		if err := os.WriteFile(full, []byte(c), mode); err != nil {
			return nil, ClsErr, "harness: " + err.Error()
		}
	}
	cls, msg = protect(func() error {
		o := c07Options(t.Reorder)
		o.PluginConfig = types.EnabledPluginConfig(types.BploUseStaticallyLinked)
		o.PluginConfig.FnpLoadingOptions.EnableExec = true
		var e error
		m, e = krusty.MakeKustomizer(o).Run(filesys.MakeFsOnDisk(), filepath.Join(root, t.Dir))
		return e
	})
	return m, cls, msg
}

func c07RunKrusty(files map[string]string, dir string, reorder string) (m resmap.ResMap, cls string, msg string) {
	fs := filesys.MakeFsInMemory()
	for p, c := range files {
		if err := fs.WriteFile(p, []byte(c)); err != nil {
			return nil, ClsErr, "harness: " + err.Error()
		}
	}
	cls, msg = protect(func() error {
		var err error
		o := krusty.MakeDefaultOptions() // Reorder: none
		switch reorder {
		case "legacy":
			o.Reorder = krusty.ReorderOptionLegacy
		case "unspecified":
			o.Reorder = krusty.ReorderOptionUnspecified
		}
		m, err = krusty.MakeKustomizer(o).Run(fs, dir)
		return err
	})
	return m, cls, msg
}

type c07KustMeta struct {
	BuildMetadata []string `json:"buildMetadata"`
	SortOptions   *struct {
		Order string `json:"order"`
	} `json:"sortOptions"`
}

func c07TopMeta(t tree07) c07KustMeta {
	var km c07KustMeta
	_ = yaml.Unmarshal([]byte(t.Files[t.Dir+"/kustomization.yaml"]), &km)
	return km
}

func c07CanonJSON(b []byte) (interface{}, error) {
	var v interface{}
	d := json.NewDecoder(bytes.NewReader(b))
	d.UseNumber()
	if err := d.Decode(&v); err != nil {
		return nil, err
	}
	return v, nil
}

// c07SplitDocs splits the stream written by ResMap.AsYaml at its "---\n" separator lines.
func c07SplitDocs(b []byte) []string {
	if len(b) == 0 {
		return nil
	}
	var docs []string
	var cur strings.Builder
	for _, line := range strings.SplitAfter(string(b), "\n") {
		if line == "---\n" {
			docs = append(docs, cur.String())
			cur.Reset()
			continue
		}
		cur.WriteString(line)
	}
	docs = append(docs, cur.String())
	return docs
}

func c07IsLocalCfg(r *resource.Resource) bool {
	v, ok := r.GetAnnotations()[c07LocalCfg]
	return ok && v != "false"
}

// checkBuild07 runs the build and evaluates every law; returns a description (for replay).
func checkBuild07(r *Run, t tree07, verbose bool) string {
	var log strings.Builder
	report := func(law, cls, detail string) {
		r.Violation(OracleViolation{Law: law, Class: cls, Detail: detail, Replay: t})
		fmt.Fprintf(&log, "LAW %s [%s]: %s\n", law, cls, detail)
	}
	var m resmap.ResMap
	var cls, msg string
	if len(t.Exec) > 0 {
		m, cls, msg = c07RunKrustyExec(t)
		r.Count("exec_class", cls+" "+c07FirstLine(msg))
	} else {
		m, cls, msg = c07RunKrusty(t.Files, t.Dir, t.Reorder)
	}
	r.Count("build_class", cls)
	fmt.Fprintf(&log, "build: %s %s\n", cls, msg)
	if cls != ClsOk {
		if cls == ClsPanic {
			r.Count("build_panic", c07FirstLine(msg))
		} else {
			r.Count("build_err", c07ErrKind(msg))
		}
		r.AddEval(fmt.Sprint(t.Files), false)
		return log.String()
	}
	km := c07TopMeta(t)
	// effective order: the kustomization's sortOptions win over the option; without either nothing is sorted
	fifo := true
	if km.SortOptions != nil {
		fifo = km.SortOptions.Order != "legacy"
	} else if t.Reorder == "legacy" || t.Reorder == "unspecified" {
		fifo = false
	}
	wantOrigin, wantTransf := c07StrIn("originAnnotations", km.BuildMetadata), c07StrIn("transformerAnnotations", km.BuildMetadata)
	rs := m.Resources()
	r.Count("out_docs", c07Bucket(len(rs)))
	r.Count("order", map[bool]string{true: "fifo", false: "legacy"}[fifo])
	r.Count("buildMetadata", strings.Join(km.BuildMetadata, "+"))
	out, err := m.AsYaml()
	if err != nil {
		// nothing is emitted (e.g. an unquoted .inf / .nan cannot be marshalled): the build fails at emission,
		// which is an error outcome, not a malformed output
		ek := err.Error()
		if i := strings.LastIndex(ek, "json: "); i >= 0 {
			ek = ek[i:]
		}
		r.Count("emit_error", c07FirstLine(ek))
		fmt.Fprintf(&log, "emission failed: %s\n", c07FirstLine(err.Error()))
		r.AddEval(fmt.Sprint(t.Files), false)
		return log.String()
	}
	if verbose {
		fmt.Fprintf(&log, "output:\n%s\n", out)
	}
	r.AddEval(string(out), len(rs) > 0)
	// --- O1 well-formed
	for i, x := range rs {
		if x.GetKind() == "" {
			report("wellformed", "C07/wellformed/no-kind", fmt.Sprintf("output document %d has no kind", i))
		}
		if x.GetName() == "" {
			if strings.HasSuffix(x.GetKind(), "List") {
				report("wellformed", "C07/wellformed/list-kind-without-name", fmt.Sprintf("output document %d (kind %s) has no metadata.name", i, x.GetKind()))
			} else {
				report("wellformed", "C07/wellformed/no-name", fmt.Sprintf("output document %d (kind %s) has no metadata.name", i, x.GetKind()))
			}
		}
	}
	// --- O2 identities pairwise distinct
	dupLocal := false
	for i := range rs {
		for j := i + 1; j < len(rs); j++ {
			a, b := rs[i], rs[j]
			sameRaw := a.GetApiVersion() == b.GetApiVersion() && a.GetKind() == b.GetKind() && a.GetName() == b.GetName() && a.GetNamespace() == b.GetNamespace()
			if sameRaw || a.CurId().Equals(b.CurId()) {
				if fifo && (c07IsLocalCfg(a) || c07IsLocalCfg(b)) {
					dupLocal = true
					report("ids_unique", "C07/ids_unique/unsorted-localconfig-hash-collision",
						fmt.Sprintf("documents %d and %d share the id %s (one of them is marked local-config; the output is not re-sorted)", i, j, a.CurId()))
				} else {
					report("ids_unique", "C07/ids_unique/output-duplicate", fmt.Sprintf("documents %d and %d share the id %s", i, j, a.CurId()))
				}
			}
		}
	}
	// --- O3 hygiene
	bm := []string{}
	if wantOrigin {
		bm = append(bm, "originAnnotations")
	}
	if wantTransf {
		bm = append(bm, "transformerAnnotations")
	}
	for i, x := range rs {
		if bad := c07InternalKeysPresent(x.GetAnnotations(), bm); len(bad) > 0 {
			report("hygiene", "C07/hygiene/output", fmt.Sprintf("output document %d carries internal annotations %v (buildMetadata %v)", i, bad, km.BuildMetadata))
		}
		for k := range x.GetAnnotations() {
			if strings.HasPrefix(k, c07InternalPx) {
				report("hygiene", "C07/hygiene/output-internal-prefix", fmt.Sprintf("output document %d carries %s", i, k))
			}
			// the exec / KRM-function plugin protocol keys (plugins/utils: idAnnotation, HashAnnotation, BehaviorAnnotation)
			// are written for the plugin and must be taken off what it returns
			if strings.HasPrefix(k, "kustomize.config.k8s.io/") {
				report("hygiene", "C07/hygiene/output-plugin-protocol-key", fmt.Sprintf("output document %d carries %s", i, k))
			}
		}
	}
	// --- O4 the emitted YAML parses back to the same objects
	docs := c07SplitDocs(out)
	if len(docs) != len(rs) {
		report("reparse", "C07/reparse/doc-count", fmt.Sprintf("%d resources but the stream splits into %d documents", len(rs), len(docs)))
	} else {
		for i, x := range rs {
			want, err1 := x.MarshalJSON()
			got, err2 := yaml.YAMLToJSON([]byte(docs[i]))
			if err1 != nil || err2 != nil {
				report("reparse", "C07/reparse/error", fmt.Sprintf("document %d: marshal error %v / parse error %v", i, err1, err2))
				continue
			}
			a, e1 := c07CanonJSON(want)
			b, e2 := c07CanonJSON(got)
			if e1 != nil || e2 != nil || !reflect.DeepEqual(a, b) {
				report("reparse", "C07/reparse/differs", fmt.Sprintf("document %d parses back to a different object:\n object: %s\n parsed: %s", i, want, got))
			}
		}
	}
	// --- O4b the same through kustomize's own reader (kio.ByteReader via the resmap factory): the stream is split at
	// the "---" lines and every document must come back as the object that was emitted
	if len(rs) > 0 {
		var back resmap.ResMap
		clsB, msgB := protect(func() error {
			var e error
			back, e = c07RmF.NewResMapFromBytes(out)
			return e
		})
		if clsB != ClsOk {
			if !dupLocal {
				report("reparse", "C07/reparse/reader-"+strings.ToLower(strings.TrimPrefix(clsB, "C")), "reading the emitted stream back failed: "+c07FirstLine(msgB))
			}
		} else if back.Size() != len(rs) {
			report("reparse", "C07/reparse/reader-doc-count", fmt.Sprintf("%d resources emitted, %d read back", len(rs), back.Size()))
		} else {
			for i, x := range rs {
				want, err1 := x.MarshalJSON()
				got, err2 := back.Resources()[i].MarshalJSON()
				a, e1 := c07CanonJSON(want)
				b, e2 := c07CanonJSON(got)
				if err1 != nil || err2 != nil || e1 != nil || e2 != nil || !reflect.DeepEqual(a, b) {
					report("reparse", "C07/reparse/reader-differs", fmt.Sprintf("document %d read back by the kustomize reader is a different object:\n emitted: %s\n read:    %s", i, want, got))
				}
			}
		}
	}
	// --- O5 second build over the emitted text (domain: no origin/transformer annotations requested, >=1 document)
	if !wantOrigin && !wantTransf && len(rs) > 0 {
		// an unsorted output is rebuilt unsorted; a legacy-sorted output must come back the same sorted (sorting a
		// sorted list) and unsorted (the order is already in the text)
		variants := []string{"fifo", "option-none"}
		if !fifo {
			variants = []string{"legacy", "option-legacy", "fifo", "option-none"}
		}
		for _, v := range variants {
			k2 := "resources:\n- out.yaml\n"
			reorder2 := "none"
			switch v {
			case "legacy":
				k2 += "sortOptions:\n  order: legacy\n"
			case "fifo":
				k2 += "sortOptions:\n  order: fifo\n"
			case "option-legacy":
				reorder2 = "legacy"
			}
			m2, cls2, msg2 := c07RunKrusty(map[string]string{"/again/kustomization.yaml": k2, "/again/out.yaml": string(out)}, "/again", reorder2)
			r.Count("second_build", v+"/"+cls2)
			if cls2 != ClsOk {
				if dupLocal {
					report("fixpoint", "C07/ids_unique/unsorted-localconfig-hash-collision", "second build of an output with a duplicated id fails: "+c07FirstLine(msg2))
				} else {
					report("fixpoint", "C07/fixpoint/second-build-"+strings.ToLower(strings.TrimPrefix(cls2, "C")), fmt.Sprintf("second build (%s) failed: %s", v, c07FirstLine(msg2)))
				}
				continue
			}
			out2, err := m2.AsYaml()
			if err != nil || !bytes.Equal(out, out2) {
				cls := "C07/fixpoint/second-build-differs"
				if dupLocal {
					cls = "C07/ids_unique/unsorted-localconfig-hash-collision"
				}
				report("fixpoint", cls, fmt.Sprintf("second build (%s) is not byte-identical:\n%s", v, c07FirstDiff(out, out2)))
			}
		}
	}
	return log.String()
}

func c07FirstLine(s string) string {
	if i := strings.IndexByte(s, '\n'); i >= 0 {
		s = s[:i]
	}
	if len(s) > 160 {
		s = s[:160]
	}
	return s
}

func c07ErrKind(msg string) string {
	for _, k := range []string{"already registered id", "no matches for Id", "multiple matches", "does not exist; cannot merge or replace",
		"behavior must be merge or replace", "ID conflict", "failed to find unique target", "no resource matches strategic merge patch",
		"unable to find", "missing metadata.name", "missing kind", "found multiple objects", "add operation does not apply", "conflict"} {
		if strings.Contains(msg, k) {
			return k
		}
	}
	return c07FirstLine(msg)
}

func c07Bucket(n int) string {
	switch {
	case n == 0:
		return "0"
	case n <= 2:
		return "1-2"
	case n <= 5:
		return "3-5"
	case n <= 10:
		return "6-10"
	}
	return ">10"
}

func c07FirstDiff(a, b []byte) string {
	la, lb := strings.Split(string(a), "\n"), strings.Split(string(b), "\n")
	for i := 0; i < len(la) || i < len(lb); i++ {
		x, y := "<eof>", "<eof>"
		if i < len(la) {
			x = la[i]
		}
		if i < len(lb) {
			y = lb[i]
		}
		if x != y {
			return fmt.Sprintf("line %d: first %q, second %q", i+1, x, y)
		}
	}
	return "no difference found"
}

// ---------- the tail of a real build against the model's finalize ----------

func c07Options(reorder string) *krusty.Options {
	o := krusty.MakeDefaultOptions() // Reorder: none
	switch reorder {
	case "legacy":
		o.Reorder = krusty.ReorderOptionLegacy
	case "unspecified":
		o.Reorder = krusty.ReorderOptionUnspecified
	}
	return o
}

// finalCase07 observes the accumulated map of the tree through the hook, runs the real build and emits a CFinal case.
// Domain: origin / transformer annotations not requested (the hook cannot switch origin tracking on), and a build
// that either succeeds or fails in one of the steps finalize models.
func finalCase07(r *Run, t tree07) {
	km := c07TopMeta(t)
	if c07StrIn("originAnnotations", km.BuildMetadata) || c07StrIn("transformerAnnotations", km.BuildMetadata) {
		return
	}
	fs := filesys.MakeFsInMemory()
	for p, c := range t.Files {
		if err := fs.WriteFile(p, []byte(c)); err != nil {
			return
		}
	}
	var acc resmap.ResMap
	cls0, _ := protect(func() error {
		var err error
		acc, err = krusty.VerifC07Accumulate(c07Options(t.Reorder), fs, t.Dir)
		return err
	})
	if cls0 != ClsOk {
		return
	}
	st := c07Observe(acc)
	var hashTab []string
	for i, res := range acc.Resources() {
		st[i].tag = fmt.Sprintf("r%d", i)
		if res.IsNilOrEmpty() {
			continue
		}
		if h, err := res.Hash(c07Factory.Hasher()); err == nil {
			hashTab = append(hashTab, fmt.Sprintf("(%s, %s)", coqStr(st[i].tag), coqStr(h)))
		}
	}
	m, cls, msg := c07RunKrusty(t.Files, t.Dir, t.Reorder)
	switch cls {
	case ClsErr:
		known := false
		for _, k := range []string{"missing metadata.name", "missing kind", "not found in removal", "SortOrderTransformer: Failed to append",
			"name hash suffix produces ID conflict", "already registered id"} {
			if strings.Contains(msg, k) {
				known = true
			}
		}
		if !known {
			r.Meta.Skipped++
			r.Count("final_skipped", c07ErrKind(msg))
			return
		}
	case ClsPanic:
		if !strings.Contains(msg, "already registered id") {
			r.Meta.Skipped++
			return
		}
	}
	fifo := true
	if km.SortOptions != nil {
		fifo = km.SortOptions.Order != "legacy"
	} else if t.Reorder == "legacy" || t.Reorder == "unspecified" {
		fifo = false
	}
	out := []string{}
	if cls == ClsOk {
		for _, x := range m.Resources() {
			out = append(out, fmt.Sprintf("(%s, %s)", c07CoqId(x.CurId()), c07CoqAnn(x.GetAnnotations())))
		}
	}
	r.Count("final_class", cls)
	term := fmt.Sprintf("(CFinal [%s] %s %s %s %s [%s])", strings.Join(hashTab, "; "), coqBool(!fifo), c07QsList(km.BuildMetadata),
		c07CoqState(st), cls, strings.Join(out, "; "))
	r.AddCase(term, t, cls == ClsOk && len(out) > 0)
}

// ---------- adversarial: collide with a hashed generator name ----------

// c07HashCollisionTree builds the tree once, picks a generated (hash-suffixed) ConfigMap/Secret of the output and adds a
// resource file to the top layer that already carries that final name — plain or marked local-config.
func c07HashCollisionTree(rng *Rng) (tree07, bool) {
	t := genTree07(rng)
	m, cls, _ := c07RunKrusty(t.Files, t.Dir, t.Reorder)
	if cls != ClsOk {
		return t, false
	}
	// candidates: output resources whose name ends with a 10-character hash
	var cands []*resource.Resource
	for _, x := range m.Resources() {
		if (x.GetKind() == "ConfigMap" || x.GetKind() == "Secret") && len(x.GetName()) > 11 && x.GetName()[len(x.GetName())-11] == '-' {
			cands = append(cands, x)
		}
	}
	if len(cands) == 0 {
		return t, false
	}
	sort.Slice(cands, func(i, j int) bool { return cands[i].GetName() < cands[j].GetName() })
	c := cands[rng.Intn(len(cands))]
	// the top layer's own transformers will also apply to the added resource; keep the top layer free of them
	top := t.Files[t.Dir+"/kustomization.yaml"]
	var keep []string
	skip := false
	for _, line := range strings.SplitAfter(top, "\n") {
		if strings.HasPrefix(line, " ") || strings.HasPrefix(line, "-") {
			if skip {
				continue
			}
		} else {
			skip = false
			for _, k := range []string{"namePrefix:", "nameSuffix:", "namespace:", "commonLabels:", "labels:", "commonAnnotations:", "patches:", "images:", "replicas:"} {
				if strings.HasPrefix(line, k) {
					skip = true
				}
			}
			if skip {
				continue
			}
		}
		keep = append(keep, line)
	}
	top = strings.Join(keep, "")
	ann := ""
	note := "plain resource carrying a hashed generator name"
	if rng.Chance(60) {
		ann = "  annotations:\n    config.kubernetes.io/local-config: \"true\"\n"
		note = "local-config resource carrying a hashed generator name"
	}
	nsLine := ""
	if c.GetNamespace() != "" {
		nsLine = "  namespace: " + c.GetNamespace() + "\n"
	}
	extra := fmt.Sprintf("apiVersion: v1\nkind: %s\nmetadata:\n  name: %s\n%s%sdata:\n  collide: \"1\"\n", c.GetKind(), c.GetName(), nsLine, ann)
	t.Files[t.Dir+"/zz-collide.yaml"] = extra
	if strings.Contains(top, "resources:\n") {
		top = strings.Replace(top, "resources:\n", "resources:\n- zz-collide.yaml\n", 1)
	} else {
		top += "resources:\n- zz-collide.yaml\n"
	}
	t.Files[t.Dir+"/kustomization.yaml"] = top
	t.Note = note
	return t, true
}

// execTree07: a generated tree whose top layer runs one exec KRM function as a transformer. The function is a sed
// script over the ResourceList it receives: it renames a resource, moves one to another namespace, clones one under a
// new name, changes a data value, or does nothing - keeping every annotation it was given (a well-behaved function).
func execTree07(rng *Rng) (tree07, bool) {
	t := genTree07(rng)
	m, cls, _ := c07RunKrusty(t.Files, t.Dir, t.Reorder)
	if cls != ClsOk || m.Size() == 0 {
		return t, false
	}
	rs := m.Resources()
	victim := rs[rng.Intn(len(rs))]
	name := victim.GetName()
	if name == "" || strings.ContainsAny(name, "/.*[]\\&") {
		return t, false
	}
	var sed, note string
	switch rng.Intn(5) {
	case 0, 1:
		// rename: every `name: <name>` line (also the copy inside the id annotation, which is harmless)
		sed = fmt.Sprintf("s/^\\( *\\)name: %s$/\\1name: %s-fn/", name, name)
		note = "exec function renames " + name
	case 2:
		sed = "s/^\\( *\\)namespace: \\(.*\\)$/\\1namespace: moved/"
		note = "exec function moves namespaced resources to another namespace"
	case 3:
		sed = "s/^\\( *\\)k1: .*$/\\1k1: from-fn/"
		note = "exec function edits a data value"
	default:
		sed = "s/nothing-to-replace/x/"
		note = "exec function returns its input"
	}
	script := "#!/bin/sh\nexec sed -e '" + sed + "'\n"
	t.Files[t.Dir+"/fn.sh"] = script
	t.Exec = []string{t.Dir + "/fn.sh"}
	t.Files[t.Dir+"/fn.yaml"] = "apiVersion: example.com/v1\nkind: SedFn\nmetadata:\n  name: fn\n  annotations:\n    config.kubernetes.io/function: |\n      exec:\n        path: ./fn.sh\n"
	top := t.Files[t.Dir+"/kustomization.yaml"]
	top += "transformers:\n- fn.yaml\n"
	t.Files[t.Dir+"/kustomization.yaml"] = top
	t.Note = note
	return t, true
}

// nsTwinTree07: two resources of one kind and name, one without a namespace and one already in the namespace that a
// NamespaceTransformer configured under `transformers:` (with or without unsetOnly) moves the other one to: the
// transformer's id-conflict test - and, should it be bypassed, IgnoreLocal's rebuild of the map - must refuse the build.
func nsTwinTree07(rng *Rng) tree07 {
	var t tree07
	if rng.Chance(50) {
		t = genTree07(rng)
	} else {
		t = tree07{Files: map[string]string{}, Dir: "/top", Reorder: rng.Pick([]string{"none", "none", "legacy"})}
		t.Files["/top/kustomization.yaml"] = "apiVersion: kustomize.config.k8s.io/v1beta1\nkind: Kustomization\n"
	}
	top := t.Files[t.Dir+"/kustomization.yaml"]
	// the top layer's own namespace / name directives would move or rename the twins themselves
	var keep []string
	for _, line := range strings.SplitAfter(top, "\n") {
		if strings.HasPrefix(line, "namespace:") || strings.HasPrefix(line, "namePrefix:") || strings.HasPrefix(line, "nameSuffix:") {
			continue
		}
		keep = append(keep, line)
	}
	top = strings.Join(keep, "")
	target := rng.Pick([]string{"prod", "twinns"})
	kind := rng.Pick([]string{"ConfigMap", "ConfigMap", "Secret", "ServiceAccount"})
	body := ""
	if kind == "ConfigMap" {
		body = "data:\n  k: v\n"
	}
	t.Files[t.Dir+"/zz-twins.yaml"] = fmt.Sprintf("apiVersion: v1\nkind: %s\nmetadata:\n  name: settings\n%s---\napiVersion: v1\nkind: %s\nmetadata:\n  name: settings\n  namespace: %s\n%s",
		kind, body, kind, target, body)
	unset := rng.Chance(70)
	t.Files[t.Dir+"/zz-nst.yaml"] = fmt.Sprintf("apiVersion: builtin\nkind: NamespaceTransformer\nmetadata:\n  name: nst\n  namespace: %s\nunsetOnly: %v\nfieldSpecs:\n- path: metadata/namespace\n  create: true\n", target, unset)
	if strings.Contains(top, "resources:\n") {
		top = strings.Replace(top, "resources:\n", "resources:\n- zz-twins.yaml\n", 1)
	} else {
		top += "resources:\n- zz-twins.yaml\n"
	}
	top += "transformers:\n- zz-nst.yaml\n"
	t.Files[t.Dir+"/kustomization.yaml"] = top
	t.Note = fmt.Sprintf("namespace twins, NamespaceTransformer unsetOnly=%v", unset)
	return t
}

func runBuilds07(r *Run, rng *Rng, corp corpus07, n int, tier string) error {
	for _, t := range corp.Builds {
		r.Count("build_kind", "corpus")
		checkBuild07(r, t, false)
		finalCase07(r, t)
	}
	for i := 0; i < n; i++ {
		g := rng.Fork()
		if i%8 == 7 {
			if t, ok := c07HashCollisionTree(g); ok {
				r.Count("build_kind", "hash-collision")
				checkBuild07(r, t, false)
				finalCase07(r, t)
				continue
			}
		}
		if i%8 == 5 {
			t := nsTwinTree07(g)
			r.Count("build_kind", "namespace-twins")
			checkBuild07(r, t, false)
			finalCase07(r, t)
			continue
		}
		if i%8 == 3 {
			if t, ok := execTree07(g); ok {
				r.Count("build_kind", "exec-function")
				r.Count("exec_note", t.Note)
				checkBuild07(r, t, false)
				continue
			}
		}
		r.Count("build_kind", "random")
		t := genTree07(g)
		checkBuild07(r, t, false)
		if i%2 == 0 {
			finalCase07(r, t)
		}
	}
	return nil
}
