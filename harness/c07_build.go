package main

type tree07 struct {
	Files map[string]string `json:"files"`
	Dir   string            `json:"dir"`
}

func runBuilds07(r *Run, rng *Rng, corp corpus07, n int, tier string) error { return nil }
func checkBuild07(r *Run, t tree07, verbose bool) string                    { return "" }
