package main

// C08, `crds:` build family.
//
// A kustomization can declare custom kinds through its `crds:` field: OpenAPI definitions whose properties carry
// `x-kubernetes-label-selector` (a selector location: commonLabels and includeSelectors labels reach it, nothing
// else does), `x-kubernetes-annotation` (commonAnnotations reach it), `x-kubernetes-identity` and
// `x-kubernetes-object-ref-*`. api/internal/accumulator/loadconfigfromcrds.go turns them into field specs
// (create=false, Gvk = kind only) that are merged into the transformer configuration of the declaring layer and of
// every layer above it. The CRD loader is outside the Coq model; these builds are judged on the implementation:
//
//   crd_selector_union   every declared selector location of the custom instance that is a mapping ends with
//                        input + (commonLabels and includeSelectors labels of the layers that see the declaration),
//                        sorted per directive, innermost layer first; a location that is absent / null stays so
//   crd_annotation_union the same for declared annotation locations and commonAnnotations
//   crd_control          a property of the same shape WITHOUT the extension, and the same paths on an instance of an
//                        undeclared kind, are untouched
//   crd_metadata_union   metadata.labels of the custom instance = input + all labels of the whole chain
//   crd_selects          when the innermost layer declares the kind: a custom instance that selected the pods of a workload
//                        of its layer still does, unless a labels entry without includeSelectors overrides a selected key
//                        (documented behaviour)
//
// The ordinary oracles (own_selector, unions, frame, no_hidden_content ...) run on the built-in kinds of the same tree.

import (
	"encoding/json"
	"fmt"
	"sort"
	"strings"

	kyaml "sigs.k8s.io/kustomize/kyaml/yaml"
)

type c08CrdCase struct {
	Tree     *c08Tree   `json:"tree"`
	Kind     string     `json:"kind"`
	Name     string     `json:"name"`     // the declared instance
	Twin     string     `json:"twin"`     // instance of an undeclared kind with the same body ("" if none)
	SelPaths []string   `json:"selPaths"` // declared x-kubernetes-label-selector locations
	AnnPaths []string   `json:"annPaths"` // declared x-kubernetes-annotation locations
	Control  []string   `json:"control"`  // same-shaped properties without extension
	CrdLayer int        `json:"crdLayer"` // index in the chain (0 = innermost) of the layer that declares `crds:`
	Chain    []c08Dirs  `json:"chain"`    // innermost first
}

func crdSchemaJSON(rng *Rng, kind string, selPaths, annPaths, control []string, asYaml bool) string {
	pkg := "example.com/pkg/apis/x/v1."
	types := map[string]map[string]interface{}{} // type name -> properties
	props := func(tn string) map[string]interface{} {
		if types[tn] == nil {
			types[tn] = map[string]interface{}{}
		}
		return types[tn]
	}
	root := pkg + kind
	props(root)["apiVersion"] = map[string]interface{}{"type": "string"}
	props(root)["kind"] = map[string]interface{}{"type": "string"}
	props(root)["metadata"] = map[string]interface{}{"$ref": "k8s.io/apimachinery/pkg/apis/meta/v1.ObjectMeta"}
	add := func(path string, leaf map[string]interface{}) {
		segs := strings.Split(path, "/")
		tn := root
		for i, s := range segs {
			if i == len(segs)-1 {
				props(tn)[s] = leaf
				return
			}
			next := pkg + kind + "_" + strings.Join(segs[:i+1], "_")
			if _, ok := props(tn)[s]; !ok {
				props(tn)[s] = map[string]interface{}{"$ref": next}
			}
			props(next)
			tn = next
		}
	}
	for _, p := range selPaths {
		add(p, map[string]interface{}{"x-kubernetes-label-selector": "", "type": "object", "additionalProperties": map[string]interface{}{"type": "string"}})
	}
	for _, p := range annPaths {
		add(p, map[string]interface{}{"x-kubernetes-annotation": "", "type": "object", "additionalProperties": map[string]interface{}{"type": "string"}})
	}
	for _, p := range control {
		add(p, map[string]interface{}{"type": "object", "additionalProperties": map[string]interface{}{"type": "string"}})
	}
	if rng.Chance(50) {
		add("spec/configRef", map[string]interface{}{"x-kubernetes-object-ref-api-version": "v1", "x-kubernetes-object-ref-kind": "ConfigMap", "type": "object"})
	}
	if rng.Chance(30) {
		add("spec/size", map[string]interface{}{"type": "integer"})
	}
	out := map[string]interface{}{}
	for tn, ps := range types {
		out[tn] = map[string]interface{}{"Schema": map[string]interface{}{"properties": ps}, "Dependencies": []string{}}
	}
	b, _ := json.MarshalIndent(out, "", " ")
	if asYaml {
		return "# OpenAPI definitions (flow style)\n" + string(b) + "\n" // first byte is not '{': parsed as YAML
	}
	return string(b)
}

func crdSetPath(doc *gnode, path string, v *gnode) {
	segs := strings.Split(path, "/")
	cur := doc
	for i, s := range segs {
		if i == len(segs)-1 {
			cur.set(s, v)
			return
		}
		var next *gnode
		for j, k := range cur.keys {
			if k == s {
				next = cur.vals[j]
			}
		}
		if next == nil || next.kind != 1 {
			next = c08gM()
			cur.set(s, next)
		}
		cur = next
	}
}

func genCrdCase(rng *Rng) *c08CrdCase {
	kind := rng.Pick([]string{"PodGroup", "Monitor", "Gadget", "Canary"})
	selPool := []string{"spec/selector", "spec/podSelector", "spec/target/selector", "spec/target/pods/matchLabels", "selector"}
	annPool := []string{"spec/podAnnotations", "spec/target/annotations", "notes"}
	ctlPool := []string{"spec/extraLabels", "spec/target/other", "spec/matchLabels"}
	c := &c08CrdCase{Kind: kind, Name: "cr0"}
	c.SelPaths = []string{rng.Pick(selPool)}
	if rng.Chance(30) {
		if p := rng.Pick(selPool); p != c.SelPaths[0] {
			c.SelPaths = append(c.SelPaths, p)
		}
	}
	if rng.Chance(60) {
		c.AnnPaths = []string{rng.Pick(annPool)}
	}
	c.Control = []string{rng.Pick(ctlPool)}
	depth := 1 + rng.Intn(3)
	c.CrdLayer = 0
	if depth > 1 && rng.Chance(30) {
		c.CrdLayer = rng.Intn(depth)
	}
	// innermost layer: a workload, the custom instance, sometimes the undeclared twin and a Service
	pods := [][]c08kv{}
	counter := 0
	inner := &c08Tree{}
	wk := rng.Pick([]string{"Deployment", "Deployment", "StatefulSet", "DaemonSet"})
	inner.Own = append(inner.Own, genRes(rng, wk, fmt.Sprintf("r%d", counter), &pods))
	counter++
	if rng.Chance(40) {
		inner.Own = append(inner.Own, genRes(rng, "Service", fmt.Sprintf("r%d", counter), &pods))
		counter++
	}
	target := genPairs(rng, 1, 2)
	if len(pods) > 0 && rng.Chance(85) {
		target = subsetPairs(rng, pods[rng.Intn(len(pods))])
	}
	body := func(k, name string) string {
		meta := c08gM("name", name)
		if rng.Chance(50) {
			meta.set("labels", labelMapNode(genPairs(rng, 0, 2), rng))
		}
		doc := c08gM("apiVersion", "x.example.com/v1", "kind", k, "metadata", meta)
		for i, p := range c.SelPaths {
			switch r := rng.Intn(100); {
			case r < 75:
				l := target
				if i > 0 {
					l = genPairs(rng, 0, 2)
				}
				crdSetPath(doc, p, labelMapNode(l, rng))
			case r < 85:
				crdSetPath(doc, p, gT("null"))
			case r < 92:
				crdSetPath(doc, p, c08gM())
			}
		}
		for _, p := range c.AnnPaths {
			if rng.Chance(80) {
				crdSetPath(doc, p, labelMapNode(genPairs(rng, 0, 2), rng))
			}
		}
		for _, p := range c.Control {
			crdSetPath(doc, p, labelMapNode(target, rng))
		}
		if rng.Chance(40) {
			crdSetPath(doc, "spec/size", gT("3"))
		}
		return doc.yaml()
	}
	inner.Own = append(inner.Own, c08Res{Name: c.Name, Kind: kind, Yaml: body(kind, c.Name)})
	if rng.Chance(50) {
		c.Twin = "cr1"
		inner.Own = append(inner.Own, c08Res{Name: c.Twin, Kind: kind + "Twin", Yaml: body(kind+"Twin", c.Twin)})
	}
	cur := inner
	for l := 0; l < depth; l++ {
		cur.Dirs = genDirs(rng, false)
		if l == c.CrdLayer {
			cur.Crd = crdSchemaJSON(rng, kind, c.SelPaths, c.AnnPaths, c.Control, rng.Chance(30))
		}
		c.Chain = append(c.Chain, cur.Dirs)
		if l+1 < depth {
			cur = &c08Tree{Bases: []*c08Tree{cur}}
		}
	}
	c.Tree = cur
	return c
}

func crdApplySorted(cur []c08kv, l []c08kv) []c08kv {
	s := append([]c08kv{}, l...)
	sort.Slice(s, func(i, j int) bool { return s[i].K < s[j].K })
	for _, e := range s {
		found := false
		for i := range cur {
			if cur[i].K == e.K {
				cur[i].V = e.V
				found = true
				break
			}
		}
		if !found {
			cur = append(cur, e)
		}
	}
	return cur
}

func nodeSame(a, b *kyaml.Node) bool {
	if a == nil || b == nil {
		return a == b
	}
	sa, _ := kyaml.NewRNode(a).String()
	sb, _ := kyaml.NewRNode(b).String()
	return sa == sb
}

func oracleCrd08(r *Run, c *c08CrdCase, bo buildOut) {
	if bo.cls != ClsOk {
		return
	}
	report := func(law, class, detail string) {
		r.Violation(OracleViolation{Law: law, Class: class, Detail: detail, Replay: map[string]interface{}{"crd": c}})
	}
	var inDoc *kyaml.Node
	var inTwin *kyaml.Node
	var findOwn func(t *c08Tree)
	workloads := []*kyaml.Node{}
	workloadNames := []string{}
	findOwn = func(t *c08Tree) {
		for _, b := range t.Bases {
			findOwn(b)
		}
		for _, o := range t.Own {
			n, err := kyaml.Parse(o.Yaml)
			if err != nil {
				continue
			}
			switch {
			case o.Name == c.Name:
				inDoc = n.YNode()
			case c.Twin != "" && o.Name == c.Twin:
				inTwin = n.YNode()
			default:
				if _, isW := tmplPaths[o.Kind]; isW {
					workloads = append(workloads, n.YNode())
					workloadNames = append(workloadNames, o.Name)
				}
			}
		}
	}
	findOwn(c.Tree)
	outR, ok := bo.outs[c.Name]
	if inDoc == nil || !ok {
		if inDoc != nil {
			report("resource_kept", "C08/resource_lost", "custom instance "+c.Name+" is missing from the build output")
		}
		return
	}
	out := outR.YNode()
	seen := c.Chain[c.CrdLayer:]
	noCommon := []c08Dirs{}
	for _, d := range seen {
		noCommon = append(noCommon, c08Dirs{Labels: d.Labels})
	}
	// selector locations
	for _, p := range c.SelPaths {
		path := strings.Split(p, "/")
		in := getAt(inDoc, path)
		got := getAt(out, path)
		r.Count("oracle", "crd_selector_union")
		if in == nil || in.Kind != kyaml.MappingNode {
			if !nodeSame(in, got) {
				report("crd_selector_union", "C08/crd_selector_union/non-map-location-changed",
					fmt.Sprintf("%s %s: declared selector location %s was not a mapping and changed", c.Kind, c.Name, p))
			}
			continue
		}
		want := expectedLabels(lmapOf(in), seen, 2)
		if g := lmapOf(got); !kvEq(want, g) {
			cls := "C08/crd_selector_union"
			if kvEq(expectedLabels(lmapOf(in), seen, 0), g) || kvEq(expectedLabels(lmapOf(in), seen, 1), g) {
				cls += "/non-selector-labels-reach-declared-selector"
			} else if kvEq(lmapOf(in), g) || kvEq(expectedLabels(lmapOf(in), noCommon, 2), g) {
				cls += "/commonLabels-miss-declared-selector"
			}
			report("crd_selector_union", cls,
				fmt.Sprintf("%s %s: declared selector location %s is %v, expected %v (key %q)", c.Kind, c.Name, p, g, want, firstDiffKey(want, g)))
		}
	}
	// annotation locations
	for _, p := range c.AnnPaths {
		path := strings.Split(p, "/")
		in := getAt(inDoc, path)
		got := getAt(out, path)
		r.Count("oracle", "crd_annotation_union")
		if in == nil || in.Kind != kyaml.MappingNode {
			if !nodeSame(in, got) {
				report("crd_annotation_union", "C08/crd_annotation_union/non-map-location-changed",
					fmt.Sprintf("%s %s: declared annotation location %s was not a mapping and changed", c.Kind, c.Name, p))
			}
			continue
		}
		want := lmapOf(in)
		for _, d := range seen {
			want = crdApplySorted(want, d.CommonAnnotations)
		}
		if g := lmapOf(got); !kvEq(want, g) {
			report("crd_annotation_union", "C08/crd_annotation_union",
				fmt.Sprintf("%s %s: declared annotation location %s is %v, expected %v", c.Kind, c.Name, p, g, want))
		}
	}
	// control properties of the declared instance
	for _, p := range c.Control {
		path := strings.Split(p, "/")
		r.Count("oracle", "crd_control")
		if !nodeSame(getAt(inDoc, path), getAt(out, path)) {
			report("crd_control", "C08/crd_control/undeclared-property-changed",
				fmt.Sprintf("%s %s: property %s carries no extension but changed", c.Kind, c.Name, p))
		}
	}
	// metadata labels of the declared instance
	if ml := getAt(inDoc, []string{"metadata", "labels"}); ml == nil || ml.Kind == kyaml.MappingNode {
		r.Count("oracle", "crd_metadata_union")
		want := expectedLabels(lmapOf(ml), c.Chain, 0)
		if g := lmapOf(getAt(out, []string{"metadata", "labels"})); !kvEq(want, g) {
			report("crd_metadata_union", "C08/crd_metadata_union",
				fmt.Sprintf("%s %s: metadata.labels is %v, expected %v", c.Kind, c.Name, g, want))
		}
	}
	// the undeclared twin: every declared path is untouched
	if inTwin != nil {
		if tw, ok := bo.outs[c.Twin]; ok {
			for _, p := range append(append(append([]string{}, c.SelPaths...), c.AnnPaths...), c.Control...) {
				path := strings.Split(p, "/")
				r.Count("oracle", "crd_control")
				if !nodeSame(getAt(inTwin, path), getAt(tw.YNode(), path)) {
					report("crd_control", "C08/crd_control/undeclared-kind-changed",
						fmt.Sprintf("%sTwin %s: location %s of an undeclared kind changed", c.Kind, c.Twin, p))
				}
			}
		}
	}
	// selection of the layer's workloads. Only when every layer of the chain sees the declaration: a layer below the
	// declaring one relabels the workload's selector and template but (by construction of `crds:`) not the custom selector.
	for wi, w := range workloads {
		if c.CrdLayer != 0 {
			break
		}
		wo, ok := bo.outs[workloadNames[wi]]
		if !ok {
			continue
		}
		kind := kindOfNode(w)
		tp := tmplPaths[kind]
		if kind == "Pod" || !shapeOK(w, strings.Split(tp, "/")) || !tmplCovered(w) {
			continue
		}
		for _, p := range c.SelPaths {
			path := strings.Split(p, "/")
			in := getAt(inDoc, path)
			if in == nil || in.Kind != kyaml.MappingNode || len(lmapOf(in)) == 0 {
				continue
			}
			if okIn, _ := subKV(lmapOf(in), podLabelsOf(w)); !okIn {
				continue
			}
			r.Count("oracle", "crd_selects")
			if okOut, key := subKV(lmapOf(getAt(out, path)), podLabelsOf(wo.YNode())); !okOut {
				cls := "C08/crd_selects"
				_, had := lookupKV(lmapOf(in), key)
				if nonSelectorKeys(c.Chain)[key] && (had || selectorKeys(c.Chain)[key]) {
					cls = "C08/selects_preserved/selected-key-overridden-without-includeSelectors"
				}
				report("crd_selects", cls, fmt.Sprintf("%s %s (%s) no longer selects the pods of %s %s (key %q)", c.Kind, c.Name, p, kind, workloadNames[wi], key))
			}
		}
	}
}

func crdBuild08(r *Run, c *c08CrdCase) {
	lid := 0
	flat := flatten(c.Tree, &lid)
	bo := runBuild(c.Tree)
	r.Count("crd_build_class", bo.cls)
	r.Count("crd_layer", fmt.Sprintf("declared at %d of %d", c.CrdLayer, len(c.Chain)))
	if bo.cls != ClsOk {
		r.Count("crd_build_error", c08firstN(bo.msg, 70))
	}
	// built-in kinds of the tree: the ordinary laws (the custom documents have their own laws: the frame law of
	// oracles08 knows the documented label locations by name only)
	builtin := []flatRes{}
	for _, fr := range flat {
		if fr.Res.Name != c.Name && fr.Res.Name != c.Twin {
			builtin = append(builtin, fr)
		}
	}
	oracles08(r, c.Tree, builtin, bo)
	oracleCrd08(r, c, bo)
	b, _ := json.Marshal(c)
	r.AddEval(string(b), bo.cls == ClsOk)
}
