package main

import (
	"fmt"
	"strings"
)

// Generator for C20: resource-like YAML streams, emitted as text (so that comments, styles and
// odd-but-legal shapes go through the real reader).  Every random choice comes from the *Rng.

type g20 struct {
	kind   int // 0 scalar, 1 map, 2 seq, 3 alias
	text   string
	block  []string // block scalar lines (kind 0, text = "|" / ">-" ...)
	keys   []string
	vals   []*g20
	head   string // comment line(s) above the entry
	line   string // end-of-line comment
	foot   string // comment after the entry, followed by a blank line
	flow   bool
	wide   bool // sequence indented under its key
	anchor string
	nlElem bool // element map written as "-\n  k: v" instead of "- k: v"
}

func sc20(t string) *g20 { return &g20{kind: 0, text: t} }

func (g *g20) put(k string, v *g20) *g20 {
	g.keys = append(g.keys, k)
	g.vals = append(g.vals, v)
	return g
}

func (g *g20) get(k string) *g20 {
	for i, x := range g.keys {
		if x == k {
			return g.vals[i]
		}
	}
	return nil
}

func emitComment20(b *strings.Builder, ind, c string) {
	if c == "" {
		return
	}
	for _, l := range strings.Split(c, "\n") {
		b.WriteString(ind + "# " + l + "\n")
	}
}

func (g *g20) isInline() bool {
	return g.kind == 0 || g.kind == 3 || g.flow || len(g.vals) == 0
}

func (g *g20) flowText() string {
	switch g.kind {
	case 0:
		return g.text
	case 3:
		return "*" + g.text
	case 1:
		parts := []string{}
		for i, k := range g.keys {
			parts = append(parts, k+": "+g.vals[i].flowText())
		}
		return "{" + strings.Join(parts, ", ") + "}"
	default:
		parts := []string{}
		for _, v := range g.vals {
			parts = append(parts, v.flowText())
		}
		return "[" + strings.Join(parts, ", ") + "]"
	}
}

// emitValue writes what follows "key:" or "-" (rest of the line and nested blocks).
func (g *g20) emitValue(b *strings.Builder, ind string) {
	lc := ""
	if g.line != "" {
		lc = " # " + g.line
	}
	an := ""
	if g.anchor != "" {
		an = " &" + g.anchor
	}
	switch {
	case g.kind == 3:
		b.WriteString(" *" + g.text + lc + "\n")
	case g.kind == 0 && g.block != nil:
		b.WriteString(an + " " + g.text + "\n")
		for _, l := range g.block {
			if l == "" {
				b.WriteString("\n")
			} else {
				b.WriteString(ind + "  " + l + "\n")
			}
		}
	case g.kind == 0:
		if g.text == "" {
			b.WriteString(an + lc + "\n")
		} else {
			b.WriteString(an + " " + g.text + lc + "\n")
		}
	case g.flow || len(g.vals) == 0:
		b.WriteString(an + " " + g.flowText() + lc + "\n")
	case g.kind == 1:
		b.WriteString(an + lc + "\n")
		g.emitMap(b, ind+"  ", 0)
	default:
		b.WriteString(an + lc + "\n")
		if g.wide {
			g.emitSeq(b, ind+"  ")
		} else {
			g.emitSeq(b, ind)
		}
	}
}

func (g *g20) emitMap(b *strings.Builder, ind string, from int) {
	for i := from; i < len(g.keys); i++ {
		v := g.vals[i]
		emitComment20(b, ind, v.head)
		if strings.HasPrefix(g.keys[i], "? ") { // complex key
			b.WriteString(ind + g.keys[i] + "\n" + ind + ":")
		} else {
			b.WriteString(ind + g.keys[i] + ":")
		}
		v.emitValue(b, ind)
		if v.foot != "" {
			emitComment20(b, ind, v.foot)
			b.WriteString("\n")
		}
	}
}

func (g *g20) emitSeq(b *strings.Builder, ind string) {
	for _, e := range g.vals {
		emitComment20(b, ind, e.head)
		b.WriteString(ind + "-")
		switch {
		case e.isInline():
			e.emitValue(b, ind)
		case e.kind == 1 && !e.nlElem:
			an := ""
			if e.anchor != "" {
				an = " &" + e.anchor + "\n" + ind + " "
			}
			if strings.HasPrefix(e.keys[0], "? ") {
				b.WriteString(an + " " + e.keys[0] + "\n" + ind + "  :")
			} else {
				b.WriteString(an + " " + e.keys[0] + ":")
			}
			e.vals[0].emitValue(b, ind+"  ")
			if e.vals[0].foot != "" {
				emitComment20(b, ind+"  ", e.vals[0].foot)
				b.WriteString("\n")
			}
			e.emitMap(b, ind+"  ", 1)
		case e.kind == 1:
			b.WriteString("\n")
			e.emitMap(b, ind+"  ", 0)
		default:
			b.WriteString("\n")
			e.emitSeq(b, ind+"  ")
		}
		if e.foot != "" {
			emitComment20(b, ind, e.foot)
			b.WriteString("\n")
		}
	}
}

func (g *g20) yaml() string {
	var b strings.Builder
	emitComment20(&b, "", g.head)
	g.emitMap(&b, "", 0)
	return b.String()
}

// ------------------------------------------------------------------ pools

var c20Known = []string{"name", "generateName", "namespace", "labels", "annotations", "spec", "status", "data", "stringData",
	"replicas", "selector", "template", "strategy", "paused", "restartPolicy", "activeDeadlineSeconds", "serviceAccountName",
	"nodeSelector", "volumes", "securityContext", "image", "command", "args", "ports", "env", "resources", "imagePullPolicy",
	"protocol", "port", "targetPort", "containerPort", "value", "valueFrom", "type", "metadata", "readOnly", "mountPath",
	"backoffLimit", "parallelism", "tty", "stdin", "containers", "initContainers", "hostNetwork", "service", "prefix"}

var c20Unknown = []string{"zeta", "alpha", "foo", "bar", "Baz", "x-y", "a.b", "matchLabels", "app", "tier", "rules", "webhooks",
	"operations", "apiGroups", "clientConfig", "sideEffects", "failurePolicy", "0", "1", "yes", "Name", "nAme", "names",
	"spec.template", "~", "\"quoted key\"", "'sq'", "key with space", "_", "zz", "aa", "mm", "a", "b", "c", "k1", "k2", "k10"}

var c20PlainScalars = []string{"x", "y", "abc", "nginx", "nginx:1.0.0", "a b", "1", "0", "-1", "80", "1.5", "1e3", "0x1F", "0o7", "010",
	"true", "false", "True", "yes", "no", "on", "off", "Y", "n", "null", "~", "Null", ".inf", ".nan", "2001-01-01", "1_000",
	"\"\"", "''", "\"yes\"", "'1'", "\"true\"", "'null'", "\"a: b\"", "\"# not a comment\"", "a#b", "'it''s'", "\"tab\\there\"",
	"\"nl\\nx\"", "\"\\u00e9\"", "é", "=", "<<", "!!str 1", "!!str yes", "!!int \"3\"", "!!binary aGk=", "!custom v", "\"12\"",
	"v1", "apps/v1", "CREATE", "UPDATE", "DELETE", "\"*\"", "-x", "http://x/y?z=1", "a@b", "50%", "+1", "1:30", "0.0.0.0"}

var c20Comments = []string{"c", "note", "TODO: fix", "a: b", "# double", "x y z", "-", "kind: Foo", "end", "é"}

var c20WlKinds = [][2]string{{"Deployment", "apps/v1"}, {"StatefulSet", "apps/v1"}, {"DaemonSet", "apps/v1beta2"}, {"Job", "batch/v1"},
	{"CronJob", "batch/v1beta1"}, {"ReplicaSet", "extensions/v1beta1"}, {"Deployment", "apps/v1beta1"}, {"Deployment", "v1"},
	{"ValidatingWebhookConfiguration", "admissionregistration.k8s.io/v1"}}
var c20OtherKinds = [][2]string{{"ConfigMap", "v1"}, {"Service", "v1"}, {"Foo", "example.com/v1"}, {"Deployment", "example.com/v1"},
	{"MutatingWebhookConfiguration", "admissionregistration.k8s.io/v1"}, {"Pod", "v1"}, {"Secret", "v1"}, {"deployment", "apps/v1"},
	{"Kustomization", "kustomize.config.k8s.io/v1beta1"}}

type gen20 struct {
	r        *Rng
	comments int // percent chance of a comment at each site
	anchors  []string
	nAnchor  int
	complexKeys bool // this document may use complex ("? ") keys
}

func (g *gen20) scalar() *g20 {
	r := g.r
	if r.Chance(4) {
		n := 1 + r.Intn(3)
		style := r.Pick([]string{"|", "|-", ">", ">-", "|+"})
		lines := []string{}
		for i := 0; i < n; i++ {
			l := r.Pick([]string{"line one", "key: value", "# not a comment", "  indented", "true", "- item", "x"})
			if i == 0 || strings.HasPrefix(style, ">") {
				l = strings.TrimSpace(l) // (go-yaml re-encodes folded scalars with indented lines unfaithfully)
			}
			lines = append(lines, l)
		}
		return &g20{kind: 0, text: style, block: lines}
	}
	return sc20(r.Pick(c20PlainScalars))
}

func (g *gen20) decorate(n *g20) *g20 {
	r := g.r
	if r.Chance(g.comments) {
		n.head = r.Pick(c20Comments)
		if r.Chance(15) {
			n.head += "\n" + r.Pick(c20Comments)
		}
	}
	if r.Chance(g.comments) && (n.kind != 0 || n.block == nil) && !(n.kind == 0 && strings.Contains(n.text, "#")) {
		n.line = r.Pick(c20Comments)
	}
	if r.Chance(g.comments / 5) {
		n.foot = r.Pick(c20Comments)
	}
	return n
}

func (g *gen20) key() string {
	if g.complexKeys && g.r.Chance(4) {
		return g.r.Pick([]string{"? [cx, cy]", "? {zk: 1, ak: 2}"})
	}
	if g.r.Chance(55) {
		return g.r.Pick(c20Known)
	}
	return g.r.Pick(c20Unknown)
}

// free-form value
func (g *gen20) value(depth int) *g20 {
	r := g.r
	k := r.Intn(10)
	if depth <= 0 && k >= 5 {
		k = 0
	}
	switch {
	case k < 5:
		return g.scalar()
	case k < 8:
		return g.mapping(depth-1, r.Intn(5))
	default:
		return g.sequence(depth - 1)
	}
}

func (g *gen20) mapping(depth, n int) *g20 {
	r := g.r
	m := &g20{kind: 1}
	if r.Chance(4) {
		n = 13 + r.Intn(6) // beyond the insertion-sort threshold of sort.Sort
	}
	used := map[string]bool{}
	for i := 0; i < n; i++ {
		k := g.key()
		if n > 12 && used[k] {
			k = fmt.Sprintf("%s%d", strings.Trim(k, "\"'~ .?[]{}"), i)
			k = strings.NewReplacer("[", "", "]", "", "{", "", "}", "", ",", "", ":", "", " ", "").Replace(k)
		}
		if used[k] && !r.Chance(6) { // rarely a duplicate key
			continue
		}
		used[k] = true
		m.put(k, g.decorate(g.value(depth)))
	}
	if len(m.vals) > 0 && len(m.vals) <= 3 && r.Chance(6) {
		flowOK := true
		for _, v := range m.vals {
			if v.kind != 0 || v.block != nil || v.anchor != "" || strings.ContainsAny(v.text, ",{}[]#!") {
				flowOK = false
			}
			v.head, v.line, v.foot = "", "", ""
		}
		for _, k := range m.keys {
			if strings.ContainsAny(k, ",{}[]#!~?") {
				flowOK = false
			}
		}
		m.flow = flowOK
	}
	return m
}

func (g *gen20) sequence(depth int) *g20 {
	r := g.r
	s := &g20{kind: 2, wide: r.Chance(30)}
	n := r.Intn(4)
	mode := r.Intn(10)
	for i := 0; i < n; i++ {
		switch {
		case mode < 5:
			s.vals = append(s.vals, g.decorate(g.scalar()))
		case mode < 9:
			e := g.mapping(depth-1, 1+r.Intn(3))
			if len(e.vals) == 0 {
				e.put("name", sc20("x"))
			}
			e.flow = false
			e.vals[0].head = ""
			e.nlElem = r.Chance(10)
			s.vals = append(s.vals, g.decorate(e))
		default:
			s.vals = append(s.vals, g.decorate(g.value(depth-1)))
		}
	}
	return s
}

func (g *gen20) shuffle(m *g20) {
	for i := len(m.keys) - 1; i > 0; i-- {
		j := g.r.Intn(i + 1)
		m.keys[i], m.keys[j] = m.keys[j], m.keys[i]
		m.vals[i], m.vals[j] = m.vals[j], m.vals[i]
	}
}

func (g *gen20) sprinkle(m *g20, depth int) {
	n := g.r.Intn(3)
	for i := 0; i < n; i++ {
		k := g.key()
		if m.get(k) != nil {
			continue
		}
		m.put(k, g.decorate(g.value(depth)))
	}
}

var c20Names = []string{"a", "b", "c", "nginx", "app", "sidecar", "Z", "10", "9", "yes", "\"b\"", "'a'", "web", "db", "~", "x y"}

func (g *gen20) container(i int, big bool) *g20 {
	r := g.r
	c := &g20{kind: 1}
	if !r.Chance(8) { // sometimes no name at all
		nm := r.Pick(c20Names)
		if big {
			nm = fmt.Sprintf("c%02d", (i*7)%23)
		}
		c.put("name", g.decorate(sc20(nm)))
	}
	if r.Chance(85) {
		c.put("image", g.decorate(sc20(r.Pick([]string{"nginx", "nginx:1.0.0", "busybox", "\"redis:6\""}))))
	}
	if r.Chance(35) {
		a := &g20{kind: 2, wide: r.Chance(30)}
		for j := r.Intn(4); j > 0; j-- {
			a.vals = append(a.vals, g.decorate(g.scalar()))
		}
		c.put(r.Pick([]string{"args", "command"}), g.decorate(a))
	}
	if r.Chance(30) {
		ps := &g20{kind: 2}
		for j := 1 + r.Intn(2); j > 0; j-- {
			p := &g20{kind: 1}
			p.put("containerPort", g.decorate(sc20(r.Pick([]string{"80", "\"80\"", "8080", "443"}))))
			if r.Chance(50) {
				p.put("name", sc20(r.Pick([]string{"http", "https", "yes"})))
			}
			if r.Chance(40) {
				p.put("protocol", sc20(r.Pick([]string{"TCP", "UDP"})))
			}
			g.shuffle(p)
			ps.vals = append(ps.vals, p)
		}
		c.put("ports", g.decorate(ps))
	}
	if r.Chance(30) {
		es := &g20{kind: 2}
		for j := 1 + r.Intn(3); j > 0; j-- {
			e := &g20{kind: 1}
			e.put("name", sc20(r.Pick([]string{"A", "B", "DEBUG", "on"})))
			e.put("value", g.decorate(g.scalar()))
			g.shuffle(e)
			es.vals = append(es.vals, e)
		}
		c.put("env", g.decorate(es))
	}
	if r.Chance(5) { // duplicate sort field inside one element
		c.put("name", sc20(r.Pick(c20Names)))
	}
	g.sprinkle(c, 1)
	g.shuffle(c)
	if r.Chance(3) { // wide element carrying the sort field twice (sort.Sort is not stable beyond 12)
		for j := 0; len(c.keys) < 14; j++ {
			c.put(fmt.Sprintf("k%02d", (j*5)%17), sc20("v"))
		}
		c.put("name", sc20(r.Pick(c20Names)))
		g.shuffle(c)
	}
	if len(c.vals) == 0 {
		c.put("image", sc20("x"))
	}
	for _, v := range c.vals[:1] {
		v.head = ""
	}
	c.nlElem = r.Chance(8)
	return c
}

func (g *gen20) containers() *g20 {
	r := g.r
	s := &g20{kind: 2, wide: r.Chance(25)}
	n := 1 + r.Intn(4)
	big := r.Chance(5)
	if big {
		n = 13 + r.Intn(5)
	}
	for i := 0; i < n; i++ {
		s.vals = append(s.vals, g.decorate(g.container(i, big)))
	}
	if r.Chance(3) { // scalar element in a keyed list
		s.vals = append(s.vals, sc20(r.Pick([]string{"foo", "name", "~"})))
	}
	if r.Chance(2) { // nested list in a keyed list (known findings: panic / non-idempotence)
		in := &g20{kind: 2}
		switch r.Intn(3) {
		case 0:
			in.vals = []*g20{sc20("name")}
		case 1:
			e := &g20{kind: 1}
			e.put("name", sc20("b"))
			in.vals = []*g20{e, sc20("name"), sc20("v")}
		default:
			in.vals = []*g20{sc20("x"), sc20("name"), sc20("q")}
		}
		s.vals = append(s.vals, in)
	}
	return s
}

func (g *gen20) metadata(strategy string) *g20 {
	r := g.r
	m := &g20{kind: 1}
	m.put("name", g.decorate(sc20(r.Pick([]string{"foo", "bar", "\"x\"", "app-1"}))))
	if r.Chance(50) {
		m.put("namespace", g.decorate(sc20(r.Pick([]string{"default", "ns1", "kube-system"}))))
	}
	if r.Chance(50) {
		l := &g20{kind: 1}
		for j := 1 + r.Intn(3); j > 0; j-- {
			k := r.Pick([]string{"app", "tier", "name", "a", "b", "x/y", "version", "9000", "on", "yes", "010", "1.5", "true", "no"})
			if !l.hasKeyClass(k) {
				l.put(k, g.decorate(g.scalar()))
			}
		}
		m.put("labels", g.decorate(l))
	}
	if strategy != "" || r.Chance(35) {
		a := &g20{kind: 1}
		for j := r.Intn(3); j > 0; j-- {
			k := r.Pick([]string{"note", "a", "z", "owner", "config.kubernetes.io/local-config", "config.kubernetes.io/path",
				"9000", "on", "yes", "1e3", "off"})
			if !a.hasKeyClass(k) {
				a.put(k, g.decorate(g.scalar()))
			}
		}
		if strategy != "" {
			a.put("config.kubernetes.io/formatting", sc20(strategy))
		}
		g.shuffle(a)
		m.put("annotations", g.decorate(a))
	}
	g.sprinkle(m, 1)
	g.shuffle(m)
	return m
}

// keyedList: a list of mappings keyed by [key], at least two elements, never in sorted order.
// Used for lists the formatter must NOT reorder (initContainers run in sequence, volumes, env, ...).
func (g *gen20) keyedList(key string, extra func(i int) [][2]string) *g20 {
	r := g.r
	names := []string{"zeta", "web", "init-b", "cache", "init-a", "alpha"}
	n := 2 + r.Intn(3)
	start := r.Intn(len(names) - n + 1)
	pick := append([]string{}, names[start:start+n]...) // a descending run ...
	if r.Chance(40) {                                      // ... sometimes rotated, still not ascending
		pick = append(pick[1:], pick[0])
		if n == 2 {
			pick[0], pick[1] = pick[1], pick[0]
		}
	}
	l := &g20{kind: 2, wide: r.Chance(25)}
	for i, nm := range pick {
		e := &g20{kind: 1}
		e.put(key, g.decorate(sc20(nm)))
		if extra != nil {
			for _, kv := range extra(i) {
				e.put(kv[0], g.decorate(sc20(kv[1])))
			}
		}
		g.shuffle(e)
		e.vals[0].head = ""
		l.vals = append(l.vals, g.decorate(e))
	}
	return l
}

func (g *gen20) podSpec() *g20 {
	r := g.r
	p := &g20{kind: 1}
	p.put("containers", g.decorate(g.containers()))
	switch {
	case r.Chance(25):
		p.put("initContainers", g.decorate(g.containers()))
	case r.Chance(35):
		p.put("initContainers", g.decorate(g.keyedList("name", func(i int) [][2]string {
			return [][2]string{{"image", "busybox"}, {"command", "[sh, -c, \"step" + fmt.Sprint(i) + "\"]"}}
		})))
	}
	if r.Chance(30) {
		p.put("volumes", g.decorate(g.keyedList("name", func(i int) [][2]string { return [][2]string{{"emptyDir", "{}"}} })))
	}
	if r.Chance(20) {
		p.put("imagePullSecrets", g.decorate(g.keyedList("name", nil)))
	}
	if r.Chance(20) {
		p.put("tolerations", g.decorate(g.keyedList("key", func(i int) [][2]string {
			return [][2]string{{"operator", "Exists"}, {"effect", "NoSchedule"}}
		})))
	}
	if r.Chance(30) {
		p.put("restartPolicy", g.decorate(sc20(r.Pick([]string{"Always", "Never"}))))
	}
	if r.Chance(25) {
		p.put("serviceAccountName", g.decorate(g.scalar()))
	}
	if r.Chance(20) {
		p.put("activeDeadlineSeconds", g.decorate(sc20(r.Pick([]string{"10", "\"10\""}))))
	}
	if r.Chance(20) {
		p.put("nodeSelector", g.decorate(g.mapping(0, 2)))
	}
	g.sprinkle(p, 1)
	g.shuffle(p)
	return p
}

func (g *gen20) workload(kind, api string) *g20 {
	r := g.r
	d := &g20{kind: 1}
	spec := &g20{kind: 1}
	if r.Chance(60) {
		spec.put("replicas", g.decorate(sc20(r.Pick([]string{"1", "3", "\"3\"", "0", "2", "\"2\"", "1", "3", "3", "true"}))))
	}
	if r.Chance(40) {
		sel := &g20{kind: 1}
		sel.put("matchLabels", g.mapping(0, 2))
		spec.put("selector", g.decorate(sel))
	}
	tmpl := &g20{kind: 1}
	if r.Chance(50) {
		tmpl.put("metadata", g.decorate(g.metadata("")))
	}
	tmpl.put("spec", g.decorate(g.podSpec()))
	g.shuffle(tmpl)
	tmplKey := "template"
	if r.Chance(3) {
		// dotted key: the path is built by string concatenation, ".spec.template" + ".spec" either way
		spec.put("dummy", sc20("1"))
	}
	spec.put(tmplKey, g.decorate(tmpl))
	g.sprinkle(spec, 2)
	g.shuffle(spec)
	d.put("spec", g.decorate(spec))
	return d
}

func (g *gen20) webhook() *g20 {
	r := g.r
	d := &g20{kind: 1}
	ws := &g20{kind: 2, wide: r.Chance(25)}
	for i := 1 + r.Intn(2); i > 0; i-- {
		w := &g20{kind: 1}
		w.put("name", g.decorate(sc20(r.Pick([]string{"w1.example.com", "w2", "a"}))))
		rules := &g20{kind: 2}
		for j := 1 + r.Intn(2); j > 0; j-- {
			rule := &g20{kind: 1}
			ops := &g20{kind: 2, wide: r.Chance(25), flow: r.Chance(15)}
			n := 1 + r.Intn(4)
			if r.Chance(6) {
				n = 13 + r.Intn(3)
			}
			for k := 0; k < n; k++ {
				o := sc20(r.Pick([]string{"CREATE", "UPDATE", "DELETE", "CONNECT", "\"*\"", "create", "'UPDATE'"}))
				if n > 12 {
					o = sc20(fmt.Sprintf("OP%02d", (k*11)%19))
				}
				if !ops.flow {
					g.decorate(o)
				}
				ops.vals = append(ops.vals, o)
			}
			rule.put("operations", g.decorate(ops))
			rule.put("apiGroups", &g20{kind: 2, flow: true, vals: []*g20{sc20("\"\""), sc20("apps")}})
			if r.Chance(50) {
				rule.put("resources", &g20{kind: 2, vals: []*g20{sc20("pods"), sc20("deployments")}})
			}
			g.shuffle(rule)
			rule.vals[0].head = ""
			rules.vals = append(rules.vals, g.decorate(rule))
		}
		w.put("rules", g.decorate(rules))
		if r.Chance(50) {
			w.put("sideEffects", sc20("None"))
		}
		if r.Chance(40) {
			cc := &g20{kind: 1}
			cc.put("service", g.mapping(0, 2))
			w.put("clientConfig", g.decorate(cc))
		}
		g.shuffle(w)
		w.vals[0].head = ""
		ws.vals = append(ws.vals, g.decorate(w))
	}
	d.put("webhooks", g.decorate(ws))
	return d
}

func (g *gen20) doc() *g20 {
	r := g.r
	g.anchors, g.nAnchor = nil, 0
	g.comments = []int{0, 0, 8, 20, 40}[r.Intn(5)]
	g.complexKeys = r.Chance(4)
	var kind, api string
	shape := r.Intn(10)
	var d *g20
	switch {
	case shape < 4: // workload
		ka := c20WlKinds[r.Intn(len(c20WlKinds)-1)]
		if r.Chance(12) {
			ka = c20OtherKinds[r.Intn(len(c20OtherKinds))]
		}
		kind, api = ka[0], ka[1]
		d = g.workload(kind, api)
	case shape < 6: // webhook configuration
		kind, api = "ValidatingWebhookConfiguration", "admissionregistration.k8s.io/v1"
		if r.Chance(15) {
			kind = "MutatingWebhookConfiguration"
		}
		d = g.webhook()
	case shape < 8: // configmap / secret / service like
		ka := c20OtherKinds[r.Intn(len(c20OtherKinds))]
		kind, api = ka[0], ka[1]
		d = &g20{kind: 1}
		data := &g20{kind: 1}
		for j := r.Intn(5); j > 0; j-- {
			k := r.Pick([]string{"a", "b", "key", "config.yaml", "x", "on", "1", "Z"})
			if data.get(k) == nil {
				data.put(k, g.decorate(g.scalar()))
			}
		}
		d.put(r.Pick([]string{"data", "stringData", "spec"}), g.decorate(data))
	default: // free form
		ka := c20OtherKinds[r.Intn(len(c20OtherKinds))]
		if r.Chance(40) {
			ka = c20WlKinds[r.Intn(len(c20WlKinds))]
		}
		kind, api = ka[0], ka[1]
		d = g.mapping(3, 2+r.Intn(5))
		d.flow = false
		for i, k := range d.keys {
			if k == "kind" || k == "apiVersion" || k == "metadata" {
				d.keys[i] = k + "2"
			}
		}
	}
	strategy := ""
	switch r.Intn(40) {
	case 0, 1:
		strategy = "none"
	case 2:
		strategy = "standard"
	case 3:
		strategy = r.Pick([]string{"bogus", "None", "\"\"", "~"})
	}
	if !r.Chance(4) {
		d.put("kind", g.decorate(sc20(kind)))
	}
	if !r.Chance(4) {
		d.put("apiVersion", g.decorate(sc20(api)))
	}
	switch {
	case r.Chance(88):
		d.put("metadata", g.decorate(g.metadata(strategy)))
	case r.Chance(30):
		d.put("metadata", sc20(r.Pick([]string{"{}", "~", "x", "[]"})))
	}
	g.sprinkle(d, 2)
	g.shuffle(d)
	if r.Chance(g.comments) {
		d.head = r.Pick(c20Comments)
	}
	if r.Chance(5) {
		g.anchorPass(d)
	}
	return d
}

// anchorPass turns one plain scalar into an anchor and a later one (in emission order) into its alias.
func (g *gen20) anchorPass(d *g20) {
	var nodes []*g20
	var walk func(n *g20)
	walk = func(n *g20) {
		if n.flow {
			return
		}
		switch n.kind {
		case 0:
			if n.block == nil && !strings.HasPrefix(n.text, "!") && n.text != "" {
				nodes = append(nodes, n)
			}
		case 1, 2:
			for _, v := range n.vals {
				walk(v)
			}
		}
	}
	walk(d)
	if len(nodes) < 2 {
		return
	}
	i := g.r.Intn(len(nodes) - 1)
	j := i + 1 + g.r.Intn(len(nodes)-i-1)
	nodes[i].anchor = "a1"
	nodes[j].kind, nodes[j].text = 3, "a1"
}

// ---- streams of same-kind documents from a built-in and a custom API group (UseSchema) ----
// FormatFilter.Filter must look the schema up per document: a custom-group document (no schema) keeps its
// quoted scalars even at positions the built-in schema of the same kind types as integer / boolean, and a
// built-in document gets its YAML 1.1 keywords quoted at string-typed positions, whatever precedes it.

var c20Keywords = []string{"on", "off", "yes", "no", "y", "n", "1", "010", "1e3", "true", "~", "0x1F", "1.5"}
var c20CustomGroups = []string{"fleet.example.com/v1alpha1", "example.com/v1", "apps.example.org/v2"}

func (g *gen20) twinWorkload(kind, api string, custom bool) *g20 {
	r := g.r
	q := func(s string) string { return "\"" + s + "\"" }
	typed := func(plain string) *g20 { // a number / boolean: quoted in the custom document
		if custom && r.Chance(85) {
			return g.decorate(sc20(q(plain)))
		}
		if r.Chance(15) {
			return g.decorate(sc20(q(plain)))
		}
		return g.decorate(sc20(plain))
	}
	str := func() *g20 { // a string position: YAML 1.1 keywords, mostly unquoted in the built-in document
		k := r.Pick(c20Keywords)
		if custom && r.Chance(50) {
			return g.decorate(sc20(q(k)))
		}
		if r.Chance(20) {
			return g.decorate(sc20(r.Pick([]string{"web", "x", "'" + k + "'"})))
		}
		return g.decorate(sc20(k))
	}
	ios := func(num string) *g20 { // an int-or-string position: whatever is written must stay as written
		return g.decorate(sc20(r.Pick([]string{num, q(num), "http", "\"25%\"", "metrics", num, num})))
	}
	frac := func() *g20 { // a number position (float): fractional and integral values, plain and quoted
		v := r.Pick([]string{"0.5", "1.5", "0.25", "10", "1e3", "-0.5", "2", "0.1", ".5"})
		if (custom && r.Chance(60)) || r.Chance(15) {
			v = q(v)
		}
		return g.decorate(sc20(v))
	}
	d := &g20{kind: 1}
	d.put("apiVersion", g.decorate(sc20(api)))
	d.put("kind", g.decorate(sc20(kind)))
	m := &g20{kind: 1}
	m.put("name", g.decorate(sc20(r.Pick([]string{"foo", "bar", "app-1"}))))
	// string-valued maps; several keys are plain scalars YAML 1.1 reads as non-strings (port numbers,
	// booleans): the formatter must leave KEYS alone whatever the schema says about the values
	keysOf := func(base []string) []string {
		ks := append([]string{}, base[:1+r.Intn(len(base))]...)
		amb := []string{"9000", "on", "yes", "010", "1.5", "true", "no", "8080", "off", "1e3"}
		for j := r.Intn(4); j > 0; j-- {
			k := r.Pick(amb)
			dup := false
			for _, x := range ks {
				if keyClass20(x) == keyClass20(k) {
					dup = true
				}
			}
			if !dup {
				ks = append(ks, k)
			}
		}
		for i := len(ks) - 1; i > 0; i-- {
			j := r.Intn(i + 1)
			ks[i], ks[j] = ks[j], ks[i]
		}
		return ks
	}
	l := &g20{kind: 1}
	for _, k := range keysOf([]string{"app", "tier", "enabled"}) {
		l.put(k, str())
	}
	m.put("labels", g.decorate(l))
	if r.Chance(60) {
		a := &g20{kind: 1}
		for _, k := range keysOf([]string{"note", "owner"}) {
			a.put(k, str())
		}
		m.put("annotations", g.decorate(a))
	}
	g.shuffle(m)
	d.put("metadata", g.decorate(m))
	switch kind {
	case "ConfigMap":
		data := &g20{kind: 1}
		for _, k := range keysOf([]string{"a", "b", "flag", "level"}) {
			data.put(k, str())
		}
		d.put("data", g.decorate(data))
	case "Service":
		spec := &g20{kind: 1}
		ps := &g20{kind: 2}
		for j := 1 + r.Intn(2); j > 0; j-- {
			p := &g20{kind: 1}
			p.put("port", typed(r.Pick([]string{"80", "443"})))
			p.put("name", str())
			if r.Chance(80) {
				p.put("targetPort", ios(r.Pick([]string{"8080", "80", "9000"})))
			}
			g.shuffle(p)
			ps.vals = append(ps.vals, p)
		}
		spec.put("ports", g.decorate(ps))
		spec.put("publishNotReadyAddresses", typed(r.Pick([]string{"true", "false"})))
		spec.put("sessionAffinity", str())
		g.shuffle(spec)
		d.put("spec", g.decorate(spec))
	case "CustomResourceDefinition":
		// spec.versions[].schema.openAPIV3Schema.properties.*: number-typed minimum / maximum / multipleOf
		// (fractional values), integer maxLength, boolean exclusiveMinimum, string type / description
		props := &g20{kind: 1}
		for _, pn := range []string{"ratio", "weight", "size"}[:1+r.Intn(3)] {
			pr := &g20{kind: 1}
			pr.put("type", sc20("number"))
			pr.put("minimum", frac())
			if r.Chance(70) {
				pr.put("maximum", frac())
			}
			if r.Chance(50) {
				pr.put("multipleOf", frac())
			}
			if r.Chance(40) {
				pr.put("exclusiveMinimum", typed(r.Pick([]string{"true", "false"})))
			}
			if r.Chance(40) {
				pr.put("maxLength", typed(r.Pick([]string{"10", "64"})))
			}
			if r.Chance(50) {
				pr.put("description", str())
			}
			g.shuffle(pr)
			props.put(pn, g.decorate(pr))
		}
		root := &g20{kind: 1}
		root.put("type", sc20("object"))
		root.put("properties", props)
		sch := &g20{kind: 1}
		sch.put("openAPIV3Schema", root)
		ver := &g20{kind: 1}
		ver.put("name", sc20("v1"))
		ver.put("served", typed("true"))
		ver.put("storage", typed("true"))
		ver.put("schema", sch)
		g.shuffle(ver)
		ver.vals[0].head = ""
		spec := &g20{kind: 1}
		spec.put("group", sc20("example.com"))
		spec.put("scope", sc20("Namespaced"))
		names := &g20{kind: 1}
		names.put("kind", sc20("Widget"))
		names.put("plural", sc20("widgets"))
		spec.put("names", names)
		spec.put("versions", &g20{kind: 2, vals: []*g20{ver}})
		g.shuffle(spec)
		d.put("spec", g.decorate(spec))
	default: // Deployment / StatefulSet
		spec := &g20{kind: 1}
		spec.put("replicas", typed(r.Pick([]string{"3", "1", "0"})))
		if kind == "Deployment" && r.Chance(50) {
			ru := &g20{kind: 1}
			ru.put("maxSurge", ios(r.Pick([]string{"1", "2"})))
			if r.Chance(60) {
				ru.put("maxUnavailable", ios("0"))
			}
			st := &g20{kind: 1}
			st.put("type", sc20("RollingUpdate"))
			st.put("rollingUpdate", ru)
			spec.put("strategy", g.decorate(st))
		}
		if r.Chance(70) {
			spec.put(r.Pick([]string{"paused", "paused"}), typed(r.Pick([]string{"true", "false"})))
		}
		if r.Chance(50) {
			spec.put("minReadySeconds", typed("5"))
		}
		ps := &g20{kind: 1}
		if r.Chance(60) {
			ps.put("hostNetwork", typed(r.Pick([]string{"true", "false"})))
		}
		if r.Chance(50) {
			ps.put("serviceAccountName", str())
		}
		cs := &g20{kind: 2}
		for j, nm := range []string{"b", "a", "c"}[:1+r.Intn(3)] {
			c := &g20{kind: 1}
			c.put("name", sc20(nm))
			c.put("image", sc20("nginx"))
			if r.Chance(70) {
				a := &g20{kind: 2}
				for k := 1 + r.Intn(3); k > 0; k-- {
					a.vals = append(a.vals, str())
				}
				c.put("args", g.decorate(a))
			}
			if r.Chance(60) {
				p := &g20{kind: 1}
				p.put("containerPort", typed(r.Pick([]string{"80", "8080"})))
				c.put("ports", &g20{kind: 2, vals: []*g20{p}})
			}
			if r.Chance(50) {
				e := &g20{kind: 1}
				e.put("name", sc20("E"))
				e.put("value", str())
				c.put("env", &g20{kind: 2, vals: []*g20{e}})
			}
			if r.Chance(40) {
				c.put("tty", typed("true"))
			}
			if r.Chance(40) {
				hg := &g20{kind: 1}
				hg.put("path", sc20("/healthz"))
				hg.put("port", ios(r.Pick([]string{"8080", "80"})))
				pb := &g20{kind: 1}
				pb.put("httpGet", hg)
				pb.put("periodSeconds", typed("10"))
				c.put(r.Pick([]string{"livenessProbe", "readinessProbe"}), pb)
			}
			g.shuffle(c)
			c.vals[0].head = ""
			_ = j
			cs.vals = append(cs.vals, c)
		}
		ps.put("containers", g.decorate(cs))
		if r.Chance(40) {
			ps.put("initContainers", g.decorate(g.keyedList("name", func(i int) [][2]string { return [][2]string{{"image", "busybox"}} })))
		}
		if r.Chance(25) {
			ps.put("volumes", g.decorate(g.keyedList("name", func(i int) [][2]string { return [][2]string{{"emptyDir", "{}"}} })))
		}
		g.shuffle(ps)
		tmpl := &g20{kind: 1}
		tmpl.put("spec", ps)
		spec.put("template", g.decorate(tmpl))
		g.shuffle(spec)
		d.put("spec", g.decorate(spec))
	}
	g.shuffle(d)
	return d
}

// keyClass20: keys that YAML 1.1 reads as the same typed key share a class (one per mapping is generated)
func keyClass20(k string) string {
	switch strings.ToLower(strings.Trim(k, "\"'")) {
	case "on", "yes", "true", "y":
		return "<true>"
	case "off", "no", "false", "n":
		return "<false>"
	case "1e3", "1000", "1_000":
		return "<1000>"
	case "~", "null":
		return "<null>"
	}
	return k
}

func (m *g20) hasKeyClass(k string) bool {
	for _, x := range m.keys {
		if keyClass20(x) == keyClass20(k) {
			return true
		}
	}
	return false
}

func inStrs20(s string, l []string) bool {
	for _, x := range l {
		if x == s {
			return true
		}
	}
	return false
}

// genTwinStream: 2-4 documents of one kind, alternating between the built-in group and a custom group
// (both orders), always formatted with UseSchema.
func genTwinStream(r *Rng) case20 {
	g := &gen20{r: r}
	g.comments = []int{0, 0, 10}[r.Intn(3)]
	ka := [][2]string{{"Deployment", "apps/v1"}, {"StatefulSet", "apps/v1"}, {"ConfigMap", "v1"}, {"Service", "v1"},
		{"Deployment", "apps/v1"}, {"CustomResourceDefinition", "apiextensions.k8s.io/v1"}, {"Service", "v1"}}[r.Intn(7)]
	n := 1 + r.Intn(4)
	customFirst := r.Bool()
	docs := []string{}
	for i := 0; i < n; i++ {
		custom := (i%2 == 0) == customFirst
		if i >= 2 && r.Chance(30) {
			custom = r.Bool()
		}
		api := ka[1]
		if custom {
			api = r.Pick(c20CustomGroups)
		}
		docs = append(docs, g.twinWorkload(ka[0], api, custom).yaml())
	}
	return case20{Yaml: strings.Join(docs, "---\n"), UseSchema: true}
}

func genCase20(r *Rng) case20 {
	if r.Chance(11) {
		return genTwinStream(r)
	}
	g := &gen20{r: r}
	n := 1
	if r.Chance(25) {
		n = 2 + r.Intn(2)
	}
	docs := []string{}
	for i := 0; i < n; i++ {
		docs = append(docs, g.doc().yaml())
	}
	c := case20{Yaml: strings.Join(docs, "---\n")}
	c.UseSchema = r.Chance(30)
	c.Omit = r.Chance(8)
	return c
}
