package main

// C12 core cases: the kyaml calls that Props/C12.v proves total, run in-process on mutated documents;
// the outcome class is compared with the Coq model (Corr/C12.v). A panic here is also an oracle
// violation of the property (class from the recovered stack, like every other failure).

import (
	"fmt"
	"runtime"
	"strings"

	"sigs.k8s.io/kustomize/api/filters/fieldspec"
	"sigs.k8s.io/kustomize/api/filters/filtersutil"
	"sigs.k8s.io/kustomize/api/provider"
	"sigs.k8s.io/kustomize/api/types"
	"sigs.k8s.io/kustomize/kyaml/resid"
	kyaml "sigs.k8s.io/kustomize/kyaml/yaml"
	yaml "sigs.k8s.io/yaml/goyaml.v3"
)

type c12CoreCase struct {
	Op     string   `json:"op"` // lookup | lookupcreate | fieldspec | addprefix | enable | removebuild
	Doc    string   `json:"doc"`
	Path   []string `json:"path,omitempty"`   // lookup / lookupcreate
	Kind   string   `json:"kind,omitempty"`   // lookupcreate: KScalar|KMap|KSeq ; fieldspec: CreateKind ("" = 0)
	FsPath string   `json:"fspath,omitempty"` // fieldspec
	FsKind string   `json:"fskind,omitempty"`
	Create bool     `json:"create,omitempty"`
	Setter string   `json:"setter,omitempty"` // noop | scalar | entry
}

// c12Protect runs f in-process and classifies like the worker does.
func c12Protect(f func() error) (res c12Result) {
	defer func() {
		if r := recover(); r != nil {
			if fres, ok := c12FatalResult(r); ok {
				res = fres
				res.Class = c12Class(res)
				return
			}
			res.Outcome = "panic"
			res.Msg = fmt.Sprint(r)
			res.PType = fmt.Sprintf("%T", r)
			pcs := make([]uintptr, 128)
			n := runtime.Callers(0, pcs)
			fr := runtime.CallersFrames(pcs[:n])
			seen := false
			for {
				fm, more := fr.Next()
				if seen {
					if strings.HasSuffix(fm.Function, "c12Protect") {
						break
					}
					res.Frames = append(res.Frames, fm.Function)
				} else if fm.Function == "runtime.gopanic" {
					seen = true
				}
				if !more {
					break
				}
			}
			res.Class = c12Class(res)
		}
	}()
	if err := f(); err != nil {
		return c12Result{Outcome: "err", Msg: err.Error()}
	}
	return c12Result{Outcome: "ok"}
}

// c12CoreRun performs the call (it may panic).
func c12CoreRun(c c12CoreCase, doc *kyaml.RNode) error {
	switch c.Op {
	case "lookup":
		_, e := doc.Pipe(kyaml.Lookup(c.Path...))
		return e
	case "lookupcreate":
		_, e := doc.Pipe(kyaml.LookupCreate(kyaml.Kind(kindOf(c.Kind)), c.Path...))
		return e
	case "fieldspec":
		var set filtersutil.SetFn
		switch c.Setter {
		case "scalar":
			set = filtersutil.SetScalar("v")
		case "entry":
			set = filtersutil.SetEntry("k", "v", kyaml.NodeTagString)
		default:
			set = func(*kyaml.RNode) error { return nil }
		}
		var ck kyaml.Kind
		if c.Kind != "" {
			ck = kyaml.Kind(kindOf(c.Kind))
		}
		_, e := doc.Pipe(fieldspec.Filter{
			FieldSpec:  types.FieldSpec{Gvk: resid.Gvk{Kind: c.FsKind}, Path: c.FsPath, CreateIfNotPresent: c.Create},
			SetValue:   set,
			CreateKind: ck,
		})
		return e
	case "addprefix", "enable", "removebuild":
		rf := provider.NewDefaultDepProvider().GetResourceFactory()
		r, err := rf.FromBytes([]byte(c.Doc))
		if err != nil {
			return fmt.Errorf("outside-domain: %w", err)
		}
		switch c.Op {
		case "addprefix":
			r.AddNamePrefix(c.FsPath)
		case "enable":
			r.AllowNameChange()
		default:
			r.RemoveBuildAnnotations()
		}
		return nil
	}
	return fmt.Errorf("bad op")
}

func c12CoreExec(c c12CoreCase) (c12Result, *kyaml.RNode) {
	doc, err := kyaml.Parse(c.Doc)
	if err != nil {
		return c12Result{Outcome: "parse-error", Msg: err.Error()}, nil
	}
	return c12Protect(func() error { return c12CoreRun(c, doc) }), doc
}

func c12CoreTerm(c c12CoreCase, cls string) (string, bool) {
	doc, err := kyaml.Parse(c.Doc)
	if err != nil {
		return "", false
	}
	d, ok := coqNode(doc.YNode())
	if !ok {
		return "", false
	}
	var op string
	switch c.Op {
	case "lookup":
		op = "(O12Lookup " + coqStrList(c.Path) + ")"
	case "lookupcreate":
		op = "(O12LookupCreate " + c.Kind + " " + coqStrList(c.Path) + ")"
	case "fieldspec":
		ck := "None"
		if c.Kind != "" {
			ck = "(Some " + c.Kind + ")"
		}
		set := "SNoop"
		switch c.Setter {
		case "scalar":
			set = `(SScalar "v")`
		case "entry":
			set = `(SEntry "k" "v" TStr)`
		}
		op = fmt.Sprintf("(O12FieldSpec (mkFs \"\" \"\" %s %s %s) %s %s)", coqStr(c.FsKind), coqStr(c.FsPath), coqBool(c.Create), ck, set)
	case "addprefix":
		op = "(O12AddPrefix " + coqStr(c.FsPath) + ")"
	case "enable":
		op = "O12Enable"
	case "removebuild":
		op = "O12RemoveBuild"
	}
	return fmt.Sprintf("(mk12 %s %s %s)", op, d, cls), true
}

var c12FsPaths = []string{
	"metadata/name", "metadata/namespace", "metadata/labels", "metadata/annotations", "spec/replicas", "spec/selector/matchLabels",
	"spec/template/metadata/labels", "spec/template/spec/containers[]/image", "spec/template/spec/containers/image",
	"spec/template/spec/containers[]/env[]/valueFrom/configMapKeyRef/name", "spec/template/spec/volumes[]/configMap/name",
	"spec/template/spec/serviceAccountName", "subjects/namespace", "subjects[]/name", "roleRef/name", "rules[]/resourceNames",
	"spec/jobTemplate/spec/template/spec/containers[]/image", "spec/rules[]/http/paths[]/backend/service/name", "data/a", "data",
	"spec/ports[]/port", "spec/volumeClaimTemplates[]/metadata/labels", "items[]/metadata/name", "spec/list[]/value", "spec/ref/name",
}
var c12FsOdd = []string{"", "/", "a//b", "metadata/-", "spec/-/x", "spec/*", "spec/[name=x]/y", "spec/0/x", "metadata/ /name", "metadata/\\/x/y",
	"[]", "metadata/[]", "spec[]/[]", "metadata/name/", "/metadata/name", "metadata/labels/-", "subjects/-", "subjects[]/-", "spec/template/spec/containers/0",
	"metadata/+1", "metadata/-1", "spec/ /", "metadata\\/name", "metadata/labels[]", "subjects/[kind=User]/name", "kind", "metadata"}
var c12OddParts = []string{"-", "*", "[bad]", "-1", " ", "", "+1", "[=]", "[name=main]", "[kind=ServiceAccount]", "0", "1", "7", "[=get]", "-0", "00", "[a=b=c]", " name "}

// seqPaths lists the paths (as Lookup parts) of every sequence in the document.
func seqPaths(n *yaml.Node, prefix []string, out *[][]string) {
	switch n.Kind {
	case yaml.DocumentNode:
		for _, c := range n.Content {
			seqPaths(c, prefix, out)
		}
	case yaml.MappingNode:
		for i := 0; i+1 < len(n.Content); i += 2 {
			k := n.Content[i].Value
			if strings.TrimSpace(k) == "" || kyaml.IsListIndex(k) || k == "-" || k == "*" || kyaml.IsIdxNumber(k) {
				continue
			}
			seqPaths(n.Content[i+1], append(append([]string{}, prefix...), k), out)
		}
	case yaml.SequenceNode:
		*out = append(*out, append([]string{}, prefix...))
		for i, c := range n.Content {
			seqPaths(c, append(append([]string{}, prefix...), fmt.Sprint(i)), out)
		}
	}
}

func c12CoreCases(r *Run, rng *Rng, gen *c12Gen, n int) {
	known := c12KnownClasses()
	kinds := []string{"KScalar", "KMap", "KSeq"}
	for i := 0; i < n; i++ {
		g := rng.Fork()
		docs, _ := gen.genResources(g, fmt.Sprint(g.Intn(3)), false)
		f := &c12File{path: "/doc.yaml", docs: docs, role: "resources"}
		t := &c12Tree{files: []*c12File{f}}
		nm := g.Intn(3)
		for j := 0; j < nm; j++ {
			gen.mutateOnce(g, t)
		}
		if len(f.docs) == 0 {
			continue
		}
		d := f.docs[g.Intn(len(f.docs))]
		c := c12CoreCase{}
		shape := "plain"
		// targeted shape: '-' applied to a list that is emptied / nulled
		if g.Chance(18) {
			var sp [][]string
			seqPaths(d, nil, &sp)
			if len(sp) > 0 {
				p := sp[g.Intn(len(sp))]
				// walk to that sequence and empty it (or null it, or leave it)
				cur := d
				for _, part := range p {
					if cur.Kind == yaml.MappingNode {
						cur = mapGet(cur, part)
					} else if cur.Kind == yaml.SequenceNode {
						var ix int
						fmt.Sscan(part, &ix)
						if ix < len(cur.Content) {
							cur = cur.Content[ix]
						} else {
							cur = nil
						}
					}
					if cur == nil {
						break
					}
				}
				if cur != nil && cur.Kind == yaml.SequenceNode {
					switch g.Intn(3) {
					case 0:
						cur.Content = nil
						shape = "last-on-emptied-list"
					case 1:
						cur.Kind, cur.Tag, cur.Value, cur.Content = yaml.ScalarNode, "!!null", "null", nil
						shape = "last-on-nulled-list"
					default:
						shape = "last-on-list"
					}
					c.Op, c.Path = "lookup", append(append([]string{}, p...), "-")
					if g.Chance(30) {
						c.Path = append(c.Path, g.Pick([]string{"name", "0", "-"}))
					}
					if g.Chance(25) {
						c.Op, c.Kind = "lookupcreate", g.Pick(kinds)
					}
				}
			}
		}
		// the Resource methods that write build annotations, on odd shapes of metadata.annotations
		if c.Op == "" && g.Chance(14) {
			if md := mapGet(d, "metadata"); md != nil && md.Kind == yaml.MappingNode && len(md.Content) > 0 {
				shapes := []*yaml.Node{
					yl(ys("a"), ys("b")), yl(ys("a")), yl(ym(), ym()), ym("", ys("x")), ys("foo"), ynull(), ymss(map[string]string{"a": "b"}),
					yl(yl(), ys("x")), yl(ys(""), ys("y")), yl(), ym(), yi(5), yl(ys("a"), ys("b"), ys("c")),
					ym("internal.config.kubernetes.io/prefixes", ys("q-"), "note", ys("1")), ym("internal.config.kubernetes.io/prefixes", ys("q-")),
					ym("a", ym("b", ys("c"))), yl(ym("k", ys("v")), ys("x")), nil,
				}
				sh := shapes[g.Intn(len(shapes))]
				if sh != nil {
					mapSet(md, "annotations", copyNode(sh))
				}
				if g.Chance(15) { // a second annotations field
					md.Content = append(md.Content, ys("annotations"), copyNode(shapes[g.Intn(len(shapes)-1)]))
				}
				c.Op = g.Pick([]string{"addprefix", "addprefix", "enable", "removebuild", "removebuild"})
				c.FsPath = g.Pick([]string{"p-", "p-", "", "a,b"})
				shape = "build-annotation-methods"
			}
		}
		b, err := encodeDocs([]*yaml.Node{d})
		if err != nil {
			r.Meta.Skipped++
			continue
		}
		c.Doc = string(b)
		if c.Op == "" {
			switch g.Intn(10) {
			case 0, 1, 2:
				c.Op = "lookup"
			case 3, 4:
				c.Op, c.Kind = "lookupcreate", g.Pick(kinds)
			default:
				c.Op = "fieldspec"
			}
			if c.Op == "fieldspec" {
				c.FsPath = g.Pick(c12FsPaths)
				if g.Chance(25) {
					c.FsPath = g.Pick(c12FsOdd)
				} else if g.Chance(15) {
					parts := strings.Split(c.FsPath, "/")
					parts[g.Intn(len(parts))] = g.Pick(c12OddParts)
					c.FsPath = strings.Join(parts, "/")
				}
				c.Create = g.Chance(50)
				if g.Chance(70) {
					c.Kind = g.Pick(kinds)
				}
				c.Setter = g.Pick([]string{"noop", "scalar", "scalar", "entry"})
				if g.Chance(15) {
					if k := mapGet(d, "kind"); k != nil && g.Chance(70) {
						c.FsKind = k.Value
					} else {
						c.FsKind = "Deployment"
					}
				}
			} else {
				base := strings.Split(g.Pick(c12FieldPaths), ".")
				if g.Chance(35) {
					base[g.Intn(len(base))] = g.Pick(c12OddParts)
				}
				if g.Chance(20) {
					base = append(base, g.Pick(c12OddParts))
				}
				if g.Chance(10) {
					base = base[:g.Intn(len(base)+1)]
				}
				c.Path = base
			}
		}
		if c.Op == "fieldspec" && !c12FieldspecInDomain(c.Doc) {
			// fieldspec.Filter wraps errors with resid.FromRNode(obj) and reads kind/apiVersion through
			// isMatchGVK: both are outside the fs_filter model when the root is not a mapping or
			// metadata is not a mapping (same restriction as the C14 correspondence)
			r.Meta.Skipped++
			r.Count("core_skipped", "fieldspec-root-or-metadata-not-a-mapping")
			continue
		}
		res, _ := c12CoreExec(c)
		if res.Outcome == "err" && strings.HasPrefix(res.Msg, "outside-domain:") || (shape == "build-annotation-methods" && !c12BuildAnnotDomain(c.Doc)) {
			r.Meta.Skipped++
			r.Count("core_skipped", "build-annotation-methods: resource rejected at load / metadata not a non-empty mapping")
			continue
		}
		if res.Outcome == "parse-error" {
			r.Meta.Skipped++
			r.Count("core_skipped", "parse-error")
			continue
		}
		cls := map[string]string{"ok": ClsOk, "err": ClsErr, "panic": ClsPanic}[res.Outcome]
		term, ok := c12CoreTerm(c, cls)
		if !ok {
			r.Meta.Skipped++
			r.Count("core_skipped", "unrepresentable")
			continue
		}
		r.Count("core_op", c.Op)
		r.Count("core_class", c.Op+":"+cls)
		r.Count("core_shape", shape)
		r.AddCase(term, c, res.Outcome != "ok" || nm > 0)
		if res.Outcome == "panic" {
			r.Count("failure_class", res.Class)
			c12Reported[res.Class]++
			if c12Reported[res.Class] <= 3 || !known[res.Class] && c12Reported[res.Class] <= 6 {
				r.Violation(OracleViolation{Law: "no_panic_exit_hang", Class: res.Class,
					Detail: fmt.Sprintf("kyaml core call %s path=%v fspath=%q panicked: %s; frames=%v", c.Op, c.Path, c.FsPath, res.Msg, firstN(res.Frames, 8)),
					Replay: c12Case{Kind: "core", Core: &c}})
			}
		}
	}
}

func firstN(l []string, n int) []string {
	if len(l) > n {
		return l[:n]
	}
	return l
}

// c12BuildAnnotDomain: root mapping whose FIRST metadata field is a non-empty mapping (Res/BuildAnnot.v in_domain)
func c12BuildAnnotDomain(docText string) bool {
	doc, err := kyaml.Parse(docText)
	if err != nil || doc.YNode() == nil || doc.YNode().Kind != kyaml.MappingNode {
		return false
	}
	y := doc.YNode()
	for i := 0; i+1 < len(y.Content); i += 2 {
		if y.Content[i].Value == "metadata" {
			v := y.Content[i+1]
			return v.Kind == kyaml.MappingNode && len(v.Content) > 0
		}
	}
	return false
}

// c12FieldspecInDomain: the document root is a mapping and metadata, when present, is a mapping or null.
func c12FieldspecInDomain(docText string) bool {
	doc, err := kyaml.Parse(docText)
	if err != nil || doc.YNode() == nil || doc.YNode().Kind != kyaml.MappingNode {
		return false
	}
	y := doc.YNode()
	for i := 0; i+1 < len(y.Content); i += 2 {
		if y.Content[i].Value == "metadata" {
			v := y.Content[i+1]
			if v.Kind != kyaml.MappingNode && v.Tag != kyaml.NodeTagNull {
				return false
			}
		}
	}
	return true
}
