package main

import (
	"bytes"
	"encoding/json"
	"fmt"
	"os"
	"os/exec"
	"path/filepath"
	"regexp"
	"sort"
	"strings"
	"time"

	"sigs.k8s.io/kustomize/kyaml/openapi"
)

// C16 runtime search: concurrent default-schema builds under the Go race detector.

type c16RaceTree struct {
	Files map[string]string `json:"files"`
	Root  string            `json:"root"`
}
type c16RaceRound struct {
	Trees      []c16RaceTree `json:"trees"`
	GoMaxProcs int           `json:"gomaxprocs"`
	Repeat     int           `json:"repeat"`
	DelayMs    []int         `json:"delay_ms,omitempty"`
}

// c16Files renders the tree of c16.go as a path -> content map (for the separate -race process).
func (t *c16Tree) files(schemas []c16Schema) map[string]string {
	fs := t.fs(schemas)
	out := map[string]string{}
	_ = fs.Walk("/t", func(p string, info os.FileInfo, err error) error {
		if err != nil || info.IsDir() {
			return nil
		}
		b, e := fs.ReadFile(p)
		if e == nil {
			out[p] = string(b)
		}
		return nil
	})
	return out
}

// genRaceTree16: a default-schema tree that exercises the shared state of a build:
//   - kinds outside the precomputed namespace table (IsNamespaceScoped falls through to the unlocked map read);
//   - a strategic-merge patch (SchemaForResourceType -> initSchema); with wantDeployment the patch is on a built-in
//     kind whose containers list merges by key only when the built-in schema is actually loaded, so a build that
//     sees a half-initialised schema produces a different output;
//   - with cfgTag != "": a `configurations:` file adding custom field specs (unique paths per tree) for the CRD kinds,
//     plus the directives that use them — every build then appends to its copy of the process-global default
//     transformer configuration, so a shared backing array shows up as a race and as foreign field specs.
//
// size = number of extra resources: trees of different sizes reach initSchema at different moments.
func genRaceTree16(g *Rng, explicitVersion bool, size int, cfgTag string, wantDeployment, builtinOnly bool) *c16Tree {
	t := genTree16(g, 0, true)
	if builtinOnly {
		// only kinds of the precomputed namespace table: such a build never takes schemaLock before its first
		// initSchema(), so nothing serialises it behind another build's schema initialisation
		t = &c16Tree{Schema: -1, BaseSchema: -1, Namespace: g.Chance(85),
			Res: []c16Res{{Kind: "ConfigMap", Name: "tc"}}}
		wantDeployment = true
	}
	if !explicitVersion {
		t.Ver, t.BaseVer = nil, nil
	} else {
		t.Ver = strp("v1.21.2")
	}
	hasCRD := builtinOnly
	for _, r := range t.allRes() {
		if r.Kind == "Foo" || r.Kind == "Bar" {
			hasCRD = true
		}
	}
	if !hasCRD {
		t.Res = append(t.Res, c16Res{Kind: g.Pick([]string{"Foo", "Bar"}), Name: "tx"})
	}
	if wantDeployment {
		t.Res = append(t.Res, c16Res{Kind: "Deployment", Name: "td"})
		t.Patches = append(t.Patches, "td")
	}
	if len(t.Patches) == 0 {
		for _, r := range t.allRes() {
			if _, ok := c16MkPath[r.Kind]; ok {
				t.Patches = append(t.Patches, r.Name)
				break
			}
		}
	}
	for i := 0; i < size; i++ {
		kinds := []string{"ConfigMap", "Deployment", "Foo", "Bar", "Foo"}
		if builtinOnly {
			kinds = []string{"ConfigMap", "Deployment", "ConfigMap"}
		}
		t.Res = append(t.Res, c16Res{Kind: g.Pick(kinds), Name: fmt.Sprintf("tz%d", i)})
	}
	// generated ConfigMaps / Secrets with content-hash name suffixes: the hasher runs in every build
	ng := 2 + g.Intn(4)
	for i := 0; i < ng; i++ {
		gn := c16Gen{Secret: g.Chance(40), Name: fmt.Sprintf("g%d", i)}
		nl := 1 + g.Intn(3)
		for j := 0; j < nl; j++ {
			gn.Lits = append(gn.Lits, fmt.Sprintf("k%d=v%d-%d-%d", j, g.Intn(1000000), i, j))
		}
		t.Gens = append(t.Gens, gn)
	}
	if cfgTag != "" {
		kinds := []string{}
		for _, k := range []string{"Foo", "Bar", "ConfigMap"} {
			if (k == "ConfigMap") != builtinOnly {
				continue
			}
			for _, r := range t.allRes() {
				if r.Kind == k {
					kinds = append(kinds, k)
					break
				}
			}
		}
		dirs := []string{"namespace", "labels", "templatelabels", "annotations", "prefix", "suffix", "images", "replicas"}
		n := 1 + g.Intn(4)
		used := map[string]bool{}
		for i := 0; i < n; i++ {
			d := g.Pick(dirs)
			if i == 0 && g.Chance(50) {
				d = "namespace"
			}
			k := g.Pick(kinds)
			if used[d+k] {
				continue
			}
			used[d+k] = true
			t.Cfg = append(t.Cfg, c16CfgSpec{Dir: d, Kind: k, Field: fmt.Sprintf("%s%s%d", d[:2], cfgTag, i)})
		}
		if t.hasCfg("namespace") {
			t.Namespace = true
		}
	}
	return t
}

var (
	c16RaceHdr   = regexp.MustCompile(`^(Read|Write|Previous read|Previous write|Atomic read|Atomic write|Previous atomic read|Previous atomic write) at 0x[0-9a-f]+ by (goroutine \d+|main goroutine):`)
	c16RaceFrame = regexp.MustCompile(`^  ([^\s].*)\(\)$`)
)

type c16RaceReport struct {
	Pair  string   // normalised "<read|write>:<function>|<read|write>:<function>"
	Funcs []string // the two access functions
	Text  string
}

// c16ParseRaces extracts the data-race reports from the race detector's stderr output.
func c16ParseRaces(stderr string) []c16RaceReport {
	out := []c16RaceReport{}
	for _, blk := range strings.Split(stderr, "==================") {
		if !strings.Contains(blk, "WARNING: DATA RACE") {
			continue
		}
		lines := strings.Split(blk, "\n")
		var accs []string
		for i := 0; i < len(lines); i++ {
			m := c16RaceHdr.FindStringSubmatch(lines[i])
			if m == nil {
				continue
			}
			kind := "read"
			if strings.Contains(strings.ToLower(m[1]), "write") {
				kind = "write"
			}
			// the access is attributed to the innermost kustomize frame (reads through reflect / jsonpointer and
			// runtime map helpers are attributed to the kustomize function that made them)
			fn, fallback := "", "?"
			for j := i + 1; j < len(lines) && strings.TrimSpace(lines[j]) != ""; j++ {
				fm := c16RaceFrame.FindStringSubmatch(lines[j])
				if fm == nil {
					continue
				}
				if strings.HasPrefix(fm[1], "sigs.k8s.io/kustomize/") {
					fn = fm[1]
					break
				}
				if fallback == "?" && !strings.HasPrefix(fm[1], "runtime.") && !strings.HasPrefix(fm[1], "internal/") {
					fallback = fm[1]
				}
			}
			if fn == "" {
				fn = fallback
			}
			accs = append(accs, kind+":"+fn)
		}
		if len(accs) < 2 {
			accs = append(accs, "?", "?")
		}
		pair := []string{accs[0], accs[1]}
		sort.Strings(pair)
		out = append(out, c16RaceReport{Pair: strings.Join(pair, "|"), Funcs: pair, Text: strings.TrimSpace(blk)})
	}
	return out
}

const (
	c16OpenapiPkg = "sigs.k8s.io/kustomize/kyaml/openapi."
	c16MapFatal   = "C16/fatal-concurrent-map-access"
)

// c16RaceClass: no race pair is listed any more — both confirmed races are repaired in /repo (db2770f: read lock in
// IsNamespaceScoped; 5e76c27: SetSchema keeps the parsed schema when the built-in version in use is selected again).
// Every reported pair keeps a class that names the function pair (unlisted => VIOLATION), also in rounds that
// contain trees spelling out `openapi: version: <default>`.
func c16RaceClass(rep c16RaceReport, explicitVersion bool) string {
	return "C16/race:" + rep.Pair
}

func c16RaceBinary() (string, string, error) {
	root := verifRoot()
	bin := filepath.Join(root, ".build", "c16race")
	args := []string{"build", "-race", "-o", bin}
	// a scratch copy of the repository (VERIF_REPO): ./check has written the module file with the redirected replaces
	if repo := os.Getenv("VERIF_REPO"); repo != "" && repo != "/repo" {
		alt := filepath.Join(root, ".build", "alt.go.mod")
		if _, err := os.Stat(alt); err == nil {
			args = append(args, "-modfile", alt)
		}
	}
	cmd := exec.Command("go", append(args, "./c16race")...)
	cmd.Dir = filepath.Join(root, "harness")
	env := []string{}
	for _, e := range os.Environ() {
		if !strings.HasPrefix(e, "CGO_ENABLED=") {
			env = append(env, e)
		}
	}
	cmd.Env = append(env, "CGO_ENABLED=1", "GOFLAGS=-mod=mod", "GOPROXY=off", "GOSUMDB=off", "GOTOOLCHAIN=local", "GOWORK=off")
	out, err := cmd.CombinedOutput()
	return bin, string(out), err
}

type c16RaceJob struct {
	Rounds   []c16RaceRound `json:"rounds"`
	Explicit []bool         `json:"explicit"` // per round: contains a tree with an explicit default version
	Alone    [][]string     `json:"alone"`    // per round, per tree: output of the tree built alone (fresh state)
}

// c16RunRace runs one driver process over the job; returns per round outputs, stderr, error text.
func c16RunRace(bin string, job c16RaceJob, timeout time.Duration) ([][][]string, string, string) {
	in, _ := json.Marshal(map[string]interface{}{"rounds": job.Rounds})
	cmd := exec.Command(bin)
	cmd.Env = append(os.Environ(), "GORACE=halt_on_error=0 exitcode=0 history_size=3")
	cmd.Stdin = bytes.NewReader(in)
	var so, se bytes.Buffer
	cmd.Stdout, cmd.Stderr = &so, &se
	if err := cmd.Start(); err != nil {
		return nil, "", err.Error()
	}
	done := make(chan error, 1)
	go func() { done <- cmd.Wait() }()
	var werr error
	select {
	case werr = <-done:
	case <-time.After(timeout):
		_ = cmd.Process.Kill()
		<-done
		return nil, se.String(), "timeout"
	}
	var outs [][][]string
	if err := json.Unmarshal(so.Bytes(), &outs); err != nil {
		msg := "driver produced no result"
		if werr != nil {
			msg += ": " + werr.Error()
		}
		return nil, se.String(), msg
	}
	return outs, se.String(), ""
}

// c16Alone builds the tree alone, in this (non-race) process, from a reset state.
func c16Alone(t *c16Tree) string {
	openapi.ResetOpenAPI()
	cls, msg, out := c16Build(t, nil)
	switch cls {
	case ClsOk:
		return out
	case ClsErr:
		return "ERR: " + msg
	default:
		return "PANIC: " + msg
	}
}

// c16RaceSpec is the replayable description of a job: rounds of trees.
type c16RaceSpec struct {
	Rounds []c16RaceSpecRound `json:"rounds"`
}
type c16RaceSpecRound struct {
	Trees      []*c16Tree `json:"trees"`
	GoMaxProcs int        `json:"gomaxprocs"`
	Repeat     int        `json:"repeat"`
	DelayMs    []int      `json:"delay_ms,omitempty"` // per tree: pause before each of its builds
}

// c16JobOf renders a spec for the driver and builds every tree alone (fresh state, this process).
func c16JobOf(spec c16RaceSpec) c16RaceJob {
	job := c16RaceJob{}
	for _, sr := range spec.Rounds {
		rd := c16RaceRound{GoMaxProcs: sr.GoMaxProcs, Repeat: sr.Repeat, DelayMs: sr.DelayMs}
		explicit := false
		var alone []string
		for _, t := range sr.Trees {
			if t.Ver != nil || t.BaseVer != nil {
				explicit = true
			}
			rd.Trees = append(rd.Trees, c16RaceTree{Files: t.files(nil), Root: "/t"})
			alone = append(alone, c16Alone(t))
		}
		job.Rounds = append(job.Rounds, rd)
		job.Explicit = append(job.Explicit, explicit)
		job.Alone = append(job.Alone, alone)
	}
	openapi.ResetOpenAPI()
	return job
}

// c16GenRaceSpec: one driver process.
//
//	round 0 runs in the COLD process (no reset, nothing has touched the schema yet): 6-10 small trees of the same
//	        size, each with a patched built-in Deployment and (most) a custom transformer configuration — they reach
//	        initSchema within the same few milliseconds;
//	round 1 has the shape that makes the unlocked namespace-map read overlap with another build's initSchema:
//	        one small tree, the others large;
//	further rounds are random mixes of 2..16 trees.
func c16GenRaceSpec(g *Rng, rounds int, explicit, unknownVer bool, tag string) c16RaceSpec {
	spec := c16RaceSpec{}
	for i := 0; i < rounds; i++ {
		n := 4 + g.Intn(13)
		rd := c16RaceSpecRound{GoMaxProcs: []int{4, 8, 16}[g.Intn(3)], Repeat: 2 + g.Intn(2)}
		switch i {
		case 0:
			n = 6 + g.Intn(5)
			rd.GoMaxProcs = []int{8, 16}[g.Intn(2)]
			// twice in a row: the second iteration calls SetSchema again while other builds are past their initSchema()
			// (a SetSchema that invalidates the parsed schema for default builds then races with their unlocked reads)
			rd.Repeat = 2
		case 1:
			n = 3 + g.Intn(4)
			rd.GoMaxProcs = []int{4, 8, 16}[g.Intn(3)]
			rd.Repeat = 1
		case 2:
			// many medium trees, each built three times in a row: later iterations call SetSchema again while other
			// builds are past their own initSchema() (the shape that exposes re-initialisation)
			n = 12 + g.Intn(5)
			rd.GoMaxProcs = 16
			rd.Repeat = 3
		}
		for k := 0; k < n; k++ {
			size := g.Intn(8)
			switch {
			case i == 0:
				size = g.Intn(12)
			case i == 1 && k > 0:
				size = 20 + g.Intn(30)
			case i == 2:
				size = 3 + g.Intn(4)
			case i > 1 && g.Chance(30):
				size = 10 + g.Intn(25)
			}
			cfgTag := ""
			if g.Chance(75) {
				cfgTag = fmt.Sprintf("%sr%dk%d", tag, i, k)
			}
			t := genRaceTree16(g.Fork(), explicit && (k%2 == 1), size, cfgTag, g.Chance(50), i == 0)
			// mixed sets: some builds FAIL inside MakeCustomizedResMap (missing resource file, patch without target)
			// while the others are in the middle of their strategic merges — a failing build must not disturb them
			if (i == 0 && k > 0 && g.Chance(30)) || (i > 0 && g.Chance(12)) || (i == 2 && unknownVer && g.Chance(25)) {
				kinds := []string{"missing-file", "bad-patch"}
				if unknownVer {
					// only in designated processes: such a round is where the known finding
					// C16/concurrent-build-disturbed-by-unknown-openapi-version shows, and it must not mask other rounds
					kinds = []string{"unknown-version", "missing-file", "unknown-version"}
				}
				t.Fail = g.Pick(kinds)
				if t.Fail == "unknown-version" {
					// rejected by SetSchema itself (before MakeCustomizedResMap): must leave the parsed schema alone too.
					// Such a build is over within a millisecond; in the repeated round (2) it arrives late and staggered (pause
					// before each of its runs) so that the rejection lands while the other builds are past their
					// initSchema(); in the cold rounds it starts with the others (where the known finding shows)
					t.Fail = ""
					t.Ver = strp("v9.9.9")
					if i == 2 {
						for len(rd.DelayMs) < k {
							rd.DelayMs = append(rd.DelayMs, 0)
						}
						rd.DelayMs = append(rd.DelayMs, 150+g.Intn(900))
					}
				}
			}
			rd.Trees = append(rd.Trees, t)
		}
		spec.Rounds = append(spec.Rounds, rd)
	}
	return spec
}

// c16EvalRace turns one driver run into violations.
func c16EvalRace(r *Run, spec c16RaceSpec, job c16RaceJob, outs [][][]string, stderr, errText string) {
	anyExplicit := false
	for _, e := range job.Explicit {
		anyExplicit = anyExplicit || e
	}
	replay := func() interface{} { return map[string]interface{}{"kind": "race", "spec": spec} }
	if strings.Contains(stderr, "fatal error: concurrent map") || (errText != "" && errText != "timeout") {
		// the driver process died. Which round? the one after the last ROUND-END marker
		crashed := strings.Count(stderr, "C16RACE-ROUND-END ")
		explicitRound := crashed < len(job.Explicit) && job.Explicit[crashed]
		digest := c16CrashDigest(stderr)
		cls := "C16/race-driver-failed"
		if strings.Contains(stderr, "fatal error: concurrent map") {
			cls = c16MapFatal
			digest = "the Go runtime aborted the process: " + firstLines(stderr[strings.Index(stderr, "fatal error: concurrent map"):], 14)
		}
		_ = explicitRound
		r.Count("race_process_crash", cls)
		r.Violation(OracleViolation{Law: "no_data_race", Class: cls, Detail: errText + "\n" + digest, Replay: replay()})
	}
	// race reports: attribute to rounds by the ROUND-END markers
	seg := strings.Split(stderr, "C16RACE-ROUND-END ")
	for ri, s := range seg {
		explicit := anyExplicit
		if ri < len(job.Explicit) {
			explicit = job.Explicit[ri]
		}
		for _, rep := range c16ParseRaces(s) {
			cls := c16RaceClass(rep, explicit)
			r.Count("race_pairs", rep.Pair)
			r.Violation(OracleViolation{Law: "no_data_race", Class: cls, Detail: rep.Pair + "\n" + c16RaceDigest(rep.Text), Replay: replay()})
		}
	}
	// results: every concurrent output equals the output of the tree built alone
	for ri := range outs {
		for ti := range outs[ri] {
			for _, o := range outs[ri][ti] {
				r.AddEval(fmt.Sprintf("race-%d-%d-%s", ri, ti, job.Alone[ri][ti]), true)
				if o != job.Alone[ri][ti] {
					r.Count("concurrent_result", "differs")
					// no shape is listed any more: the former finding C16/concurrent-build-disturbed-by-unknown-openapi-version
					// (SetSchema stored an unknown version before rejecting it) is repaired in /repo 7964400; rounds with
					// unknown-version builds stay as regression input
					cls := "C16/concurrent-result-differs"
					r.Violation(OracleViolation{Law: "concurrent_equals_alone", Class: cls,
						Detail: fmt.Sprintf("round %d tree %d: concurrent output differs from the output of the tree built alone\n--- alone\n%s\n--- concurrent\n%s", ri, ti, job.Alone[ri][ti], o),
						Replay: replay()})
				} else {
					r.Count("concurrent_result", "equal")
				}
			}
		}
	}
}

// c16RaceDigest keeps the header and the first frames of both access stacks of a report.
func c16RaceDigest(text string) string {
	lines := strings.Split(text, "\n")
	var out []string
	keep := 0
	for _, l := range lines {
		if c16RaceHdr.MatchString(l) {
			keep = 13
		}
		if strings.HasPrefix(l, "Goroutine ") {
			break
		}
		if keep > 0 {
			out = append(out, l)
			keep--
		}
	}
	return strings.Join(out, "\n")
}

// c16CrashDigest: the lines of a crashed driver's stderr that say what happened (not the race reports, not registers).
func c16CrashDigest(stderr string) string {
	var out []string
	for _, l := range strings.Split(stderr, "\n") {
		if strings.HasPrefix(l, "fatal error:") || strings.HasPrefix(l, "panic:") || strings.Contains(l, "SIG") ||
			strings.HasPrefix(l, "runtime:") || strings.Contains(l, "ThreadSanitizer") || strings.HasPrefix(l, "goroutine ") && strings.Contains(l, "[running]") {
			out = append(out, l)
		}
	}
	if len(out) > 25 {
		out = out[:25]
	}
	i := strings.Index(stderr, "[running]")
	if i >= 0 {
		out = append(out, firstLines(stderr[i:], 25))
	}
	if len(out) == 0 {
		return lastLines(stderr, 25)
	}
	return strings.Join(out, "\n")
}

func firstLines(s string, n int) string {
	l := strings.Split(s, "\n")
	if len(l) > n {
		l = l[:n]
	}
	return strings.Join(l, "\n")
}
func lastLines(s string, n int) string {
	l := strings.Split(s, "\n")
	if len(l) > n {
		l = l[len(l)-n:]
	}
	return strings.Join(l, "\n")
}

func c16RaceSearch(r *Run, g *Rng, procs int, tier string) error {
	bin, blog, err := c16RaceBinary()
	if err != nil {
		// without the -race binary the search cannot run: that is a broken check, not a pass
		return fmt.Errorf("go build -race ./c16race failed: %v\n%s", err, blog)
	}
	specs := loadRaceCorpus16()
	r.Count("race_corpus_jobs", fmt.Sprint(len(specs)))
	for p := 0; p < procs; p++ {
		// the race detector reports a given pair of stacks once per process: many short processes
		// processes whose trees spell out the default version get a third, random-mix round with repetitions: the
		// re-initialisation race needs builds that are past their own initSchema() while another one re-arms it
		explicit := p%3 == 2
		// never both in one process: a stored unknown version followed by an explicit valid one re-arms initSchema on
		// the unchanged tree (a consequence of the known finding) and would show up as an unlisted race pair
		unknownVer := p%4 == 1 && !explicit
		nr := 2
		if explicit || unknownVer {
			nr = 3 // also for the unknown-version process: rejected SetSchema calls keep arriving while others are mid-merge
		}
		specs = append(specs, c16GenRaceSpec(g.Fork(), nr, explicit, unknownVer, fmt.Sprintf("p%d", p)))
	}
	budget, perProc := 75*time.Second, 60*time.Second
	if tier == "thorough" {
		budget, perProc = 13*time.Minute, 240*time.Second
	}
	t0 := time.Now()
	for si, spec := range specs {
		if time.Since(t0) > budget {
			// a slow implementation / loaded machine must not blow the check's budget: the remaining processes are not run
			r.Count("race_process", "not-run-time-budget")
			r.Meta.Notes = append(r.Meta.Notes, fmt.Sprintf("race search stopped after %d of %d processes: wall-time budget %v used up", si, len(specs), budget))
			break
		}
		r.Count("race_process", "run")
		job := c16JobOf(spec)
		for ri, rd := range job.Rounds {
			r.Count("race_round_trees", fmt.Sprint(len(rd.Trees)))
			r.Count("race_round_gomaxprocs", fmt.Sprint(rd.GoMaxProcs))
			for ti, a := range job.Alone[ri] {
				switch {
				case strings.HasPrefix(a, "ERR: "):
					r.Count("race_tree_alone", "error")
					if os.Getenv("VERIF_C16_DEBUG") != "" {
						fmt.Fprintln(os.Stderr, "alone error:", a, spec.Rounds[ri].Trees[ti].Cfg)
					}
				case strings.HasPrefix(a, "PANIC: "):
					r.Count("race_tree_alone", "panic")
				default:
					r.Count("race_tree_alone", "ok")
				}
				for _, c := range spec.Rounds[ri].Trees[ti].Cfg {
					r.Count("race_tree_cfg", c.Dir)
				}
				if f := spec.Rounds[ri].Trees[ti].Fail; f != "" {
					r.Count("race_tree_fail", f)
				}
				if len(spec.Rounds[ri].Trees[ti].Cfg) == 0 {
					r.Count("race_tree_cfg", "none")
				}
			}
		}
		outs, stderr, errText := c16RunRace(bin, job, perProc)
		if errText != "" && errText != "timeout" && !strings.Contains(stderr, "fatal error: concurrent map") {
			// the driver died without the runtime naming a reason: run the same job again (twice); only a death that
			// repeats is reported, a single unexplained one is recorded as a note (flakiness control)
			again := 0
			for k := 0; k < 2; k++ {
				o2, s2, e2 := c16RunRace(bin, job, perProc)
				if e2 != "" && e2 != "timeout" {
					again++
					stderr = s2
				} else if again == 0 {
					outs, stderr, errText = o2, s2, e2
					break
				}
			}
			if again == 0 {
				r.Count("race_process", "crashed-once-not-reproduced")
				r.Meta.Notes = append(r.Meta.Notes, "a race-driver process died once without a runtime message and ran through when repeated")
			}
		}
		if errText == "timeout" {
			// not a violation by itself; the race reports printed so far are still evaluated
			r.Count("race_process", "killed-after-timeout")
			errText = ""
		}
		c16EvalRace(r, spec, job, outs, stderr, errText)
	}
	return nil
}

func loadRaceCorpus16() []c16RaceSpec {
	out := []c16RaceSpec{}
	data, err := os.ReadFile(verifRoot() + "/corpus/C16/race-witness.json")
	if err != nil {
		return out
	}
	_ = json.Unmarshal(data, &out)
	return out
}

// ---------------------------------------------------------------- replay

func replayC16(path string) (bool, string, error) {
	data, err := os.ReadFile(path)
	if err != nil {
		return false, "", err
	}
	var rp struct {
		Cls  string          `json:"cls"`
		Case json.RawMessage `json:"case"`
	}
	if err := json.Unmarshal(data, &rp); err != nil {
		return false, "", err
	}
	var kind struct {
		Kind string      `json:"kind"`
		Spec c16RaceSpec `json:"spec"`
	}
	_ = json.Unmarshal(rp.Case, &kind)
	if kind.Kind == "race" {
		bin, blog, err := c16RaceBinary()
		if err != nil {
			return false, blog, err
		}
		r := NewRun("C16", "replay", 0, "", "")
		var detail strings.Builder
		job := c16JobOf(kind.Spec)
		for attempt := 0; attempt < 8 && len(r.Meta.Violations) == 0; attempt++ {
			outs, stderr, errText := c16RunRace(bin, job, 240*time.Second)
			c16EvalRace(r, kind.Spec, job, outs, stderr, errText)
			fmt.Fprintf(&detail, "attempt %d: %d race reports, driver error %q\n", attempt+1, len(c16ParseRaces(stderr)), errText)
		}
		for _, v := range r.Meta.Violations {
			fmt.Fprintf(&detail, "class=%s law=%s\n%s\n", v.Class, v.Law, firstLines(v.Detail, 30))
		}
		return len(r.Meta.Violations) > 0, detail.String(), nil
	}
	// a state-machine sequence: re-run it and print what the implementation does
	var seq c16Seq
	if err := json.Unmarshal(rp.Case, &seq); err != nil {
		return false, "", err
	}
	res := c16Exec(seq, false)
	var b strings.Builder
	for i, st := range res.Steps {
		fmt.Fprintf(&b, "step %d %s: class=%s msg=%q a=%v b=%v found=%v desc=%q str=%q\n  snap=%+v\n", i, seq.Ops[i].K, st.Class, st.Msg, st.A, st.B, st.Found, st.Desc, st.Str, st.Snap)
		if st.Out != "" {
			fmt.Fprintf(&b, "  output:\n%s\n", st.Out)
		}
	}
	term, err := c16CaseTerm(seq, res)
	if err == nil {
		fmt.Fprintf(&b, "Coq case term:\n%s\n", term)
	}
	// judged without the model: facts about the API every sequence must satisfy
	bad := c16Expect(seq, res)
	for _, e := range bad {
		fmt.Fprintf(&b, "EXPECTATION VIOLATED: %s\n", e)
	}
	return len(bad) > 0, b.String(), nil
}
