package main

import (
	"encoding/json"
	"fmt"
	"os"
	"runtime"
	"strings"
)

// C01, state half ("C01S"): a build's output does not depend on the builds that ran earlier in the process.
//   search: T alone vs T after a history H of 0-4 other builds (custom schemas included), byte comparison of
//           ResMap.AsYaml / the error text; in-process repetitions (ResetOpenAPI between them) and fresh processes;
//   correspondence: the state-machine model predicts exactly when the revealed answers of T change.
// The coordinator folds this into C01 (the other half is map-iteration-order independence).

func init() {
	register("C01S", propDef{
		header:     "From KV Require Import Corr.C01S.\nOpen Scope string_scope.\n",
		caseType:   "case01s",
		mismatchFn: "mismatches01s",
		run:        runC01S,
		replay:     replayC01S,
	})
}

type c01Case struct {
	Schemas []c16Schema `json:"schemas"`
	H       []*c16Tree  `json:"h"`
	T       *c16Tree    `json:"t"`
	// extra repetitions of T at the end of the in-process sequence (every one must give the same bytes): for schemas
	// in which two stored definitions claim the same group/version/kind, where a result that depends on Go's randomised
	// map iteration order only shows after many runs
	Reps int `json:"reps,omitempty"`
}

const (
	c01LeakCustom  = "C01/history-leak-after-custom-schema"
	c01LeakBuiltin = "C01/history-leak-builtin-into-custom-schema-build"
)

func c01HasCustom(t *c16Tree) bool { return t.Schema >= 0 || (t.HasBase && t.BaseSchema >= 0) }

// genTwoCustom01: histories with two DISTINCT custom schemas where T's output depends on something only its own
// schema defines: T installs schema #2, which gives a CRD list a merge key; an earlier build installed schema #1
// and made it load. (A SetSchema that forgets to re-arm initSchema when one custom schema replaces another leaves
// schema #2 unparsed: T alone merges the list, T after H replaces it.)
func genTwoCustom01(g *Rng) c01Case {
	c := c01Case{}
	kind := g.Pick([]string{"Foo", "Bar"})
	definesWithKey := func(s c16Schema) bool {
		if !s.Valid {
			return false
		}
		for _, d := range s.Defs {
			for _, t := range d.Tms {
				if t.Kind == kind && d.Mk {
					return true
				}
			}
		}
		return false
	}
	var s1, s2 c16Schema
	for i := 0; i < 200; i++ {
		s1 = genSchema16(g.Fork(), 1)
		if s1.Valid && len(s1.Defs) > 0 && (g.Chance(30) || !definesWithKey(s1)) {
			break
		}
	}
	for i := 0; i < 200; i++ {
		s2 = genSchema16(g.Fork(), 2)
		if definesWithKey(s2) {
			break
		}
	}
	c.Schemas = []c16Schema{s1, s2}
	if g.Chance(30) {
		c.Schemas = append(c.Schemas, genSchema16(g.Fork(), 3))
	}
	// H: 1-3 builds; one of them installs schema #1 and queries a CRD kind (so that it is parsed)
	nh := 1 + g.Intn(3)
	pos := g.Intn(nh)
	for i := 0; i < nh; i++ {
		var t *c16Tree
		if i == pos {
			t = &c16Tree{Schema: 0, BaseSchema: -1, Namespace: g.Chance(80),
				Res: []c16Res{{Kind: g.Pick([]string{"Foo", "Bar"}), Name: "h0"}, {Kind: "Deployment", Name: "h1"}}}
			if g.Chance(60) {
				t.Patches = []string{"h0"}
			}
		} else {
			t = genTree16(g.Fork(), len(c.Schemas), g.Chance(40))
		}
		c.H = append(c.H, t)
	}
	// after the schema-#1 build, a build without custom schema would not change customSchema; keep the tail as generated
	c.T = &c16Tree{Schema: 1, BaseSchema: -1, Namespace: g.Chance(85),
		Res: []c16Res{{Kind: kind, Name: "tq"}}, Patches: []string{"tq"}}
	if g.Chance(50) {
		c.T.Res = append(c.T.Res, c16Res{Kind: g.Pick(c16Kinds[:3]), Name: "tr"})
	}
	return c
}

// genBuiltinRestore01: default -> custom -> explicit-version histories on BUILT-IN kinds. An earlier default build
// parses the built-in schema; a later build installs a custom schema that REDEFINES a built-in definition
// (apps/v1 Deployment, containers list without merge key) and loads it; T names the built-in version explicitly, has
// no custom schema, and patches a Deployment's containers (keyed list). Selecting the built-in version re-parses the
// built-in schema, which must restore the overwritten definition: T's list is merged by `name` whatever ran before.
// (A state such as "default schema already parsed" that survives Run and suppresses the re-parse leaves the custom
// definition in place: T's un-patched container is silently dropped.)
func genBuiltinRestore01(g *Rng) c01Case {
	c := c01Case{}
	var s1 c16Schema
	for i := 0; i < 400; i++ {
		s1 = genSchema16(g.Fork(), 1)
		ok := false
		for _, d := range s1.Defs {
			for _, t := range d.Tms {
				if t.Kind == "Deployment" && !d.Mk {
					ok = true
				}
			}
		}
		if s1.Valid && ok {
			break
		}
	}
	c.Schemas = []c16Schema{s1}
	if g.Chance(30) {
		c.Schemas = append(c.Schemas, genSchema16(g.Fork(), 2))
	}
	dflt := func(name string) *c16Tree {
		t := &c16Tree{Schema: -1, BaseSchema: -1, Namespace: g.Chance(70),
			Res: []c16Res{{Kind: "Deployment", Name: name}}, Patches: []string{name}}
		if g.Chance(40) {
			t.Res = append(t.Res, c16Res{Kind: g.Pick([]string{"ConfigMap", "Foo"}), Name: name + "x"})
		}
		return t
	}
	custom := &c16Tree{Schema: 0, BaseSchema: -1, Namespace: g.Chance(70),
		Res: []c16Res{{Kind: "Deployment", Name: "hc"}}, Patches: []string{"hc"}}
	// the three-step shape, with optional random builds in between; sometimes a step is left out or reordered
	steps := []*c16Tree{}
	if g.Chance(85) {
		steps = append(steps, dflt("hd"))
	}
	if g.Chance(35) {
		steps = append(steps, genTree16(g.Fork(), len(c.Schemas), g.Chance(50)))
	}
	if g.Chance(90) {
		steps = append(steps, custom)
	}
	if g.Chance(25) {
		steps = append(steps, genTree16(g.Fork(), len(c.Schemas), g.Chance(50)))
	}
	if g.Chance(15) && len(steps) > 1 {
		steps[0], steps[len(steps)-1] = steps[len(steps)-1], steps[0]
	}
	c.H = steps
	c.T = dflt("tq")
	switch g.Intn(10) {
	case 0:
		// T without an openapi field: customSchema survives SetSchema (known leak class)
	case 1:
		c.T.Ver = strp("")
	default:
		c.T.Ver = strp("v1.21.2")
	}
	return c
}

// genAliasRepeat01: T installs a custom schema that RE-DECLARES the built-in apps/v1 Deployment under a definition name
// of its own (containers list with or without merge key) and patches a Deployment's containers; T is then repeated many
// times in one process. Which of the two stored definitions the by-type index points to must be decided by the parse
// order (the custom schema is parsed after the built-in one), never by map iteration order.
func genAliasRepeat01(g *Rng, reps int) c01Case {
	c := c01Case{Reps: reps}
	var s1 c16Schema
	for i := 0; i < 400; i++ {
		s1 = genSchema16(g.Fork(), 1)
		ok := false
		for _, d := range s1.Defs {
			if d.Name == "com.example.v1.DeploymentAlias" && !d.Mk {
				ok = true
			}
		}
		if s1.Valid && ok {
			break
		}
	}
	c.Schemas = []c16Schema{s1}
	if g.Chance(50) {
		c.H = append(c.H, &c16Tree{Schema: -1, BaseSchema: -1, Namespace: true,
			Res: []c16Res{{Kind: "Deployment", Name: "hd"}}, Patches: []string{"hd"}})
	}
	c.T = &c16Tree{Schema: 0, BaseSchema: -1, Namespace: g.Chance(70),
		Res: []c16Res{{Kind: "Deployment", Name: "tq"}}, Patches: []string{"tq"}}
	if g.Chance(40) {
		c.T.Res = append(c.T.Res, c16Res{Kind: "Foo", Name: "tf"})
	}
	return c
}

func genCase01(g *Rng) c01Case {
	switch x := g.Intn(100); {
	case x < 25:
		return genTwoCustom01(g.Fork())
	case x < 50:
		return genBuiltinRestore01(g.Fork())
	}
	c := c01Case{}
	ns := g.Intn(3)
	if g.Chance(60) && ns == 0 {
		ns = 1
	}
	for i := 0; i < ns; i++ {
		c.Schemas = append(c.Schemas, genSchema16(g.Fork(), i+1))
	}
	nh := g.Intn(5)
	for i := 0; i < nh; i++ {
		c.H = append(c.H, genTree16(g.Fork(), ns, g.Chance(35)))
	}
	c.T = genTree16(g.Fork(), ns, g.Chance(40))
	// make T's dependence on the schema visible: a CRD kind, a patch on it, the namespace transformer
	hasCRD := false
	for _, r := range c.T.allRes() {
		if r.Kind == "Foo" || r.Kind == "Bar" {
			hasCRD = true
		}
	}
	if !hasCRD && g.Chance(80) {
		c.T.Res = append(c.T.Res, c16Res{Kind: g.Pick([]string{"Foo", "Bar"}), Name: "tq"})
		if g.Chance(70) {
			c.T.Patches = append(c.T.Patches, "tq")
		}
	}
	if g.Chance(80) {
		c.T.Namespace = true
	}
	return c
}

func buildOp(t *c16Tree) c16Op { return c16Op{K: "build", Schema: -1, Tree: t} }

// the three sequences of a case: alone; after the history; in-process repetitions
func (c c01Case) seqs() []c16Seq {
	alone := c16Seq{Schemas: c.Schemas, Ops: []c16Op{buildOp(c.T)}}
	after := c16Seq{Schemas: c.Schemas}
	for _, h := range c.H {
		after.Ops = append(after.Ops, buildOp(h))
	}
	after.Ops = append(after.Ops, buildOp(c.T))
	reps := c16Seq{Schemas: c.Schemas}
	reps.Ops = append(reps.Ops, buildOp(c.T))
	for k := 0; k < 2; k++ {
		reps.Ops = append(reps.Ops, c16Op{K: "reset", Schema: -1})
		reps.Ops = append(reps.Ops, after.Ops...)
	}
	reps.Ops = append(reps.Ops, c16Op{K: "reset", Schema: -1}, buildOp(c.T), buildOp(c.T))
	for k := 0; k < c.Reps; k++ {
		reps.Ops = append(reps.Ops, buildOp(c.T))
	}
	return []c16Seq{alone, after, reps}
}

func stepText(s c16Step) string {
	switch s.Class {
	case ClsOk:
		return s.Out
	case ClsErr:
		return "ERR: " + s.Msg
	default:
		// The vendored go-json-experiment decoder (kube-openapi) deliberately alternates the wording of its error
		// texts ("cannot unmarshal" / "unable to unmarshal") between calls; the text only reaches the caller through
		// the panic of initSchema on an unparsable custom schema. Normalised here (see design.d/C01-state.md).
		return "PANIC: " + strings.ReplaceAll(s.Msg, "unable to unmarshal", "cannot unmarshal")
	}
}

type c01Obs struct {
	Alone, After           string
	AloneClass, AfterClass string
	Problems               []OracleViolation
}

// evalCase01 applies the oracles to the results of the three sequences.
func evalCase01(c c01Case, res []c16SeqRes) c01Obs {
	nh := len(c.H)
	o := c01Obs{}
	alone := res[0].Steps[0]
	after := res[1].Steps[nh]
	o.Alone, o.After = stepText(alone), stepText(after)
	o.AloneClass, o.AfterClass = alone.Class, after.Class
	rep := res[2].Steps
	// positions in the repetition sequence
	idx := 0
	aloneReps := []c16Step{rep[idx]}
	idx++
	afterReps := []c16Step{}
	for k := 0; k < 2; k++ {
		idx++ // reset
		idx += nh
		afterReps = append(afterReps, rep[idx])
		idx++
	}
	idx++ // reset
	aloneReps = append(aloneReps, rep[idx])
	twice := rep[idx+1] // T immediately after T
	for k := idx + 2; k < len(rep); k++ {
		if stepText(rep[k]) != stepText(twice) {
			o.Problems = append(o.Problems, OracleViolation{Law: "repeatable", Class: "C01/build-not-repeatable",
				Detail: fmt.Sprintf("T built %d times in a row in one process: run %d differs from run 2\n--- run 2\n%s\n--- run %d\n%s", len(rep)-idx, k-idx+1, stepText(twice), k-idx+1, stepText(rep[k])), Replay: c})
			break
		}
	}
	for i, a := range aloneReps {
		if stepText(a) != o.Alone {
			o.Problems = append(o.Problems, OracleViolation{Law: "repeatable_alone", Class: "C01/alone-not-repeatable",
				Detail: fmt.Sprintf("T alone, repetition %d (same process, after ResetOpenAPI / fresh process) differs:\n--- first\n%s\n--- this\n%s", i, o.Alone, stepText(a)), Replay: c})
		}
	}
	for i, a := range afterReps {
		if stepText(a) != o.After {
			o.Problems = append(o.Problems, OracleViolation{Law: "repeatable_after_history", Class: "C01/after-history-not-repeatable",
				Detail: fmt.Sprintf("T after H, repetition %d differs:\n--- first\n%s\n--- this\n%s", i, o.After, stepText(a)), Replay: c})
		}
	}
	// the build's OWN custom schema must take effect whatever ran before: AddDefinitions overwrites by type meta, so
	// for a CRD kind that T's top-level schema defines, the patched list is merged iff that definition has a merge key
	ownSchema := func(which string, st c16Step) {
		if st.Class != ClsOk || c.T.Schema < 0 || c.T.Ver != nil || !c.Schemas[c.T.Schema].Valid {
			return
		}
		_, listLen, err := c16Reveal(st.Out)
		if err != nil {
			return
		}
		for _, p := range c.T.Patches {
			res, ok := c.T.find(p)
			if !ok || (res.Kind != "Foo" && res.Kind != "Bar") {
				continue
			}
			defined, mk := false, false
			for _, d := range c.Schemas[c.T.Schema].Defs {
				for _, tm := range d.Tms {
					if tm.Kind == res.Kind {
						defined, mk = true, d.Mk
					}
				}
			}
			n, have := listLen[res.Name]
			if !defined || !have {
				continue
			}
			if (n == 2) != mk {
				o.Problems = append(o.Problems, OracleViolation{Law: "own_schema_applied", Class: "C01/own-custom-schema-not-applied",
					Detail: fmt.Sprintf("T (%s): its own custom schema defines %s with merge key=%v, but the patched list of %s has %d element(s)\n%s",
						which, res.Kind, mk, res.Name, n, st.Out), Replay: c})
			}
		}
	}
	ownSchema("alone", alone)
	ownSchema("after H", after)
	// a build that names the built-in version explicitly and has no custom schema re-selects the built-in schema:
	// SetSchema drops any custom schema and re-arms initSchema, which parses the built-in document again, so a patched
	// Deployment's containers list is merged by its built-in merge key — whatever ran before
	builtinKey := func(which string, st c16Step) {
		if st.Class != ClsOk || c.T.Schema >= 0 || c.T.Ver == nil || *c.T.Ver != "v1.21.2" {
			return
		}
		_, listLen, err := c16Reveal(st.Out)
		if err != nil {
			return
		}
		for _, p := range c.T.Patches {
			res, ok := c.T.find(p)
			if !ok || res.Kind != "Deployment" {
				continue
			}
			if n, have := listLen[res.Name]; have && n != 2 {
				o.Problems = append(o.Problems, OracleViolation{Law: "explicit_builtin_version_restores_builtin_schema",
					Class: "C01/builtin-merge-key-lost-under-explicit-version",
					Detail: fmt.Sprintf("T (%s) names the built-in version and has no custom schema, but the containers list of Deployment %s was not merged by name (%d element(s)): the un-patched container is dropped\n%s",
						which, res.Name, n, st.Out), Replay: c})
			}
		}
	}
	builtinKey("alone", alone)
	builtinKey("after H", after)
	for _, a := range afterReps {
		builtinKey("after H, repetition", a)
	}
	customInH := false
	for _, h := range c.H {
		if c01HasCustom(h) {
			customInH = true
		}
	}
	classify := func(what string) string {
		switch {
		case customInH:
			return c01LeakCustom
		case c01HasCustom(c.T):
			return c01LeakBuiltin
		default:
			return "C01/history-dependence-without-custom-schema:" + what
		}
	}
	if o.After != o.Alone {
		o.Problems = append(o.Problems, OracleViolation{Law: "history_independent", Class: classify("after-history"),
			Detail: fmt.Sprintf("output of T after a history of %d builds differs from T alone\n--- alone\n%s\n--- after H\n%s", nh, o.Alone, o.After), Replay: c})
	}
	if stepText(twice) != o.Alone {
		cls := "C01/history-dependence-on-itself"
		if c01HasCustom(c.T) {
			cls = c01LeakBuiltin // T's own first run leaves its parsed definitions behind (same root cause)
			if customInH {
				cls = c01LeakCustom
			}
		}
		o.Problems = append(o.Problems, OracleViolation{Law: "history_independent", Class: cls,
			Detail: fmt.Sprintf("output of T built a second time in the same process differs from the first\n--- first\n%s\n--- second\n%s", o.Alone, stepText(twice)), Replay: c})
	}
	return o
}

func c01CaseTerm(c c01Case, o c01Obs) (string, error) {
	hs := []string{}
	for _, h := range c.H {
		hs = append(hs, c16BuildTerm(h, c.Schemas))
	}
	mask := []string{}
	for _, q := range c.T.queries() {
		mask = append(mask, coqBool(q.Reveal != ""))
	}
	return fmt.Sprintf("(mk01s E16 [%s] %s [%s] %s %s %s)", strings.Join(hs, ";\n   "), c16BuildTerm(c.T, c.Schemas),
		strings.Join(mask, "; "), o.AloneClass, o.AfterClass, coqBool(o.After != o.Alone)), nil
}

func runC01S(r *Run, rng *Rng, tier string) error {
	n := 40
	if tier == "thorough" {
		n = 1200
	}
	r.Meta.Rule = "case = (history H of 0-4 generated builds, build T) over 0-2 generated custom schemas; T has a CRD kind, an SMP patch and the namespace " +
		"transformer in most cases. Executed in child processes: T alone; H then T; in-process repetitions with ResetOpenAPI in between; T twice. " +
		"Outputs (AsYaml bytes or error text) compared bytewise. non-trivial = H is not empty and T built successfully"
	hdr, err := c16Header()
	if err != nil {
		return err
	}
	r.header = strings.Replace(hdr, "Corr.C16", "Corr.C01S", 1)
	r.shard = 40
	cases := loadCorpus01()
	nAlias, aliasReps := 2, 24
	if tier == "thorough" {
		nAlias, aliasReps = 12, 60
	}
	for i := 0; i < nAlias; i++ {
		cases = append(cases, genAliasRepeat01(rng.Fork(), aliasReps))
	}
	for i := 0; i < n; i++ {
		cases = append(cases, genCase01(rng.Fork()))
	}
	var seqs []c16Seq
	for _, c := range cases {
		seqs = append(seqs, c.seqs()...)
	}
	nproc := runtime.NumCPU()
	if nproc > 16 {
		nproc = 16
	}
	results, err := c16RunChildren(seqs, nproc)
	if err != nil {
		return err
	}
	for i, c := range cases {
		o := evalCase01(c, results[3*i:3*i+3])
		r.Count("history_len", fmt.Sprint(len(c.H)))
		customInH := false
		for _, h := range c.H {
			customInH = customInH || c01HasCustom(h)
		}
		r.Count("custom_in_H", fmt.Sprint(customInH))
		r.Count("custom_in_T", fmt.Sprint(c01HasCustom(c.T)))
		r.Count("T_class_alone", o.AloneClass)
		r.Count("T_class_after", o.AfterClass)
		r.Count("differs", fmt.Sprint(o.After != o.Alone))
		nCustom := map[int]bool{}
		for _, h := range append(append([]*c16Tree{}, c.H...), c.T) {
			if h.Schema >= 0 && h.Ver == nil {
				nCustom[h.Schema] = true
			}
		}
		r.Count("distinct_custom_schemas_installed", fmt.Sprint(len(nCustom)))
		shape := []string{}
		for _, h := range c.H {
			shape = append(shape, c16FieldKind(h.Ver, h.Schema))
		}
		if len(shape) > 3 {
			shape = shape[len(shape)-3:]
		}
		r.Count("T_field", c16FieldKind(c.T.Ver, c.T.Schema))
		if c.T.Ver != nil && *c.T.Ver == "v1.21.2" && c.T.Schema < 0 {
			r.Count("history_before_explicit_T", strings.Join(shape, ">"))
		}
		for _, p := range o.Problems {
			r.Violation(p)
		}
		term, err := c01CaseTerm(c, o)
		if err != nil {
			r.Violation(OracleViolation{Law: "harness", Class: "C01/harness-cannot-interpret-output", Detail: err.Error(), Replay: c})
			continue
		}
		r.AddCase(term, c, len(c.H) > 0 && o.AloneClass == ClsOk)
	}
	return nil
}

func loadCorpus01() []c01Case {
	out := []c01Case{}
	data, err := os.ReadFile(verifRoot() + "/corpus/C01S/cases.json")
	if err != nil {
		return out
	}
	_ = json.Unmarshal(data, &out)
	return out
}

func replayC01S(path string) (bool, string, error) {
	data, err := os.ReadFile(path)
	if err != nil {
		return false, "", err
	}
	var rp struct {
		Case c01Case `json:"case"`
	}
	if err := json.Unmarshal(data, &rp); err != nil {
		return false, "", err
	}
	if rp.Case.T == nil {
		return false, "", fmt.Errorf("not a C01S case")
	}
	results, err := c16RunChildren(rp.Case.seqs(), 3)
	if err != nil {
		return false, "", err
	}
	o := evalCase01(rp.Case, results)
	var b strings.Builder
	fmt.Fprintf(&b, "T alone (%s):\n%s\nT after H (%s):\n%s\n", o.AloneClass, o.Alone, o.AfterClass, o.After)
	for _, p := range o.Problems {
		fmt.Fprintf(&b, "LAW %s class=%s\n", p.Law, p.Class)
	}
	return len(o.Problems) > 0, b.String(), nil
}
