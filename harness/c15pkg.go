package main

import (
	"fmt"
	"os"
	"path/filepath"
	"reflect"
	"sort"

	"sigs.k8s.io/kustomize/kyaml/kio"
	"sigs.k8s.io/kustomize/kyaml/kio/filters"
)

func genPkg15(rng *Rng) pkgCase15 {
	c := pkgCase15{}
	custom := rng.Chance(65)
	if custom {
		c.Glob = []string{"*.yaml", rng.Pick([]string{"Kptfile", "*.cfg"})}
	}
	special := "Kptfile"
	if custom && c.Glob[1] == "*.cfg" {
		special = "extra.cfg"
	}
	paths := []string{"a.yaml"}
	if rng.Chance(60) {
		paths = append(paths, "b.yaml")
	}
	if rng.Chance(50) {
		paths = append(paths, filepath.Join("sub", "c.yaml"))
	}
	if custom {
		paths = append(paths, special)
		if rng.Chance(40) {
			paths = append(paths, filepath.Join("sub", special))
		}
	}
	c.Law = rng.Pick([]string{"L1", "L2", "L3", "L1", "L2"})
	for i, p := range paths {
		name := fmt.Sprintf("cm%d", i)
		doc := func(extra ...string) string {
			d := gM("apiVersion", "v1", "kind", "ConfigMap", "metadata", gM("name", name), "data", gM("k", "v", "n", `"1"`))
			for j := 0; j+1 < len(extra); j += 2 {
				d.get("data").set(extra[j], gS(extra[j+1]))
			}
			return d.yaml()
		}
		o := doc()
		edited := o
		if rng.Chance(70) || p == special {
			if rng.Bool() {
				edited = doc("k", "changed")
			} else {
				edited = doc("added", "yes")
			}
		}
		f := pkgFile15{Path: p, Orig: o, Upd: o, Dest: o}
		switch c.Law {
		case "L1":
			f.Dest = edited
		case "L2":
			f.Upd = edited
		}
		c.Files = append(c.Files, f)
	}
	return c
}

func readPkg15(dir string, glob []string) (map[string]interface{}, error) {
	nodes, err := kio.LocalPackageReader{PackagePath: dir, MatchFilesGlob: glob, OmitReaderAnnotations: true}.Read()
	if err != nil {
		return nil, err
	}
	out := map[string]interface{}{}
	for _, n := range nodes {
		m, _ := n.GetMeta()
		j, err := toJSONValue(n)
		if err != nil {
			return nil, err
		}
		out[m.Kind+"/"+m.Name] = j
	}
	return out, nil
}

func lawsPkg15(c pkgCase15) []law15 {
	root, err := os.MkdirTemp("", "c15pkg")
	if err != nil {
		return nil
	}
	defer os.RemoveAll(root)
	write := func(side, path, content string) {
		if content == "" {
			return
		}
		p := filepath.Join(root, side, path)
		_ = os.MkdirAll(filepath.Dir(p), 0o755)
		_ = os.WriteFile(p, []byte(content), 0o644)
	}
	for _, side := range []string{"orig", "upd", "dest", "want"} {
		_ = os.MkdirAll(filepath.Join(root, side), 0o755)
	}
	for _, f := range c.Files {
		write("orig", f.Path, f.Orig)
		write("upd", f.Path, f.Upd)
		write("dest", f.Path, f.Dest)
		// the law: (l,o,o) -> l ; (o,o,u) -> u ; (d,d,d) -> d
		want := f.Dest
		if c.Law == "L2" {
			want = f.Upd
		}
		write("want", f.Path, want)
	}
	cls, msg := protect(func() error {
		return filters.Merge3{OriginalPath: filepath.Join(root, "orig"), UpdatedPath: filepath.Join(root, "upd"),
			DestPath: filepath.Join(root, "dest"), MatchFilesGlob: c.Glob}.Merge()
	})
	lawName := map[string]string{"L1": "local_when_upstream_unchanged", "L2": "updated_when_local_unchanged", "L3": "all_equal"}[c.Law]
	if cls != ClsOk {
		return []law15{{lawName, "C15/package/" + lawName + "/merge-fails", fmt.Sprintf("Merge3.Merge fails (%s): %s", cls, msg)}}
	}
	got, err1 := readPkg15(filepath.Join(root, "dest"), c.Glob)
	want, err2 := readPkg15(filepath.Join(root, "want"), c.Glob)
	if err1 != nil || err2 != nil {
		return nil
	}
	if reflect.DeepEqual(got, want) {
		return nil
	}
	keys := []string{}
	for k := range want {
		if !reflect.DeepEqual(got[k], want[k]) {
			keys = append(keys, k)
		}
	}
	for k := range got {
		if _, ok := want[k]; !ok {
			keys = append(keys, k)
		}
	}
	sort.Strings(keys)
	k := keys[0]
	return []law15{{lawName, "C15/package/" + lawName + "/resource-differs",
		fmt.Sprintf("glob %v: resource %s expected %s got %s", c.Glob, k, jsonText(want[k]), jsonText(got[k]))}}
}

func runPkg15(r *Run, c pkgCase15) {
	r.Count("package_law", c.Law)
	r.Count("package_glob", fmt.Sprint(c.Glob))
	r.AddEval(fmt.Sprintf("%v", c), true)
	for _, v := range lawsPkg15(c) {
		r.Count("law_failures", v.Class)
		r.Violation(OracleViolation{Law: v.Law, Class: v.Class, Detail: v.Detail, Replay: case15{Pkg: &c, Law: c.Law, Note: "package-level"}})
	}
}
