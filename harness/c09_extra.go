package main

import (
	"fmt"
	"strings"

	"sigs.k8s.io/kustomize/api/krusty"
	"sigs.k8s.io/kustomize/kyaml/filesys"
	"sigs.k8s.io/kustomize/kyaml/openapi"
	kyaml "sigs.k8s.io/kustomize/kyaml/yaml"
)

// C09, implementation-level only (NOT sent to the model: the model covers the default built-in schema and
// knows neither custom OpenAPI schemas nor the patch transformers):
//   schemaBuild09 - custom kinds whose scope is declared only by a custom OpenAPI schema (`openapi: {path}`),
//                   declared in the top layer or in a base, resource files listed before / after that base, and
//                   two-build sequences in one process (schema absent, then present).
//                   Law: a kind the active schema declares cluster-scoped never receives a namespace; a kind it
//                   declares namespaced (and every built-in namespaced kind) ends in the directive's namespace.
//   patchBuild09  - layers with `patches:` (with / without target selector, options.allowNameChange true / false)
//                   whose patch text carries metadata.namespace equal / different / absent, on layers above a
//                   namespace directive. Law: ns_out == outermost directive on the resource's layer chain.

type fileSet map[string]string

func runFiles09(files fileSet, root string) (cls, msg string, outs []*kyaml.RNode) {
	fs := filesys.MakeFsInMemory()
	for p, c := range files {
		dir := p[:strings.LastIndex(p, "/")]
		_ = fs.MkdirAll(dir)
		_ = fs.WriteFile(p, []byte(c))
	}
	cls, msg = protect(func() error {
		m, err := krusty.MakeKustomizer(krusty.MakeDefaultOptions()).Run(fs, root)
		if err != nil {
			return err
		}
		for _, r := range m.Resources() {
			outs = append(outs, r.RNode.Copy())
		}
		return nil
	})
	return
}

func schemaJSON09(kinds []string, namespaced []bool) string {
	defs, paths := []string{}, []string{}
	for i, k := range kinds {
		gvk := fmt.Sprintf(`{"group":"example.com","kind":%q,"version":"v1"}`, k)
		defs = append(defs, fmt.Sprintf(`"com.example.v1.%s":{"type":"object","x-kubernetes-group-version-kind":[%s]}`, k, gvk))
		p := "/apis/example.com/v1/" + strings.ToLower(k) + "s"
		if namespaced[i] {
			p = "/apis/example.com/v1/namespaces/{namespace}/" + strings.ToLower(k) + "s"
		}
		paths = append(paths, fmt.Sprintf(`%q:{"get":{"x-kubernetes-group-version-kind":%s}}`, p, gvk))
	}
	return `{"swagger":"2.0","info":{"title":"t","version":"v1"},"definitions":{` + strings.Join(defs, ",") + `},"paths":{` + strings.Join(paths, ",") + `}}`
}

func custom09(kind, name string) string {
	return fmt.Sprintf("apiVersion: example.com/v1\nkind: %s\nmetadata:\n  name: %s\nspec:\n  size: 1\n", kind, name)
}

const cm09 = "apiVersion: v1\nkind: ConfigMap\nmetadata:\n  name: cm\ndata:\n  k: v\n"

func schemaBuild09(r *Run, rng *Rng) {
	// a fresh pair of kind names from a small pool: a process-wide cache keyed by kind would carry an answer
	// from an earlier invocation (with another schema, or none) into this one
	suffix := rng.Pick([]string{"", "A", "B", "C"})
	kc, kn := "Gizmo"+suffix, "Doodad"+suffix
	kinds := []string{kc, kn}
	nsd := []bool{false, true}
	if rng.Chance(25) { // swap the declared scopes
		nsd = []bool{true, false}
	}
	schema := schemaJSON09(kinds, nsd)
	ns := rng.Pick(c09Namespaces)
	variant := rng.Pick([]string{"top", "base-after", "base-before", "two-builds", "two-builds"})
	customRes := custom09(kc, "g1") + "---\n" + custom09(kn, "d1")
	files := fileSet{}
	switch variant {
	case "top", "two-builds":
		files["/t/kustomization.yaml"] = "resources:\n- custom.yaml\n- cm.yaml\nopenapi:\n  path: schema.json\nnamespace: " + ns + "\n"
		files["/t/schema.json"] = schema
		files["/t/custom.yaml"] = customRes
		files["/t/cm.yaml"] = cm09
	case "base-after", "base-before":
		res := "- b0\n- custom.yaml\n"
		if variant == "base-before" {
			res = "- custom.yaml\n- b0\n"
		}
		files["/t/kustomization.yaml"] = "resources:\n" + res + "namespace: " + ns + "\n"
		files["/t/custom.yaml"] = customRes
		baseNs := ""
		if rng.Chance(50) {
			baseNs = "namespace: " + rng.Pick(c09Namespaces) + "\n"
		}
		files["/t/b0/kustomization.yaml"] = "resources:\n- cm.yaml\n- own.yaml\nopenapi:\n  path: schema.json\n" + baseNs
		files["/t/b0/schema.json"] = schema
		files["/t/b0/cm.yaml"] = cm09
		files["/t/b0/own.yaml"] = custom09(kc, "g0")
	}
	openapi.ResetOpenAPI()
	defer openapi.ResetOpenAPI()
	report := func(class, detail string) {
		r.Violation(OracleViolation{Law: "cluster_untouched", Class: class, Detail: detail,
			Replay: map[string]interface{}{"schema_build": variant, "files": files}})
	}
	if variant == "two-builds" {
		// the same resources first WITHOUT any schema (custom kinds are unknown, hence treated as namespaced)
		pre := fileSet{"/p/kustomization.yaml": "resources:\n- custom.yaml\nnamespace: " + rng.Pick(c09Namespaces) + "\n", "/p/custom.yaml": customRes}
		cls, _, _ := runFiles09(pre, "/p")
		r.Count("schema_prebuild", cls)
	}
	cls, msg, outs := runFiles09(files, "/t")
	r.Count("schema_build", variant+":"+cls)
	r.AddEval("schema/"+variant+suffix+ns+fmt.Sprint(nsd), cls == ClsOk)
	if cls != ClsOk {
		report("C09/custom-schema/build-failed", "build with a custom OpenAPI schema failed: "+c08firstN(msg, 200))
		return
	}
	for _, o := range outs {
		kind, _ := strAt(o.YNode(), "kind")
		name, _ := strAt(o.YNode(), "metadata", "name")
		got, has := strAt(o.YNode(), "metadata", "namespace")
		declaredCluster := (kind == kc && !nsd[0]) || (kind == kn && !nsd[1])
		r.Count("oracle", "custom_schema_scope")
		if declaredCluster {
			if has {
				report("C09/custom-schema/cluster-scoped-got-namespace",
					fmt.Sprintf("[%s] %s %s is cluster-scoped per the active custom schema but received metadata.namespace %q", variant, kind, name, got))
			}
		} else if !has || got != ns {
			report("C09/custom-schema/moved",
				fmt.Sprintf("[%s] namespaced %s %s: namespace %q (present=%v), outermost directive %q", variant, kind, name, got, has, ns))
		}
	}
}

func patchBuild09(r *Run, rng *Rng) {
	n0 := rng.Pick(c09Namespaces)
	n1 := ""
	if rng.Chance(30) {
		n1 = rng.Pick(c09Namespaces)
	}
	orig := rng.Pick([]string{"", "", "old"}) // original namespace of the resources
	meta := func(name string) string {
		s := "metadata:\n  name: " + name + "\n"
		if orig != "" {
			s += "  namespace: " + orig + "\n"
		}
		return s
	}
	files := fileSet{
		"/t/b/kustomization.yaml": "resources:\n- cm.yaml\n- dep.yaml\nnamespace: " + n0 + "\n",
		"/t/b/cm.yaml":            "apiVersion: v1\nkind: ConfigMap\n" + meta("cm") + "data:\n  k: v\n",
		"/t/b/dep.yaml": "apiVersion: apps/v1\nkind: Deployment\n" + meta("dep") +
			"spec:\n  replicas: 1\n  template:\n    spec:\n      containers:\n      - name: c\n        image: nginx\n",
	}
	var patches strings.Builder
	np := 1 + rng.Intn(2)
	desc := []string{}
	for i := 0; i < np; i++ {
		kind, av, name, body := "ConfigMap", "v1", "cm", "data:\n      k2: v2\n"
		if rng.Bool() {
			kind, av, name, body = "Deployment", "apps/v1", "dep", "spec:\n      replicas: 3\n"
		}
		allow := rng.Chance(50)
		pns := rng.Pick([]string{"", "equal", "different"})
		pname := name
		if allow && rng.Chance(40) {
			pname = name + "-renamed"
		}
		target := pns == "different" || pname != name || rng.Bool()
		if !target && pns == "" && orig != "" {
			pns = "equal" // without a target selector the patch has to carry one of the resource's ids
		}
		nsLine := ""
		switch pns {
		case "equal":
			nsLine = "      namespace: " + n0 + "\n"
		case "different":
			nsLine = "      namespace: elsewhere\n"
		}
		fmt.Fprintf(&patches, "- patch: |-\n    apiVersion: %s\n    kind: %s\n    metadata:\n      name: %s\n%s    %s", av, kind, pname, nsLine, body)
		if target {
			fmt.Fprintf(&patches, "  target:\n    kind: %s\n    name: %s\n", kind, name)
		}
		if allow || rng.Chance(30) {
			fmt.Fprintf(&patches, "  options:\n    allowNameChange: %v\n", allow)
		}
		desc = append(desc, fmt.Sprintf("%s ns=%s target=%v allowNameChange=%v rename=%v", kind, pns, target, allow, pname != name))
	}
	mid := "resources:\n- ../b\npatches:\n" + patches.String()
	if n1 != "" {
		mid += "namespace: " + n1 + "\n"
	}
	files["/t/m/kustomization.yaml"] = mid
	root := "/t/m"
	want := n0
	if n1 != "" {
		want = n1
	}
	if rng.Chance(35) { // a plain wrapper on top, sometimes with its own directive
		top := "resources:\n- ../m\n"
		if rng.Chance(40) {
			n2 := rng.Pick(c09Namespaces)
			top += "namespace: " + n2 + "\n"
			want = n2
		}
		files["/t/top/kustomization.yaml"] = top
		root = "/t/top"
	}
	cls, msg, outs := runFiles09(files, root)
	r.Count("patch_build", cls)
	for _, d := range desc {
		r.Count("patch_shape", d[strings.Index(d, " ")+1:])
	}
	r.AddEval("patch/"+strings.Join(desc, ";")+n0+n1+orig+root, cls == ClsOk)
	if cls != ClsOk {
		r.Count("patch_build_error", c08firstN(msg, 70))
		return
	}
	for _, o := range outs {
		kind, _ := strAt(o.YNode(), "kind")
		name, _ := strAt(o.YNode(), "metadata", "name")
		got, has := strAt(o.YNode(), "metadata", "namespace")
		r.Count("oracle", "patch_moved")
		if !has || got != want {
			r.Violation(OracleViolation{Law: "outermost_wins", Class: "C09/moved/after-patch",
				Detail: fmt.Sprintf("%s %s: namespace %q (present=%v), outermost directive on its chain %q; patches: %s", kind, name, got, has, want, strings.Join(desc, " | ")),
				Replay: map[string]interface{}{"patch_build": root, "files": files}})
		}
	}
}
