package main

import (
	"fmt"
	"strings"

	"sigs.k8s.io/kustomize/api/krusty"
	"sigs.k8s.io/kustomize/kyaml/filesys"
	"sigs.k8s.io/kustomize/kyaml/openapi"
	kyaml "sigs.k8s.io/kustomize/kyaml/yaml"
)

// C09, implementation-level only (NOT sent to the model: the model covers the default built-in schema and
// knows neither custom OpenAPI schemas nor the patch transformers):
//   schemaBuild09 - custom kinds whose scope is declared only by a custom OpenAPI schema (`openapi: {path}`),
//                   declared in the top layer or in a base, resource files listed before / after that base, and
//                   two-build sequences in one process (schema absent, then present).
//                   Law: a kind the active schema declares cluster-scoped never receives a namespace; a kind it
//                   declares namespaced (and every built-in namespaced kind) ends in the directive's namespace.
//   patchBuild09  - layers with `patches:` (with / without target selector, options.allowNameChange true / false)
//                   whose patch text carries metadata.namespace equal / different / absent, on layers above a
//                   namespace directive. Law: ns_out == outermost directive on the resource's layer chain.

type fileSet map[string]string

func runFiles09(files fileSet, root string) (cls, msg string, outs []*kyaml.RNode) {
	fs := filesys.MakeFsInMemory()
	for p, c := range files {
		dir := p[:strings.LastIndex(p, "/")]
		_ = fs.MkdirAll(dir)
		_ = fs.WriteFile(p, []byte(c))
	}
	cls, msg = protect(func() error {
		m, err := krusty.MakeKustomizer(krusty.MakeDefaultOptions()).Run(fs, root)
		if err != nil {
			return err
		}
		for _, r := range m.Resources() {
			outs = append(outs, r.RNode.Copy())
		}
		return nil
	})
	return
}

func schemaJSON09(kinds []string, namespaced []bool) string {
	defs, paths := []string{}, []string{}
	for i, k := range kinds {
		gvk := fmt.Sprintf(`{"group":"example.com","kind":%q,"version":"v1"}`, k)
		defs = append(defs, fmt.Sprintf(`"com.example.v1.%s":{"type":"object","x-kubernetes-group-version-kind":[%s]}`, k, gvk))
		p := "/apis/example.com/v1/" + strings.ToLower(k) + "s"
		if namespaced[i] {
			p = "/apis/example.com/v1/namespaces/{namespace}/" + strings.ToLower(k) + "s"
		}
		paths = append(paths, fmt.Sprintf(`%q:{"get":{"x-kubernetes-group-version-kind":%s}}`, p, gvk))
	}
	return `{"swagger":"2.0","info":{"title":"t","version":"v1"},"definitions":{` + strings.Join(defs, ",") + `},"paths":{` + strings.Join(paths, ",") + `}}`
}

func custom09(kind, name string) string {
	return fmt.Sprintf("apiVersion: example.com/v1\nkind: %s\nmetadata:\n  name: %s\nspec:\n  size: 1\n", kind, name)
}

const cm09 = "apiVersion: v1\nkind: ConfigMap\nmetadata:\n  name: cm\ndata:\n  k: v\n"

func schemaBuild09(r *Run, rng *Rng) {
	// a fresh pair of kind names from a small pool: a process-wide cache keyed by kind would carry an answer
	// from an earlier invocation (with another schema, or none) into this one
	suffix := rng.Pick([]string{"", "A", "B", "C"})
	kc, kn := "Gizmo"+suffix, "Doodad"+suffix
	kinds := []string{kc, kn}
	nsd := []bool{false, true}
	if rng.Chance(25) { // swap the declared scopes
		nsd = []bool{true, false}
	}
	schema := schemaJSON09(kinds, nsd)
	ns := rng.Pick(c09Namespaces)
	variant := rng.Pick([]string{"top", "base-after", "base-before", "two-builds", "two-builds", "two-schemas", "two-schemas", "two-schemas"})
	customRes := custom09(kc, "g1") + "---\n" + custom09(kn, "d1")
	files := fileSet{}
	switch variant {
	case "top", "two-builds", "two-schemas":
		files["/t/kustomization.yaml"] = "resources:\n- custom.yaml\n- cm.yaml\nopenapi:\n  path: schema.json\nnamespace: " + ns + "\n"
		files["/t/schema.json"] = schema
		files["/t/custom.yaml"] = customRes
		files["/t/cm.yaml"] = cm09
	case "base-after", "base-before":
		res := "- b0\n- custom.yaml\n"
		if variant == "base-before" {
			res = "- custom.yaml\n- b0\n"
		}
		files["/t/kustomization.yaml"] = "resources:\n" + res + "namespace: " + ns + "\n"
		files["/t/custom.yaml"] = customRes
		baseNs := ""
		if rng.Chance(50) {
			baseNs = "namespace: " + rng.Pick(c09Namespaces) + "\n"
		}
		files["/t/b0/kustomization.yaml"] = "resources:\n- cm.yaml\n- own.yaml\nopenapi:\n  path: schema.json\n" + baseNs
		files["/t/b0/schema.json"] = schema
		files["/t/b0/cm.yaml"] = cm09
		files["/t/b0/own.yaml"] = custom09(kc, "g0")
	}
	openapi.ResetOpenAPI()
	defer openapi.ResetOpenAPI()
	report := func(class, detail string) {
		r.Violation(OracleViolation{Law: "cluster_untouched", Class: class, Detail: detail,
			Replay: map[string]interface{}{"schema_build": variant, "files": files}})
	}
	if variant == "two-builds" {
		// the same resources first WITHOUT any schema (custom kinds are unknown, hence treated as namespaced)
		pre := fileSet{"/p/kustomization.yaml": "resources:\n- custom.yaml\nnamespace: " + rng.Pick(c09Namespaces) + "\n", "/p/custom.yaml": customRes}
		cls, _, _ := runFiles09(pre, "/p")
		r.Count("schema_prebuild", cls)
	}
	if variant == "two-schemas" {
		// the same process first builds with ANOTHER custom schema: the same kinds with the scopes swapped, or a schema
		// that knows only one of them / only other kinds. Its parsed definitions must not survive into the second build.
		var other string
		switch rng.Intn(4) {
		case 0, 1:
			other = schemaJSON09(kinds, []bool{!nsd[0], !nsd[1]})
		case 2:
			other = schemaJSON09([]string{kc, "Other" + suffix}, []bool{!nsd[0], false})
		default:
			other = schemaJSON09([]string{kn, "Other" + suffix}, []bool{!nsd[1], true})
		}
		pre := fileSet{"/p/kustomization.yaml": "resources:\n- custom.yaml\nopenapi:\n  path: schema.json\n", "/p/custom.yaml": customRes, "/p/schema.json": other}
		if rng.Chance(60) {
			pre["/p/kustomization.yaml"] += "namespace: " + rng.Pick(c09Namespaces) + "\n"
		}
		cls, _, _ := runFiles09(pre, "/p")
		r.Count("schema_prebuild", "other-schema:"+cls)
		files["/pre/kustomization.yaml"], files["/pre/custom.yaml"], files["/pre/schema.json"] = pre["/p/kustomization.yaml"], pre["/p/custom.yaml"], pre["/p/schema.json"] // for the replay record
	}
	cls, msg, outs := runFiles09(files, "/t")
	r.Count("schema_build", variant+":"+cls)
	r.AddEval("schema/"+variant+suffix+ns+fmt.Sprint(nsd), cls == ClsOk)
	if cls != ClsOk {
		report("C09/custom-schema/build-failed", "build with a custom OpenAPI schema failed: "+c08firstN(msg, 200))
		return
	}
	for _, o := range outs {
		kind, _ := strAt(o.YNode(), "kind")
		name, _ := strAt(o.YNode(), "metadata", "name")
		got, has := strAt(o.YNode(), "metadata", "namespace")
		declaredCluster := (kind == kc && !nsd[0]) || (kind == kn && !nsd[1])
		r.Count("oracle", "custom_schema_scope")
		if declaredCluster {
			if has {
				report("C09/custom-schema/cluster-scoped-got-namespace",
					fmt.Sprintf("[%s] %s %s is cluster-scoped per the active custom schema but received metadata.namespace %q", variant, kind, name, got))
			}
		} else if !has || got != ns {
			report("C09/custom-schema/moved",
				fmt.Sprintf("[%s] namespaced %s %s: namespace %q (present=%v), outermost directive %q", variant, kind, name, got, has, ns))
		}
	}
}

func patchBuild09(r *Run, rng *Rng) {
	n0 := rng.Pick(c09Namespaces)
	n1 := ""
	if rng.Chance(30) {
		n1 = rng.Pick(c09Namespaces)
	}
	orig := rng.Pick([]string{"", "", "old"}) // original namespace of the resources
	meta := func(name string) string {
		s := "metadata:\n  name: " + name + "\n"
		if orig != "" {
			s += "  namespace: " + orig + "\n"
		}
		return s
	}
	files := fileSet{
		"/t/b/kustomization.yaml": "resources:\n- cm.yaml\n- dep.yaml\nnamespace: " + n0 + "\n",
		"/t/b/cm.yaml":            "apiVersion: v1\nkind: ConfigMap\n" + meta("cm") + "data:\n  k: v\n",
		"/t/b/dep.yaml": "apiVersion: apps/v1\nkind: Deployment\n" + meta("dep") +
			"spec:\n  replicas: 1\n  template:\n    spec:\n      containers:\n      - name: c\n        image: nginx\n",
	}
	var patches strings.Builder
	np := 1 + rng.Intn(2)
	desc := []string{}
	for i := 0; i < np; i++ {
		kind, av, name, body := "ConfigMap", "v1", "cm", "data:\n      k2: v2\n"
		if rng.Bool() {
			kind, av, name, body = "Deployment", "apps/v1", "dep", "spec:\n      replicas: 3\n"
		}
		allow := rng.Chance(50)
		pns := rng.Pick([]string{"", "equal", "different"})
		pname := name
		if allow && rng.Chance(40) {
			pname = name + "-renamed"
		}
		target := pns == "different" || pname != name || rng.Bool()
		if !target && pns == "" && orig != "" {
			pns = "equal" // without a target selector the patch has to carry one of the resource's ids
		}
		nsLine := ""
		switch pns {
		case "equal":
			nsLine = "      namespace: " + n0 + "\n"
		case "different":
			nsLine = "      namespace: elsewhere\n"
		}
		fmt.Fprintf(&patches, "- patch: |-\n    apiVersion: %s\n    kind: %s\n    metadata:\n      name: %s\n%s    %s", av, kind, pname, nsLine, body)
		if target {
			fmt.Fprintf(&patches, "  target:\n    kind: %s\n    name: %s\n", kind, name)
		}
		if allow || rng.Chance(30) {
			fmt.Fprintf(&patches, "  options:\n    allowNameChange: %v\n", allow)
		}
		desc = append(desc, fmt.Sprintf("%s ns=%s target=%v allowNameChange=%v rename=%v", kind, pns, target, allow, pname != name))
	}
	mid := "resources:\n- ../b\npatches:\n" + patches.String()
	if n1 != "" {
		mid += "namespace: " + n1 + "\n"
	}
	files["/t/m/kustomization.yaml"] = mid
	root := "/t/m"
	want := n0
	if n1 != "" {
		want = n1
	}
	if rng.Chance(35) { // a plain wrapper on top, sometimes with its own directive
		top := "resources:\n- ../m\n"
		if rng.Chance(40) {
			n2 := rng.Pick(c09Namespaces)
			top += "namespace: " + n2 + "\n"
			want = n2
		}
		files["/t/top/kustomization.yaml"] = top
		root = "/t/top"
	}
	cls, msg, outs := runFiles09(files, root)
	r.Count("patch_build", cls)
	for _, d := range desc {
		r.Count("patch_shape", d[strings.Index(d, " ")+1:])
	}
	r.AddEval("patch/"+strings.Join(desc, ";")+n0+n1+orig+root, cls == ClsOk)
	if cls != ClsOk {
		r.Count("patch_build_error", c08firstN(msg, 70))
		return
	}
	for _, o := range outs {
		kind, _ := strAt(o.YNode(), "kind")
		name, _ := strAt(o.YNode(), "metadata", "name")
		got, has := strAt(o.YNode(), "metadata", "namespace")
		r.Count("oracle", "patch_moved")
		if !has || got != want {
			r.Violation(OracleViolation{Law: "outermost_wins", Class: "C09/moved/after-patch",
				Detail: fmt.Sprintf("%s %s: namespace %q (present=%v), outermost directive on its chain %q; patches: %s", kind, name, got, has, want, strings.Join(desc, " | ")),
				Replay: map[string]interface{}{"patch_build": root, "files": files}})
		}
	}
}

// ---------- file-set cases with explicit expectations (replayable) ----------
//
//   clusterPatchBuild09 - strategic-merge patches (patches: with / without target selector, patchesStrategicMerge
//                   inline / file) whose patch document carries metadata.namespace, addressed to CLUSTER-SCOPED
//                   resources (ClusterRole, PersistentVolume, StorageClass, PriorityClass, ClusterRoleBinding,
//                   Namespace, CustomResourceDefinition) and to a namespaced control, in the layer of the namespace
//                   directive, above it, or in a tree without any directive.
//                   Law cluster_untouched: a cluster-scoped resource that had no metadata.namespace has none in the
//                   output; namespaced resources end in the outermost directive (or keep theirs without one).
//   annoPatchBuild09 - an inner layer whose namespace directive (optionally namePrefix / nameSuffix) moves a
//                   ServiceAccount, a RoleBinding / ClusterRoleBinding subject designating it (namespace absent or the
//                   account's original one), and an OUTER layer without directive that applies a JSON6902 patch
//                   (patches: / patchesJson6902:) adding / replacing / removing the WHOLE /metadata/annotations map
//                   (or single keys) of the account, of the binding, or a strategic-merge patch with annotations.
//                   Law subjects: the subject carries the account's output name and namespace.

type c09Expect struct {
	Law     string `json:"law"`
	Class   string `json:"class"`
	Kind    string `json:"kind"`
	Name    string `json:"name"` // original name; the output document is the one of that kind whose name contains it
	Present bool   `json:"present,omitempty"`
	Want    string `json:"want,omitempty"`
	Subject int    `json:"subject,omitempty"` // law subjects: index of the subject
	Acct    string `json:"acct,omitempty"`    // law subjects: original name of the ServiceAccount
}

type c09FileCase struct {
	Root   string      `json:"root"`
	Files  fileSet     `json:"files"`
	Expect []c09Expect `json:"expect"`
	Desc   string      `json:"desc"`
}

func findOut09(outs []*kyaml.RNode, kind, name string) *kyaml.Node {
	var hit *kyaml.Node
	for _, o := range outs {
		k, _ := strAt(o.YNode(), "kind")
		n, _ := strAt(o.YNode(), "metadata", "name")
		// (the namespace directive renames a Namespace object: found by kind, there is at most one)
		if k == kind && (strings.Contains(n, name) || kind == "Namespace") {
			if hit != nil {
				return nil // ambiguous
			}
			hit = o.YNode()
		}
	}
	return hit
}

// evalFileCase09 runs the build and evaluates the expectations; it returns the violations as (law, class, detail).
func evalFileCase09(c *c09FileCase) (cls, msg string, outs []*kyaml.RNode, bad [][3]string) {
	cls, msg, outs = runFiles09(c.Files, c.Root)
	if cls == ClsPanic {
		bad = append(bad, [3]string{"no_panic", "C09/panic", msg})
	}
	if cls != ClsOk {
		return
	}
	for _, e := range c.Expect {
		o := findOut09(outs, e.Kind, e.Name)
		if o == nil {
			bad = append(bad, [3]string{"resource_kept", "C09/resource-lost", fmt.Sprintf("%s %s is missing from (or ambiguous in) the output", e.Kind, e.Name)})
			continue
		}
		switch e.Law {
		case "cluster_untouched", "outermost_wins":
			got, has := strAt(o, "metadata", "namespace")
			if has != e.Present || (has && got != e.Want) {
				bad = append(bad, [3]string{e.Law, e.Class, fmt.Sprintf("%s %s: metadata.namespace %q (present=%v), expected %q (present=%v); %s", e.Kind, e.Name, got, has, e.Want, e.Present, c.Desc)})
			}
		case "subjects":
			a := findOut09(outs, "ServiceAccount", e.Acct)
			subs := c09getAt(o, "subjects")
			if a == nil || subs == nil || subs.Kind != kyaml.SequenceNode || e.Subject >= len(subs.Content) {
				bad = append(bad, [3]string{"subjects", e.Class, fmt.Sprintf("%s %s: subject %d or account %s missing from the output; %s", e.Kind, e.Name, e.Subject, e.Acct, c.Desc)})
				continue
			}
			an, _ := strAt(a, "metadata", "name")
			ans, _ := strAt(a, "metadata", "namespace")
			sn, _ := strAt(subs.Content[e.Subject], "name")
			sns, _ := strAt(subs.Content[e.Subject], "namespace")
			if sn != an || sns != ans {
				bad = append(bad, [3]string{"subjects", e.Class, fmt.Sprintf("%s %s subject %d is %s/%s, the account it designated is now %s/%s; %s", e.Kind, e.Name, e.Subject, sns, sn, ans, an, c.Desc)})
			}
		}
	}
	return
}

func c09getAt(n *kyaml.Node, path ...string) *kyaml.Node {
	for _, p := range path {
		if n == nil || n.Kind != kyaml.MappingNode {
			return nil
		}
		var next *kyaml.Node
		for i := 0; i+1 < len(n.Content); i += 2 {
			if n.Content[i].Value == p {
				next = n.Content[i+1]
				break
			}
		}
		n = next
	}
	return n
}

func runFileCase09(r *Run, family string, c *c09FileCase) {
	cls, msg, _, bad := evalFileCase09(c)
	r.Count(family, cls)
	if cls != ClsOk {
		r.Count(family+"_error", c08firstN(msg, 80))
	}
	for _, e := range c.Expect {
		if cls == ClsOk {
			r.Count("oracle", family+":"+e.Law)
		}
	}
	for _, b := range bad {
		r.Violation(OracleViolation{Law: b[0], Class: b[1], Detail: b[2], Replay: map[string]interface{}{"file_case": c}})
	}
	r.AddEval(family+"/"+c.Desc+"/"+c.Root+fmt.Sprint(len(c.Files)), cls == ClsOk)
}

var c09ClusterDocs = []struct{ av, kind, body string }{
	{"rbac.authorization.k8s.io/v1", "ClusterRole", "rules:\n- apiGroups: [\"\"]\n  resources: [pods]\n  verbs: [get]\n"},
	{"v1", "PersistentVolume", "spec:\n  capacity:\n    storage: 1Gi\n  accessModes: [ReadWriteOnce]\n  hostPath:\n    path: /tmp/x\n"},
	{"storage.k8s.io/v1", "StorageClass", "provisioner: example.com/p\n"},
	{"scheduling.k8s.io/v1", "PriorityClass", "value: 10\n"},
	{"rbac.authorization.k8s.io/v1", "ClusterRoleBinding", "roleRef:\n  apiGroup: rbac.authorization.k8s.io\n  kind: ClusterRole\n  name: cr\nsubjects:\n- kind: Group\n  name: g\n  apiGroup: rbac.authorization.k8s.io\n"},
	{"v1", "Namespace", ""},
	{"apiextensions.k8s.io/v1", "CustomResourceDefinition", "spec:\n  group: example.com\n  scope: Namespaced\n  names:\n    kind: Foo\n    plural: foos\n  versions:\n  - name: v1\n    served: true\n    storage: true\n"},
}

func indent09(s, pre string) string {
	if s == "" {
		return ""
	}
	lines := strings.Split(strings.TrimSuffix(s, "\n"), "\n")
	return pre + strings.Join(lines, "\n"+pre) + "\n"
}

func genClusterPatchCase09(rng *Rng) *c09FileCase {
	c := &c09FileCase{Files: fileSet{}}
	n0 := ""
	if rng.Chance(75) {
		n0 = rng.Pick(c09Namespaces)
	}
	nd := 1 + rng.Intn(2)
	type doc struct{ av, kind, name string }
	docs := []doc{}
	res := ""
	for i := 0; i < nd; i++ {
		d := c09ClusterDocs[rng.Intn(len(c09ClusterDocs))]
		name := fmt.Sprintf("c%d", i)
		dup := false
		for _, x := range docs {
			dup = dup || x.kind == d.kind
		}
		if dup {
			continue
		}
		docs = append(docs, doc{d.av, d.kind, name})
		c.Files[fmt.Sprintf("/t/b/%s.yaml", name)] = fmt.Sprintf("apiVersion: %s\nkind: %s\nmetadata:\n  name: %s\n%s", d.av, d.kind, name, d.body)
		res += fmt.Sprintf("- %s.yaml\n", name)
	}
	c.Files["/t/b/cm.yaml"] = "apiVersion: v1\nkind: ConfigMap\nmetadata:\n  name: cm\ndata:\n  k: v\n"
	res += "- cm.yaml\n"
	// patches
	var pb strings.Builder
	var legacy strings.Builder
	descs := []string{}
	targets := append([]doc{}, docs...)
	if rng.Chance(40) {
		targets = append(targets, doc{"v1", "ConfigMap", "cm"})
	}
	pfiles := fileSet{}
	for i, d := range targets {
		if i > 0 && rng.Chance(40) {
			continue
		}
		pns := rng.Pick([]string{"prod", "prod", "elsewhere", n0, ""})
		nsLine := ""
		if pns != "" {
			nsLine = "  namespace: " + pns + "\n"
		}
		text := fmt.Sprintf("apiVersion: %s\nkind: %s\nmetadata:\n  name: %s\n%s  labels:\n    patched: \"yes\"\n", d.av, d.kind, d.name, nsLine)
		switch how := rng.Intn(4); how {
		case 0, 1: // patches: inline
			fmt.Fprintf(&pb, "- patch: |-\n%s", indent09(text, "    "))
			withTarget := how == 1 || (pns != "" && d.kind == "ConfigMap")
			if withTarget {
				fmt.Fprintf(&pb, "  target:\n    kind: %s\n    name: %s\n", d.kind, d.name)
			}
			descs = append(descs, fmt.Sprintf("%s patches ns=%q target=%v", d.kind, pns, withTarget))
		case 2: // patches: path
			pf := fmt.Sprintf("p%d.yaml", i)
			pfiles[pf] = text
			fmt.Fprintf(&pb, "- path: %s\n  target:\n    kind: %s\n    name: %s\n", pf, d.kind, d.name)
			descs = append(descs, fmt.Sprintf("%s patches-path ns=%q target=true", d.kind, pns))
		default: // patchesStrategicMerge (id taken from the patch document)
			if d.kind == "ConfigMap" && pns != "" && pns != n0 {
				pns, text = "", strings.Replace(text, nsLine, "", 1)
			}
			fmt.Fprintf(&legacy, "- |-\n%s", indent09(text, "  "))
			descs = append(descs, fmt.Sprintf("%s patchesStrategicMerge ns=%q", d.kind, pns))
		}
	}
	ptxt := ""
	if pb.Len() > 0 {
		ptxt += "patches:\n" + pb.String()
	}
	if legacy.Len() > 0 {
		ptxt += "patchesStrategicMerge:\n" + legacy.String()
	}
	base := "resources:\n" + res
	want := n0
	placement := rng.Intn(3)
	if n0 == "" {
		placement = rng.Intn(2) * 2 // 0 or 2
	}
	switch placement {
	case 0: // directive and patches in the same layer
		if n0 != "" {
			base += "namespace: " + n0 + "\n"
		}
		base += ptxt
		for f, t := range pfiles {
			c.Files["/t/b/"+f] = t
		}
		c.Files["/t/b/kustomization.yaml"] = base
		c.Root = "/t/b"
	case 1: // directive below, patches above
		base += "namespace: " + n0 + "\n"
		c.Files["/t/b/kustomization.yaml"] = base
		mid := "resources:\n- ../b\n" + ptxt
		for f, t := range pfiles {
			c.Files["/t/m/"+f] = t
		}
		c.Files["/t/m/kustomization.yaml"] = mid
		c.Root = "/t/m"
	default: // patches below, directive (if any) above
		base += ptxt
		for f, t := range pfiles {
			c.Files["/t/b/"+f] = t
		}
		c.Files["/t/b/kustomization.yaml"] = base
		mid := "resources:\n- ../b\n"
		if n0 != "" {
			mid += "namespace: " + n0 + "\n"
		}
		c.Files["/t/m/kustomization.yaml"] = mid
		c.Root = "/t/m"
	}
	c.Desc = fmt.Sprintf("directive=%q placement=%d; %s", n0, placement, strings.Join(descs, " | "))
	for _, d := range docs {
		c.Expect = append(c.Expect, c09Expect{Law: "cluster_untouched", Class: "C09/cluster_untouched/after-patch", Kind: d.kind, Name: d.name, Present: false})
	}
	if want != "" {
		c.Expect = append(c.Expect, c09Expect{Law: "outermost_wins", Class: "C09/moved/after-patch", Kind: "ConfigMap", Name: "cm", Present: true, Want: want})
	}
	return c
}

func genAnnoPatchCase09(rng *Rng) *c09FileCase {
	c := &c09FileCase{Files: fileSet{}}
	n0 := rng.Pick(c09Namespaces)
	orig := rng.Pick([]string{"", "", "old"})
	saAnn := rng.Chance(60)
	sa := "apiVersion: v1\nkind: ServiceAccount\nmetadata:\n  name: sa1\n"
	if orig != "" {
		sa += "  namespace: " + orig + "\n"
	}
	if saAnn {
		sa += "  annotations:\n    note: keep\n"
	}
	bk := rng.Pick([]string{"RoleBinding", "RoleBinding", "ClusterRoleBinding"})
	rb := "apiVersion: rbac.authorization.k8s.io/v1\nkind: " + bk + "\nmetadata:\n  name: rb\n"
	if orig != "" && bk == "RoleBinding" {
		rb += "  namespace: " + orig + "\n"
	}
	rbAnn := rng.Chance(40)
	if rbAnn {
		rb += "  annotations:\n    note: keep\n"
	}
	rk := "Role"
	if bk == "ClusterRoleBinding" {
		rk = "ClusterRole"
	}
	rb += "roleRef:\n  apiGroup: rbac.authorization.k8s.io\n  kind: " + rk + "\n  name: r\nsubjects:\n- kind: ServiceAccount\n  name: sa1\n"
	sns := "absent"
	if orig != "" && rng.Chance(60) {
		rb += "  namespace: " + orig + "\n"
		sns = orig
	}
	if orig != "" && sns == "absent" && bk == "ClusterRoleBinding" {
		// a subject without namespace in a cluster-wide binding designates no particular account of `old`: keep it designating
		rb += "  namespace: " + orig + "\n"
		sns = orig
	}
	c.Files["/t/b/sa.yaml"] = sa
	c.Files["/t/b/rb.yaml"] = rb
	inner := "resources:\n- sa.yaml\n- rb.yaml\nnamespace: " + n0 + "\n"
	ren := ""
	if rng.Chance(40) {
		ren = rng.Pick([]string{"namePrefix: pre-\n", "nameSuffix: -suf\n"})
		inner += ren
	}
	c.Files["/t/b/kustomization.yaml"] = inner
	// the outer layer: no directive of its own, patches on the account and / or the binding
	var pb, legacy strings.Builder
	descs := []string{}
	addPatch := func(kind, av, name string, has bool) {
		ops := []string{"add-map", "add-key"}
		if has {
			ops = append(ops, "replace-map", "remove-map", "sm-annotations")
		} else {
			ops = append(ops, "sm-annotations")
		}
		op := rng.Pick(ops)
		var text string
		switch op {
		case "add-map":
			text = "- op: add\n  path: /metadata/annotations\n  value:\n    iam.example.com/role: reader\n"
		case "add-key":
			if !has {
				text = "- op: add\n  path: /metadata/annotations\n  value: {}\n- op: add\n  path: /metadata/annotations/extra\n  value: x\n"
			} else {
				text = "- op: add\n  path: /metadata/annotations/extra\n  value: x\n"
			}
		case "replace-map":
			text = "- op: replace\n  path: /metadata/annotations\n  value:\n    iam.example.com/role: reader\n"
		case "remove-map":
			text = "- op: remove\n  path: /metadata/annotations\n"
		}
		if op == "sm-annotations" {
			sm := fmt.Sprintf("apiVersion: %s\nkind: %s\nmetadata:\n  name: %s\n  annotations:\n    iam.example.com/role: reader\n", av, kind, name)
			fmt.Fprintf(&pb, "- patch: |-\n%s  target:\n    kind: %s\n    name: %s\n", indent09(sm, "    "), kind, name)
		} else if rng.Chance(70) {
			fmt.Fprintf(&pb, "- patch: |-\n%s  target:\n    kind: %s\n    name: %s\n", indent09(text, "    "), kind, name)
			op += " via patches"
		} else {
			g, v := "", av
			if i := strings.Index(av, "/"); i >= 0 {
				g, v = av[:i], av[i+1:]
			}
			fmt.Fprintf(&legacy, "- target:\n    group: %q\n    version: %s\n    kind: %s\n    name: %s\n  patch: |-\n%s", g, v, kind, name, indent09(text, "    "))
			op += " via patchesJson6902"
		}
		descs = append(descs, kind+" "+op)
	}
	// the outer layer addresses the resources by their current names
	cur := func(n string) string {
		switch ren {
		case "namePrefix: pre-\n":
			return "pre-" + n
		case "nameSuffix: -suf\n":
			return n + "-suf"
		}
		return n
	}
	which := rng.Intn(10)
	if which < 8 {
		addPatch("ServiceAccount", "v1", cur("sa1"), saAnn)
	}
	if which >= 6 {
		addPatch(bk, "rbac.authorization.k8s.io/v1", cur("rb"), rbAnn)
	}
	outer := "resources:\n- ../b\n"
	if pb.Len() > 0 {
		outer += "patches:\n" + pb.String()
	}
	if legacy.Len() > 0 {
		outer += "patchesJson6902:\n" + legacy.String()
	}
	c.Files["/t/m/kustomization.yaml"] = outer
	c.Root = "/t/m"
	if rng.Chance(25) { // one more plain layer, sometimes renaming again: the references have to survive that too
		top := "resources:\n- ../m\n"
		if rng.Chance(50) {
			top += "namePrefix: top-\n"
		}
		c.Files["/t/top/kustomization.yaml"] = top
		c.Root = "/t/top"
	}
	c.Desc = fmt.Sprintf("orig=%q subject-ns=%s %s rename=%q; %s", orig, sns, bk, strings.TrimSpace(ren), strings.Join(descs, " | "))
	c.Expect = []c09Expect{
		{Law: "outermost_wins", Class: "C09/moved/after-annotation-patch", Kind: "ServiceAccount", Name: "sa1", Present: true, Want: n0},
		{Law: "subjects", Class: "C09/subjects/after-annotation-patch", Kind: bk, Name: "rb", Subject: 0, Acct: "sa1"},
	}
	return c
}
