package main

import (
	"bytes"
	"crypto/sha256"
	"encoding/hex"
	"encoding/json"
	"fmt"
	"os"
	"os/exec"
	"path/filepath"
	"runtime"
	"sort"
	"strings"
	"sync"
	"time"

	openapi_v2 "github.com/google/gnostic-models/openapiv2"
	"google.golang.org/protobuf/proto"
	"k8s.io/kube-openapi/pkg/validation/spec"
	"sigs.k8s.io/kustomize/api/krusty"
	"sigs.k8s.io/kustomize/kyaml/filesys"
	"sigs.k8s.io/kustomize/kyaml/openapi"
	"sigs.k8s.io/kustomize/kyaml/openapi/kubernetesapi"
	"sigs.k8s.io/kustomize/kyaml/openapi/kustomizationapi"
	kyaml "sigs.k8s.io/kustomize/kyaml/yaml"
)

// C16: independent builds may run concurrently.
//  (a) correspondence: the package-level state machine of kyaml/openapi (KV.Glob.OpenApiState) against the
//      real globals, on sequences of public-API calls and whole krusty builds, one fresh state per sequence
//      (child processes: the state is process-global);
//  (b) search: a -race build of harness/c16race runs 2..16 generated default-schema trees concurrently,
//      race reports are parsed into (function, function) pairs, every concurrent output is compared with
//      the output of the same tree built alone.

func init() {
	if os.Getenv("VERIF_C16_CHILD") != "" {
		c16ChildMain()
		os.Exit(0)
	}
	register("C16", propDef{
		header:     "From KV Require Import Corr.C16.\nOpen Scope string_scope.\n",
		caseType:   "case16",
		mismatchFn: "mismatches16",
		run:        runC16,
		replay:     replayC16,
	})
}

// ---------------------------------------------------------------- universe

type c16TM struct {
	AV   string `json:"av"`
	Kind string `json:"kind"`
}

var c16Tms = []c16TM{
	{"v1", "ConfigMap"},
	{"v1", "Namespace"},
	{"apps/v1", "Deployment"},
	{"example.com/v1", "Foo"},
	{"example.com/v1", "Bar"},
	{"kustomize.config.k8s.io/v1beta1", "ConfigMapArgs"},
}

var c16Names = []string{
	"io.k8s.api.apps.v1.Deployment",
	"io.k8s.api.core.v1.ConfigMap",
	"io.k8s.api.core.v1.Namespace",
	"com.example.v1.Foo",
	"com.example.v1.FooAlias",
	"com.example.v1.Bar",
	"io.k8s.api.apps.v1.ConfigMapArgs",
	"com.example.v1.DeploymentAlias",
}

// path of the list whose merge key is observed, per kind
var c16MkPath = map[string][]string{
	"Foo":        {"spec", "items"},
	"Bar":        {"spec", "items"},
	"Deployment": {"spec", "template", "spec", "containers"},
}

func c16TmIndex(kind string) int {
	for i, t := range c16Tms {
		if t.Kind == kind {
			return i
		}
	}
	return -1
}

func (t c16TM) typeMeta() kyaml.TypeMeta { return kyaml.TypeMeta{APIVersion: t.AV, Kind: t.Kind} }
func (t c16TM) coq() string              { return fmt.Sprintf("(%s, %s)", coqStr(t.AV), coqStr(t.Kind)) }
func (t c16TM) gvk() (g, v, k string) {
	if i := strings.Index(t.AV, "/"); i >= 0 {
		return t.AV[:i], t.AV[i+1:], t.Kind
	}
	return "", t.AV, t.Kind
}

// ---------------------------------------------------------------- abstract schemas

type c16Def struct {
	Name string  `json:"name"`
	Tms  []c16TM `json:"tms"`
	Mark string  `json:"mark"`
	Mk   bool    `json:"mk"`
}
type c16Path struct {
	Tm         c16TM `json:"tm"`
	Namespaced bool  `json:"namespaced"`
}
type c16Schema struct {
	ID    int       `json:"id"`
	Valid bool      `json:"valid"`
	Defs  []c16Def  `json:"defs"`
	Paths []c16Path `json:"paths"`
	Raw   string    `json:"raw"` // the bytes handed to the implementation
}

func (s c16Schema) hash() string {
	h := sha256.Sum256([]byte(s.Raw))
	return hex.EncodeToString(h[:8])
}

func (s c16Schema) coq() string {
	defs := []string{}
	for _, d := range s.Defs {
		tms := []string{}
		for _, t := range d.Tms {
			tms = append(tms, t.coq())
		}
		defs = append(defs, fmt.Sprintf("(mkDef %s [%s] %s %s)", coqStr(d.Name), strings.Join(tms, "; "), coqStr(d.Mark), coqBool(d.Mk)))
	}
	paths := []string{}
	for _, p := range s.Paths {
		paths = append(paths, fmt.Sprintf("(%s, %s)", p.Tm.coq(), coqBool(p.Namespaced)))
	}
	return fmt.Sprintf("(mkSchema %d%%N %s [%s] [%s])", s.ID, coqBool(s.Valid), strings.Join(defs, "; "), strings.Join(paths, "; "))
}

// listProps renders properties leading to a list at path with or without a merge key.
func c16ListProps(path []string, mk bool) map[string]interface{} {
	if len(path) == 0 {
		m := map[string]interface{}{"type": "array", "items": map[string]interface{}{"type": "object"}}
		if mk {
			m["x-kubernetes-patch-merge-key"] = "name"
			m["x-kubernetes-patch-strategy"] = "merge"
		}
		return m
	}
	return map[string]interface{}{"type": "object", "properties": map[string]interface{}{path[0]: c16ListProps(path[1:], mk)}}
}

// genSchema16 makes custom schema number id (ids start at 1).
func genSchema16(g *Rng, id int) c16Schema {
	s := c16Schema{ID: id, Valid: true}
	if g.Chance(10) {
		// rejected by parse(); the bytes are made distinct per id without making them acceptable
		s.Valid = false
		switch g.Intn(6) {
		case 0:
			s.Raw = fmt.Sprintf("definitions: 3\n# %d\n", id)
		case 1:
			s.Raw = `{"definitions": ` + strings.Repeat(" ", id)
		case 2:
			s.Raw = fmt.Sprintf("a: [\n# %d\n", id)
		case 3:
			s.Raw = fmt.Sprintf("hello%d", id)
		case 4:
			s.Raw = fmt.Sprintf(`{"definitions": 3, "info": {"title": "%d"}}`, id)
		default:
			if id == 1 {
				s.Raw = "" // an empty (but non-nil) schema file
			} else {
				s.Raw = fmt.Sprintf(`{"paths": 7, "info": {"title": "%d"}}`, id)
			}
		}
		return s
	}
	if g.Chance(5) {
		// a YAML null document: accepted, adds nothing (but makes the maps non-nil)
		s.Raw = strings.Repeat("\n", id)
		return s
	}
	type cand struct {
		name string
		tm   c16TM
	}
	mark := func(what string) string { return fmt.Sprintf("verif-custom-%d-%s", id, what) }
	defs := map[string]interface{}{}
	paths := map[string]interface{}{}
	add := func(name string, tm c16TM, mk bool) {
		d := c16ListProps(c16MkPath[tm.Kind], mk)
		if len(c16MkPath[tm.Kind]) == 0 {
			d = map[string]interface{}{"type": "object"}
		}
		d["description"] = mark(tm.Kind)
		gr, v, k := tm.gvk()
		d["x-kubernetes-group-version-kind"] = []interface{}{map[string]interface{}{"group": gr, "kind": k, "version": v}}
		defs[name] = d
		s.Defs = append(s.Defs, c16Def{Name: name, Tms: []c16TM{tm}, Mark: mark(tm.Kind), Mk: mk})
	}
	addPath := func(tm c16TM, namespaced bool) {
		gr, v, k := tm.gvk()
		base := "/apis/" + gr + "/" + v
		if gr == "" {
			base = "/api/" + v
		}
		p := base + "/" + strings.ToLower(k) + "s"
		if namespaced {
			p = base + "/namespaces/{namespace}/" + strings.ToLower(k) + "s"
		}
		paths[p] = map[string]interface{}{"get": map[string]interface{}{
			"x-kubernetes-group-version-kind": map[string]interface{}{"group": gr, "kind": k, "version": v}}}
		s.Paths = append(s.Paths, c16Path{Tm: tm, Namespaced: namespaced})
	}
	foo, bar, dep, cm := c16Tms[3], c16Tms[4], c16Tms[2], c16Tms[0]
	if g.Chance(80) {
		name := "com.example.v1.Foo"
		if g.Chance(25) {
			name = "com.example.v1.FooAlias"
		}
		add(name, foo, g.Chance(60))
		switch g.Intn(4) {
		case 0:
			addPath(foo, true)
		case 1:
			addPath(foo, false)
		case 2:
			addPath(foo, false)
			addPath(foo, true)
		}
	}
	if g.Chance(40) {
		add("com.example.v1.Bar", bar, g.Chance(50))
		switch g.Intn(3) {
		case 0:
			addPath(bar, true)
		case 1:
			addPath(bar, false)
		}
	} else if g.Chance(20) {
		addPath(bar, g.Bool()) // a path without a definition
	}
	if g.Chance(35) {
		// re-declares the built-in apps/v1 Deployment: under the built-in definition name, or under a name of its own
		// (then two stored definitions claim the same group/version/kind: the one parsed last must win the index)
		name := "io.k8s.api.apps.v1.Deployment"
		if g.Chance(50) {
			name = "com.example.v1.DeploymentAlias"
		}
		add(name, dep, g.Chance(50))
		if g.Chance(30) {
			addPath(dep, false)
		}
	}
	if g.Chance(10) {
		add("io.k8s.api.core.v1.ConfigMap", cm, false)
	}
	doc := map[string]interface{}{"definitions": defs, "paths": paths, "info": map[string]interface{}{"title": fmt.Sprintf("custom-%d", id)}}
	if len(paths) == 0 && g.Bool() {
		delete(doc, "paths")
	}
	if len(defs) == 0 && g.Bool() {
		delete(doc, "definitions")
	}
	j, _ := json.Marshal(doc)
	if g.Chance(40) {
		// YAML spelling (first byte is not '{'): parse() converts it back to JSON
		var v interface{}
		_ = json.Unmarshal(j, &v)
		n := &kyaml.Node{}
		_ = n.Encode(v)
		y, err := kyaml.Marshal(n)
		if err == nil && len(y) > 0 && y[0] != '{' {
			j = y
		}
	}
	s.Raw = string(j)
	return s
}

// ---------------------------------------------------------------- the documents compiled into the binary, abstracted

var (
	c16EnvOnce sync.Once
	c16EnvTerm string
	c16EnvErr  error
)

func c16DefsOf(defs spec.Definitions, mk map[string]bool) []c16Def {
	out := []c16Def{}
	for _, n := range c16Names {
		d, ok := defs[n]
		if !ok {
			continue
		}
		ad := c16Def{Name: n, Mark: d.Description, Mk: mk[n]}
		if ext, ok := d.Extensions["x-kubernetes-group-version-kind"].([]interface{}); ok {
			for _, e := range ext {
				m, ok := e.(map[string]interface{})
				if !ok {
					continue
				}
				av, _ := m["version"].(string)
				if gs, _ := m["group"].(string); gs != "" {
					av = gs + "/" + av
				}
				k, _ := m["kind"].(string)
				ad.Tms = append(ad.Tms, c16TM{av, k})
			}
		}
		out = append(out, ad)
	}
	return out
}

// c16PathsOf re-derives, independently of the package under test, the namespaceability of the universe type metas.
func c16PathsOf(paths *spec.Paths) []c16Path {
	out := []c16Path{}
	if paths == nil {
		return out
	}
	keys := make([]string, 0, len(paths.Paths))
	for p := range paths.Paths {
		keys = append(keys, p)
	}
	sort.Strings(keys)
	for _, p := range keys {
		pi := paths.Paths[p]
		if pi.Get == nil {
			continue
		}
		m, ok := pi.Get.Extensions["x-kubernetes-group-version-kind"].(map[string]interface{})
		if !ok {
			continue
		}
		av, _ := m["version"].(string)
		if gs, _ := m["group"].(string); gs != "" {
			av = gs + "/" + av
		}
		k, _ := m["kind"].(string)
		for _, t := range c16Tms {
			if t.AV == av && t.Kind == k {
				out = append(out, c16Path{Tm: t, Namespaced: strings.Contains(p, "namespaces/{namespace}")})
			}
		}
	}
	return out
}

// c16Env returns the Coq term of the model environment: the built-in schema(s) and the kustomization API
// document, projected on the universe. Derived from the assets directly, not through the openapi globals.
func c16Env() (string, error) {
	c16EnvOnce.Do(func() {
		var builtins []string
		vers := []string{}
		for v := range kubernetesapi.OpenAPIMustAsset {
			vers = append(vers, v)
		}
		sort.Strings(vers)
		for i, v := range vers {
			asset := filepath.Join("kubernetesapi", strings.ReplaceAll(v, ".", "_"), "swagger.pb")
			doc := &openapi_v2.Document{}
			if err := proto.Unmarshal(kubernetesapi.OpenAPIMustAsset[v](asset), doc); err != nil {
				c16EnvErr = err
				return
			}
			var sw spec.Swagger
			if _, err := sw.FromGnostic(doc); err != nil {
				c16EnvErr = err
				return
			}
			s := c16Schema{ID: 1000 + i, Valid: true,
				Defs:  c16DefsOf(sw.Definitions, map[string]bool{"io.k8s.api.apps.v1.Deployment": true}),
				Paths: c16PathsOf(sw.Paths)}
			builtins = append(builtins, fmt.Sprintf("(%s, %s)", coqStr(v), s.coq()))
		}
		var ksw spec.Swagger
		if err := ksw.UnmarshalJSON(kustomizationapi.MustAsset("kustomizationapi/swagger.json")); err != nil {
			c16EnvErr = err
			return
		}
		k := c16Schema{ID: 2000, Valid: true, Defs: c16DefsOf(ksw.Definitions, nil), Paths: c16PathsOf(ksw.Paths)}
		c16EnvTerm = fmt.Sprintf("(mkEnv [%s] %s)", strings.Join(builtins, "; "), k.coq())
	})
	return c16EnvTerm, c16EnvErr
}

// ---------------------------------------------------------------- trees

type c16Res struct {
	Kind string `json:"kind"`
	Name string `json:"name"`
}

type c16Tree struct {
	Ver        *string  `json:"ver,omitempty"`
	Schema     int      `json:"schema"` // index into the sequence's schemas, -1 = none
	Namespace  bool     `json:"namespace"`
	Res        []c16Res `json:"res"`
	HasBase    bool     `json:"has_base"`
	BaseFirst  bool     `json:"base_first"`
	BaseVer    *string  `json:"base_ver,omitempty"`
	BaseSchema int      `json:"base_schema"`
	BaseRes    []c16Res `json:"base_res"`
	Patches    []string `json:"patches"` // names of resources (Deployment / Foo / Bar) that get a strategic-merge patch
	// custom transformer configuration (`configurations:` file): extra field specs for a CRD kind plus the
	// directive that uses them; only used by the concurrent rounds (C16 race driver)
	Cfg []c16CfgSpec `json:"cfg,omitempty"`
	// configMapGenerator / secretGenerator entries (names get a content-hash suffix): concurrent rounds only
	Gens []c16Gen `json:"gens,omitempty"`
	// a failure inside MakeCustomizedResMap that has nothing to do with the schema:
	//   "missing-file" = a last `resources:` entry naming a file that does not exist;
	//   "bad-patch"    = a last strategic-merge patch whose target (a Deployment) does not exist
	Fail string `json:"fail,omitempty"`
}

type c16Gen struct {
	Secret bool     `json:"secret"`
	Name   string   `json:"name"`
	Lits   []string `json:"lits"` // key=value
}

// c16CfgSpec: one custom field spec `{kind: Kind, path: spec/<Field>}` of directive Dir
// (namespace | labels | annotations | prefix | suffix | images | replicas).
type c16CfgSpec struct {
	Dir   string `json:"dir"`
	Kind  string `json:"kind"`
	Field string `json:"field"`
}

var c16CfgKey = map[string]string{"namespace": "namespace", "labels": "commonLabels", "templatelabels": "templateLabels", "annotations": "commonAnnotations",
	"prefix": "namePrefix", "suffix": "nameSuffix", "images": "images", "replicas": "replicas"}

func (t *c16Tree) hasCfg(dir string) bool {
	for _, c := range t.Cfg {
		if c.Dir == dir {
			return true
		}
	}
	return false
}

// cfgYaml renders the `configurations:` file.
func (t *c16Tree) cfgYaml() string {
	var b strings.Builder
	for _, dir := range []string{"namespace", "labels", "templatelabels", "annotations", "prefix", "suffix", "images", "replicas"} {
		first := true
		for _, c := range t.Cfg {
			if c.Dir != dir {
				continue
			}
			if first {
				b.WriteString(c16CfgKey[dir] + ":\n")
				first = false
			}
			fmt.Fprintf(&b, "- path: %s/%s\n  kind: %s\n", c16CfgRoot(c.Kind), c.Field, c.Kind)
			switch dir {
			case "namespace", "labels", "templatelabels", "annotations", "replicas":
				b.WriteString("  create: true\n")
			}
		}
	}
	return b.String()
}

// the map under which the custom field specs of a kind point
func c16CfgRoot(kind string) string {
	if kind == "ConfigMap" {
		return "data"
	}
	return "spec"
}

// resYaml: the resource plus the scalar fields the custom prefix / suffix / image specs of the tree point at.
func (t *c16Tree) resYaml(r c16Res) string {
	y := c16ResYaml(r)
	for _, c := range t.Cfg {
		if c.Kind != r.Kind {
			continue
		}
		switch c.Dir {
		case "prefix", "suffix":
			y += fmt.Sprintf("  %s: nm\n", c.Field)
		case "images":
			y += fmt.Sprintf("  %s: nginx:1.0\n", c.Field)
		}
	}
	return y
}

func c16ResYaml(r c16Res) string {
	tm := c16Tms[c16TmIndex(r.Kind)]
	head := fmt.Sprintf("apiVersion: %s\nkind: %s\nmetadata:\n  name: %s\n", tm.AV, tm.Kind, r.Name)
	switch r.Kind {
	case "Foo", "Bar":
		return head + "spec:\n  items:\n  - name: a\n    v: 1\n  - name: b\n    v: 2\n"
	case "Deployment":
		return head + "spec:\n  template:\n    spec:\n      containers:\n      - name: c1\n        image: i1\n      - name: c2\n        image: i2\n"
	case "ConfigMap":
		return head + "data:\n  k: v\n"
	}
	return head
}

func c16PatchYaml(r c16Res) string {
	tm := c16Tms[c16TmIndex(r.Kind)]
	head := fmt.Sprintf("apiVersion: %s\nkind: %s\nmetadata:\n  name: %s\n", tm.AV, tm.Kind, r.Name)
	if r.Kind == "Deployment" {
		return head + "spec:\n  template:\n    spec:\n      containers:\n      - name: c2\n        image: i3\n"
	}
	return head + "spec:\n  items:\n  - name: b\n    v: 3\n"
}

func c16Field(ver *string, hasSchema bool, file string) string {
	if ver == nil && !hasSchema {
		return ""
	}
	s := "openapi:\n"
	if ver != nil {
		s += fmt.Sprintf("  version: %q\n", *ver)
	}
	if hasSchema {
		s += "  path: " + file + "\n"
	}
	return s
}

func (t *c16Tree) allRes() []c16Res {
	out := append([]c16Res{}, t.Res...)
	if t.HasBase {
		out = append(out, t.BaseRes...)
	}
	return out
}

func (t *c16Tree) find(name string) (c16Res, bool) {
	for _, r := range t.allRes() {
		if r.Name == name {
			return r, true
		}
	}
	return c16Res{}, false
}

func (t *c16Tree) fs(schemas []c16Schema) filesys.FileSystem {
	fs := filesys.MakeFsInMemory()
	var k strings.Builder
	k.WriteString("apiVersion: kustomize.config.k8s.io/v1beta1\nkind: Kustomization\n")
	entries := []string{}
	if len(t.Res) > 0 {
		entries = append(entries, "r.yaml")
	}
	if t.HasBase {
		if t.BaseFirst {
			entries = append([]string{"base"}, entries...)
		} else {
			entries = append(entries, "base")
		}
	}
	if t.Fail == "missing-file" {
		entries = append(entries, "missing.yaml")
	}
	k.WriteString("resources:\n")
	for _, e := range entries {
		k.WriteString("- " + e + "\n")
	}
	if t.Namespace {
		k.WriteString("namespace: ns1\n")
	}
	k.WriteString(c16Field(t.Ver, t.Schema >= 0, "s.json"))
	if len(t.Cfg) > 0 {
		k.WriteString("configurations:\n- cfg.yaml\n")
		_ = fs.WriteFile("/t/cfg.yaml", []byte(t.cfgYaml()))
		if t.hasCfg("labels") {
			k.WriteString("commonLabels:\n  vl: x\n")
		}
		if t.hasCfg("annotations") {
			k.WriteString("commonAnnotations:\n  va: yv\n")
		}
		if t.hasCfg("templatelabels") {
			k.WriteString("labels:\n- pairs:\n    tl: tv\n  includeTemplates: true\n")
		}
		if t.hasCfg("prefix") {
			k.WriteString("namePrefix: p-\n")
		}
		if t.hasCfg("suffix") {
			k.WriteString("nameSuffix: -s\n")
		}
		if t.hasCfg("images") {
			k.WriteString("images:\n- name: nginx\n  newTag: \"9\"\n")
		}
		if t.hasCfg("replicas") {
			k.WriteString("replicas:\n")
			seen := map[string]bool{}
			for _, c := range t.Cfg {
				if c.Dir != "replicas" {
					continue
				}
				for _, r := range t.allRes() {
					if r.Kind == c.Kind && !seen[r.Name] {
						seen[r.Name] = true
						fmt.Fprintf(&k, "- name: %s\n  count: 7\n", r.Name)
					}
				}
			}
		}
	}
	for _, secret := range []bool{false, true} {
		first := true
		for _, gn := range t.Gens {
			if gn.Secret != secret {
				continue
			}
			if first {
				if secret {
					k.WriteString("secretGenerator:\n")
				} else {
					k.WriteString("configMapGenerator:\n")
				}
				first = false
			}
			fmt.Fprintf(&k, "- name: %s\n  literals:\n", gn.Name)
			for _, l := range gn.Lits {
				fmt.Fprintf(&k, "  - %s\n", l)
			}
		}
	}
	if len(t.Patches) > 0 || t.Fail == "bad-patch" {
		k.WriteString("patches:\n")
		for i := range t.Patches {
			fmt.Fprintf(&k, "- path: p%d.yaml\n", i)
		}
		if t.Fail == "bad-patch" {
			k.WriteString("- path: pbad.yaml\n")
			_ = fs.WriteFile("/t/pbad.yaml", []byte(c16PatchYaml(c16Res{Kind: "Deployment", Name: "no-such-resource"})))
		}
	}
	_ = fs.WriteFile("/t/kustomization.yaml", []byte(k.String()))
	if t.Schema >= 0 {
		_ = fs.WriteFile("/t/s.json", []byte(schemas[t.Schema].Raw))
	}
	docs := []string{}
	for _, r := range t.Res {
		docs = append(docs, t.resYaml(r))
	}
	if len(docs) > 0 {
		_ = fs.WriteFile("/t/r.yaml", []byte(strings.Join(docs, "---\n")))
	}
	for i, p := range t.Patches {
		r, _ := t.find(p)
		_ = fs.WriteFile(fmt.Sprintf("/t/p%d.yaml", i), []byte(c16PatchYaml(r)))
	}
	if t.HasBase {
		var b strings.Builder
		b.WriteString("apiVersion: kustomize.config.k8s.io/v1beta1\nkind: Kustomization\nresources:\n- rb.yaml\n")
		b.WriteString(c16Field(t.BaseVer, t.BaseSchema >= 0, "sb.json"))
		_ = fs.WriteFile("/t/base/kustomization.yaml", []byte(b.String()))
		if t.BaseSchema >= 0 {
			_ = fs.WriteFile("/t/base/sb.json", []byte(schemas[t.BaseSchema].Raw))
		}
		docs := []string{}
		for _, r := range t.BaseRes {
			docs = append(docs, t.resYaml(r))
		}
		_ = fs.WriteFile("/t/base/rb.yaml", []byte(strings.Join(docs, "---\n")))
	}
	return fs
}

// c16Build runs krusty on the tree; returns outcome class, message, output YAML.
func c16Build(t *c16Tree, schemas []c16Schema) (cls, msg, out string) {
	cls, msg = protect(func() error {
		m, err := krusty.MakeKustomizer(krusty.MakeDefaultOptions()).Run(t.fs(schemas), "/t")
		if err != nil {
			return err
		}
		y, err := m.AsYaml()
		if err != nil {
			return err
		}
		out = string(y)
		return nil
	})
	return
}

// queries of the build in the order kustomize issues them (see design.d/C16.md) and what the output reveals.
type c16Query struct {
	K      string // ns | schema | sub
	Tm     int
	Ver    *string
	Schema int
	Reveal string // "" = not observable; "ns:<name>" / "mk:<name>" = read from the output for that resource
}

func (t *c16Tree) queries() []c16Query {
	qs := []c16Query{}
	file := func() {
		for _, r := range t.Res {
			qs = append(qs, c16Query{K: "ns", Tm: c16TmIndex(r.Kind)})
		}
	}
	base := func() {
		if !t.HasBase {
			return
		}
		qs = append(qs, c16Query{K: "sub", Ver: t.BaseVer, Schema: t.BaseSchema})
		for _, r := range t.BaseRes {
			qs = append(qs, c16Query{K: "ns", Tm: c16TmIndex(r.Kind)})
		}
	}
	if t.BaseFirst {
		base()
		file()
	} else {
		file()
		base()
		if t.HasBase {
			// when the base's accumulator is merged into the parent's, the ids of the resources loaded BEFORE the base are
			// computed again (resid.NewGvk): under a schema the base has just selected this is what initialises it. In a
			// build that succeeds the later stages ask the same questions anyway; in one that fails right after, they do not.
			file()
		}
	}
	if t.Fail == "missing-file" {
		return append(qs, c16Query{K: "fail"})
	}
	for _, p := range t.Patches {
		r, _ := t.find(p)
		qs = append(qs, c16Query{K: "ns", Tm: c16TmIndex(r.Kind)})
		qs = append(qs, c16Query{K: "schema", Tm: c16TmIndex(r.Kind), Reveal: "mk:" + r.Name})
	}
	if t.Fail == "bad-patch" {
		qs = append(qs, c16Query{K: "ns", Tm: c16TmIndex("Deployment")})
		return append(qs, c16Query{K: "fail"})
	}
	if t.Namespace {
		for _, r := range t.allRes() {
			qs = append(qs, c16Query{K: "ns", Tm: c16TmIndex(r.Kind), Reveal: "ns:" + r.Name})
		}
	}
	return qs
}

// c16Reveal reads what the output says about one resource: namespace set? list length?
func c16Reveal(out string) (hasNs map[string]bool, listLen map[string]int, err error) {
	hasNs, listLen = map[string]bool{}, map[string]int{}
	for _, d := range strings.Split(out, "\n---\n") {
		if strings.TrimSpace(d) == "" {
			continue
		}
		n, e := kyaml.Parse(d)
		if e != nil {
			return nil, nil, e
		}
		// the namespace transformer renames a Namespace object to the namespace itself; key by kind for it
		name := n.GetName()
		if n.GetKind() == "Namespace" {
			name = "@Namespace"
		}
		hasNs[name] = n.GetNamespace() != ""
		if p, ok := c16MkPath[n.GetKind()]; ok {
			l, e := n.Pipe(kyaml.Lookup(p...))
			if e == nil && l != nil && l.YNode().Kind == kyaml.SequenceNode {
				listLen[name] = len(l.YNode().Content)
			} else {
				listLen[name] = -1
			}
		}
	}
	return
}

// ---------------------------------------------------------------- operation sequences (child protocol)

type c16Op struct {
	K      string   `json:"k"` // set isns cluster schemafor version reset suppress addschema build
	Ver    *string  `json:"ver,omitempty"`
	Schema int      `json:"schema"`
	Reset  bool     `json:"reset"`
	Tm     int      `json:"tm"`
	Tree   *c16Tree `json:"tree,omitempty"`
}

type c16Seq struct {
	Schemas []c16Schema `json:"schemas"`
	Ops     []c16Op     `json:"ops"`
}

type c16Step struct {
	Class string                `json:"class"`
	Msg   string                `json:"msg"`
	A     bool                  `json:"a"`
	B     bool                  `json:"b"`
	Found bool                  `json:"found"` // schemafor: a schema was returned
	Desc  string                `json:"desc"`
	Str   string                `json:"str"`
	Out   string                `json:"out"`
	Snap  openapi.VerifStateC16 `json:"snap"`
}

type c16SeqRes struct {
	First openapi.VerifStateC16 `json:"first"`
	Steps []c16Step             `json:"steps"`
}

func c16Snap() openapi.VerifStateC16 {
	tms := make([]kyaml.TypeMeta, len(c16Tms))
	for i, t := range c16Tms {
		tms[i] = t.typeMeta()
	}
	return openapi.VerifSnapshotC16(c16Names, tms)
}

func c16FieldMap(ver *string, hasSchema bool) map[string]string {
	if ver == nil && !hasSchema {
		return nil
	}
	m := map[string]string{}
	if ver != nil {
		m["version"] = *ver
	}
	if hasSchema {
		m["path"] = "s.json"
	}
	return m
}

// c16Exec runs one sequence against the implementation in this process, from a reset state.
func c16Exec(seq c16Seq, pristine bool) c16SeqRes {
	if !pristine {
		openapi.ResetOpenAPI()
	}
	res := c16SeqRes{First: c16Snap()}
	for _, op := range seq.Ops {
		var st c16Step
		switch op.K {
		case "set":
			var b []byte
			if op.Schema >= 0 {
				b = []byte(seq.Schemas[op.Schema].Raw)
			}
			st.Class, st.Msg = protect(func() error { return openapi.SetSchema(c16FieldMap(op.Ver, false), b, op.Reset) })
		case "isns":
			st.Class, st.Msg = protect(func() error { st.A, st.B = openapi.IsNamespaceScoped(c16Tms[op.Tm].typeMeta()); return nil })
		case "cluster":
			st.Class, st.Msg = protect(func() error { st.A = openapi.IsCertainlyClusterScoped(c16Tms[op.Tm].typeMeta()); return nil })
		case "schemafor":
			st.Class, st.Msg = protect(func() error {
				rs := openapi.SchemaForResourceType(c16Tms[op.Tm].typeMeta())
				if rs == nil || rs.Schema == nil {
					return nil
				}
				st.Found = true
				st.Desc = rs.Schema.Description
				if p, ok := c16MkPath[c16Tms[op.Tm].Kind]; ok {
					if l := rs.Lookup(p...); l != nil && l.Schema != nil {
						_, mk := l.PatchStrategyAndKey()
						st.A = mk != ""
					}
				}
				return nil
			})
		case "version":
			st.Class, st.Msg = protect(func() error { st.Str = openapi.GetSchemaVersion(); return nil })
		case "reset":
			st.Class, st.Msg = protect(func() error { openapi.ResetOpenAPI(); return nil })
		case "suppress":
			st.Class, st.Msg = protect(func() error { openapi.SuppressBuiltInSchemaUse(); return nil })
		case "addschema":
			st.Class, st.Msg = protect(func() error { return openapi.AddSchema([]byte(seq.Schemas[op.Schema].Raw)) })
		case "build":
			st.Class, st.Msg, st.Out = c16Build(op.Tree, seq.Schemas)
		}
		st.Snap = c16Snap()
		res.Steps = append(res.Steps, st)
	}
	return res
}

// ---------------------------------------------------------------- model-independent expectations

// c16Expect judges one executed sequence against facts about the API that do not need the Coq model (so that a
// disagreeing case can be reported as a concrete failing input, and a replay can decide on its own):
//   - SetSchema either leaves the parsed maps alone or drops them completely, and it drops them exactly when the
//     selection moves away from a custom schema or to a different one; with no version and no schema it otherwise
//     changes nothing but the version string (in particular it must not clear schemaInit: every build calls it);
//     selecting the built-in version already in use changes nothing but the version string; it is a no-op when a
//     schema is set and !reset; a custom schema / a valid version is installed exactly;
//   - SchemaForResourceType leaves schemaInit set; queries never shrink the maps;
//   - precomputed kinds are answered from the table without touching the state;
//   - GetSchemaVersion agrees with the snapshot; ResetOpenAPI restores the pristine state;
//   - after a build without openapi field (also in its base) no custom schema is installed, and the build does not
//     un-initialise a built-in schema that was initialised.
func c16Expect(seq c16Seq, res c16SeqRes) []string {
	var bad []string
	say := func(i int, name, detail string) {
		bad = append(bad, fmt.Sprintf("%s (step %d %s): %s", name, i, seq.Ops[i].K, detail))
	}
	js := func(s openapi.VerifStateC16) string { b, _ := json.Marshal(s); return string(b) }
	mapsOf := func(s openapi.VerifStateC16) string {
		return fmt.Sprint(s.NumDefs, s.NumByType, s.NumNs, s.Defs, s.ByType, s.Ns, s.NsNotPrecomp)
	}
	dropped := func(s openapi.VerifStateC16) bool {
		return s.NumDefs == -1 && s.NumByType == -1 && s.NumNs == -1 && !s.SchemaInit && s.DefaultStatus == 0
	}
	sameBuiltin := func(a, b, dflt string) bool {
		if a == "" {
			a = dflt
		}
		if b == "" {
			b = dflt
		}
		return a == b
	}
	isDefaultField := func(ver *string, schema int) bool { return schema < 0 && (ver == nil || *ver == "") }
	prev := res.First
	for i, op := range seq.Ops {
		if i >= len(res.Steps) {
			break
		}
		st := res.Steps[i]
		cur := st.Snap
		if op.K != "reset" && op.K != "set" && op.K != "build" && (cur.NumDefs < prev.NumDefs || cur.NumByType < prev.NumByType || cur.NumNs < prev.NumNs) {
			say(i, "maps-shrank", fmt.Sprintf("before %s after %s", mapsOf(prev), mapsOf(cur)))
		}
		switch op.K {
		case "set":
			if mapsOf(cur) != mapsOf(prev) && !dropped(cur) {
				say(i, "SetSchema-changed-the-parsed-maps-without-dropping-them", fmt.Sprintf("before %s after %s", mapsOf(prev), mapsOf(cur)))
			}
			isSet := prev.Version != "" || prev.HasCustom
			switch {
			case isSet && !op.Reset:
				if js(cur) != js(prev) || st.Class != ClsOk {
					say(i, "SetSchema-without-reset-changed-a-set-schema", js(prev)+" -> "+js(cur))
				}
			case st.Class != ClsOk:
				// a rejected field (unknown version, version and schema together) changes nothing at all (since /repo 7964400
				// an unknown version is rejected before it is stored)
				if js(cur) != js(prev) {
					say(i, "rejected-SetSchema-changed-the-state", js(prev)+" -> "+js(cur))
				}
			case isDefaultField(op.Ver, op.Schema):
				if prev.HasCustom {
					if cur.HasCustom || cur.Version != "" || !dropped(cur) {
						say(i, "default-SetSchema-kept-a-custom-schema", js(prev)+" -> "+js(cur))
					}
				} else {
					want := prev
					want.Version = ""
					if js(cur) != js(want) {
						say(i, "default-SetSchema-changed-more-than-the-version", js(prev)+" -> "+js(cur))
					}
				}
			case op.Schema >= 0:
				h := seq.Schemas[op.Schema].hash()
				if !cur.HasCustom || cur.CustomHash != h || cur.SchemaInit || cur.Version != "custom" {
					say(i, "custom-SetSchema-not-installed", js(cur))
				}
				if prev.HasCustom && prev.CustomHash != h && !dropped(cur) {
					say(i, "custom-SetSchema-kept-what-another-custom-schema-parsed", js(prev)+" -> "+js(cur))
				}
				if (!prev.HasCustom || prev.CustomHash == h) && mapsOf(cur) != mapsOf(prev) {
					say(i, "custom-SetSchema-dropped-the-maps-needlessly", js(prev)+" -> "+js(cur))
				}
			default:
				if cur.HasCustom || op.Ver == nil || cur.Version != *op.Ver {
					say(i, "version-SetSchema-not-installed", js(cur))
				}
				switch {
				case prev.HasCustom:
					if !dropped(cur) {
						say(i, "version-SetSchema-kept-what-a-custom-schema-parsed", js(prev)+" -> "+js(cur))
					}
				case op.Ver != nil && sameBuiltin(prev.Version, *op.Ver, cur.DefaultVersion):
					want := prev
					want.Version = *op.Ver
					if js(cur) != js(want) {
						say(i, "same-version-SetSchema-changed-more-than-the-version", js(prev)+" -> "+js(cur))
					}
				default:
					if cur.SchemaInit {
						say(i, "version-SetSchema-did-not-re-arm-initSchema", js(cur))
					}
				}
			}
		case "schemafor":
			if st.Class == ClsOk && !cur.SchemaInit {
				say(i, "SchemaForResourceType-left-schema-uninitialised", js(cur))
			}
		case "isns", "cluster":
			if op.Tm <= 2 { // ConfigMap, Namespace, Deployment: precomputed
				if js(cur) != js(prev) || st.Class != ClsOk {
					say(i, "precomputed-kind-touched-the-state", js(prev)+" -> "+js(cur))
				}
				wantNs := op.Tm != 1
				if op.K == "isns" && (st.A != wantNs || !st.B) {
					say(i, "precomputed-answer", fmt.Sprintf("%v %v", st.A, st.B))
				}
				if op.K == "cluster" && st.A != !wantNs {
					say(i, "precomputed-answer", fmt.Sprint(st.A))
				}
			}
		case "version":
			want := cur.Version
			switch {
			case cur.HasCustom:
				want = "using custom schema from file provided"
			case cur.Version == "":
				want = cur.DefaultVersion
			}
			if st.Str != want || js(cur) != js(prev) {
				say(i, "GetSchemaVersion", fmt.Sprintf("got %q want %q", st.Str, want))
			}
		case "reset":
			if cur.Version != "" || cur.HasCustom || cur.SchemaInit || cur.DefaultStatus != 0 || cur.NoBuiltin || cur.NumDefs != -1 || cur.NumByType != -1 || cur.NumNs != -1 {
				say(i, "ResetOpenAPI-not-pristine", js(cur))
			}
		case "build":
			t := op.Tree
			if t.Schema < 0 && t.Ver != nil && *t.Ver != "" && *t.Ver != cur.DefaultVersion && !prev.HasCustom {
				// rejected by SetSchema (unknown version) before anything is built: the parsed schema must survive
				if prev.SchemaInit && !cur.SchemaInit || mapsOf(cur) != mapsOf(prev) {
					say(i, "rejected-build-disturbed-the-parsed-schema", js(prev)+" -> "+js(cur))
				}
			}
			if isDefaultField(t.Ver, t.Schema) && (!t.HasBase || isDefaultField(t.BaseVer, t.BaseSchema)) {
				if cur.HasCustom {
					say(i, "custom-schema-installed-after-a-default-build", js(prev)+" -> "+js(cur))
				}
				if prev.SchemaInit && !prev.HasCustom && !cur.SchemaInit {
					say(i, "default-build-uninitialised-the-schema", js(prev)+" -> "+js(cur))
				}
			}
		}
		prev = cur
	}
	return bad
}

// child: reads {"seqs":[...]} from stdin, executes them one after the other, writes the results.
func c16ChildMain() {
	var in struct {
		Seqs []c16Seq `json:"seqs"`
	}
	if err := json.NewDecoder(os.Stdin).Decode(&in); err != nil {
		fmt.Fprintln(os.Stderr, "child: bad input:", err)
		os.Exit(3)
	}
	// one result per line, flushed as soon as it exists: the parent may stop waiting when its time budget is used up
	enc := json.NewEncoder(os.Stdout)
	for i, s := range in.Seqs {
		r := c16Exec(s, i == 0) // the first sequence of a child sees the pristine process state
		_ = enc.Encode(r)
	}
}

// c16RunChildren distributes the sequences over child processes and waits for all of them.
func c16RunChildren(seqs []c16Seq, nproc int) ([]c16SeqRes, error) {
	res, done, err := c16RunChildrenBudget(seqs, nproc, 2*time.Hour)
	if err != nil {
		return nil, err
	}
	for i, d := range done {
		if !d {
			return nil, fmt.Errorf("sequence %d produced no result", i)
		}
	}
	return res, nil
}

// c16RunChildrenBudget: as c16RunChildren, but stops waiting after the wall-time budget: the children are killed and
// the sequences without a result are reported as not done (a slow implementation must not blow the check's budget;
// it is not a violation by itself).
func c16RunChildrenBudget(seqs []c16Seq, nproc int, budget time.Duration) ([]c16SeqRes, []bool, error) {
	self, err := os.Executable()
	if err != nil {
		return nil, nil, err
	}
	if nproc > len(seqs) {
		nproc = len(seqs)
	}
	if nproc < 1 {
		nproc = 1
	}
	deadline := time.Now().Add(budget)
	results := make([]c16SeqRes, len(seqs))
	done := make([]bool, len(seqs))
	errs := make([]error, nproc)
	var wg sync.WaitGroup
	for p := 0; p < nproc; p++ {
		wg.Add(1)
		go func(p int) {
			defer wg.Done()
			idx := []int{}
			mine := []c16Seq{}
			for i := p; i < len(seqs); i += nproc {
				idx = append(idx, i)
				mine = append(mine, seqs[i])
			}
			in, _ := json.Marshal(map[string]interface{}{"seqs": mine})
			cmd := exec.Command(self)
			cmd.Env = append(os.Environ(), "VERIF_C16_CHILD=1")
			cmd.Stdin = bytes.NewReader(in)
			var se bytes.Buffer
			cmd.Stderr = &se
			so, err := cmd.StdoutPipe()
			if err != nil {
				errs[p] = err
				return
			}
			if err := cmd.Start(); err != nil {
				errs[p] = err
				return
			}
			timer := time.AfterFunc(time.Until(deadline), func() { _ = cmd.Process.Kill() })
			dec := json.NewDecoder(so)
			n := 0
			for n < len(mine) {
				var r c16SeqRes
				if err := dec.Decode(&r); err != nil {
					break
				}
				results[idx[n]] = r
				done[idx[n]] = true
				n++
			}
			werr := cmd.Wait()
			timedOut := !timer.Stop()
			if n < len(mine) && !timedOut {
				errs[p] = fmt.Errorf("child %d: stopped after %d of %d sequences (%v): %s", p, n, len(mine), werr, lastLines(se.String(), 15))
			}
		}(p)
	}
	wg.Wait()
	for _, e := range errs {
		if e != nil {
			return nil, nil, e
		}
	}
	return results, done, nil
}

// ---------------------------------------------------------------- generators

var c16Kinds = []string{"ConfigMap", "Namespace", "Deployment", "Foo", "Bar"}

func strp(s string) *string { return &s }

// genVer16: nil (no version), the default version, "", or an unknown one
func genVer16(g *Rng, pNone int) *string {
	if g.Chance(pNone) {
		return nil
	}
	switch g.Intn(6) {
	case 0, 1, 2:
		return strp("v1.21.2")
	case 3:
		return strp("")
	default:
		return strp("v9.9.9")
	}
}

func genResList16(g *Rng, prefix string, n int, defaultOnly bool) []c16Res {
	out := []c16Res{}
	for i := 0; i < n; i++ {
		k := g.Pick(c16Kinds)
		if g.Chance(45) {
			k = g.Pick([]string{"Foo", "Bar", "Deployment"})
		}
		if k == "Namespace" {
			dup := false
			for _, r := range out {
				if r.Kind == "Namespace" {
					dup = true
				}
			}
			if dup || prefix != "t" {
				k = "ConfigMap" // at most one Namespace object per tree (the namespace transformer renames it)
			}
		}
		out = append(out, c16Res{Kind: k, Name: fmt.Sprintf("%s%d", prefix, i)})
	}
	return out
}

// genTree16: schemaIdx(n) picks a schema index or -1.
func genTree16(g *Rng, nSchemas int, defaultOnly bool) *c16Tree {
	t := &c16Tree{Schema: -1, BaseSchema: -1, Namespace: g.Chance(85)}
	pick := func(p int) int {
		if defaultOnly || nSchemas == 0 || !g.Chance(p) {
			return -1
		}
		return g.Intn(nSchemas)
	}
	t.Schema = pick(40)
	if defaultOnly {
		if g.Chance(25) {
			t.Ver = strp("v1.21.2")
		}
	} else if t.Schema < 0 {
		t.Ver = genVer16(g, 55)
	} else if g.Chance(6) {
		t.Ver = strp("v1.21.2") // version and path together: rejected
	}
	t.Res = genResList16(g, "t", 1+g.Intn(3), defaultOnly)
	if g.Chance(35) {
		t.HasBase = true
		t.BaseFirst = g.Bool()
		t.BaseRes = genResList16(g, "b", 1+g.Intn(2), defaultOnly)
		t.BaseSchema = pick(35)
		if defaultOnly {
			if g.Chance(20) {
				t.BaseVer = strp("v1.21.2")
			}
		} else if t.BaseSchema < 0 {
			t.BaseVer = genVer16(g, 70)
		}
	}
	for _, r := range t.allRes() {
		if _, ok := c16MkPath[r.Kind]; ok && g.Chance(55) {
			t.Patches = append(t.Patches, r.Name)
		}
	}
	if !defaultOnly && g.Chance(12) {
		t.Fail = g.Pick([]string{"missing-file", "bad-patch"})
	}
	return t
}

func genSeq16(g *Rng) c16Seq {
	seq := c16Seq{}
	ns := g.Intn(4)
	for i := 0; i < ns; i++ {
		seq.Schemas = append(seq.Schemas, genSchema16(g.Fork(), i+1))
	}
	n := 3 + g.Intn(9)
	for i := 0; i < n; i++ {
		op := c16Op{Schema: -1}
		switch x := g.Intn(100); {
		case x < 18:
			op.K = "set"
			op.Reset = g.Chance(70)
			if ns > 0 && g.Chance(50) {
				op.Schema = g.Intn(ns)
				if g.Chance(8) {
					op.Ver = strp("v1.21.2")
				}
			} else {
				op.Ver = genVer16(g, 35)
			}
		case x < 32:
			op.K, op.Tm = "isns", g.Intn(len(c16Tms))
		case x < 40:
			op.K, op.Tm = "cluster", g.Intn(len(c16Tms))
		case x < 56:
			op.K, op.Tm = "schemafor", g.Intn(len(c16Tms))
		case x < 62:
			op.K = "version"
		case x < 65:
			op.K = "reset"
		case x < 68:
			op.K = "suppress"
		case x < 73:
			if ns > 0 {
				op.K, op.Schema = "addschema", g.Intn(ns)
			} else {
				op.K = "version"
			}
		default:
			op.K = "build"
			op.Tree = genTree16(g.Fork(), ns, false)
		}
		seq.Ops = append(seq.Ops, op)
	}
	return seq
}

// ---------------------------------------------------------------- Coq terms

func coqOptStr(s *string) string {
	if s == nil {
		return "None"
	}
	return "(Some " + coqStr(*s) + ")"
}

func c16SchemaOpt(schemas []c16Schema, i int) string {
	if i < 0 {
		return "None"
	}
	return "(Some " + schemas[i].coq() + ")"
}

func c16SnapTerm(s openapi.VerifStateC16, schemas []c16Schema) string {
	custom := "None"
	if s.HasCustom {
		id := 999999
		for _, sc := range schemas {
			if sc.hash() == s.CustomHash {
				id = sc.ID
			}
		}
		custom = fmt.Sprintf("(Some %d%%N)", id)
	}
	optS := func(l []string) string {
		p := []string{}
		for _, x := range l {
			if x == "\x00" {
				p = append(p, "None")
			} else {
				p = append(p, "(Some "+coqStr(x)+")")
			}
		}
		return "[" + strings.Join(p, "; ") + "]"
	}
	ns := []string{}
	for _, x := range s.Ns {
		switch x {
		case -1:
			ns = append(ns, "None")
		case 0:
			ns = append(ns, "(Some false)")
		default:
			ns = append(ns, "(Some true)")
		}
	}
	extra := []string{}
	for _, x := range s.NsNotPrecomp {
		i := strings.Index(x, "|")
		extra = append(extra, c16TM{x[:i], x[i+1:]}.coq())
	}
	return fmt.Sprintf("(mkSnap %s %s %s %d%%N %s %s %s %s %s %s [%s] [%s])", coqStr(s.Version), custom, coqBool(s.SchemaInit), s.DefaultStatus,
		coqBool(s.NoBuiltin), coqBool(s.NumDefs < 0), coqBool(s.NumByType < 0), coqBool(s.NumNs < 0),
		optS(s.Defs), optS(s.ByType), strings.Join(ns, "; "), strings.Join(extra, "; "))
}

func c16BuildTerm(t *c16Tree, schemas []c16Schema) string {
	qs := []string{}
	for _, q := range t.queries() {
		switch q.K {
		case "ns":
			qs = append(qs, "QNs "+c16Tms[q.Tm].coq())
		case "schema":
			qs = append(qs, "QSchema "+c16Tms[q.Tm].coq())
		case "sub":
			qs = append(qs, fmt.Sprintf("QSub %s %s", coqOptStr(q.Ver), c16SchemaOpt(schemas, q.Schema)))
		case "fail":
			qs = append(qs, "QFail")
		}
	}
	return fmt.Sprintf("(mkBuild %s %s [%s])", coqOptStr(t.Ver), c16SchemaOpt(schemas, t.Schema), strings.Join(qs, "; "))
}

// c16BuildObs: per query what the output reveals ("None" when not observable).
func c16BuildObs(t *c16Tree, out string) (string, error) {
	hasNs, listLen, err := c16Reveal(out)
	if err != nil {
		return "", err
	}
	obs := []string{}
	for _, q := range t.queries() {
		switch {
		case strings.HasPrefix(q.Reveal, "ns:"):
			name := q.Reveal[3:]
			if r, _ := t.find(name); r.Kind == "Namespace" {
				name = "@Namespace"
			}
			v, ok := hasNs[name]
			if !ok {
				return "", fmt.Errorf("resource %s missing from the output", name)
			}
			obs = append(obs, "(Some "+coqBool(!v)+")")
		case strings.HasPrefix(q.Reveal, "mk:"):
			n, ok := listLen[q.Reveal[3:]]
			if !ok || n < 1 || n > 2 {
				return "", fmt.Errorf("patched list of %s has unexpected length %d", q.Reveal[3:], n)
			}
			obs = append(obs, "(Some "+coqBool(n == 2)+")")
		default:
			obs = append(obs, "None")
		}
	}
	return "(RBuild [" + strings.Join(obs, "; ") + "])", nil
}

// c16Header: the case-file preamble defines the environment and the universe once (E16, N16, T16).
func c16Header() (string, error) {
	env, err := c16Env()
	if err != nil {
		return "", err
	}
	tms := []string{}
	for _, t := range c16Tms {
		tms = append(tms, t.coq())
	}
	return fmt.Sprintf("From KV Require Import Corr.C16.\nOpen Scope string_scope.\nDefinition E16 : env := %s.\nDefinition N16 : list string := %s.\nDefinition T16 : list tm := [%s].\n",
		env, coqStrList(c16Names), strings.Join(tms, "; ")), nil
}

// c16PrecompTerm: the runtime value of precomputedIsNamespaceScoped (through the hook) as a Coq list.
func c16PrecompTerm() string {
	rows := []string{}
	for _, l := range openapi.VerifPrecomputedC16() {
		eq := strings.LastIndex(l, "=")
		bar := strings.Index(l, "|")
		rows = append(rows, fmt.Sprintf("(%s, %s, %s)", coqStr(l[:bar]), coqStr(l[bar+1:eq]), l[eq+1:]))
	}
	return "[" + strings.Join(rows, "; ") + "]"
}

func c16CaseTerm(seq c16Seq, res c16SeqRes) (string, error) {
	return c16CaseTermP(seq, res, "[]")
}

func c16CaseTermP(seq c16Seq, res c16SeqRes, precomp string) (string, error) {
	steps := []string{}
	for i, op := range seq.Ops {
		st := res.Steps[i]
		var opT, obs string
		obs = "RNone"
		switch op.K {
		case "set":
			opT = fmt.Sprintf("(PSet %s %s %s)", coqOptStr(op.Ver), c16SchemaOpt(seq.Schemas, op.Schema), coqBool(op.Reset))
		case "isns":
			opT = "(PIsNs " + c16Tms[op.Tm].coq() + ")"
			obs = fmt.Sprintf("(RNs %s %s)", coqBool(st.A), coqBool(st.B))
		case "cluster":
			opT = "(PCluster " + c16Tms[op.Tm].coq() + ")"
			obs = "(RBool " + coqBool(st.A) + ")"
		case "schemafor":
			opT = "(PSchemaFor " + c16Tms[op.Tm].coq() + ")"
			if st.Found {
				obs = fmt.Sprintf("(RSchema (Some (%s, %s)))", coqStr(st.Desc), coqBool(st.A))
			} else {
				obs = "(RSchema None)"
			}
		case "version":
			opT = "PVersion"
			obs = "(RStr " + coqStr(st.Str) + ")"
		case "reset":
			opT = "PReset"
		case "suppress":
			opT = "PSuppress"
		case "addschema":
			opT = "(PAddSchema " + seq.Schemas[op.Schema].coq() + ")"
		case "build":
			opT = "(PBuild " + c16BuildTerm(op.Tree, seq.Schemas) + ")"
			if st.Class == ClsOk {
				o, err := c16BuildObs(op.Tree, st.Out)
				if err != nil {
					return "", err
				}
				obs = o
			}
		}
		steps = append(steps, fmt.Sprintf("(mkStep %s %s %s %s)", opT, st.Class, obs, c16SnapTerm(st.Snap, seq.Schemas)))
	}
	return fmt.Sprintf("(mk16 E16 N16 T16 %s [%s] %s)", c16SnapTerm(res.First, seq.Schemas), strings.Join(steps, ";\n    "), precomp), nil
}

// ---------------------------------------------------------------- run

func runC16(r *Run, rng *Rng, tier string) error {
	nSeq, rounds := 192, 4 // rounds = number of -race processes (2 rounds each)
	if tier == "thorough" {
		nSeq, rounds = 2000, 60
	}
	r.Meta.Rule = "state machine: sequences of 3-11 operations (SetSchema / IsNamespaceScoped / IsCertainlyClusterScoped / SchemaForResourceType / GetSchemaVersion / " +
		"ResetOpenAPI / SuppressBuiltInSchemaUse / AddSchema / whole krusty builds of generated trees with optional openapi field, base, SMP patches, namespace) " +
		"over 0-3 generated custom schemas (valid JSON/YAML or rejected), each sequence from a fresh state; after every step outcome class, answer and a hook snapshot " +
		"are compared with the model. non-trivial = the sequence initialised a schema. " +
		"race search: 2-16 default-schema trees concurrently under -race, each concurrent output compared with the tree built alone"
	r.shard = 24
	t0 := time.Now()
	hdr, err := c16Header()
	if err != nil {
		return err
	}
	r.header = hdr
	// ---- (b) race search on the implementation: separate processes, runs while the state-machine children run
	raceRng := rng.Fork()
	rr := NewRun("C16", tier, 0, "", "")
	raceDone := make(chan error, 1)
	t1 := time.Now()
	var raceSecs float64
	go func() {
		e := c16RaceSearch(rr, raceRng, rounds, tier)
		raceSecs = time.Since(t1).Seconds()
		raceDone <- e
	}()
	// ---- (a) state machine correspondence
	seqs := []c16Seq{}
	for _, s := range loadCorpus16() {
		seqs = append(seqs, s)
	}
	for i := 0; i < nSeq; i++ {
		seqs = append(seqs, genSeq16(rng.Fork()))
	}
	nproc := runtime.NumCPU() / 2
	if nproc > 8 {
		nproc = 8
	}
	budget := 60 * time.Second
	if tier == "thorough" {
		budget = 12 * time.Minute
	}
	results, seqDone, err := c16RunChildrenBudget(seqs, nproc, budget)
	if err != nil {
		<-raceDone
		return err
	}
	for i, seq := range seqs {
		if !seqDone[i] {
			// the wall-time budget ran out (slow implementation / loaded machine): not a violation, but recorded
			r.Meta.Skipped++
			r.Count("sequence", "not-run-time-budget")
			continue
		}
		r.Count("sequence", "run")
		res := results[i]
		nontrivial := false
		for j, op := range seq.Ops {
			r.Count("op", op.K)
			r.Count("class:"+op.K, res.Steps[j].Class)
			if res.Steps[j].Snap.SchemaInit {
				nontrivial = true
			}
			if op.K == "build" {
				r.Count("build_field", c16FieldKind(op.Tree.Ver, op.Tree.Schema))
				if op.Tree.HasBase {
					r.Count("build_base_field", c16FieldKind(op.Tree.BaseVer, op.Tree.BaseSchema))
				}
				r.Count("build_patches", fmt.Sprint(len(op.Tree.Patches)))
				if op.Tree.Fail != "" {
					r.Count("build_fail", op.Tree.Fail)
				}
			}
		}
		for _, e := range c16Expect(seq, res) {
			name := e
			if j := strings.Index(e, " ("); j > 0 {
				name = e[:j]
			}
			r.Count("state_expectation_failed", name)
			r.Violation(OracleViolation{Law: "state_expectation", Class: "C16/state-expectation:" + name, Detail: e, Replay: seq})
		}
		last := res.Steps[len(res.Steps)-1].Snap
		r.Count("final_state", fmt.Sprintf("custom=%v init=%v dflt=%d", last.HasCustom, last.SchemaInit, last.DefaultStatus))
		precomp := "[]"
		if len(r.cases) == 0 {
			precomp = c16PrecompTerm() // the first case also carries the runtime precomputed table
		}
		term, err := c16CaseTermP(seq, res, precomp)
		if err != nil {
			// the output could not be interpreted: report instead of skipping silently
			r.Violation(OracleViolation{Law: "harness", Class: "C16/harness-cannot-interpret-output", Detail: err.Error(), Replay: seq})
			continue
		}
		r.AddCase(term, seq, nontrivial)
	}
	r.Meta.Notes = append(r.Meta.Notes, fmt.Sprintf("state-machine part: %d sequences in %.1fs", len(seqs), time.Since(t0).Seconds()))
	err = <-raceDone
	r.Meta.Notes = append(r.Meta.Notes, fmt.Sprintf("race search (concurrent with the state-machine part): %.1fs", raceSecs))
	// merge the race search's counters and violations
	for dim, m := range rr.Meta.Distribution {
		for k, v := range m {
			for i := 0; i < v; i++ {
				r.Count(dim, k)
			}
		}
	}
	for _, v := range rr.Meta.Violations {
		r.Violation(v)
	}
	r.Meta.Evaluations += rr.Meta.Evaluations
	r.Meta.DistinctNontriv += rr.Meta.DistinctNontriv
	return err
}

func c16FieldKind(ver *string, schema int) string {
	switch {
	case schema >= 0 && ver != nil:
		return "path+version"
	case schema >= 0:
		return "path"
	case ver == nil:
		return "none"
	case *ver == "":
		return "version-empty"
	case *ver == "v1.21.2":
		return "version-default"
	default:
		return "version-unknown"
	}
}

func loadCorpus16() []c16Seq {
	out := []c16Seq{}
	data, err := os.ReadFile(verifRoot() + "/corpus/C16/seqs.json")
	if err != nil {
		return out
	}
	_ = json.Unmarshal(data, &out)
	return out
}
