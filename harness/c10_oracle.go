package main

// C10 oracle: whole builds through krusty.Run on an in-memory file system. An independent
// matcher (plain string / exact-equality logic over unstructured objects, sharing no code with
// kustomize's selectors, image matcher, PathMatcher or replacement filter) predicts the set of
// modified (resource, field) pairs and their values; any difference is a violation. Failure
// shapes that are listed findings get their specific class id, everything else a generic one.

import (
	"encoding/json"
	"fmt"
	"os"
	"regexp"
	"sort"
	"strconv"
	"strings"
	"time"

	"sigs.k8s.io/kustomize/kyaml/filesys"
	"sigs.k8s.io/yaml"
)

func c10MemFs(files map[string]string) filesys.FileSystem {
	fs := filesys.MakeFsInMemory()
	keys := []string{}
	for k := range files {
		keys = append(keys, k)
	}
	sort.Strings(keys)
	for _, k := range keys {
		_ = fs.WriteFile("/app/"+k, []byte(files[k]))
	}
	return fs
}

type c10ReplicaEntry struct {
	Name  string `json:"name"`
	Count int64  `json:"count"`
}

// c10Tree: one generated build.
type c10Tree struct {
	Res      []c10Res          `json:"res"`
	Prefix   string            `json:"prefix,omitempty"` // resources live in a base with this namePrefix
	Images   []c10Image        `json:"images,omitempty"`
	Replicas []c10ReplicaEntry `json:"replicas,omitempty"`
	Repls    []c10Repl         `json:"repls,omitempty"`
	Patch    *c10Sel           `json:"patch,omitempty"` // patches: [{target: ..., patch: SMP adding annotation patched=yes}]
}

func (t c10Tree) files() map[string]string {
	files := map[string]string{}
	resDir := ""
	var k strings.Builder
	if t.Prefix != "" {
		resDir = "base/"
		files["base/kustomization.yaml"] = "resources:\n- r.yaml\nnamePrefix: " + t.Prefix + "\n"
		k.WriteString("resources:\n- base\n")
	} else {
		k.WriteString("resources:\n- r.yaml\n")
	}
	files[resDir+"r.yaml"] = strings.Join(c10Texts(t.Res), "---\n")
	if len(t.Images) > 0 {
		k.WriteString("images:\n")
		for _, im := range t.Images {
			b, _ := json.Marshal(im)
			k.WriteString("- " + string(b) + "\n")
		}
	}
	if len(t.Replicas) > 0 {
		k.WriteString("replicas:\n")
		for _, r := range t.Replicas {
			b, _ := json.Marshal(r)
			k.WriteString("- " + string(b) + "\n")
		}
	}
	if len(t.Repls) > 0 {
		k.WriteString("replacements:\n")
		for _, r := range t.Repls {
			b, _ := json.Marshal(r)
			k.WriteString("- " + string(b) + "\n")
		}
	}
	if t.Patch != nil {
		b, _ := json.Marshal(t.Patch)
		k.WriteString("patches:\n- target: " + string(b) + "\n  patch: |-\n    apiVersion: v1\n    kind: NotImportant\n    metadata:\n      name: not-important\n      annotations:\n        patched: \"yes\"\n")
	}
	files["kustomization.yaml"] = k.String()
	return files
}

// ---------- unstructured helpers ----------

type c10Obj = map[string]interface{}

func c10Flatten(prefix string, v interface{}, out map[string]string) {
	switch x := v.(type) {
	case map[string]interface{}:
		if len(x) == 0 {
			out[prefix] = "{}"
		}
		for k, c := range x {
			c10Flatten(prefix+"/"+k, c, out)
		}
	case []interface{}:
		if len(x) == 0 {
			out[prefix] = "[]"
		}
		for i, c := range x {
			c10Flatten(prefix+"/"+strconv.Itoa(i), c, out)
		}
	case nil:
		out[prefix] = "<nil>"
	case float64:
		out[prefix] = strconv.FormatFloat(x, 'f', -1, 64)
	default:
		out[prefix] = fmt.Sprint(x)
	}
}

func c10Get(o interface{}, keys ...string) interface{} {
	cur := o
	for _, k := range keys {
		m, ok := cur.(map[string]interface{})
		if !ok {
			return nil
		}
		cur = m[k]
	}
	return cur
}

func c10Str(o interface{}, keys ...string) string {
	v := c10Get(o, keys...)
	if v == nil {
		return ""
	}
	switch x := v.(type) {
	case float64:
		return strconv.FormatFloat(x, 'f', -1, 64)
	}
	return fmt.Sprint(v)
}

func c10Deep(v interface{}) interface{} {
	b, _ := json.Marshal(v)
	var out interface{}
	_ = json.Unmarshal(b, &out)
	return out
}

var c10ClusterKinds = map[string]bool{"Namespace": true, "CustomResourceDefinition": true, "ClusterRole": true}

// independent id view of a resource of the tree
type c10RId struct {
	group, version, kind, ns string
	names                    []string // current name first, then the original one (before the prefix)
}

func c10SplitAV(av string) (string, string) {
	if i := strings.Index(av, "/"); i >= 0 {
		return av[:i], av[i+1:]
	}
	return "", av
}

func (t c10Tree) rid(r c10Res) c10RId {
	g, v := c10SplitAV(r.APIVersion)
	id := c10RId{group: g, version: v, kind: r.Kind, ns: r.Namespace, names: []string{r.Name}}
	if t.Prefix != "" {
		id.names = []string{t.Prefix + r.Name, r.Name}
	}
	return id
}

func c10EffNs(kind, ns string) string {
	if c10ClusterKinds[kind] {
		return "_non_namespaceable_"
	}
	if ns == "" {
		return "default"
	}
	return ns
}

// exact-equality selection (replacements, reject lists): empty selector fields are wildcards
func c10IdSelected(id c10RId, s c10Id) bool {
	if s.Group != "" && s.Group != id.group {
		return false
	}
	if s.Version != "" && s.Version != id.version {
		return false
	}
	if s.Kind != "" && s.Kind != id.kind {
		return false
	}
	if s.Namespace != "" && c10EffNs(s.Kind, s.Namespace) != c10EffNs(id.kind, id.ns) {
		return false
	}
	if s.Name != "" {
		ok := false
		for _, n := range id.names {
			ok = ok || n == s.Name
		}
		return ok
	}
	return true
}

// simple label selector evaluation (k=v, k==v, k!=v, k, !k, comma = and)
func c10LabelMatch(sel string, labels map[string]string) (bool, bool) {
	if sel == "" {
		return true, true
	}
	if !c10SimpleLsel(sel) {
		return false, false
	}
	for _, req := range strings.Split(sel, ",") {
		switch {
		case strings.Contains(req, "!="):
			kv := strings.SplitN(req, "!=", 2)
			if v, ok := labels[kv[0]]; ok && v == kv[1] {
				return false, true
			}
		case strings.Contains(req, "=="):
			kv := strings.SplitN(req, "==", 2)
			if v, ok := labels[kv[0]]; !ok || v != kv[1] {
				return false, true
			}
		case strings.Contains(req, "="):
			kv := strings.SplitN(req, "=", 2)
			if v, ok := labels[kv[0]]; !ok || v != kv[1] {
				return false, true
			}
		case strings.HasPrefix(req, "!"):
			if _, ok := labels[req[1:]]; ok {
				return false, true
			}
		default:
			if _, ok := labels[req]; !ok {
				return false, true
			}
		}
	}
	return true, true
}

func c10MapOf(kvs [][2]string) map[string]string {
	m := map[string]string{}
	for _, kv := range kvs {
		m[kv[0]] = kv[1]
	}
	return m
}

// ---------- predictions ----------

// c10Mode: which of the listed defects the prediction emulates (all false = what the property demands).
type c10Mode struct {
	ImgRegex     bool // images entry name used as an unquoted regular expression
	ImgTwice     bool // the entry is applied a second time to the images at the default field-spec paths
	ListKeyRegex bool // [k=v] in a replacement TARGET path selects entries whose k contains a regexp match of v
	SourceAlias  bool // the source value is read again before every write (live node, not a copy)
}

func (m c10Mode) class() string {
	parts := []string{}
	if m.ImgRegex {
		parts = append(parts, "image-name-unquoted-regex")
	}
	if m.ImgTwice {
		parts = append(parts, "image-tagsuffix-applied-twice")
	}
	if m.ListKeyRegex {
		parts = append(parts, "replacement-listkey-unanchored-regex")
	}
	if m.SourceAlias {
		parts = append(parts, "replacement-source-aliased-by-target")
	}
	return "C10/" + strings.Join(parts, "+")
}

type c10Pred struct {
	objs    []c10Obj // expected objects, index-aligned with t.Res
	err     bool     // the build is expected to fail
	unknown bool     // outside the oracle's domain: no verdict
	notes   []string
}

func (t c10Tree) inputObjs() ([]c10Obj, bool) {
	out := []c10Obj{}
	for _, r := range t.Res {
		var o c10Obj
		if err := yaml.Unmarshal([]byte(r.yaml()), &o); err != nil {
			return nil, false
		}
		if t.Prefix != "" {
			md, _ := o["metadata"].(map[string]interface{})
			md["name"] = t.Prefix + r.Name
		}
		out = append(out, o)
	}
	return out, true
}

// docker reference: name[:tag][@digest]; the tag colon is one after the last slash
func c10RefParts(s string) (name, tag, digest string) {
	if i := strings.Index(s, "@"); i >= 0 {
		s, digest = s[:i], s[i+1:]
	}
	slash := strings.LastIndex(s, "/")
	if i := strings.LastIndex(s, ":"); i > slash {
		s, tag = s[:i], s[i+1:]
	}
	return s, tag, digest
}

func c10Compose(im c10Image, s string) string {
	name, tag, digest := c10RefParts(s)
	if im.NewName != "" {
		name = im.NewName
	}
	switch {
	case im.NewTag != "" && im.Digest != "":
		tag, digest = im.NewTag, im.Digest
	case im.NewTag != "":
		tag, digest = im.NewTag, ""
	case im.Digest != "":
		tag, digest = "", im.Digest
	case im.TagSuffix != "":
		tag, digest = tag+im.TagSuffix, ""
	}
	out := name
	if tag != "" {
		out += ":" + tag
	}
	if digest != "" {
		out += "@" + digest
	}
	return out
}

// every "container image field": image of a mapping element of a list under a key containers / initContainers
func c10VisitImages(v interface{}, f func(m map[string]interface{})) {
	switch x := v.(type) {
	case map[string]interface{}:
		for k, c := range x {
			if k == "containers" || k == "initContainers" {
				if l, ok := c.([]interface{}); ok {
					for _, e := range l {
						if m, ok := e.(map[string]interface{}); ok {
							if _, ok := m["image"].(string); ok {
								f(m)
							}
						}
					}
				}
			}
			c10VisitImages(c, f)
		}
	case []interface{}:
		for _, c := range x {
			c10VisitImages(c, f)
		}
	}
}

func c10ImgMatch(mode c10Mode, entry, s string) bool {
	if mode.ImgRegex {
		re, err := regexp.Compile("^" + entry + "(:[a-zA-Z0-9_.{}-]*)?(@sha256:[a-zA-Z0-9_.{}-]*)?$")
		return err == nil && re.MatchString(s)
	}
	name, _, _ := c10RefParts(s)
	return name == entry
}

func (t c10Tree) predictImages(p *c10Pred, mode c10Mode) {
	for _, im := range t.Images {
		for i, o := range p.objs {
			if t.Res[i].Kind == "CustomResourceDefinition" {
				continue
			}
			c10VisitImages(o, func(m map[string]interface{}) {
				s := m["image"].(string)
				if c10ImgMatch(mode, im.Name, s) {
					m["image"] = c10Compose(im, s)
				}
			})
			if mode.ImgTwice {
				for _, path := range [][]string{{"spec"}, {"spec", "template", "spec"}} {
					ps, _ := c10Get(o, path...).(map[string]interface{})
					for _, key := range []string{"containers", "initContainers"} {
						l, _ := ps[key].([]interface{})
						for _, e := range l {
							if m, ok := e.(map[string]interface{}); ok {
								if s, ok := m["image"].(string); ok && c10ImgMatch(mode, im.Name, s) {
									m["image"] = c10Compose(im, s)
								}
							}
						}
					}
				}
			}
		}
	}
}

var c10ReplicaKinds = map[string]bool{"Deployment": true, "ReplicationController": true, "ReplicaSet": true, "StatefulSet": true}

func (t c10Tree) predictReplicas(p *c10Pred) {
	for _, e := range t.Replicas {
		found := false
		for i, o := range p.objs {
			id := t.rid(t.Res[i])
			if !c10ReplicaKinds[id.kind] {
				continue
			}
			hit := false
			for _, n := range id.names {
				hit = hit || n == e.Name
			}
			if !hit {
				continue
			}
			found = true
			spec, ok := o["spec"].(map[string]interface{})
			if !ok {
				if o["spec"] != nil {
					p.unknown = true
					return
				}
				spec = map[string]interface{}{}
				o["spec"] = spec
			}
			spec["replicas"] = float64(e.Count)
		}
		if !found {
			p.err = true
			return
		}
	}
}

// resolve a dotted replacement path on an unstructured object: the list of (container, key) slots it denotes.
// List entries [k=v] denote the elements whose field k EQUALS v. create: missing pieces are added.
type c10Slot struct {
	m   map[string]interface{}
	key string
	l   []interface{}
	idx int
}

func (s c10Slot) get() interface{} {
	if s.m != nil {
		return s.m[s.key]
	}
	return s.l[s.idx]
}
func (s c10Slot) set(v interface{}) {
	if s.m != nil {
		s.m[s.key] = v
	} else {
		s.l[s.idx] = v
	}
}

// c10Resolve returns the slots, or ok=false when the path does not exist (and is not created), or
// unknown=true for shapes the oracle does not cover.
func c10Resolve(root c10Obj, parts []string, create bool, regexKeys bool) (slots []c10Slot, ok bool, unknown bool) {
	type frame struct{ slot c10Slot }
	cur := []c10Slot{{m: map[string]interface{}{"": root}, key: ""}}
	for pi, part := range parts {
		next := []c10Slot{}
		last := pi == len(parts)-1
		for _, s := range cur {
			v := s.get()
			if strings.HasPrefix(part, "[") && strings.HasSuffix(part, "]") {
				kv := strings.SplitN(part[1:len(part)-1], "=", 2)
				if len(kv) != 2 || kv[0] == "" {
					return nil, false, true
				}
				l, isList := v.([]interface{})
				if !isList {
					return nil, false, true
				}
				n := 0
				for i, e := range l {
					m, ok := e.(map[string]interface{})
					if !ok || m[kv[0]] == nil {
						continue
					}
					hit := fmt.Sprint(m[kv[0]]) == kv[1]
					if regexKeys {
						re, err := regexp.Compile(kv[1])
						if err != nil {
							return nil, false, true
						}
						hit = re.MatchString(fmt.Sprint(m[kv[0]]))
					}
					if hit {
						next = append(next, c10Slot{l: l, idx: i})
						n++
					}
				}
				if n == 0 {
					if !create {
						continue
					}
					l = append(l, map[string]interface{}{kv[0]: kv[1]})
					s.set(l)
					next = append(next, c10Slot{l: l, idx: len(l) - 1})
				}
				continue
			}
			if part == "*" || part == "" {
				return nil, false, true
			}
			if _, err := strconv.Atoi(part); err == nil {
				return nil, false, true
			}
			m, isMap := v.(map[string]interface{})
			if !isMap {
				return nil, false, true
			}
			if _, present := m[part]; !present {
				if !create {
					continue
				}
				if last {
					m[part] = ""
				} else if nx := parts[pi+1]; strings.HasPrefix(nx, "[") {
					m[part] = []interface{}{}
				} else {
					m[part] = map[string]interface{}{}
				}
			}
			next = append(next, c10Slot{m: m, key: part})
		}
		cur = next
	}
	return cur, len(cur) > 0, false
}

// independent path splitter: dots separate, except inside [...] ; [a.b] without '=' is a plain key
func c10SplitPath(p string) ([]string, bool) {
	out := []string{}
	cur := ""
	depth := 0
	for i := 0; i < len(p); i++ {
		c := p[i]
		switch {
		case c == '\\':
			return nil, false
		case c == '[':
			depth++
			cur += string(c)
		case c == ']':
			depth--
			cur += string(c)
		case c == '.' && depth == 0:
			out = append(out, cur)
			cur = ""
		default:
			cur += string(c)
		}
	}
	out = append(out, cur)
	if depth != 0 {
		return nil, false
	}
	for i, e := range out {
		if strings.HasPrefix(e, "[") && strings.HasSuffix(e, "]") && !strings.Contains(e, "=") {
			out[i] = e[1 : len(e)-1]
		}
	}
	return out, true
}

func c10Text(v interface{}) (string, bool) {
	switch x := v.(type) {
	case string:
		return x, true
	case float64:
		return strconv.FormatFloat(x, 'f', -1, 64), true
	case bool:
		return strconv.FormatBool(x), true
	}
	return "", false
}

func (t c10Tree) predictRepls(p *c10Pred, mode c10Mode) {
	for _, rp := range t.Repls {
		if rp.Source == nil || rp.SourceValue != nil || rp.NilTargets {
			p.unknown = true
			return
		}
		// source: exactly one resource
		var src c10Obj
		n := 0
		for i, o := range p.objs {
			if c10IdSelected(t.rid(t.Res[i]), rp.Source.c10Id) {
				src = o
				n++
			}
		}
		if n != 1 {
			p.err = true
			return
		}
		fp := rp.Source.FieldPath
		if fp == "" {
			fp = "metadata.name"
		}
		parts, ok := c10SplitPath(fp)
		if !ok {
			p.unknown = true
			return
		}
		// the source side selects a list entry by equality and takes the first one
		slots, found, unk := c10Resolve(src, parts, false, false)
		if unk {
			p.unknown = true
			return
		}
		if !found {
			p.err = true
			return
		}
		val, isScalar := c10Text(slots[0].get())
		if !isScalar {
			p.unknown = true
			return
		}
		if val == "" {
			p.err = true // empty source field: "fieldPath is missing"? outside the domain
			p.unknown = true
			return
		}
		srcSlot := slots[0]
		live := mode.SourceAlias && (rp.Source.Options == nil || rp.Source.Options.Delimiter == "")
		if o := rp.Source.Options; o != nil && o.Delimiter != "" {
			pieces := strings.Split(val, o.Delimiter)
			if o.Index < 0 || o.Index >= len(pieces) {
				p.err = true
				return
			}
			val = pieces[o.Index]
		}
		for _, tg := range rp.Targets {
			if tg.Select == nil {
				p.err = true
				return
			}
			fps := tg.FieldPaths
			if len(fps) == 0 {
				fps = []string{"metadata.name"}
			}
			for i, o := range p.objs {
				id := t.rid(t.Res[i])
				labels, annos := c10MapOf(t.Res[i].Labels), c10MapOf(t.Res[i].Annos)
				if !c10IdSelected(id, tg.Select.c10Id) {
					continue
				}
				lm, ok1 := c10LabelMatch(tg.Select.Lab, labels)
				am, ok2 := c10LabelMatch(tg.Select.Ann, annos)
				if !ok1 || !ok2 {
					p.unknown = true
					return
				}
				if !lm || !am {
					continue
				}
				rejected := false
				for _, rj := range tg.Reject {
					if rj.c10Id != (c10Id{}) && c10IdSelected(id, rj.c10Id) {
						rejected = true
					}
					if rj.Lab != "" || rj.Ann != "" {
						lm, ok1 := c10LabelMatch(rj.Lab, labels)
						am, ok2 := c10LabelMatch(rj.Ann, annos)
						if !ok1 || !ok2 {
							p.unknown = true
							return
						}
						if lm && am {
							rejected = true
						}
					}
				}
				if rejected {
					continue
				}
				for _, fp := range fps {
					parts, ok := c10SplitPath(fp)
					if !ok {
						p.unknown = true
						return
					}
					if len(parts) >= 2 && parts[0] == "metadata" && (parts[1] == "name" || parts[1] == "labels" || parts[1] == "annotations") && len(t.Repls) > 1 {
						p.unknown = true // later replacements would select on rewritten metadata
						return
					}
					create := tg.Options != nil && tg.Options.Create
					slots, found, unk := c10Resolve(o, parts, create, mode.ListKeyRegex)
					if unk {
						p.unknown = true
						return
					}
					if !found {
						p.err = true
						return
					}
					for _, s := range slots {
						if live {
							if v, ok := c10Text(srcSlot.get()); ok {
								val = v
							}
						}
						old := s.get()
						if tg.Options != nil && tg.Options.Delimiter != "" {
							ot, isScalar := c10Text(old)
							if !isScalar {
								p.err = true
								return
							}
							tv := strings.Split(ot, tg.Options.Delimiter)
							switch {
							case tg.Options.Index < 0:
								tv = append([]string{val}, tv...)
							case tg.Options.Index >= len(tv):
								tv = append(tv, val)
							default:
								tv[tg.Options.Index] = val
							}
							s.set(strings.Join(tv, tg.Options.Delimiter))
						} else {
							if _, isScalar := c10Text(old); !isScalar && old != nil {
								p.unknown = true
								return
							}
							s.set(val)
						}
					}
				}
			}
		}
	}
}

func c10FullMatch(pat, s string) (bool, bool) {
	if pat == "" {
		return true, true
	}
	re, err := regexp.Compile(`\A(?:` + pat + `)\z`)
	if err != nil {
		return false, false
	}
	return re.MatchString(s), true
}

func (t c10Tree) predictPatch(p *c10Pred) {
	s := t.Patch
	for _, pat := range []string{s.Group, s.Version, s.Kind, s.Name, s.Namespace} {
		if _, ok := c10FullMatch(pat, ""); !ok {
			p.err = true
			return
		}
	}
	for i, o := range p.objs {
		id := t.rid(t.Res[i])
		g, _ := c10FullMatch(s.Group, id.group)
		v, _ := c10FullMatch(s.Version, id.version)
		k, _ := c10FullMatch(s.Kind, id.kind)
		ns, _ := c10FullMatch(s.Namespace, c10EffNs(id.kind, id.ns))
		nm := false
		for _, n := range id.names {
			m, _ := c10FullMatch(s.Name, n)
			nm = nm || m
		}
		if !(g && v && k && ns && nm) {
			continue
		}
		lm, ok1 := c10LabelMatch(s.Lab, c10MapOf(t.Res[i].Labels))
		am, ok2 := c10LabelMatch(s.Ann, c10MapOf(t.Res[i].Annos))
		if !ok1 || !ok2 {
			p.err = true
			return
		}
		if !lm || !am {
			continue
		}
		md := o["metadata"].(map[string]interface{})
		an, ok := md["annotations"].(map[string]interface{})
		if !ok {
			an = map[string]interface{}{}
			md["annotations"] = an
		}
		an["patched"] = "yes"
	}
}

func (t c10Tree) predict(mode c10Mode) c10Pred {
	p := c10Pred{}
	objs, ok := t.inputObjs()
	if !ok {
		p.unknown = true
		return p
	}
	p.objs = objs
	// kustomize's order of the builtin transformers: patches, ..., replicas, images, replacements (last)
	if t.Patch != nil {
		t.predictPatch(&p)
	}
	if !p.err && !p.unknown && len(t.Replicas) > 0 {
		t.predictReplicas(&p)
	}
	if !p.err && !p.unknown && len(t.Images) > 0 {
		t.predictImages(&p, mode)
	}
	if !p.err && !p.unknown && len(t.Repls) > 0 {
		t.predictRepls(&p, mode)
	}
	return p
}

// ---------- comparison and classification ----------

func c10Key(o interface{}) string {
	ns := c10Str(o, "metadata", "namespace")
	return c10Str(o, "apiVersion") + "|" + c10Str(o, "kind") + "|" + ns + "|" + c10Str(o, "metadata", "name")
}

type c10Diff struct {
	Res, Field, Want, Got string
}

func (t c10Tree) compare(p c10Pred, output string) ([]c10Diff, error) {
	got := map[string]c10Obj{}
	for _, d := range strings.Split(output, "\n---\n") {
		if strings.TrimSpace(d) == "" {
			continue
		}
		var o c10Obj
		if err := yaml.Unmarshal([]byte(d), &o); err != nil {
			return nil, err
		}
		got[c10Key(o)] = o
	}
	diffs := []c10Diff{}
	if len(got) != len(p.objs) {
		diffs = append(diffs, c10Diff{Res: "*", Field: "#resources", Want: strconv.Itoa(len(p.objs)), Got: strconv.Itoa(len(got))})
	}
	for _, want := range p.objs {
		k := c10Key(want)
		o, ok := got[k]
		if !ok {
			diffs = append(diffs, c10Diff{Res: k, Field: "*", Want: "present", Got: "missing"})
			continue
		}
		fw, fg := map[string]string{}, map[string]string{}
		c10Flatten("", c10Deep(want), fw)
		c10Flatten("", o, fg)
		keys := map[string]bool{}
		for f := range fw {
			keys[f] = true
		}
		for f := range fg {
			keys[f] = true
		}
		for _, f := range sortedKeys(keys) {
			w, okw := fw[f]
			g, okg := fg[f]
			if !okw {
				w = "<absent>"
			}
			if !okg {
				g = "<absent>"
			}
			if w != g {
				diffs = append(diffs, c10Diff{Res: k, Field: f, Want: w, Got: g})
			}
		}
	}
	return diffs, nil
}

// classify maps a failure to the class id of a listed finding when (and only when) it has exactly that shape.
// Panics / non-returns are classified by the input shape; a wrong result by the emulated defect
// (or combination) whose prediction reproduces the observed output exactly.
func (t c10Tree) classify(cls string, out string) string {
	switch cls {
	case ClsPanic:
		for _, im := range t.Images {
			if _, err := regexp.Compile(im.Name); err != nil {
				return "C10/image-name-regex-compile-panic"
			}
		}
		return "C10/build-panics"
	case ClsDiverge:
		if c10ExpectHang(c10Case{Kind: "repl", Repls: t.Repls}) {
			return "C10/replacement-create-nonselfmatching-selector-hangs"
		}
		return "C10/build-does-not-return"
	}
	modes := []c10Mode{{ImgRegex: true}, {ImgTwice: true}, {ImgRegex: true, ImgTwice: true}, {ListKeyRegex: true}, {SourceAlias: true}}
	for _, m := range modes {
		if (m.ImgRegex || m.ImgTwice) && len(t.Images) == 0 {
			continue
		}
		if (m.ListKeyRegex || m.SourceAlias) && len(t.Repls) == 0 {
			continue
		}
		p := t.predict(m)
		if p.unknown {
			continue
		}
		if cls == ClsErr {
			if p.err {
				return m.class()
			}
			continue
		}
		if p.err {
			continue
		}
		if d, err := t.compare(p, out); err == nil && len(d) == 0 {
			return m.class()
		}
	}
	return "C10/modified-set-differs"
}

// ---------- generation ----------

var c10OracleImages = []string{"x", "x:1", "x-1:1", "ax:2", "x.y:3", "xzy:1", "xzy", "reg:5000/x", "reg:5000/x:1", "reg:5000/x@sha256:abc", "x@sha256:abc",
	"x:1@sha256:abc", "docker.io/lib/x:1", "x.y", "y:1", "app:v1", "reg/x.y:1", "reg/xzy:1"}
var c10OracleEntryNames = []string{"x", "x", "x-1", "ax", "x.y", "xzy", "reg:5000/x", "docker.io/lib/x", "y", "app", "reg/x.y", "x"}

func c10GenOracleRes(r *Rng) c10Res {
	kinds := [][2]string{{"apps/v1", "Deployment"}, {"apps/v1", "StatefulSet"}, {"v1", "Pod"}, {"v1", "ConfigMap"}, {"batch/v1", "CronJob"}, {"example.com/v1", "MyKind"}, {"apps/v1", "ReplicaSet"}, {"apps/v1", "DaemonSet"}}
	k := kinds[r.Intn(len(kinds))]
	res := c10Res{APIVersion: k[0], Kind: k[1], Name: c10PickN(r, c10Names), Namespace: c10PickN(r, []string{"", "", "ns", "ns-1"})}
	res.Labels = append(res.Labels, [2]string{"app", c10PickN(r, c10LabelVals)})
	if r.Chance(50) {
		res.Labels = append(res.Labels, [2]string{"tier", c10PickN(r, c10LabelVals)})
	}
	if r.Chance(30) {
		res.Annos = append(res.Annos, [2]string{"note", c10PickN(r, []string{"a:b:c", "nn", "x/y/z"})})
	}
	if res.contPath() != "none" {
		used := map[string]bool{}
		for i := 1 + r.Intn(3); i > 0; i-- {
			c := c10Cont{Name: c10PickN(r, c10Names), Image: c10PickN(r, c10OracleImages)}
			if used[c.Name] {
				continue
			}
			used[c.Name] = true
			if r.Chance(20) {
				res.Inits = append(res.Inits, c)
			} else {
				res.Conts = append(res.Conts, c)
			}
		}
		if r.Chance(60) && res.Kind != "Pod" && res.Kind != "CronJob" && res.Kind != "DaemonSet" {
			res.Replicas = c10PickN(r, []string{"1", "2", "3"})
		}
	}
	return res
}

func c10GenTree(r *Rng) c10Tree {
	t := c10Tree{}
	seen := map[string]bool{}
	n := 2 + r.Intn(5)
	for tries := 0; len(t.Res) < n && tries < 40; tries++ {
		x := c10GenOracleRes(r)
		key := x.Kind + "|" + x.Name + "|" + x.Namespace
		if seen[key] {
			continue
		}
		seen[key] = true
		t.Res = append(t.Res, x)
	}
	if r.Chance(30) {
		t.Prefix = "p-"
	}
	pick := func() c10Res { return t.Res[r.Intn(len(t.Res))] }
	switch r.Intn(10) {
	case 0, 1, 2: // images
		for i := 1 + r.Intn(2); i > 0; i-- {
			im := c10Image{Name: c10PickN(r, c10OracleEntryNames)}
			switch r.Intn(6) {
			case 0:
				im.NewName = "new"
			case 1:
				im.NewTag = "v2"
			case 2:
				im.Digest = "sha256:fff"
			case 3:
				im.NewName, im.NewTag = "reg:5000/new", "v3"
			case 4:
				im.NewTag, im.Digest = "v4", "sha256:eee"
			default:
				im.TagSuffix = "-s"
			}
			t.Images = append(t.Images, im)
		}
	case 3, 4: // replicas
		name := c10PickN(r, c10Names)
		if r.Chance(70) {
			name = pick().Name
			if t.Prefix != "" && r.Chance(50) {
				name = t.Prefix + name
			}
		}
		t.Replicas = append(t.Replicas, c10ReplicaEntry{Name: name, Count: int64(3 + r.Intn(5))})
	case 5, 6, 7: // replacements
		src := pick()
		rp := c10Repl{Source: &c10Source{c10Id: c10Id{Kind: src.Kind, Name: src.Name}}}
		if src.Namespace != "" {
			rp.Source.Namespace = src.Namespace
		}
		rp.Source.FieldPath = c10PickN(r, []string{"metadata.name", "", "metadata.labels.app", "metadata.annotations.note"})
		if rp.Source.FieldPath == "metadata.annotations.note" && r.Chance(70) {
			rp.Source.Options = &c10Opts{Delimiter: c10PickN(r, []string{":", "/"}), Index: r.Intn(3)}
		}
		tg := c10Target{}
		tp := pick()
		sel := c10Sel{}
		if r.Chance(70) {
			sel.Kind = tp.Kind
		}
		if r.Chance(50) {
			sel.Name = tp.Name
		}
		if r.Chance(20) {
			sel.Lab = c10PickN(r, []string{"app=x", "app!=x", "tier"})
		}
		tg.Select = &sel
		if r.Chance(30) {
			tg.Reject = append(tg.Reject, c10Sel{c10Id: c10Id{Name: pick().Name}})
		}
		cname := c10PickN(r, []string{"x", "x", "ax", "x-1", "x.y", "xzy", "zz"})
		cpath := map[string]string{"pod": "spec.containers", "tmpl": "spec.template.spec.containers", "cron": "spec.jobTemplate.spec.template.spec.containers", "none": "spec.containers"}[tp.contPath()]
		switch r.Intn(5) {
		case 0, 1, 2:
			tg.FieldPaths = []string{cpath + ".[name=" + cname + "].image"}
		case 3:
			tg.FieldPaths = []string{"metadata.annotations.copied"}
			tg.Options = &c10Opts{Create: true}
		default:
			tg.FieldPaths = []string{"metadata.labels.app"}
		}
		if tg.Options == nil && r.Chance(25) {
			tg.Options = &c10Opts{Delimiter: ":", Index: r.Intn(3) - 1}
		}
		if tg.Options == nil && r.Chance(15) {
			tg.Options = &c10Opts{Create: true}
		}
		if r.Chance(6) && rp.Source.Options == nil && rp.Source.FieldPath != "" && rp.Source.FieldPath != "metadata.name" {
			// the target rewrites the source field itself (and one more field)
			tg = c10Target{Select: &c10Sel{c10Id: c10Id{Kind: src.Kind, Name: src.Name}},
				FieldPaths: []string{rp.Source.FieldPath, "metadata.labels.app"},
				Options:    &c10Opts{Delimiter: "/", Index: 1 + r.Intn(2)}}
		}
		rp.Targets = []c10Target{tg}
		t.Repls = []c10Repl{rp}
	default: // patch with a target selector
		s := c10Sel{}
		tp := pick()
		if r.Chance(70) {
			s.Name = c10PickN(r, []string{tp.Name, "x", "x.*", "x|ax", "x-1", ".*", "x.y", "[a-z]+", "p-x", "p-.*", "x$", "^x"})
		}
		if r.Chance(50) {
			s.Kind = c10PickN(r, []string{tp.Kind, "Deployment", "Deploy", ".*Set", "Pod|Deployment", "MyKind"})
		}
		if r.Chance(25) {
			s.Namespace = c10PickN(r, []string{"ns", "ns-1", "default", "ns.*", "n"})
		}
		if r.Chance(15) {
			s.Group = c10PickN(r, []string{"apps", "app", "example.com", "batch|apps"})
		}
		if r.Chance(25) {
			s.Lab = c10PickN(r, []string{"app=x", "app!=x", "tier", "!tier", "app=x,tier=web", "app=ax"})
		}
		t.Patch = &s
	}
	return t
}

// ---------- running ----------

func c10TreeHangProne(t c10Tree) bool { return c10ReplHangProne(t.Repls) }

func c10CheckTree(run *Run, t c10Tree, out string, cls string, msg string) (violated bool, detail string) {
	p := t.predict(c10Mode{})
	kind := "patch"
	switch {
	case len(t.Images) > 0:
		kind = "images"
	case len(t.Replicas) > 0:
		kind = "replicas"
	case len(t.Repls) > 0:
		kind = "replacements"
	}
	if run != nil {
		run.Count("tree", kind)
		run.Count("tree_class", cls)
	}
	fp, _ := json.Marshal(t)
	if p.unknown {
		if run != nil {
			run.Count("tree", "outside-oracle-domain")
			run.AddEval(string(fp), false)
		}
		// a panic or a non-return is a violation whatever the prediction
		if cls != ClsPanic && cls != ClsDiverge {
			return false, "outside the oracle's domain"
		}
	}
	report := func(law, class, detail string) {
		if run != nil {
			run.Violation(OracleViolation{Law: law, Class: class, Detail: detail, Replay: t})
		}
	}
	switch cls {
	case ClsPanic, ClsDiverge:
		class := t.classify(cls, out)
		d := fmt.Sprintf("build %s (%s)", map[string]string{ClsPanic: "panicked", ClsDiverge: "did not return"}[cls], msg)
		report("build_terminates_without_panic", class, d)
		if run != nil {
			run.AddEval(string(fp), true)
		}
		return true, class + ": " + d
	case ClsErr:
		if run != nil {
			run.AddEval(string(fp), false)
		}
		if !p.err {
			class := t.classify(cls, out)
			if class == "C10/modified-set-differs" {
				class = "C10/unexpected-build-error"
			}
			report("modified_set_exact", class, "build failed although the directive selects something: "+msg)
			return true, class + ": " + msg
		}
		return false, "error as predicted: " + msg
	}
	if p.err {
		class := t.classify(cls, out)
		if class == "C10/modified-set-differs" {
			class = "C10/missing-build-error"
		}
		report("modified_set_exact", class, "build succeeded although the directive selects nothing / an impossible target")
		if run != nil {
			run.AddEval(string(fp), false)
		}
		return true, class
	}
	diffs, err := t.compare(p, out)
	if err != nil {
		return false, "output not parseable: " + err.Error()
	}
	nontrivial := false
	in, _ := t.inputObjs()
	for i := range in {
		a, b := map[string]string{}, map[string]string{}
		c10Flatten("", in[i], a)
		c10Flatten("", c10Deep(p.objs[i]), b)
		if fmt.Sprint(a) != fmt.Sprint(b) {
			nontrivial = true
		}
	}
	if run != nil {
		run.AddEval(string(fp), nontrivial)
		if nontrivial {
			run.Count("tree", "predicted-change")
		}
	}
	if len(diffs) == 0 {
		return false, "modified set as predicted"
	}
	class := t.classify(cls, out)
	parts := []string{}
	for i, d := range diffs {
		if i >= 6 {
			break
		}
		parts = append(parts, fmt.Sprintf("%s %s: predicted %q, built %q", d.Res, d.Field, d.Want, d.Got))
	}
	detail = strings.Join(parts, "; ")
	report("modified_set_exact", class, detail)
	return true, class + ": " + detail
}

func c10LoadCorpusTrees() []c10Tree {
	out := []c10Tree{}
	data, err := os.ReadFile(verifRoot() + "/corpus/C10/trees.json")
	if err != nil {
		return out
	}
	_ = json.Unmarshal(data, &out)
	return out
}

// c10StartOracle generates the trees and starts the hang-prone builds in child processes in the
// background; the returned function waits for them, runs the remaining builds and checks every tree.
func c10StartOracle(rng *Rng, tier string) func(run *Run) error {
	n := 150
	if tier == "thorough" {
		n = 4000
	}
	trees := c10LoadCorpusTrees()
	for i := 0; i < n; i++ {
		trees = append(trees, c10GenTree(rng.Fork()))
	}
	// limit expected non-returns
	maxHang, hangs := 3, 0
	if tier == "thorough" {
		maxHang = 10
	}
	kept := trees[:0]
	for _, t := range trees {
		if c10ExpectHang(c10Case{Kind: "repl", Repls: t.Repls}) {
			hangs++
			if hangs > maxHang {
				continue
			}
		}
		kept = append(kept, t)
	}
	trees = kept
	jobs := map[int]*c10Job{}
	var jl []*c10Job
	for i, t := range trees {
		if c10TreeHangProne(t) {
			j := &c10Job{req: c10ChildReq{Kind: "build", Files: t.files()}}
			jobs[i] = j
			jl = append(jl, j)
		}
	}
	done := make(chan error, 1)
	go func() { done <- c10RunJobs(jl, 6, 3*time.Second, 4*time.Second) }()
	return func(run *Run) error {
		if err := <-done; err != nil {
			return err
		}
		for i, t := range trees {
			var out, cls, msg string
			if j, ok := jobs[i]; ok {
				out, cls, msg = j.resp.Output, j.resp.Cls, j.resp.Msg
			} else {
				out, cls, msg = c10Build(t.files())
			}
			c10CheckTree(run, t, out, cls, msg)
		}
		return nil
	}
}

func replayC10(path string) (bool, string, error) {
	data, err := os.ReadFile(path)
	if err != nil {
		return false, "", err
	}
	var rp struct {
		Case json.RawMessage `json:"case"`
	}
	if err := json.Unmarshal(data, &rp); err != nil {
		return false, "", err
	}
	var t c10Tree
	if err := json.Unmarshal(rp.Case, &t); err != nil || len(t.Res) == 0 {
		return false, "", fmt.Errorf("replay file has no build tree (case=%s)", string(rp.Case))
	}
	j := &c10Job{req: c10ChildReq{Kind: "build", Files: t.files()}}
	if err := c10RunJobs([]*c10Job{j}, 1, 8*time.Second, 8*time.Second); err != nil {
		return false, "", err
	}
	files := t.files()
	var b strings.Builder
	for _, k := range sortedKeys(func() map[string]bool {
		m := map[string]bool{}
		for k := range files {
			m[k] = true
		}
		return m
	}()) {
		fmt.Fprintf(&b, "--- %s\n%s", k, files[k])
	}
	v, detail := c10CheckTree(nil, t, j.resp.Output, j.resp.Cls, j.resp.Msg)
	return v, fmt.Sprintf("%sclass=%s\n%s\n%s", b.String(), j.resp.Cls, j.resp.Output, detail), nil
}
