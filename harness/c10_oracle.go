package main

// C10 oracle: whole builds through krusty.Run on an in-memory file system. An independent
// matcher (plain string / exact-equality logic over unstructured objects, sharing no code with
// kustomize's selectors, image matcher, PathMatcher or replacement filter) predicts the set of
// modified (resource, field) pairs and their values; any difference is a violation. Failure
// shapes that are listed findings get their specific class id, everything else a generic one.

import (
	"encoding/json"
	"fmt"
	"os"
	"regexp"
	"sort"
	"strconv"
	"strings"
	"time"

	"sigs.k8s.io/kustomize/api/krusty"
	"sigs.k8s.io/kustomize/kyaml/filesys"
	"sigs.k8s.io/kustomize/kyaml/resid"
	kyaml "sigs.k8s.io/kustomize/kyaml/yaml"
	"sigs.k8s.io/yaml"
)

func c10MemFs(files map[string]string) filesys.FileSystem {
	fs := filesys.MakeFsInMemory()
	keys := []string{}
	for k := range files {
		keys = append(keys, k)
	}
	sort.Strings(keys)
	for _, k := range keys {
		_ = fs.WriteFile("/app/"+k, []byte(files[k]))
	}
	return fs
}

type c10ReplicaEntry struct {
	Name  string `json:"name"`
	Count int64  `json:"count"`
}

// c10PatchEntry: one entry of a patches: list. With Target the patch body is anonymous (applies to what
// the selector selects); without, the body names ONE resource (apiVersion, kind, name, namespace) and
// applies to that resource only. Every entry adds its own annotation Key: "yes".
type c10PatchEntry struct {
	Target *c10Sel `json:"target,omitempty"`
	ByName *c10Res `json:"byName,omitempty"`
	Key    string  `json:"key"`
	// options: {allowNameChange: true} / {allowKindChange: true} on THIS entry. The body of a targeted entry
	// always carries a name and a kind different from what it selects (placeholders); only an entry that
	// allows it may rename / re-kind its targets, an entry without options never does.
	AllowName bool `json:"allowName,omitempty"`
	AllowKind bool `json:"allowKind,omitempty"`
}

// the name / kind in the body of a targeted entry
func (e c10PatchEntry) bodyName() string {
	if e.AllowName {
		return "ren-" + e.Key
	}
	return "not-important"
}

const c10BodyKind = "NotImportant"

func (e c10PatchEntry) optionsYaml() string {
	if !e.AllowName && !e.AllowKind {
		return ""
	}
	o := "  options:\n"
	if e.AllowName {
		o += "    allowNameChange: true\n"
	}
	if e.AllowKind {
		o += "    allowKindChange: true\n"
	}
	return o
}

// c10Tree: one generated build.
type c10Tree struct {
	Res      []c10Res          `json:"res"`
	Prefix   string            `json:"prefix,omitempty"` // resources live in a base with this namePrefix
	Suffix   string            `json:"suffix,omitempty"` // ... and / or this nameSuffix
	Images   []c10Image        `json:"images,omitempty"`
	Replicas []c10ReplicaEntry `json:"replicas,omitempty"`
	Repls    []c10Repl         `json:"repls,omitempty"`
	Patch    *c10Sel           `json:"patch,omitempty"`   // patches: [{target: ..., patch: SMP adding annotation patched=yes}]
	Patches  []c10PatchEntry   `json:"patches,omitempty"` // a patches: list mixing targeted and untargeted strategic-merge entries
}

func (t c10Tree) files() map[string]string {
	files := map[string]string{}
	resDir := ""
	var k strings.Builder
	if t.renamed() {
		resDir = "base/"
		bk := "resources:\n- r.yaml\n"
		if t.Prefix != "" {
			bk += "namePrefix: " + t.Prefix + "\n"
		}
		if t.Suffix != "" {
			bk += "nameSuffix: " + t.Suffix + "\n"
		}
		files["base/kustomization.yaml"] = bk
		k.WriteString("resources:\n- base\n")
	} else {
		k.WriteString("resources:\n- r.yaml\n")
	}
	files[resDir+"r.yaml"] = strings.Join(c10Texts(t.Res), "---\n")
	if len(t.Images) > 0 {
		k.WriteString("images:\n")
		for _, im := range t.Images {
			b, _ := json.Marshal(im)
			k.WriteString("- " + string(b) + "\n")
		}
	}
	if len(t.Replicas) > 0 {
		k.WriteString("replicas:\n")
		for _, r := range t.Replicas {
			b, _ := json.Marshal(r)
			k.WriteString("- " + string(b) + "\n")
		}
	}
	if len(t.Repls) > 0 {
		k.WriteString("replacements:\n")
		for _, r := range t.Repls {
			b, _ := json.Marshal(r)
			k.WriteString("- " + string(b) + "\n")
		}
	}
	if len(t.Patches) > 0 {
		k.WriteString("patches:\n")
		for _, e := range t.Patches {
			if e.Target != nil {
				b, _ := json.Marshal(e.Target)
				k.WriteString("- target: " + string(b) + "\n  patch: |-\n    apiVersion: v1\n    kind: " + c10BodyKind + "\n    metadata:\n      name: " + e.bodyName() + "\n      annotations:\n        " + e.Key + ": \"yes\"\n")
			} else {
				k.WriteString("- patch: |-\n    apiVersion: " + e.ByName.APIVersion + "\n    kind: " + e.ByName.Kind + "\n    metadata:\n      name: " + e.ByName.Name + "\n")
				if e.ByName.Namespace != "" {
					k.WriteString("      namespace: " + e.ByName.Namespace + "\n")
				}
				k.WriteString("      annotations:\n        " + e.Key + ": \"yes\"\n")
			}
			k.WriteString(e.optionsYaml())
		}
	}
	if t.Patch != nil {
		b, _ := json.Marshal(t.Patch)
		k.WriteString("patches:\n- target: " + string(b) + "\n  patch: |-\n    apiVersion: v1\n    kind: NotImportant\n    metadata:\n      name: not-important\n      annotations:\n        patched: \"yes\"\n")
	}
	files["kustomization.yaml"] = k.String()
	return files
}

// ---------- unstructured helpers ----------

type c10Obj = map[string]interface{}

func c10Flatten(prefix string, v interface{}, out map[string]string) {
	switch x := v.(type) {
	case map[string]interface{}:
		if len(x) == 0 {
			out[prefix] = "{}"
		}
		for k, c := range x {
			c10Flatten(prefix+"/"+k, c, out)
		}
	case []interface{}:
		if len(x) == 0 {
			out[prefix] = "[]"
		}
		for i, c := range x {
			c10Flatten(prefix+"/"+strconv.Itoa(i), c, out)
		}
	case nil:
		out[prefix] = "<nil>"
	case float64:
		out[prefix] = strconv.FormatFloat(x, 'f', -1, 64)
	default:
		out[prefix] = fmt.Sprint(x)
	}
}

func c10Get(o interface{}, keys ...string) interface{} {
	cur := o
	for _, k := range keys {
		m, ok := cur.(map[string]interface{})
		if !ok {
			return nil
		}
		cur = m[k]
	}
	return cur
}

func c10Str(o interface{}, keys ...string) string {
	v := c10Get(o, keys...)
	if v == nil {
		return ""
	}
	switch x := v.(type) {
	case float64:
		return strconv.FormatFloat(x, 'f', -1, 64)
	}
	return fmt.Sprint(v)
}

func c10Deep(v interface{}) interface{} {
	b, _ := json.Marshal(v)
	var out interface{}
	_ = json.Unmarshal(b, &out)
	return out
}

// one id of a resource as the oracle sees it
type c10IdT struct{ group, version, kind, name, ns string }

// c10View: a resource for the oracle: expected object, ids (current first, then the previous ones,
// oldest first), labels and annotations
type c10View struct {
	obj           c10Obj
	ids           []c10IdT
	labels, annos map[string]string
}

func c10SplitAV(av string) (string, string) {
	if i := strings.Index(av, "/"); i >= 0 {
		return av[:i], av[i+1:]
	}
	return "", av
}

func c10StrMap(v interface{}) (map[string]string, bool) {
	out := map[string]string{}
	if v == nil {
		return out, true
	}
	m, ok := v.(map[string]interface{})
	if !ok {
		return nil, false
	}
	for k, x := range m {
		s, ok := x.(string)
		if !ok {
			return nil, false
		}
		out[k] = s
	}
	return out, true
}

// c10ViewOf reads ids, labels and annotations off an unstructured object (previous ids from the
// build annotations); ok=false for shapes the oracle does not cover (malformed annotations ...)
func c10ViewOf(o c10Obj) (*c10View, bool) {
	v := &c10View{obj: o}
	g, ver := c10SplitAV(c10Str(o, "apiVersion"))
	if _, ok := c10Get(o, "metadata").(map[string]interface{}); !ok {
		return nil, false
	}
	for _, f := range []string{"name", "namespace"} {
		if x := c10Get(o, "metadata", f); x != nil {
			if _, ok := x.(string); !ok {
				return nil, false
			}
		}
	}
	v.ids = []c10IdT{{g, ver, c10Str(o, "kind"), c10Str(o, "metadata", "name"), c10Str(o, "metadata", "namespace")}}
	var ok bool
	if v.labels, ok = c10StrMap(c10Get(o, "metadata", "labels")); !ok {
		return nil, false
	}
	if v.annos, ok = c10StrMap(c10Get(o, "metadata", "annotations")); !ok {
		return nil, false
	}
	if names, has := v.annos["internal.config.kubernetes.io/previousNames"]; has {
		n := strings.Split(names, ",")
		ns := strings.Split(v.annos["internal.config.kubernetes.io/previousNamespaces"], ",")
		k := strings.Split(v.annos["internal.config.kubernetes.io/previousKinds"], ",")
		if len(n) != len(ns) || len(n) != len(k) {
			return nil, false
		}
		for i := range n {
			v.ids = append(v.ids, c10IdT{g, ver, k[i], n[i], ns[i]})
		}
	}
	return v, true
}

func c10Views(objs []c10Obj) ([]*c10View, bool) {
	out := []*c10View{}
	for _, o := range objs {
		v, ok := c10ViewOf(o)
		if !ok {
			return nil, false
		}
		out = append(out, v)
	}
	return out, true
}

// effective namespace of an id that was not built by resid.NewGvk (previous ids, replacement ids, selectors)
func c10EffNsPlain(ns string) string {
	if ns == "" {
		return "default"
	}
	return ns
}

// exact-equality selection of ONE id (replacements, reject lists): empty selector fields are wildcards
func c10OneIdSelected(id c10IdT, s c10Id) bool {
	return (s.Group == "" || s.Group == id.group) && (s.Version == "" || s.Version == id.version) &&
		(s.Kind == "" || s.Kind == id.kind) && (s.Name == "" || s.Name == id.name) &&
		(s.Namespace == "" || c10EffNsPlain(s.Namespace) == c10EffNsPlain(id.ns))
}

// some id (current or previous) of the resource is selected
func c10IdSelected(v *c10View, s c10Id) bool {
	for _, id := range v.ids {
		if c10OneIdSelected(id, s) {
			return true
		}
	}
	return false
}

// simple label selector evaluation (k=v, k==v, k!=v, k, !k, comma = and)
func c10LabelMatch(sel string, labels map[string]string) (bool, bool) {
	if sel == "" {
		return true, true
	}
	if !c10SimpleLsel(sel) {
		return false, false
	}
	for _, req := range strings.Split(sel, ",") {
		switch {
		case strings.Contains(req, "!="):
			kv := strings.SplitN(req, "!=", 2)
			if v, ok := labels[kv[0]]; ok && v == kv[1] {
				return false, true
			}
		case strings.Contains(req, "=="):
			kv := strings.SplitN(req, "==", 2)
			if v, ok := labels[kv[0]]; !ok || v != kv[1] {
				return false, true
			}
		case strings.Contains(req, "="):
			kv := strings.SplitN(req, "=", 2)
			if v, ok := labels[kv[0]]; !ok || v != kv[1] {
				return false, true
			}
		case strings.HasPrefix(req, "!"):
			if _, ok := labels[req[1:]]; ok {
				return false, true
			}
		default:
			if _, ok := labels[req]; !ok {
				return false, true
			}
		}
	}
	return true, true
}

func c10MapOf(kvs [][2]string) map[string]string {
	m := map[string]string{}
	for _, kv := range kvs {
		m[kv[0]] = kv[1]
	}
	return m
}

// ---------- predictions ----------

// c10Mode: which of the listed defects the prediction emulates (all false = what the property demands).
type c10Mode struct {
	ImgTwice     bool // the entry is applied a second time to the images at the default field-spec paths
	ListKeyRegex bool // [k=v] in a replacement TARGET path selects entries whose k contains a regexp match of v
	SourceAlias  bool // the source value is read again before every write (live node, not a copy)
}

func (m c10Mode) class() string {
	parts := []string{}
	if m.ImgTwice {
		parts = append(parts, "image-tagsuffix-applied-twice")
	}
	if m.ListKeyRegex {
		parts = append(parts, "replacement-listkey-unanchored-regex")
	}
	if m.SourceAlias {
		parts = append(parts, "replacement-source-aliased-by-target")
	}
	return "C10/" + strings.Join(parts, "+")
}

type c10Pred struct {
	objs       []c10Obj   // expected objects, index-aligned with the input
	views      []*c10View // the same objects with their ids
	err        bool       // the operation is expected to fail
	unknown    bool       // outside the oracle's domain: no verdict
	nullTarget bool       // a replacement wrote into an existing field holding null (former finding C10/replacement-keeps-target-tag-not-encodable)
	notes      []string
}

// c10Spec: the directives of one build / one micro case
type c10Spec struct {
	Images   []c10Image
	Replicas []c10ReplicaEntry
	Repls    []c10Repl
	Patch    *c10Sel
	Patches  []c10PatchEntry
}

func (t c10Tree) spec() c10Spec {
	return c10Spec{Images: t.Images, Replicas: t.Replicas, Repls: t.Repls, Patch: t.Patch, Patches: t.Patches}
}

func (t c10Tree) outName(n string) string { return t.Prefix + n + t.Suffix }
func (t c10Tree) renamed() bool           { return t.Prefix != "" || t.Suffix != "" }

func (t c10Tree) inputObjs() ([]c10Obj, bool) {
	out := []c10Obj{}
	for _, r := range t.Res {
		var o c10Obj
		if err := yaml.Unmarshal([]byte(r.yaml()), &o); err != nil {
			return nil, false
		}
		if t.renamed() {
			md, _ := o["metadata"].(map[string]interface{})
			md["name"] = t.outName(r.Name)
		}
		out = append(out, o)
	}
	return out, true
}

// the views of a tree: the renaming base layer leaves the original id as a previous id
func (t c10Tree) views(objs []c10Obj) ([]*c10View, bool) {
	vs, ok := c10Views(objs)
	if !ok {
		return nil, false
	}
	if t.renamed() {
		for i, v := range vs {
			cur := v.ids[0]
			v.ids = append(v.ids, c10IdT{cur.group, cur.version, cur.kind, t.Res[i].Name, c10EffNsPlain(cur.ns)})
		}
	}
	return vs, true
}

// docker reference: name[:tag][@digest]; the tag colon is one after the last slash
func c10RefParts(s string) (name, tag, digest string) {
	if i := strings.Index(s, "@"); i >= 0 {
		s, digest = s[:i], s[i+1:]
	}
	slash := strings.LastIndex(s, "/")
	if i := strings.LastIndex(s, ":"); i > slash {
		s, tag = s[:i], s[i+1:]
	}
	return s, tag, digest
}

func c10Compose(im c10Image, s string) string {
	name, tag, digest := c10RefParts(s)
	if im.NewName != "" {
		name = im.NewName
	}
	switch {
	case im.NewTag != "" && im.Digest != "":
		tag, digest = im.NewTag, im.Digest
	case im.NewTag != "":
		tag, digest = im.NewTag, ""
	case im.Digest != "":
		tag, digest = "", im.Digest
	case im.TagSuffix != "":
		tag, digest = tag+im.TagSuffix, ""
	}
	out := name
	if tag != "" {
		out += ":" + tag
	}
	if digest != "" {
		out += "@" + digest
	}
	return out
}

// every "container image field": image of a mapping element of a list under a key containers / initContainers
func c10VisitImages(v interface{}, f func(m map[string]interface{})) {
	switch x := v.(type) {
	case map[string]interface{}:
		for k, c := range x {
			if k == "containers" || k == "initContainers" {
				if l, ok := c.([]interface{}); ok {
					for _, e := range l {
						if m, ok := e.(map[string]interface{}); ok {
							if _, ok := m["image"].(string); ok {
								f(m)
							}
						}
					}
				}
			}
			c10VisitImages(c, f)
		}
	case []interface{}:
		for _, c := range x {
			c10VisitImages(c, f)
		}
	}
}

func c10ImgMatch(mode c10Mode, entry, s string) bool {
	name, _, _ := c10RefParts(s)
	return name == entry
}

func (sp c10Spec) predictImages(p *c10Pred, mode c10Mode) {
	for _, im := range sp.Images {
		for _, o := range p.objs {
			if c10Str(o, "kind") == "CustomResourceDefinition" {
				continue
			}
			c10VisitImages(o, func(m map[string]interface{}) {
				s := m["image"].(string)
				if c10ImgMatch(mode, im.Name, s) {
					m["image"] = c10Compose(im, s)
				}
			})
			if mode.ImgTwice {
				for _, path := range [][]string{{"spec"}, {"spec", "template", "spec"}} {
					ps, _ := c10Get(o, path...).(map[string]interface{})
					for _, key := range []string{"containers", "initContainers"} {
						l, _ := ps[key].([]interface{})
						for _, e := range l {
							if m, ok := e.(map[string]interface{}); ok {
								if s, ok := m["image"].(string); ok && c10ImgMatch(mode, im.Name, s) {
									m["image"] = c10Compose(im, s)
								}
							}
						}
					}
				}
			}
		}
	}
}

var c10ReplicaKinds = map[string]bool{"Deployment": true, "ReplicationController": true, "ReplicaSet": true, "StatefulSet": true}

func (sp c10Spec) predictReplicas(p *c10Pred) {
	for _, e := range sp.Replicas {
		found := false
		for _, v := range p.views {
			o := v.obj
			for kind := range c10ReplicaKinds {
				hit := false
				for _, id := range v.ids {
					hit = hit || (id.name == e.Name && id.kind == kind)
				}
				if !hit {
					continue
				}
				found = true
				if v.ids[0].kind != kind {
					continue // matched through a previous kind: the field spec does not apply to the object as it is now
				}
				spec, ok := o["spec"].(map[string]interface{})
				if !ok {
					if o["spec"] != nil {
						p.unknown = true
						return
					}
					spec = map[string]interface{}{}
					o["spec"] = spec
				}
				switch spec["replicas"].(type) {
				case map[string]interface{}, []interface{}:
					p.unknown = true
					return
				}
				spec["replicas"] = float64(e.Count)
			}
		}
		if !found {
			p.err = true
			return
		}
	}
}

// resolve a dotted replacement path on an unstructured object: the list of (container, key) slots it denotes.
// List entries [k=v] denote the elements whose field k EQUALS v. create: missing pieces are added.
type c10Slot struct {
	m   map[string]interface{}
	key string
	l   []interface{}
	idx int
}

func (s c10Slot) get() interface{} {
	if s.m != nil {
		return s.m[s.key]
	}
	return s.l[s.idx]
}
func (s c10Slot) set(v interface{}) {
	if s.m != nil {
		s.m[s.key] = v
	} else {
		s.l[s.idx] = v
	}
}

// c10Resolve returns the slots, or ok=false when the path does not exist (and is not created), or
// unknown=true for shapes the oracle does not cover.
func c10Resolve(root c10Obj, parts []string, create bool, regexKeys bool, firstOnly bool) (slots []c10Slot, ok bool, unknown bool) {
	type frame struct{ slot c10Slot }
	cur := []c10Slot{{m: map[string]interface{}{"": root}, key: ""}}
	for pi, part := range parts {
		next := []c10Slot{}
		last := pi == len(parts)-1
		for _, s := range cur {
			v := s.get()
			if strings.HasPrefix(part, "[") && strings.HasSuffix(part, "]") {
				kv := strings.SplitN(part[1:len(part)-1], "=", 2)
				if len(kv) != 2 || kv[0] == "" {
					return nil, false, true
				}
				l, isList := v.([]interface{})
				if !isList {
					return nil, false, true
				}
				n := 0
				for i, e := range l {
					m, ok := e.(map[string]interface{})
					if !ok || m[kv[0]] == nil {
						continue
					}
					hit := fmt.Sprint(m[kv[0]]) == kv[1]
					if regexKeys {
						re, err := regexp.Compile(kv[1])
						if err != nil {
							return nil, false, true
						}
						hit = re.MatchString(fmt.Sprint(m[kv[0]]))
					}
					if hit {
						next = append(next, c10Slot{l: l, idx: i})
						n++
						if firstOnly { // yaml.Lookup (the source side) takes the first entry that equals
							break
						}
					}
				}
				if n == 0 {
					if !create {
						continue
					}
					if regexKeys {
						// the entry PathMatcher would append is found again only if the value matches itself;
						// otherwise creating it is an error (since the repair of the create-and-retry loop)
						if re, err := regexp.Compile(kv[1]); err != nil || !re.MatchString(kv[1]) {
							return nil, false, false
						}
					}
					l = append(l, map[string]interface{}{kv[0]: kv[1]})
					s.set(l)
					next = append(next, c10Slot{l: l, idx: len(l) - 1})
				}
				continue
			}
			if part == "*" || part == "" {
				return nil, false, true
			}
			if _, err := strconv.Atoi(part); err == nil {
				return nil, false, true
			}
			m, isMap := v.(map[string]interface{})
			if !isMap {
				return nil, false, true
			}
			if _, present := m[part]; !present {
				if !create {
					continue
				}
				if last {
					m[part] = ""
				} else if nx := parts[pi+1]; strings.HasPrefix(nx, "[") {
					m[part] = []interface{}{}
				} else {
					m[part] = map[string]interface{}{}
				}
			}
			next = append(next, c10Slot{m: m, key: part})
		}
		cur = next
	}
	return cur, len(cur) > 0, false
}

// independent path splitter: dots separate, except inside [...] ; [a.b] without '=' is a plain key
func c10SplitPath(p string) ([]string, bool) {
	out := []string{}
	cur := ""
	depth := 0
	for i := 0; i < len(p); i++ {
		c := p[i]
		switch {
		case c == '\\':
			return nil, false
		case c == '[':
			depth++
			cur += string(c)
		case c == ']':
			depth--
			cur += string(c)
		case c == '.' && depth == 0:
			out = append(out, cur)
			cur = ""
		default:
			cur += string(c)
		}
	}
	out = append(out, cur)
	if depth != 0 {
		return nil, false
	}
	for i, e := range out {
		if strings.HasPrefix(e, "[") && strings.HasSuffix(e, "]") && !strings.Contains(e, "=") {
			out[i] = e[1 : len(e)-1]
		}
	}
	return out, true
}

func c10Text(v interface{}) (string, bool) {
	switch x := v.(type) {
	case string:
		return x, true
	case float64:
		return strconv.FormatFloat(x, 'f', -1, 64), true
	case bool:
		return strconv.FormatBool(x), true
	}
	return "", false
}

func (sp c10Spec) predictRepls(p *c10Pred, mode c10Mode) {
	// writes into metadata change what later selectors see: the name / namespace for every later
	// selector, labels / annotations for later label or annotation selectors
	dirtyName, dirtyLabels := false, false
	usesLabels := func(tg c10Target) bool {
		if tg.Select != nil && (tg.Select.Lab != "" || tg.Select.Ann != "") {
			return true
		}
		for _, r := range tg.Reject {
			if r.Lab != "" || r.Ann != "" {
				return true
			}
		}
		return false
	}
	for _, rp := range sp.Repls {
		if dirtyName {
			p.unknown = true
			return
		}
		if rp.Source == nil || rp.SourceValue != nil || rp.NilTargets {
			p.unknown = true
			return
		}
		// source: exactly one resource
		var src c10Obj
		n := 0
		for _, v := range p.views {
			if c10IdSelected(v, rp.Source.c10Id) {
				src = v.obj
				n++
			}
		}
		if n != 1 {
			p.err = true
			return
		}
		fp := rp.Source.FieldPath
		if fp == "" {
			fp = "metadata.name"
		}
		parts, ok := c10SplitPath(fp)
		if !ok {
			p.unknown = true
			return
		}
		// the source side selects a list entry by equality and takes the first one
		slots, found, unk := c10Resolve(src, parts, false, false, true)
		if unk {
			p.unknown = true
			return
		}
		if !found {
			p.err = true
			return
		}
		var nsVal interface{} // a mapping / sequence source: copied by value (snapshot taken now)
		val, isScalar := c10Text(slots[0].get())
		if !isScalar {
			switch x := slots[0].get().(type) {
			case map[string]interface{}:
				if len(x) == 0 {
					p.err = true
					return
				}
				nsVal = c10Deep(x)
			case []interface{}:
				if len(x) == 0 {
					p.err = true
					return
				}
				nsVal = c10Deep(x)
			default:
				p.unknown = true
				return
			}
			if o := rp.Source.Options; o != nil && o.Delimiter != "" {
				p.err = true // delimiter option can only be used with scalar nodes
				return
			}
			val = "non-scalar"
		}
		if val == "" {
			p.err = true // empty source field: "fieldPath is missing"? outside the domain
			p.unknown = true
			return
		}
		srcSlot := slots[0]
		live := mode.SourceAlias && nsVal == nil && (rp.Source.Options == nil || rp.Source.Options.Delimiter == "")
		if o := rp.Source.Options; o != nil && o.Delimiter != "" {
			pieces := strings.Split(val, o.Delimiter)
			if o.Index < 0 || o.Index >= len(pieces) {
				p.err = true
				return
			}
			val = pieces[o.Index]
		}
		if kyaml.IsValueNonString(val) {
			p.unknown = true // the text would be re-typed by YAML (number, boolean, null): outside the text comparison
			return
		}
		for _, tg := range rp.Targets {
			if tg.Select != nil {
				for _, x := range append([]c10Sel{*tg.Select}, tg.Reject...) {
					if !c10SimpleLsel(x.Lab) || !c10SimpleLsel(x.Ann) {
						p.unknown = true // selector text outside the oracle's grammar (possibly a parse error)
						return
					}
				}
			}
		}
		for _, tg := range rp.Targets {
			if dirtyName || (dirtyLabels && usesLabels(tg)) {
				p.unknown = true
				return
			}
			if tg.Select == nil {
				p.err = true
				return
			}
			fps := tg.FieldPaths
			if len(fps) == 0 {
				fps = []string{"metadata.name"}
			}
			for _, id := range p.views {
				o := id.obj
				labels, annos := id.labels, id.annos
				if !c10IdSelected(id, tg.Select.c10Id) {
					continue
				}
				lm, ok1 := c10LabelMatch(tg.Select.Lab, labels)
				am, ok2 := c10LabelMatch(tg.Select.Ann, annos)
				if !ok1 || !ok2 {
					p.unknown = true
					return
				}
				if !lm || !am {
					continue
				}
				rejected := false
				for _, rj := range tg.Reject {
					if rj.c10Id != (c10Id{}) && c10IdSelected(id, rj.c10Id) {
						rejected = true
					}
					if rj.Lab != "" || rj.Ann != "" {
						lm, ok1 := c10LabelMatch(rj.Lab, labels)
						am, ok2 := c10LabelMatch(rj.Ann, annos)
						if !ok1 || !ok2 {
							p.unknown = true
							return
						}
						if lm && am {
							rejected = true
						}
					}
				}
				if rejected {
					continue
				}
				for _, fp := range fps {
					parts, ok := c10SplitPath(fp)
					if !ok {
						p.unknown = true
						return
					}
					if len(parts) >= 2 && parts[0] == "metadata" {
						switch parts[1] {
						case "name", "namespace":
							dirtyName = true
						case "labels", "annotations":
							dirtyLabels = true
						}
					}
					if len(parts) == 1 && parts[0] == "metadata" {
						dirtyName, dirtyLabels = true, true
					}
					create := tg.Options != nil && tg.Options.Create
					slots, found, unk := c10Resolve(o, parts, create, mode.ListKeyRegex, false)
					if unk {
						p.unknown = true
						return
					}
					if !found {
						p.err = true
						return
					}
					for _, s := range slots {
						if s.get() == nil {
							// the target field exists and holds null: setFieldValue copies only the TEXT into a scalar
							// node, which stays tagged !!null — a later lookup treats it as missing and the document can
							// no longer be encoded ("cannot decode !!str `x` as a !!null"); the value-level view of the
							// oracle cannot express that state: no verdict (the Coq model, which carries tags, is
							// compared with the implementation on these cases)
							p.unknown = true
							p.nullTarget = true
							return
						}
						if nsVal != nil {
							old := s.get()
							if tg.Options != nil && tg.Options.Delimiter != "" {
								p.unknown = true
								return
							}
							if t, isScalar := c10Text(old); old != nil && isScalar && !(create && t == "") {
								p.unknown = true // a scalar target only receives the (empty) text of a mapping: outside the oracle
								return
							}
							s.set(c10Deep(nsVal))
							continue
						}
						if live {
							if v, ok := c10Text(srcSlot.get()); ok {
								val = v
							}
						}
						old := s.get()
						if tg.Options != nil && tg.Options.Delimiter != "" {
							ot, isScalar := c10Text(old)
							if !isScalar {
								p.err = true
								return
							}
							tv := strings.Split(ot, tg.Options.Delimiter)
							switch {
							case tg.Options.Index < 0:
								tv = append([]string{val}, tv...)
							case tg.Options.Index >= len(tv):
								tv = append(tv, val)
							default:
								tv[tg.Options.Index] = val
							}
							joined := strings.Join(tv, tg.Options.Delimiter)
							if kyaml.IsValueNonString(joined) {
								p.unknown = true
								return
							}
							s.set(joined)
						} else {
							if _, isScalar := c10Text(old); !isScalar && old != nil {
								p.unknown = true
								return
							}
							s.set(val)
						}
					}
				}
			}
		}
	}
}

func c10FullMatch(pat, s string) (bool, bool) {
	if pat == "" {
		return true, true
	}
	re, err := regexp.Compile(`\A(?:` + pat + `)\z`)
	if err != nil {
		return false, false
	}
	return re.MatchString(s), true
}

// is this gvk cluster scoped for an id built by resid.NewGvk (the current id of a resource)
func c10IdClusterScoped(id c10IdT) bool {
	return resid.NewGvk(id.group, id.version, id.kind).IsClusterScoped()
}

// c10SelectKeeps: the specification of a patch target selector for one resource: every non-empty
// pattern matches the WHOLE text; namespace and name are tried on the original and on the current id.
func c10SelectKeeps(v *c10View, s c10Sel) (keep bool, ok bool) {
	cur := v.ids[0]
	org := cur
	if len(v.ids) > 1 {
		org = v.ids[1]
	}
	curNs := c10EffNsPlain(cur.ns)
	if c10IdClusterScoped(cur) {
		curNs = "_non_namespaceable_"
	}
	orgNs := curNs
	if len(v.ids) > 1 {
		orgNs = c10EffNsPlain(org.ns)
	}
	m := func(pat, subj string) bool { r, _ := c10FullMatch(pat, subj); return r }
	if !(m(s.Group, cur.group) && m(s.Version, cur.version) && m(s.Kind, cur.kind)) {
		return false, true
	}
	if !(m(s.Namespace, orgNs) || m(s.Namespace, curNs)) || !(m(s.Name, org.name) || m(s.Name, cur.name)) {
		return false, true
	}
	lm, ok1 := c10LabelMatch(s.Lab, v.labels)
	if !ok1 {
		return false, false
	}
	if !lm {
		return false, true
	}
	am, ok2 := c10LabelMatch(s.Ann, v.annos)
	if !ok2 {
		return false, false
	}
	return am, true
}

func c10Annotate(v *c10View, key string) {
	md := v.obj["metadata"].(map[string]interface{})
	an, ok := md["annotations"].(map[string]interface{})
	if !ok {
		an = map[string]interface{}{}
		md["annotations"] = an
	}
	an[key] = "yes"
}

// predictPatches: every entry of a patches: list changes exactly what IT selects — a targeted entry the
// resources its selector keeps, an untargeted one the single resource its body names (an error if
// there is none) — whatever the entries before it were.
func (sp c10Spec) predictPatches(p *c10Pred) {
	// Resource.ApplySmPatch with allowNameChange / allowKindChange: the current id becomes a previous id
	// (StorePreviousId), name / kind of the body survive the merge; without the option they are restored
	allow := func(v *c10View, e c10PatchEntry, name, kind string) {
		if !e.AllowName && !e.AllowKind {
			return
		}
		old := v.ids[0]
		cur := old
		if e.AllowName {
			cur.name = name
			v.obj["metadata"].(map[string]interface{})["name"] = name
		}
		if e.AllowKind {
			cur.kind = kind
			v.obj["kind"] = kind
		}
		ids := append([]c10IdT{cur}, v.ids[1:]...)
		v.ids = append(ids, old)
	}
	for _, e := range sp.Patches {
		if e.Target != nil {
			for _, pat := range []string{e.Target.Group, e.Target.Version, e.Target.Kind, e.Target.Name, e.Target.Namespace} {
				if _, ok := c10FullMatch(pat, ""); !ok {
					p.err = true
					return
				}
			}
			kept := []*c10View{}
			for _, v := range p.views {
				keep, ok := c10SelectKeeps(v, *e.Target)
				if !ok {
					p.err = true
					return
				}
				if keep {
					kept = append(kept, v)
				}
			}
			for _, v := range kept {
				c10Annotate(v, e.Key)
				allow(v, e, e.bodyName(), c10BodyKind)
			}
			if e.AllowName || e.AllowKind {
				// the map is rebuilt after the patch: two resources with one current id are an error
				seen := map[c10IdT]bool{}
				for _, v := range p.views {
					k := v.ids[0]
					k.ns = c10EffNsPlain(k.ns)
					if c10IdClusterScoped(k) {
						k.ns = ""
					}
					if seen[k] {
						p.err = true
						return
					}
					seen[k] = true
				}
			}
			continue
		}
		g, ver := c10SplitAV(e.ByName.APIVersion)
		hit := []*c10View{}
		for _, v := range p.views {
			for _, id := range v.ids { // GetById: previous ids count as well as the current one
				if id.group == g && id.version == ver && id.kind == e.ByName.Kind && id.name == e.ByName.Name &&
					c10EffNsPlain(id.ns) == c10EffNsPlain(e.ByName.Namespace) {
					hit = append(hit, v)
					break
				}
			}
		}
		if len(hit) != 1 {
			p.err = true // no resource (or several) for the named patch
			return
		}
		c10Annotate(hit[0], e.Key)
		// the body names the resource as it is — nothing visible changes — or as it WAS (a previous id):
		// with the options set the body's name / kind then come back; without them they are restored anyway
		before := hit[0].ids[0]
		allow(hit[0], e, e.ByName.Name, e.ByName.Kind)
		if hit[0].ids[0] != before {
			p.unknown = true // renamed back through a previous id: outside the oracle's domain
			return
		}
	}
}

func (sp c10Spec) predictPatch(p *c10Pred) {
	s := sp.Patch
	for _, pat := range []string{s.Group, s.Version, s.Kind, s.Name, s.Namespace} {
		if _, ok := c10FullMatch(pat, ""); !ok {
			p.err = true
			return
		}
	}
	for _, v := range p.views {
		keep, ok := c10SelectKeeps(v, *s)
		if !ok {
			p.err = true
			return
		}
		if !keep {
			continue
		}
		md := v.obj["metadata"].(map[string]interface{})
		an, ok := md["annotations"].(map[string]interface{})
		if !ok {
			an = map[string]interface{}{}
			md["annotations"] = an
		}
		an["patched"] = "yes"
	}
}

// predictOn applies the directives to the views (kustomize's order: patches, replicas, images, replacements)
func (sp c10Spec) predictOn(p *c10Pred, mode c10Mode) {
	if len(sp.Patches) > 0 {
		sp.predictPatches(p)
	}
	if !p.err && !p.unknown && sp.Patch != nil {
		sp.predictPatch(p)
	}
	if !p.err && !p.unknown && len(sp.Replicas) > 0 {
		sp.predictReplicas(p)
	}
	if !p.err && !p.unknown && len(sp.Images) > 0 {
		sp.predictImages(p, mode)
	}
	if !p.err && !p.unknown && len(sp.Repls) > 0 {
		sp.predictRepls(p, mode)
	}
}

func (t c10Tree) predict(mode c10Mode) c10Pred {
	p := c10Pred{}
	objs, ok := t.inputObjs()
	if !ok {
		p.unknown = true
		return p
	}
	p.objs = objs
	if p.views, ok = t.views(objs); !ok {
		p.unknown = true
		return p
	}
	t.spec().predictOn(&p, mode)
	return p
}

// ---------- comparison and classification ----------

func c10Key(o interface{}) string {
	ns := c10Str(o, "metadata", "namespace")
	return c10Str(o, "apiVersion") + "|" + c10Str(o, "kind") + "|" + ns + "|" + c10Str(o, "metadata", "name")
}

type c10Diff struct {
	Res, Field, Want, Got string
}

func (t c10Tree) compare(p c10Pred, output string) ([]c10Diff, error) {
	got := map[string]c10Obj{}
	for _, d := range strings.Split(output, "\n---\n") {
		if strings.TrimSpace(d) == "" {
			continue
		}
		var o c10Obj
		if err := yaml.Unmarshal([]byte(d), &o); err != nil {
			return nil, err
		}
		got[c10Key(o)] = o
	}
	diffs := []c10Diff{}
	if len(got) != len(p.objs) {
		diffs = append(diffs, c10Diff{Res: "*", Field: "#resources", Want: strconv.Itoa(len(p.objs)), Got: strconv.Itoa(len(got))})
	}
	for _, want := range p.objs {
		k := c10Key(want)
		o, ok := got[k]
		if !ok {
			diffs = append(diffs, c10Diff{Res: k, Field: "*", Want: "present", Got: "missing"})
			continue
		}
		fw, fg := map[string]string{}, map[string]string{}
		c10Flatten("", c10Deep(want), fw)
		c10Flatten("", o, fg)
		keys := map[string]bool{}
		for f := range fw {
			keys[f] = true
		}
		for f := range fg {
			keys[f] = true
		}
		for _, f := range sortedKeys(keys) {
			w, okw := fw[f]
			g, okg := fg[f]
			if !okw {
				w = "<absent>"
			}
			if !okg {
				g = "<absent>"
			}
			if w != g {
				diffs = append(diffs, c10Diff{Res: k, Field: f, Want: w, Got: g})
			}
		}
	}
	return diffs, nil
}

// classify maps a failure to the class id of a listed finding when (and only when) it has exactly that shape.
// Panics / non-returns are classified by the input shape; a wrong result by the emulated defect
// (or combination) whose prediction reproduces the observed output exactly.
func (t c10Tree) classify(cls string, out string) string {
	switch cls {
	case ClsPanic:
		return "C10/build-panics"
	case ClsDiverge:
		return "C10/build-does-not-return"
	}
	undecided := false
	modes := []c10Mode{{ImgTwice: true}, {ListKeyRegex: true}} // the emulation of the repaired live source is gone: a reappearance is unlisted
	for _, m := range modes {
		if m.ImgTwice && len(t.Images) == 0 {
			continue
		}
		if (m.ListKeyRegex || m.SourceAlias) && len(t.Repls) == 0 {
			continue
		}
		p := t.predict(m)
		if p.unknown {
			undecided = true
			continue
		}
		if cls == ClsErr {
			if p.err {
				return m.class()
			}
			continue
		}
		if p.err {
			continue
		}
		if d, err := t.compare(p, out); err == nil && len(d) == 0 {
			return m.class()
		}
	}
	if undecided {
		return "" // a listed defect may explain it, but its emulation is outside the oracle's domain: no verdict
	}
	return "C10/modified-set-differs"
}

// ---------- generation ----------

var c10OracleImages = []string{"x:5000/app:1.0", "x:5000/x", "reg:5000/reg:2", "app:5000/x@sha256:abc", "x", "x:1", "x-1:1", "ax:2", "x.y:3", "xzy:1", "xzy", "reg:5000/x", "reg:5000/x:1", "reg:5000/x@sha256:abc", "x@sha256:abc",
	"x:1@sha256:abc", "docker.io/lib/x:1", "x.y", "y:1", "app:v1", "reg/x.y:1", "reg/xzy:1"}
var c10OracleEntryNames = []string{"reg", "app", "x", "x", "x-1", "ax", "x.y", "xzy", "reg:5000/x", "docker.io/lib/x", "y", "app", "reg/x.y", "x"}

var c10WebNames = []string{"web", "api", "web-canary", "internal-api", "webapi", "api-web", "web"}

func c10GenOracleRes(r *Rng, names []string) c10Res {
	kinds := [][2]string{{"apps/v1", "Deployment"}, {"apps/v1", "StatefulSet"}, {"v1", "Pod"}, {"v1", "ConfigMap"}, {"batch/v1", "CronJob"}, {"example.com/v1", "MyKind"}, {"apps/v1", "ReplicaSet"}, {"apps/v1", "DaemonSet"}}
	k := kinds[r.Intn(len(kinds))]
	res := c10Res{APIVersion: k[0], Kind: k[1], Name: c10PickN(r, names), Namespace: c10PickN(r, []string{"", "", "ns", "ns-1"})}
	res.Labels = append(res.Labels, [2]string{"app", c10PickN(r, c10LabelVals)})
	if r.Chance(50) {
		res.Labels = append(res.Labels, [2]string{"tier", c10PickN(r, c10LabelVals)})
	}
	if r.Chance(60) {
		res.Annos = append(res.Annos, [2]string{"note", c10PickN(r, []string{"a:b:c", "nn", "x/y/z", "eu-web"})})
	}
	if res.contPath() != "none" {
		used := map[string]bool{}
		for i := 1 + r.Intn(3); i > 0; i-- {
			c := c10Cont{Name: c10PickN(r, c10Names), Image: c10PickN(r, c10OracleImages)}
			if used[c.Name] {
				continue
			}
			used[c.Name] = true
			if r.Chance(20) {
				res.Inits = append(res.Inits, c)
			} else {
				res.Conts = append(res.Conts, c)
			}
		}
		if r.Chance(60) && res.Kind != "Pod" && res.Kind != "CronJob" && res.Kind != "DaemonSet" {
			res.Replicas = c10PickN(r, []string{"1", "2", "3"})
		}
	}
	return res
}

func c10GenTree(r *Rng) c10Tree {
	t := c10Tree{}
	seen := map[string]bool{}
	n := 2 + r.Intn(5)
	names := c10Names
	webFam := r.Chance(35)
	if webFam {
		names = c10WebNames
	}
	for tries := 0; len(t.Res) < n && tries < 40; tries++ {
		x := c10GenOracleRes(r, names)
		key := x.Kind + "|" + x.Name + "|" + x.Namespace
		if seen[key] {
			continue
		}
		seen[key] = true
		t.Res = append(t.Res, x)
	}
	directive := r.Intn(10)
	renameChance := 30
	if directive >= 5 && directive <= 7 {
		renameChance = 55 // replacements above a renaming base: target resources with several ids
	}
	if r.Chance(renameChance) {
		switch r.Intn(4) {
		case 0:
			t.Suffix = "-s"
		case 1:
			t.Prefix, t.Suffix = "p-", "-s"
		default:
			t.Prefix = "p-"
		}
	}
	pick := func() c10Res { return t.Res[r.Intn(len(t.Res))] }
	switch directive {
	case 0, 1, 2: // images
		for i := 1 + r.Intn(2); i > 0; i-- {
			im := c10Image{Name: c10PickN(r, c10OracleEntryNames)}
			switch r.Intn(6) {
			case 0:
				im.NewName = "new"
			case 1:
				im.NewTag = "v2"
			case 2:
				im.Digest = "sha256:fff"
			case 3:
				im.NewName, im.NewTag = "reg:5000/new", "v3"
			case 4:
				im.NewTag, im.Digest = "v4", "sha256:eee"
			default:
				im.TagSuffix = "-s"
			}
			t.Images = append(t.Images, im)
		}
	case 3, 4: // replicas
		name := c10PickN(r, c10Names)
		if r.Chance(70) {
			name = pick().Name
			if t.renamed() && r.Chance(50) {
				name = t.outName(name)
			}
		}
		t.Replicas = append(t.Replicas, c10ReplicaEntry{Name: name, Count: int64(3 + r.Intn(5))})
	case 5, 6, 7: // replacements
		if r.Chance(12) {
			// a mapping / list source copied to several targets, then a write into a child of one copy
			t.Res, t.Repls = c10GenSharedSource(r)
			t.Prefix, t.Suffix = "", ""
			return t
		}
		src := pick()
		rp := c10Repl{Source: &c10Source{c10Id: c10Id{Kind: src.Kind, Name: src.Name}}}
		if src.Namespace != "" {
			rp.Source.Namespace = src.Namespace
		}
		rp.Source.FieldPath = c10PickN(r, []string{"metadata.name", "", "metadata.labels.app", "metadata.annotations.note"})
		if rp.Source.FieldPath == "metadata.annotations.note" && r.Chance(70) {
			rp.Source.Options = &c10Opts{Delimiter: c10PickN(r, []string{":", "/"}), Index: r.Intn(3)}
		}
		tg := c10Target{}
		tp := pick()
		sel := c10Sel{}
		if r.Chance(80) {
			sel.Kind = tp.Kind
		}
		if r.Chance(35) {
			sel.Name = tp.Name
			if t.renamed() && r.Chance(50) {
				sel.Name = t.outName(tp.Name)
			}
		}
		if r.Chance(15) {
			sel.Lab = c10PickN(r, []string{"app=x", "app!=x", "tier"})
		}
		tg.Select = &sel
		if r.Chance(30) {
			tg.Reject = append(tg.Reject, c10Sel{c10Id: c10Id{Name: pick().Name}})
		}
		cname := c10PickN(r, []string{"x", "x", "ax", "x-1", "x.y", "xzy", "zz"})
		cpath := map[string]string{"pod": "spec.containers", "tmpl": "spec.template.spec.containers", "cron": "spec.jobTemplate.spec.template.spec.containers", "none": "spec.containers"}[tp.contPath()]
		switch r.Intn(5) {
		case 0, 1, 2:
			tg.FieldPaths = []string{cpath + ".[name=" + cname + "].image"}
		case 3:
			tg.FieldPaths = []string{"metadata.annotations.copied"}
			tg.Options = &c10Opts{Create: true}
		default:
			tg.FieldPaths = []string{"metadata.labels.app"}
		}
		if tg.Options == nil && r.Chance(50) {
			// non-idempotent writes: prefix (index -1) / append (index >= number of parts) / replace a part
			delim := ":"
			switch {
			case strings.HasSuffix(tg.FieldPaths[0], ".image"):
				delim = c10PickN(r, []string{":", ":", "/"})
			case tg.FieldPaths[0] == "metadata.labels.app":
				delim = "-"
			}
			tg.Options = &c10Opts{Delimiter: delim, Index: c10PickInt(r, []int{-1, -1, -1, 0, 1, 2, 3, 7})}
		}
		if tg.Options == nil && r.Chance(15) {
			tg.Options = &c10Opts{Create: true}
		}
		if r.Chance(6) && rp.Source.Options == nil && rp.Source.FieldPath != "" && rp.Source.FieldPath != "metadata.name" {
			// the target rewrites the source field itself (and one more field)
			tg = c10Target{Select: &c10Sel{c10Id: c10Id{Kind: src.Kind, Name: src.Name}},
				FieldPaths: []string{rp.Source.FieldPath, "metadata.labels.app"},
				Options:    &c10Opts{Delimiter: "/", Index: 1 + r.Intn(2)}}
		}
		if t.renamed() && r.Chance(60) {
			// a target resource with several ids (renamed in the base), selected through more than one of
			// them (kind only / group+version / everything), written non-idempotently: once per resource
			sel := c10Sel{}
			switch r.Intn(4) {
			case 0, 1:
				sel.Kind = tp.Kind
			case 2:
				g, v := c10SplitAV(tp.APIVersion)
				sel.Group, sel.Version = g, v
			}
			tg = c10Target{Select: &sel}
			idx := c10PickInt(r, []int{-1, -1, 5, 9})
			switch r.Intn(4) {
			case 0:
				tg.FieldPaths = []string{"metadata.labels.app"}
				tg.Options = &c10Opts{Delimiter: "-", Index: idx}
			case 1:
				tg.FieldPaths = []string{"metadata.annotations.copied"}
				tg.Options = &c10Opts{Delimiter: c10PickN(r, []string{"-", ":", "/"}), Index: idx, Create: true}
			default:
				// a list element: keep tp the only resource of its kind so that the path exists in every target
				if len(tp.Conts) > 0 {
					kept := []c10Res{}
					for _, x := range t.Res {
						if x.Kind != tp.Kind || (x.Name == tp.Name && x.Namespace == tp.Namespace) {
							kept = append(kept, x)
						}
					}
					t.Res = kept
					sel = c10Sel{c10Id: c10Id{Kind: tp.Kind}}
					tg.Select = &sel
					tg.FieldPaths = []string{cpath + ".[name=" + tp.Conts[0].Name + "].image"}
					tg.Options = &c10Opts{Delimiter: c10PickN(r, []string{":", "/"}), Index: idx}
				} else {
					tg.FieldPaths = []string{"metadata.labels.app"}
					tg.Options = &c10Opts{Delimiter: "-", Index: idx}
				}
			}
			// the source must still exist and be unique
			stillThere := false
			for _, x := range t.Res {
				if x.Kind == src.Kind && x.Name == src.Name && x.Namespace == src.Namespace {
					stillThere = true
				}
			}
			if !stillThere {
				src = tp
				rp.Source = &c10Source{c10Id: c10Id{Kind: src.Kind, Name: src.Name, Namespace: src.Namespace}, FieldPath: "metadata.name"}
			}
			if rp.Source.FieldPath == "metadata.labels.app" {
				rp.Source.FieldPath = "metadata.name" // do not alias the field that is written
			}
		}
		rp.Targets = []c10Target{tg}
		t.Repls = []c10Repl{rp}
	default: // patch with a target selector
		s := c10Sel{}
		tp := pick()
		if r.Chance(70) {
			other := pick()
			if webFam {
				s.Name = c10PickN(r, []string{"web|api", "api|web", "web|api|webapi", "web-canary|api", tp.Name + "|" + other.Name, "web", "api", "web.*", ".*api", "p-web|p-api", "web|api-s"})
			} else {
				s.Name = c10PickN(r, []string{tp.Name, "x", "x.*", "x|ax", "x-1", ".*", "x.y", "[a-z]+", "p-x", "p-.*", "x$", "^x", tp.Name + "|" + other.Name, "x|app", "ax|x-1"})
			}
		}
		if r.Chance(50) {
			s.Kind = c10PickN(r, []string{tp.Kind, "Deployment", "Deploy", ".*Set", "Pod|Deployment", "MyKind", "Pod|Job", "Set|Pod"})
		}
		if r.Chance(25) {
			s.Namespace = c10PickN(r, []string{"ns", "ns-1", "default", "ns.*", "n"})
		}
		if r.Chance(15) {
			s.Group = c10PickN(r, []string{"apps", "app", "example.com", "batch|apps"})
		}
		if r.Chance(25) {
			s.Lab = c10PickN(r, []string{"app=x", "app!=x", "tier", "!tier", "app=x,tier=web", "app=ax"})
		}
		t.Patch = &s
		if r.Chance(55) {
			// a patches: list mixing targeted and untargeted (by-name) entries, in both orders; no renaming base,
			// so that a by-name patch names the resource as it is
			t.Patch = nil
			t.Prefix, t.Suffix = "", ""
			n := 2 + r.Intn(2)
			firstTargeted := r.Chance(60)
			for i := 0; i < n; i++ {
				e := c10PatchEntry{Key: "p" + strconv.Itoa(i)}
				targeted := (i%2 == 0) == firstTargeted
				if r.Chance(15) {
					targeted = !targeted
				}
				if targeted {
					sel := s
					if i > 0 || r.Chance(50) {
						x := pick()
						sel = c10Sel{c10Id: c10Id{Name: c10PickN(r, []string{x.Name, x.Name + "|" + pick().Name, x.Name + ".*", x.Name})}}
						if r.Chance(50) {
							sel.Kind = x.Kind
						}
					}
					e.Target = &sel
				} else {
					x := pick()
					// prefer a resource the targeted entries are unlikely to select
					for tries := 0; tries < 4; tries++ {
						y := pick()
						if y.Name != tp.Name {
							x = y
							break
						}
					}
					e.ByName = &c10Res{APIVersion: x.APIVersion, Kind: x.Kind, Name: x.Name, Namespace: x.Namespace}
					if r.Chance(8) {
						e.ByName.Name = "absent"
					}
				}
				t.Patches = append(t.Patches, e)
			}
			// options on some entries (seeded C02-g: an entry without options inherits the options of the
			// closest earlier entry that had some, and then renames / re-kinds what it selects to the
			// placeholder name / kind of its body): both orders, on targeted and on by-name entries
			if r.Chance(60) {
				for i := range t.Patches {
					if !r.Chance(45) {
						continue
					}
					switch r.Intn(10) {
					case 0, 1:
						t.Patches[i].AllowKind = true
					case 2:
						t.Patches[i].AllowName, t.Patches[i].AllowKind = true, true
					default:
						t.Patches[i].AllowName = true
					}
				}
			}
		}
	}
	return t
}

// ---------- running ----------

func c10TreeHangProne(t c10Tree) bool { return c10ReplHangProne(t.Repls) }

func c10CheckTree(run *Run, t c10Tree, out string, cls string, msg string) (violated bool, detail string) {
	p := t.predict(c10Mode{})
	kind := "patch"
	switch {
	case len(t.Images) > 0:
		kind = "images"
	case len(t.Replicas) > 0:
		kind = "replicas"
	case len(t.Repls) > 0:
		kind = "replacements"
	}
	if run != nil {
		run.Count("tree", kind)
		run.Count("tree_class", cls)
	}
	fp, _ := json.Marshal(t)
	if len(t.Repls) > 0 && cls == ClsErr && c10KeptTagRe.MatchString(msg) {
		// the replacement "succeeded" and left a node tagged !!null with a text: ResMap.AsYaml cannot encode it
		d := "a replacement wrote a text into a scalar that kept its tag; the build output cannot be encoded: " + msg
		if run != nil {
			run.Violation(OracleViolation{Law: "written_value_well_formed", Class: "C10/replacement-output-not-encodable", Detail: d, Replay: t})
			run.AddEval(string(fp), true)
		}
		return true, "C10/replacement-output-not-encodable: " + d
	}
	if p.unknown {
		if run != nil {
			run.Count("tree", "outside-oracle-domain")
			run.AddEval(string(fp), false)
		}
		// a panic or a non-return is a violation whatever the prediction
		if cls != ClsPanic && cls != ClsDiverge {
			return false, "outside the oracle's domain"
		}
	}
	report := func(law, class, detail string) {
		if run != nil {
			run.Violation(OracleViolation{Law: law, Class: class, Detail: detail, Replay: t})
		}
	}
	switch cls {
	case ClsPanic, ClsDiverge:
		class := t.classify(cls, out)
		d := fmt.Sprintf("build %s (%s)", map[string]string{ClsPanic: "panicked", ClsDiverge: "did not return"}[cls], msg)
		report("build_terminates_without_panic", class, d)
		if run != nil {
			run.AddEval(string(fp), true)
		}
		return true, class + ": " + d
	case ClsErr:
		if run != nil {
			run.AddEval(string(fp), false)
		}
		if !p.err {
			class := t.classify(cls, out)
			if class == "" {
				return false, "no verdict"
			}
			if class == "C10/modified-set-differs" {
				class = "C10/unexpected-build-error"
			}
			report("modified_set_exact", class, "build failed although the directive selects something: "+msg)
			return true, class + ": " + msg
		}
		return false, "error as predicted: " + msg
	}
	if p.err {
		class := t.classify(cls, out)
		if class == "" {
			return false, "no verdict"
		}
		if class == "C10/modified-set-differs" {
			class = "C10/missing-build-error"
		}
		report("modified_set_exact", class, "build succeeded although the directive selects nothing / an impossible target")
		if run != nil {
			run.AddEval(string(fp), false)
		}
		return true, class
	}
	diffs, err := t.compare(p, out)
	if err != nil {
		return false, "output not parseable: " + err.Error()
	}
	nontrivial := false
	in, _ := t.inputObjs()
	for i := range in {
		a, b := map[string]string{}, map[string]string{}
		c10Flatten("", in[i], a)
		c10Flatten("", c10Deep(p.objs[i]), b)
		if fmt.Sprint(a) != fmt.Sprint(b) {
			nontrivial = true
		}
	}
	if run != nil {
		run.AddEval(string(fp), nontrivial)
		if nontrivial {
			run.Count("tree", "predicted-change")
		}
	}
	if len(diffs) == 0 {
		return false, "modified set as predicted"
	}
	class := t.classify(cls, out)
	if class == "" {
		return false, "no verdict"
	}
	parts := []string{}
	for i, d := range diffs {
		if i >= 6 {
			break
		}
		parts = append(parts, fmt.Sprintf("%s %s: predicted %q, built %q", d.Res, d.Field, d.Want, d.Got))
	}
	detail = strings.Join(parts, "; ")
	report("modified_set_exact", class, detail)
	return true, class + ": " + detail
}

func c10LoadCorpusTrees() []c10Tree {
	out := []c10Tree{}
	data, err := os.ReadFile(verifRoot() + "/corpus/C10/trees.json")
	if err != nil {
		return out
	}
	_ = json.Unmarshal(data, &out)
	return out
}

// c10StartOracle generates the trees and starts the hang-prone builds in child processes in the
// background; the returned function waits for them, runs the remaining builds and checks every tree.
func c10StartOracle(rng *Rng, tier string) func(run *Run) error {
	n := 150
	if tier == "thorough" {
		n = 4000
	}
	trees := c10LoadCorpusTrees()
	for i := 0; i < n; i++ {
		trees = append(trees, c10GenTree(rng.Fork()))
	}
	// limit expected non-returns
	maxHang, hangs := 3, 0
	if tier == "thorough" {
		maxHang = 10
	}
	kept := trees[:0]
	for _, t := range trees {
		if c10ExpectHang(c10Case{Kind: "repl", Repls: t.Repls}) {
			hangs++
			if hangs > maxHang {
				continue
			}
		}
		kept = append(kept, t)
	}
	trees = kept
	jobs := map[int]*c10Job{}
	var jl []*c10Job
	for i, t := range trees {
		if c10TreeHangProne(t) {
			j := &c10Job{req: c10ChildReq{Kind: "build", Files: t.files()}}
			jobs[i] = j
			jl = append(jl, j)
		}
	}
	done := make(chan error, 1)
	go func() { done <- c10RunJobs(jl, 6, 3*time.Second, 4*time.Second) }()
	return func(run *Run) error {
		if err := <-done; err != nil {
			return err
		}
		for i, t := range trees {
			var out, cls, msg string
			if j, ok := jobs[i]; ok {
				out, cls, msg = j.resp.Output, j.resp.Cls, j.resp.Msg
			} else {
				out, cls, msg = c10Build(t.files())
			}
			c10CheckTree(run, t, out, cls, msg)
		}
		return nil
	}
}

// c10ReplayMicro re-runs one micro case on the implementation and judges it against the property
// (independent matcher); used for the cases on which model and implementation disagree.
func c10ReplayMicro(c c10Case) (bool, string) {
	run := NewRun("C10", "replay", 0, "", "")
	imgFs, repFs := krusty.VerifC10DefaultFieldSpecs()
	switch c.Kind {
	case "match", "repl":
		var j *c10Job
		if c.Kind == "match" {
			j = c10RunMatchJob(c)
		} else {
			j = &c10Job{req: c10ChildReq{Kind: "repl", Docs: c.Docs, Repls: c.Repls}}
		}
		if err := c10RunJobs([]*c10Job{j}, 1, 3*time.Second, 5*time.Second); err != nil {
			return false, "child process: " + err.Error()
		}
		if c.Kind == "match" {
			c10EmitMatch(run, c, j.resp)
			if j.resp.Cls == ClsPanic {
				return true, "PathMatcher panicked: " + j.resp.Msg
			}
		} else {
			c10EmitRepl(run, c, j.resp)
		}
	default:
		c10Exec1(run, c, imgFs, repFs)
	}
	b, _ := json.Marshal(c)
	if len(run.Meta.Violations) > 0 {
		v := run.Meta.Violations[0]
		return true, fmt.Sprintf("case %s\nLAW %s class=%s: %s", string(b), v.Law, v.Class, v.Detail)
	}
	return false, fmt.Sprintf("case %s\nno law of the property is violated on this input (distribution %v)", string(b), run.Meta.Distribution)
}

func replayC10(path string) (bool, string, error) {
	data, err := os.ReadFile(path)
	if err != nil {
		return false, "", err
	}
	var rp struct {
		Case json.RawMessage `json:"case"`
	}
	if err := json.Unmarshal(data, &rp); err != nil {
		return false, "", err
	}
	var probe struct {
		Kind string `json:"kind"`
	}
	if json.Unmarshal(rp.Case, &probe) == nil && probe.Kind != "" {
		var c c10Case
		if err := json.Unmarshal(rp.Case, &c); err != nil {
			return false, "", err
		}
		v, detail := c10ReplayMicro(c)
		return v, detail, nil
	}
	var t c10Tree
	if err := json.Unmarshal(rp.Case, &t); err != nil || len(t.Res) == 0 {
		return false, "", fmt.Errorf("replay file has no build tree (case=%s)", string(rp.Case))
	}
	j := &c10Job{req: c10ChildReq{Kind: "build", Files: t.files()}}
	if err := c10RunJobs([]*c10Job{j}, 1, 8*time.Second, 8*time.Second); err != nil {
		return false, "", err
	}
	files := t.files()
	var b strings.Builder
	for _, k := range sortedKeys(func() map[string]bool {
		m := map[string]bool{}
		for k := range files {
			m[k] = true
		}
		return m
	}()) {
		fmt.Fprintf(&b, "--- %s\n%s", k, files[k])
	}
	v, detail := c10CheckTree(nil, t, j.resp.Output, j.resp.Cls, j.resp.Msg)
	return v, fmt.Sprintf("%sclass=%s\n%s\n%s", b.String(), j.resp.Cls, j.resp.Output, detail), nil
}
