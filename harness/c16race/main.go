// Command c16race is built with -race by the C16 harness. It reads rounds of file trees from stdin, builds
// the trees of a round concurrently (one goroutine each, released together) with krusty, and prints the
// outputs as JSON. Data-race reports of the Go race detector go to stderr and are parsed by the harness.
// The first round runs in the cold process; between rounds the OpenAPI globals are reset (no build is running
// then), so every later round also starts from the state of a fresh process. Reference results (each tree built
// alone) are computed by the harness in a different process.
package main

import (
	"encoding/json"
	"fmt"
	"os"
	"runtime"
	"sync"
	"time"

	"sigs.k8s.io/kustomize/api/krusty"
	"sigs.k8s.io/kustomize/kyaml/filesys"
	"sigs.k8s.io/kustomize/kyaml/openapi"
)

type tree struct {
	Files map[string]string `json:"files"`
	Root  string            `json:"root"`
}

type round struct {
	Trees      []tree `json:"trees"`
	GoMaxProcs int    `json:"gomaxprocs"`
	Repeat     int    `json:"repeat"`   // every tree is built this many times in a row by its goroutine
	DelayMs    []int  `json:"delay_ms"` // per tree (optional): pause before each of its builds (staggered arrivals)
}

type input struct {
	Rounds []round `json:"rounds"`
}

func build(t tree) (out string) {
	defer func() {
		if r := recover(); r != nil {
			out = fmt.Sprint("PANIC: ", r)
		}
	}()
	fs := filesys.MakeFsInMemory()
	for p, c := range t.Files {
		if err := fs.WriteFile(p, []byte(c)); err != nil {
			return "ERR: " + err.Error()
		}
	}
	m, err := krusty.MakeKustomizer(krusty.MakeDefaultOptions()).Run(fs, t.Root)
	if err != nil {
		return "ERR: " + err.Error()
	}
	y, err := m.AsYaml()
	if err != nil {
		return "ERR: " + err.Error()
	}
	return string(y)
}

func main() {
	var in input
	if err := json.NewDecoder(os.Stdin).Decode(&in); err != nil {
		fmt.Fprintln(os.Stderr, "c16race: bad input:", err)
		os.Exit(3)
	}
	results := make([][][]string, len(in.Rounds))
	for ri, rd := range in.Rounds {
		if ri > 0 {
			// round 0 runs in the cold process: nothing has touched the schema globals yet
			openapi.ResetOpenAPI()
		}
		if rd.GoMaxProcs > 0 {
			runtime.GOMAXPROCS(rd.GoMaxProcs)
		}
		rep := rd.Repeat
		if rep < 1 {
			rep = 1
		}
		outs := make([][]string, len(rd.Trees))
		var wg sync.WaitGroup
		start := make(chan struct{})
		for i := range rd.Trees {
			wg.Add(1)
			go func(i int) {
				defer wg.Done()
				<-start
				for k := 0; k < rep; k++ {
					if i < len(rd.DelayMs) && rd.DelayMs[i] > 0 {
						time.Sleep(time.Duration(rd.DelayMs[i]) * time.Millisecond)
					}
					outs[i] = append(outs[i], build(rd.Trees[i]))
				}
			}(i)
		}
		close(start)
		wg.Wait()
		results[ri] = outs
		fmt.Fprintf(os.Stderr, "C16RACE-ROUND-END %d\n", ri)
	}
	_ = json.NewEncoder(os.Stdout).Encode(results)
}
