package main

import (
	"encoding/json"
	"fmt"
	"os"
	"reflect"
	"sort"
	"strings"

	kyaml "sigs.k8s.io/kustomize/kyaml/yaml"
	"sigs.k8s.io/kustomize/kyaml/yaml/merge3"
	"sigs.k8s.io/kustomize/kyaml/yaml/walk"
)

// C15: three-way merge (kyaml merge3 on the generic walker).
// Correspondence: merge3.Merge / walk.Walker{[local, original, updated], merge3.Visitor{}} vs KV.Yaml.Merge3.merge3.
// Search: the five merge laws evaluated directly on the implementation, compared as typed JSON values.

func init() {
	register("C15", propDef{
		header:     "From KV Require Import Corr.C15.\nOpen Scope string_scope.\n",
		caseType:   "case15",
		mismatchFn: "mismatches15",
		run:        runC15,
		replay:     replayC15,
	})
}

type case15 struct {
	Local string `json:"local"`
	Orig  string `json:"orig"`
	Upd   string `json:"upd"`
	Infer bool   `json:"infer"`
	Law   string `json:"law,omitempty"` // which law the triple was built for: L1 (l,o,o) L2 (o,o,u) L3 (d,d,d) L4 one-sided; "" = none
	Note  string `json:"note,omitempty"`
	Pkg   *pkgCase15 `json:"pkg,omitempty"` // package-level case (harness/c15pkg.go)
}

func apply15(l, o, u *kyaml.RNode, infer bool) (cls string, out *kyaml.RNode, msg string) {
	cls, msg = protect(func() error {
		var e error
		if !infer {
			out, e = merge3.Merge(l, o, u)
		} else {
			out, e = walk.Walker{
				InferAssociativeLists: true,
				Visitor:               merge3.Visitor{},
				VisitKeysAsScalars:    true,
				Sources:               []*kyaml.RNode{l, o, u},
			}.Walk()
		}
		return e
	})
	if cls != ClsOk {
		out = nil
	}
	return
}

func exec15(c case15) (cls string, out *kyaml.RNode, msg string) {
	l, e1 := kyaml.Parse(c.Local)
	o, e2 := kyaml.Parse(c.Orig)
	u, e3 := kyaml.Parse(c.Upd)
	if e1 != nil || e2 != nil || e3 != nil {
		return "parse-error", nil, "parse"
	}
	return apply15(l, o, u, c.Infer)
}

func caseTerm15(c case15) (term string, cls string, out *kyaml.RNode, ok bool) {
	l, e1 := kyaml.Parse(c.Local)
	o, e2 := kyaml.Parse(c.Orig)
	u, e3 := kyaml.Parse(c.Upd)
	if e1 != nil || e2 != nil || e3 != nil {
		return "", "parse-error", nil, false
	}
	if hasAlias(l.YNode()) || hasAlias(o.YNode()) || hasAlias(u.YNode()) {
		return "", "unrepresentable", nil, false
	}
	lt, ok1 := mNode(l.YNode())
	ot, ok2 := mNode(o.YNode())
	ut, ok3 := mNode(u.YNode())
	if !ok1 || !ok2 || !ok3 {
		return "", "unrepresentable", nil, false
	}
	sch := dumpSchemaTree(l, o, u)
	ns := nonstrOf(l, o, u)
	cls, out, _ = apply15(l, o, u, c.Infer)
	res := "oN"
	if cls == ClsOk {
		r, ok := mOptNode(out)
		if !ok {
			return "", cls, out, false
		}
		res = r
	}
	term = fmt.Sprintf("(mk15 %s %s %s %s %s %s %s %s %s)", lt, ot, ut, coqBool(c.Infer),
		mStrList(kyaml.AssociativeSequenceKeys), sch, mStrList(ns), cls, res)
	return term, cls, out, true
}

// ---------- documents ----------

var c15Scalars = []string{"x", "y", "1", `"1"`, "2", "true", `"true"`, "0.5"}
var c15FieldKeys = []string{"a", "b", "c", "m", "n", "l", "k"}

func genDoc15(rng *Rng, depth int, nulls bool) *g4 {
	g := &g4{kind: 1}
	for _, k := range pickN(rng, c15FieldKeys, 1+rng.Intn(4)) {
		g.keys = append(g.keys, k)
		g.vals = append(g.vals, genVal15(rng, depth, nulls))
	}
	return g
}

func genVal15(rng *Rng, depth int, nulls bool) *g4 {
	r := rng.Intn(100)
	switch {
	case r < 40 || depth <= 0:
		if nulls && rng.Chance(12) {
			return gS(rng.Pick([]string{"null", "~", ""}))
		}
		return gS(rng.Pick(c15Scalars))
	case r < 65:
		if rng.Chance(10) {
			return gM()
		}
		return genDoc15(rng, depth-1, nulls)
	case r < 85:
		// keyed list
		l := &g4{kind: 2}
		cnt := 1 + rng.Intn(3)
		if rng.Chance(4) {
			cnt = 0
		}
		for _, n := range pickN(rng, []string{"e1", "e2", "e3"}, cnt) {
			e := gM("name", n)
			if rng.Chance(70) {
				e.set("v", gS(rng.Pick(c15Scalars)))
			}
			if depth > 1 && rng.Chance(30) {
				e.set("sub", genDoc15(rng, depth-2, nulls))
			}
			l.vals = append(l.vals, e)
		}
		return l
	default:
		l := &g4{kind: 2}
		cnt := 1 + rng.Intn(3)
		if rng.Chance(4) {
			cnt = 0
		}
		for _, s := range pickN(rng, []string{"p", "q", "1", `"1"`, "r"}, cnt) {
			l.vals = append(l.vals, gS(s))
		}
		return l
	}
}

// edit15 returns an edited copy of d: fields added / changed / removed, keyed-list elements added / removed / changed.
func edit15(rng *Rng, d *g4, n int, nulls bool, avoid map[string]bool, touched map[string]bool) *g4 {
	out := d.clone()
	for i := 0; i < n; i++ {
		editOnce15(rng, out, "", nulls, avoid, touched, 3)
	}
	return out
}

func editOnce15(rng *Rng, m *g4, path string, nulls bool, avoid, touched map[string]bool, depth int) {
	if m.kind != 1 {
		return
	}
	// pick a key: existing or new
	var k string
	if len(m.keys) > 0 && rng.Chance(70) {
		k = m.keys[rng.Intn(len(m.keys))]
	} else {
		k = rng.Pick(c15FieldKeys)
	}
	p := path + "/" + k
	if avoid != nil && (avoid[p] || prefixHit(avoid, p)) {
		return
	}
	cur := m.get(k)
	if cur == nil {
		m.set(k, genVal15(rng, 1, nulls))
		touched[p] = true
		return
	}
	switch cur.kind {
	case 1:
		if depth > 0 && rng.Chance(70) && len(cur.keys) > 0 {
			editOnce15(rng, cur, p, nulls, avoid, touched, depth-1)
			return
		}
	case 2:
		if key := listKeyOf(cur); key == "name" && rng.Chance(70) {
			switch rng.Intn(3) {
			case 0: // add element
				nm := rng.Pick([]string{"e4", "e5"})
				has := false
				for _, e := range cur.vals {
					if e.get("name").text == nm {
						has = true
					}
				}
				if !has {
					cur.vals = append(cur.vals, gM("name", nm, "v", rng.Pick(c15Scalars)))
					touched[p+"[name="+nm+"]"] = true
				}
			case 1: // remove element
				if len(cur.vals) > 0 {
					i := rng.Intn(len(cur.vals))
					touched[p+"[name="+cur.vals[i].get("name").text+"]"] = true
					cur.vals = append(cur.vals[:i], cur.vals[i+1:]...)
				}
			default: // change a field of an element
				if len(cur.vals) > 0 {
					e := cur.vals[rng.Intn(len(cur.vals))]
					e.set("v", gS(rng.Pick(c15Scalars)))
					touched[p+"[name="+e.get("name").text+"]/v"] = true
				}
			}
			return
		}
	}
	if avoidBelow(avoid, p) {
		return
	}
	// replace or remove the field
	if rng.Chance(35) {
		for i, x := range m.keys {
			if x == k {
				m.keys = append(m.keys[:i], m.keys[i+1:]...)
				m.vals = append(m.vals[:i], m.vals[i+1:]...)
				break
			}
		}
	} else {
		nv := genVal15(rng, 1, nulls)
		for i := 0; i < 6 && nv.kind != cur.kind && !rng.Chance(8); i++ {
			nv = genVal15(rng, 1, nulls) // mostly keep the kind of the field
		}
		if nv.kind == 2 && cur.kind == 2 && (listKeyOf(nv) == "") != (listKeyOf(cur) == "") && len(nv.vals) > 0 && len(cur.vals) > 0 {
			nv = cur.clone() // keyed and primitive lists do not mix
			if len(nv.vals) > 1 {
				nv.vals = nv.vals[1:]
			}
		}
		m.set(k, nv)
	}
	touched[p] = true
}

func prefixHit(set map[string]bool, p string) bool {
	for q := range set {
		if strings.HasPrefix(p, q+"/") || strings.HasPrefix(p, q+"[") {
			return true
		}
	}
	return false
}
func avoidBelow(set map[string]bool, p string) bool {
	for q := range set {
		if strings.HasPrefix(q, p+"/") || strings.HasPrefix(q, p+"[") || q == p {
			return true
		}
	}
	return false
}

// ---------- laws ----------

type law15 struct {
	Law, Class, Detail string
}

// diff15 lists the innermost differences between the expected and the actual JSON value; lists of mappings
// that carry "name" are matched by name. Each entry: (shape, path).
func diff15(exp, act interface{}, path string) [][2]string {
	var out [][2]string
	em, ok1 := exp.(map[string]interface{})
	am, ok2 := act.(map[string]interface{})
	if ok1 && ok2 {
		keys := map[string]bool{}
		for k := range em {
			keys[k] = true
		}
		for k := range am {
			keys[k] = true
		}
		for _, k := range sortedKeys(keys) {
			ev, eok := em[k]
			av, aok := am[k]
			switch {
			case !eok:
				out = append(out, [2]string{"appeared", path + "/" + k})
			case !aok:
				out = append(out, [2]string{"dropped", path + "/" + k})
			case !reflect.DeepEqual(ev, av):
				out = append(out, diff15(ev, av, path+"/"+k)...)
			}
		}
		return out
	}
	el, ok1 := exp.([]interface{})
	al, ok2 := act.([]interface{})
	if ok1 && ok2 {
		named := func(l []interface{}) (map[string]interface{}, bool) {
			m := map[string]interface{}{}
			for _, e := range l {
				mm, ok := e.(map[string]interface{})
				if !ok || mm["name"] == nil {
					return nil, false
				}
				m[fmt.Sprint(mm["name"])] = mm
			}
			return m, true
		}
		en, okE := named(el)
		an, okA := named(al)
		if okE && okA && (len(el) > 0 || len(al) > 0) {
			keys := map[string]bool{}
			for k := range en {
				keys[k] = true
			}
			for k := range an {
				keys[k] = true
			}
			for _, k := range sortedKeys(keys) {
				ev, eok := en[k]
				av, aok := an[k]
				sub := fmt.Sprintf("%s[name=%s]", path, k)
				switch {
				case !eok:
					out = append(out, [2]string{"appeared", sub})
				case !aok:
					out = append(out, [2]string{"dropped", sub})
				case !reflect.DeepEqual(ev, av):
					out = append(out, diff15(ev, av, sub)...)
				}
			}
			// same elements in another order: keyed lists are compared up to order
			return out
		}
	}
	return [][2]string{{"changed", path}}
}

func kindAt15(doc interface{}, path string) string {
	v, ok := getPath15(doc, path)
	if !ok {
		return "absent"
	}
	return typeName(v)
}

// cause15 names the input shape a difference at path goes back to.
func cause15(shape, path string, jl, jo, ju, exp, act interface{}) string {
	kl, ko, ku := kindAt15(jl, path), kindAt15(jo, path), kindAt15(ju, path)
	isC := func(k string) bool { return k == "map" || k == "list" }
	// an explicit null at the place (or at the place of an ancestor) in one of the three documents
	for p := path; p != ""; {
		if kindAt15(jl, p) == "null" || kindAt15(jo, p) == "null" || kindAt15(ju, p) == "null" {
			return "explicit-null"
		}
		i := strings.LastIndexAny(p, "/[")
		if i < 0 {
			break
		}
		p = p[:i]
	}
	if shape == "dropped" && (isC(kl) || isC(ko) || isC(ku)) {
		// a mapping / list / keyed-list element that should be in the result is not there at all
		return "container-lost:l=" + kl + ",o=" + ko + ",u=" + ku
	}
	if (kl == "absent" || ku == "absent" || ko == "absent") && (isC(kl) || isC(ko) || isC(ku)) {
		// a mapping / list that one side does not have comes back (possibly emptied), or cannot be removed
		return "container-missing-on-one-side"
	}
	if shape == "changed" {
		ev, _ := getPath15(exp, path)
		av, _ := getPath15(act, path)
		if es, ok := ev.(string); ok && typeName(av) != "string" && es == jsonText(av) {
			return "scalar-type-only-change-ignored"
		}
		if as, ok := av.(string); ok && typeName(ev) != "string" && as == jsonText(ev) {
			// the result is the quoted spelling of the expected number / boolean
			lv, _ := getPath15(jl, path)
			uv, _ := getPath15(ju, path)
			if reflect.DeepEqual(lv, uv) || (typeName(lv) == "string" && fmt.Sprint(lv) != fmt.Sprint(uv)) {
				if typeName(lv) == "string" && !reflect.DeepEqual(lv, ev) {
					return "scalar-keeps-local-quoting"
				}
			}
			return "scalar-type-only-change-ignored"
		}
	}
	return "other-" + shape + ":l=" + kl + ",o=" + ko + ",u=" + ku
}

func shapeSig15(exp, act, jl, jo, ju interface{}) string {
	causes := map[string]bool{}
	for _, d := range diff15(exp, act, "") {
		causes[cause15(d[0], d[1], jl, jo, ju, exp, act)] = true
	}
	return strings.Join(sortedKeys(causes), "+")
}

func parse3(c case15) (l, o, u *kyaml.RNode, ok bool) {
	l, e1 := kyaml.Parse(c.Local)
	o, e2 := kyaml.Parse(c.Orig)
	u, e3 := kyaml.Parse(c.Upd)
	return l, o, u, e1 == nil && e2 == nil && e3 == nil
}

// laws15 evaluates the merge laws the triple qualifies for.
func laws15(c case15) []law15 {
	var out []law15
	l, o, u, ok := parse3(c)
	if !ok {
		return out
	}
	jl, _ := toJSONValue(l)
	jo, _ := toJSONValue(o)
	ju, _ := toJSONValue(u)
	cls, r, msg := exec15(c)
	check := func(law string, expected interface{}) {
		if cls != ClsOk {
			shape := "outcome-" + cls
			if cls == ClsErr && strings.Contains(msg, "no merge key found") && hasEmptyList(jl, jo, ju) {
				// with inference on, an empty list has no element to infer the key from: elementKey fails
				shape = "error-no-merge-key-for-empty-list"
			} else if cls == ClsErr && strings.Contains(msg, "wrong node kind") {
				// the same field is a scalar in one version and a mapping / list in another
				shape = "error-kind-of-field-differs-between-versions"
			} else if cls == ClsErr && strings.Contains(msg, "conflicting merge keys") {
				shape = "error-conflicting-inferred-merge-keys"
			}
			out = append(out, law15{law, "C15/" + law + "/" + shape, fmt.Sprintf("merge fails: %s", msg)})
			return
		}
		jr, err := toJSONValue(r)
		if err != nil {
			return
		}
		if !reflect.DeepEqual(expected, jr) {
			// one violation per cause, so that a new cause is reported even next to a known one
			for _, cause := range strings.Split(shapeSig15(expected, jr, jl, jo, ju), "+") {
				if cause == "" {
					continue
				}
				out = append(out, law15{law, "C15/" + law + "/" + cause,
					fmt.Sprintf("expected %s got %s", jsonText(expected), jsonText(jr))})
			}
		}
	}
	same := func(a, b interface{}) bool { return reflect.DeepEqual(a, b) }
	if same(jo, ju) && same(jl, jo) {
		check("all_equal", jl)
	} else if same(jo, ju) {
		check("local_when_upstream_unchanged", jl)
	} else if same(jl, jo) {
		check("updated_when_local_unchanged", ju)
	}
	// scalar types kept: every scalar of the result has the type it has in local or in updated at that path
	if cls == ClsOk {
		if jr, err := toJSONValue(r); err == nil {
			if p, got, want := typeDrift(jr, jl, ju, ""); p != "" {
				out = append(out, law15{"types_kept", "C15/types_kept/" + got + "-from-" + want,
					fmt.Sprintf("at %s the result has a %s; local/updated have %s; result %s", p, got, want, jsonText(jr))})
			}
		}
	}
	return out
}

func typeName(v interface{}) string {
	switch v.(type) {
	case nil:
		return "null"
	case string:
		return "string"
	case float64:
		return "number"
	case bool:
		return "bool"
	case map[string]interface{}:
		return "map"
	case []interface{}:
		return "list"
	}
	return "other"
}

// typeDrift: a scalar in r whose JSON type is neither that of l nor that of u at the same place
// (places are field paths; list elements are matched by "name").
func typeDrift(r, l, u interface{}, path string) (string, string, string) {
	switch rv := r.(type) {
	case map[string]interface{}:
		lm, _ := l.(map[string]interface{})
		um, _ := u.(map[string]interface{})
		keys := []string{}
		for k := range rv {
			keys = append(keys, k)
		}
		sort.Strings(keys)
		for _, k := range keys {
			var lv, uv interface{}
			if lm != nil {
				lv = lm[k]
			}
			if um != nil {
				uv = um[k]
			}
			if p, g, w := typeDrift(rv[k], lv, uv, path+"/"+k); p != "" {
				return p, g, w
			}
		}
	case []interface{}:
		ll, _ := l.([]interface{})
		ul, _ := u.([]interface{})
		find := func(lst []interface{}, name interface{}) interface{} {
			for _, e := range lst {
				if m, ok := e.(map[string]interface{}); ok && reflect.DeepEqual(m["name"], name) {
					return m
				}
			}
			return nil
		}
		for _, e := range rv {
			if m, ok := e.(map[string]interface{}); ok && m["name"] != nil {
				if p, g, w := typeDrift(m, find(ll, m["name"]), find(ul, m["name"]), fmt.Sprintf("%s[name=%v]", path, m["name"])); p != "" {
					return p, g, w
				}
			}
		}
	case string, float64, bool:
		tr := typeName(r)
		tl, tu := typeName(l), typeName(u)
		lHas := l != nil && tl != "map" && tl != "list"
		uHas := u != nil && tu != "map" && tu != "list"
		if (lHas || uHas) && !(lHas && tr == tl) && !(uHas && tr == tu) {
			want := ""
			if lHas {
				want += "local:" + tl
			}
			if uHas {
				want += "updated:" + tu
			}
			return path, tr, want
		}
	}
	return "", "", ""
}

// oneSided15 derives the one-sided edits from the three documents: a place that differs between original
// and updated while local still has original's value there must hold updated's value in the result
// (law one_sided); symmetrically a place changed only locally must keep local's value (law one_sided_local).
// Places are field paths; elements of lists of named mappings are addressed by name. Element-level places
// are only checked when the implementation can treat the list as keyed (inference on, or a schema known
// for some source): otherwise the list is atomic by design.
func oneSided15(c case15) []law15 {
	var out []law15
	lDoc, oDoc, uDoc, ok := parse3(c)
	if !ok {
		return out
	}
	keyed := c.Infer
	if rs, _, _ := resolveSchema(lDoc, oDoc, uDoc); rs != nil {
		keyed = true
	}
	cls, r, _ := exec15(c)
	if cls != ClsOk || r == nil {
		return out
	}
	jr, e0 := toJSONValue(r)
	jl, e1 := toJSONValue(lDoc)
	jo, e2 := toJSONValue(oDoc)
	ju, e3 := toJSONValue(uDoc)
	if e0 != nil || e1 != nil || e2 != nil || e3 != nil {
		return out
	}
	parentOf := func(p string) string {
		i := strings.LastIndexAny(p, "/[")
		if i <= 0 {
			return ""
		}
		return p[:i]
	}
	sameAt := func(a, b interface{}, p string) bool {
		va, oka := getPath15(a, p)
		vb, okb := getPath15(b, p)
		return oka == okb && reflect.DeepEqual(va, vb)
	}
	side := func(law string, changed, other interface{}, changedName string) {
		seen := map[string]bool{}
		for _, d := range diff15(jo, changed, "") {
			p := d[1]
			if !keyed && strings.Contains(p, "[name=") {
				continue
			}
			// the other side still has original's value here, and the enclosing container as original has it
			if !sameAt(other, jo, p) {
				continue
			}
			if par := parentOf(p); par != "" && kindAt15(other, par) != kindAt15(jo, par) {
				continue
			}
			gr, okr := getPath15(jr, p)
			gc, okc := getPath15(changed, p)
			if okr == okc && reflect.DeepEqual(gr, gc) {
				continue
			}
			causes := map[string]bool{}
			if okc && okr {
				for _, dd := range diff15(gc, gr, p) {
					causes[cause15(dd[0], dd[1], jl, jo, ju, changed, jr)] = true
				}
			} else if !okc {
				causes[cause15("appeared", p, jl, jo, ju, changed, jr)] = true
			} else {
				causes[cause15("dropped", p, jl, jo, ju, changed, jr)] = true
			}
			exp, got := "absent", "absent"
			if okc {
				exp = jsonText(gc)
			}
			if okr {
				got = jsonText(gr)
			}
			for _, shape := range sortedKeys(causes) {
				if seen[shape] {
					continue
				}
				seen[shape] = true
				out = append(out, law15{law, "C15/" + law + "/" + shape,
					fmt.Sprintf("path %s changed only in %s: %s has %s, result has %s", p, changedName, changedName, exp, got)})
			}
		}
	}
	side("one_sided", ju, jl, "updated")
	side("one_sided_local", jl, ju, "local")
	return out
}

// getPath15 follows "/k" and "[name=v]" steps.
func getPath15(v interface{}, p string) (interface{}, bool) {
	cur := v
	for len(p) > 0 {
		switch p[0] {
		case '/':
			end := strings.IndexAny(p[1:], "/[")
			k := p[1:]
			if end >= 0 {
				k = p[1 : 1+end]
			}
			p = p[1+len(k):]
			m, ok := cur.(map[string]interface{})
			if !ok {
				return nil, false
			}
			cur, ok = m[k]
			if !ok {
				return nil, false
			}
		case '[':
			end := strings.Index(p, "]")
			sel := p[1:end]
			p = p[end+1:]
			name := strings.TrimPrefix(sel, "name=")
			l, ok := cur.([]interface{})
			if !ok {
				return nil, false
			}
			found := false
			for _, e := range l {
				if m, ok := e.(map[string]interface{}); ok && fmt.Sprint(m["name"]) == name {
					cur, found = m, true
					break
				}
			}
			if !found {
				return nil, false
			}
		default:
			return nil, false
		}
	}
	return cur, true
}

// ---------- driver ----------

func tinyValues15() []*g4 {
	return []*g4{nil, gS("1"), gS(`"1"`), gS("x"), gS("null"), gM(), gM("k", "1"), gL(gS("p")), gL(gM("name", "e1", "v", "1")), gL()}
}

func tinyDoc15(v *g4) *g4 {
	d := gM("z", "0")
	if v != nil {
		d.set("f", v.clone())
	}
	return d
}

func runC15(r *Run, rng *Rng, tier string) error {
	ensureSchema15()
	nRandom := 900
	if tier == "thorough" {
		nRandom = 14000
	}
	rng = rng.Fork()
	r.Meta.Rule = "document triples (local, original, updated) over maps, keyed lists (name), atomic lists, typed scalars incl. \"1\" vs 1, " +
		"nulls: exhaustive over a one-field document with 10 value shapes (1000 triples), plus random triples built as " +
		"(edit(o), o, o), (o, o, edit(o)), (d, d, d), one-sided edits on disjoint paths, and independent edits; infer on (keyed by name) " +
		"for most, off for some. non-trivial = result differs from local; distinct by hash of the case term"
	for _, c := range loadCorpus15() {
		runOne15(r, c, nil)
	}
	// exhaustive: one field, every triple of value shapes
	vals := tinyValues15()
	for _, a := range vals {
		for _, b := range vals {
			for _, cc := range vals {
				c := case15{Local: tinyDoc15(a).yaml(), Orig: tinyDoc15(b).yaml(), Upd: tinyDoc15(cc).yaml(), Infer: true, Law: "tiny"}
				runOne15(r, c, nil)
			}
		}
	}
	r.Meta.Exhaustive = false
	for i := 0; i < nRandom; i++ {
		g := rng.Fork()
		nulls := g.Chance(25)
		o := genDoc15(g, 3, nulls)
		c := case15{Infer: !g.Chance(20)}
		var touchedU map[string]bool
		switch k := g.Intn(100); {
		case k < 20:
			c.Law = "L1"
			l := edit15(g, o, 1+g.Intn(3), nulls, nil, map[string]bool{})
			c.Local, c.Orig, c.Upd = l.yaml(), o.yaml(), o.yaml()
		case k < 40:
			c.Law = "L2"
			u := edit15(g, o, 1+g.Intn(3), nulls, nil, map[string]bool{})
			c.Local, c.Orig, c.Upd = o.yaml(), o.yaml(), u.yaml()
		case k < 50:
			c.Law = "L3"
			c.Local, c.Orig, c.Upd = o.yaml(), o.yaml(), o.yaml()
		case k < 80:
			c.Law = "L4"
			touchedU = map[string]bool{}
			u := edit15(g, o, 1+g.Intn(2), false, nil, touchedU)
			touchedL := map[string]bool{}
			l := edit15(g, o, g.Intn(3), false, touchedU, touchedL)
			// keep only upstream edits whose path is disjoint from every local edit
			for p := range touchedU {
				if touchedL[p] || prefixHit(touchedL, p) || avoidBelow(touchedL, p) {
					delete(touchedU, p)
				}
			}
			c.Local, c.Orig, c.Upd = l.yaml(), o.yaml(), u.yaml()
		default:
			l := edit15(g, o, g.Intn(3), nulls, nil, map[string]bool{})
			u := edit15(g, o, g.Intn(3), nulls, nil, map[string]bool{})
			c.Local, c.Orig, c.Upd = l.yaml(), o.yaml(), u.yaml()
		}
		runOne15(r, c, touchedU)
	}
	// typed builtin kinds whose apiVersion differs between the sources (known vs unknown / deprecated), keyed
	// lists edited on both sides: Walker.GetSchema must fall through to the first source with a known version
	nTyped := 260
	if tier == "thorough" {
		nTyped = 3000
	}
	for i := 0; i < nTyped; i++ {
		runOne15(r, genTyped15(rng.Fork()), nil)
	}
	// primitive set lists of integers / booleans (custom kind Bar, see c15fam.go)
	for i := 0; i < nTyped/4; i++ {
		runOne15(r, genSetList15(rng.Fork()), nil)
	}
	// package level: filters.Merge3{...}.Merge() with option combinations
	nPkg := 40
	if tier == "thorough" {
		nPkg = 300
	}
	for i := 0; i < nPkg; i++ {
		runPkg15(r, genPkg15(rng.Fork()))
	}
	r.header += internHeader()
	r.shard = 150
	return nil
}

// genTyped15: (local, original, updated) of one Deployment / StatefulSet / Pod / Service; local and updated carry
// edits on different places (local adds a sidecar container / an env var / a volume, upstream bumps an image,
// adds another env var, changes replicas ...); each source gets the known or an unknown apiVersion, at least
// one of them the known one.
func genTyped15(rng *Rng) case15 {
	var o *g4
	var ks kindSpec
	for {
		o, ks = genTarget(rng)
		if unknownVersion(ks.kind) != "" {
			break
		}
	}
	podSpec := func(d *g4) *g4 {
		if ks.kind == "Pod" {
			return d.get("spec")
		}
		if ks.kind == "Service" {
			return nil
		}
		return d.get("spec").get("template").get("spec")
	}
	l, u := o.clone(), o.clone()
	// local edits
	if ps := podSpec(l); ps != nil {
		cs := ps.get("containers")
		if rng.Chance(75) {
			cs.vals = append(cs.vals, gM("name", "sidecar", "image", "sidecar:1"))
		}
		if rng.Chance(40) {
			c0 := cs.vals[rng.Intn(len(cs.vals))]
			env := c0.get("env")
			if env == nil {
				env = &g4{kind: 2}
				c0.set("env", env)
			}
			env.vals = append(env.vals, gM("name", "LOCAL_ONLY", "value", `"1"`))
		}
		if rng.Chance(30) {
			vs := ps.get("volumes")
			if vs == nil {
				vs = &g4{kind: 2}
				ps.set("volumes", vs)
			}
			vs.vals = append(vs.vals, gM("name", "localvol", "emptyDir", gM()))
		}
	} else {
		l.get("metadata").set("labels", gM("local", "yes"))
		if rng.Chance(60) {
			ports := l.get("spec").get("ports")
			ports.vals = append(ports.vals, gM("port", "7001", "name", "local"))
		}
	}
	// upstream edits
	if ps := podSpec(u); ps != nil {
		cs := ps.get("containers")
		c0 := cs.vals[0]
		c0.set("image", gS(c0.get("name").text+":upstream"))
		if rng.Chance(40) {
			env := c0.get("env")
			if env == nil {
				env = &g4{kind: 2}
				c0.set("env", env)
			}
			env.vals = append(env.vals, gM("name", "UPSTREAM_ONLY", "value", "u"))
		}
		if rng.Chance(30) {
			cs.vals = append(cs.vals, gM("name", "upstream-helper", "image", "helper:1"))
		}
		if ks.kind != "Pod" && rng.Chance(50) {
			u.get("spec").set("replicas", gS("7"))
		}
	} else {
		u.get("spec").set("type", gS("LoadBalancer"))
		if rng.Chance(60) {
			ports := u.get("spec").get("ports")
			ports.vals = append(ports.vals, gM("port", "7002", "name", "upstream"))
		}
	}
	// apiVersions: at least one source keeps the known version
	alt := unknownVersion(ks.kind)
	docs := []*g4{l, o, u}
	mask := 1 + rng.Intn(6) // 1..6: never all three unknown (7), 0 = all known is drawn separately
	if rng.Chance(15) {
		mask = 0
	}
	for i, d := range docs {
		if mask&(1<<uint(i)) != 0 {
			d.set("apiVersion", gS(alt))
		}
	}
	if rng.Chance(25) {
		// the same documents without apiVersion / kind, inference on: every list of named mappings is keyed by
		// inference, including the lists nested in keyed-list elements (containers[].env, volumeMounts)
		for _, d := range docs {
			d.keys = filterOut(d.keys, "apiVersion", &d.vals)
			d.keys = filterOut(d.keys, "kind", &d.vals)
			// volumeMounts are keyed by mountPath in the schema; by name (what inference would use) they repeat
			stripKey15(d, "volumeMounts")
		}
		return case15{Local: l.yaml(), Orig: o.yaml(), Upd: u.yaml(), Infer: true, Law: "typed:" + ks.kind + ":kindless-infer"}
	}
	return case15{Local: l.yaml(), Orig: o.yaml(), Upd: u.yaml(), Infer: rng.Chance(40),
		Law: fmt.Sprintf("typed:%s:unknown-version-mask=%d", ks.kind, mask)}
}

func runOne15(r *Run, c case15, touchedU map[string]bool) {
	term, cls, out, ok := caseTerm15(c)
	if !ok {
		r.Meta.Skipped++
		r.Count("skipped", cls)
		return
	}
	r.Count("class", cls)
	r.Count("law_shape", "law="+c.Law)
	r.Count("infer", fmt.Sprint(c.Infer))
	nontrivial := false
	if cls == ClsOk {
		l0, _ := kyaml.Parse(c.Local)
		a, _ := mNode(l0.YNode())
		b, _ := mOptNode(out)
		nontrivial = "(oS "+a+")" != b
	}
	r.Count("changed", fmt.Sprint(nontrivial))
	r.AddCase(term, c, nontrivial)
	vs := laws15(c)
	vs = append(vs, oneSided15(c)...)
	for _, v := range vs {
		r.Count("law_failures", v.Class)
		r.Violation(OracleViolation{Law: v.Law, Class: v.Class, Detail: v.Detail, Replay: c})
	}
}

func loadCorpus15() []case15 {
	out := []case15{}
	data, err := os.ReadFile(verifRoot() + "/corpus/C15/cases.json")
	if err != nil {
		return out
	}
	_ = json.Unmarshal(data, &out)
	return out
}

func replayC15(path string) (bool, string, error) {
	data, err := os.ReadFile(path)
	if err != nil {
		return false, "", err
	}
	var rp struct {
		Case case15 `json:"case"`
	}
	if err := json.Unmarshal(data, &rp); err != nil {
		return false, "", err
	}
	ensureSchema15()
	if rp.Case.Pkg != nil {
		known := knownClasses("C15")
		bad := 0
		detail := "package-level case"
		for _, v := range lawsPkg15(*rp.Case.Pkg) {
			if !known[v.Class] {
				bad++
			}
			detail += fmt.Sprintf("\nLAW %s class=%s: %s", v.Law, v.Class, v.Detail)
		}
		return bad > 0, detail, nil
	}
	cls, out, msg := exec15(rp.Case)
	res := "<nil>"
	if out != nil {
		res, _ = out.String()
	}
	detail := fmt.Sprintf("class=%s msg=%q result:\n%s", cls, msg, res)
	// the five merge laws incl. the one-sided edits derived from the triple; recorded findings do not count
	known := knownClasses("C15")
	bad := 0
	for _, v := range append(laws15(rp.Case), oneSided15(rp.Case)...) {
		tag := "LAW"
		if known[v.Class] {
			tag = "KNOWN"
		} else {
			bad++
		}
		detail += fmt.Sprintf("\n%s %s class=%s: %s", tag, v.Law, v.Class, v.Detail)
	}
	return cls == ClsPanic || bad > 0, detail, nil
}

func hasEmptyList(vs ...interface{}) bool {
	var rec func(v interface{}) bool
	rec = func(v interface{}) bool {
		switch x := v.(type) {
		case []interface{}:
			if len(x) == 0 {
				return true
			}
			for _, c := range x {
				if rec(c) {
					return true
				}
			}
		case map[string]interface{}:
			for _, c := range x {
				if rec(c) {
					return true
				}
			}
		}
		return false
	}
	for _, v := range vs {
		if rec(v) {
			return true
		}
	}
	return false
}

func stripKey15(g *g4, key string) {
	if g == nil {
		return
	}
	if g.kind == 1 {
		g.keys = filterOut(g.keys, key, &g.vals)
	}
	for _, v := range g.vals {
		stripKey15(v, key)
	}
}
