package main

import (
	"crypto/sha256"
	"encoding/base64"
	"encoding/hex"
	"encoding/json"
	"fmt"
	"os"
	"sort"
	"strings"
	"time"
	"unicode/utf8"

	"sigs.k8s.io/kustomize/api/hasher"
	"sigs.k8s.io/kustomize/api/ifc"
	"sigs.k8s.io/kustomize/api/krusty"
	"sigs.k8s.io/kustomize/api/kv"
	"sigs.k8s.io/kustomize/api/provider"
	"sigs.k8s.io/kustomize/api/resmap"
	"sigs.k8s.io/kustomize/api/resource"
	"sigs.k8s.io/kustomize/api/types"
	"sigs.k8s.io/kustomize/kyaml/filesys"
)

// C06: ConfigMap/Secret generators layer like dictionaries; the name suffix is a function of the final content.
// Correspondence (model = KV.Res.Hash / KV.Res.Generators):
//   sha   crypto/sha256                                   vs hex256
//   json  encoding/json.Marshal(string)                   vs json_string
//   gen   resource.Factory.MakeConfigMap/MakeSecret on in-memory sources + hasher.Hasher.Hash  vs make_generated/hash_content
//   build krusty build of a tree of 1-3 kustomizations    vs build
// Search (laws evaluated on the implementation, independent Go code): dictionary fold + error laws,
// name = prefixes+name+suffixes+"-"+H(final content) with H = crypto/sha256 + an encoder written here,
// suffix invariant under label/annotation/namespace changes and different under a data change,
// references follow the suffixed name, data/binaryData key sets disjoint.

func init() {
	register("C06", propDef{
		header:     "From KV Require Import Corr.C06.\nOpen Scope string_scope.\n",
		caseType:   "case06",
		mismatchFn: "mismatches06",
		run:        runC06,
		replay:     replayC06,
	})
}

// ---------- byte strings that survive JSON (replay files) ----------

type bstr string

func (b bstr) MarshalJSON() ([]byte, error) {
	s := string(b)
	if utf8.ValidString(s) && !strings.ContainsRune(s, utf8.RuneError) {
		return json.Marshal(s)
	}
	return json.Marshal(map[string]string{"b64": base64.StdEncoding.EncodeToString([]byte(s))})
}

func (b *bstr) UnmarshalJSON(d []byte) error {
	var s string
	if err := json.Unmarshal(d, &s); err == nil {
		*b = bstr(s)
		return nil
	}
	var m map[string]string
	if err := json.Unmarshal(d, &m); err != nil {
		return err
	}
	raw, err := base64.StdEncoding.DecodeString(m["b64"])
	if err != nil {
		return err
	}
	*b = bstr(raw)
	return nil
}

type kv06 struct {
	K bstr `json:"k"`
	V bstr `json:"v"`
}

type gen06 struct {
	Secret      bool        `json:"secret,omitempty"`
	Name        string      `json:"name"`
	Ns          string      `json:"ns,omitempty"`
	Behavior    string      `json:"behavior,omitempty"`
	Envs        []bstr      `json:"envs,omitempty"`
	Literals    []bstr      `json:"literals,omitempty"`
	Files       []bstr      `json:"files,omitempty"`
	Type        string      `json:"type,omitempty"`
	HasOpts     bool        `json:"has_opts,omitempty"`
	Labels      [][2]string `json:"labels,omitempty"`
	Annos       [][2]string `json:"annos,omitempty"`
	DisableHash bool        `json:"disable_hash,omitempty"`
	Immutable   bool        `json:"immutable,omitempty"`
	// what the declaration is meant to define (known when the sources were rendered from it)
	Intent      []kv06 `json:"intent,omitempty"`
	IntentKnown bool   `json:"intent_known,omitempty"`
	IntentErr   bool   `json:"intent_err,omitempty"` // sources deliberately malformed: the generator must fail
}

type layer06 struct {
	Bases       []*layer06  `json:"bases,omitempty"`
	Files       []kv06      `json:"files,omitempty"`
	CmGens      []gen06     `json:"cm_gens,omitempty"`
	SecGens     []gen06     `json:"sec_gens,omitempty"`
	HasGenOpts  bool        `json:"has_gen_opts,omitempty"`
	GLabels     [][2]string `json:"g_labels,omitempty"`
	GAnnos      [][2]string `json:"g_annos,omitempty"`
	GDisable    bool        `json:"g_disable,omitempty"`
	GImmutable  bool        `json:"g_immutable,omitempty"`
	Ns          string      `json:"ns,omitempty"`
	Prefix      string      `json:"prefix,omitempty"`
	Suffix      string      `json:"suffix,omitempty"`
	Labels      [][2]string `json:"labels,omitempty"`
	Annos       [][2]string `json:"annos,omitempty"`
	RefName     string      `json:"ref_name,omitempty"` // a Deployment referring to ConfigMap RefName is listed
	Plain       bool        `json:"plain,omitempty"`    // a ServiceAccount (refers to nothing) is listed
}

type case06 struct {
	Kind  string   `json:"kind"` // sha | json | gen | build
	Input bstr     `json:"input,omitempty"`
	Files []kv06   `json:"files,omitempty"`
	Gen   *gen06   `json:"gen,omitempty"`
	Tree  *layer06 `json:"tree,omitempty"`
	// implementation-only case: evaluated by the law oracles, not sent to the model
	LawOnly bool `json:"law_only,omitempty"`
}

// ---------- Coq terms ----------

func coqPairs(l [][2]string) string {
	parts := make([]string, len(l))
	for i, p := range l {
		parts[i] = "(" + coqStr(p[0]) + ", " + coqStr(p[1]) + ")"
	}
	return "[" + strings.Join(parts, "; ") + "]"
}

func coqKvs(l []kv06) string {
	parts := make([]string, len(l))
	for i, p := range l {
		parts[i] = "(" + coqStr(string(p.K)) + ", " + coqStr(string(p.V)) + ")"
	}
	return "[" + strings.Join(parts, "; ") + "]"
}

func coqBstrs(l []bstr) string {
	parts := make([]string, len(l))
	for i, s := range l {
		parts[i] = coqStr(string(s))
	}
	return "[" + strings.Join(parts, "; ") + "]"
}

func coqMap(m map[string]string) string {
	keys := make([]string, 0, len(m))
	for k := range m {
		keys = append(keys, k)
	}
	sort.Strings(keys)
	parts := make([]string, len(keys))
	for i, k := range keys {
		parts[i] = "(" + coqStr(k) + ", " + coqStr(m[k]) + ")"
	}
	return "[" + strings.Join(parts, "; ") + "]"
}

func coqGen(g *gen06) string {
	return fmt.Sprintf("(mkGenArgs %s %s %s %s %s %s %s %s %s %s %s %s %s)",
		coqBool(g.Secret), coqStr(g.Name), coqStr(g.Ns), coqStr(g.Behavior),
		coqBstrs(g.Envs), coqBstrs(g.Literals), coqBstrs(g.Files), coqStr(g.Type),
		coqBool(g.HasOpts), coqPairs(g.Labels), coqPairs(g.Annos), coqBool(g.DisableHash), coqBool(g.Immutable))
}

func coqLayer(l *layer06) string {
	bases := make([]string, len(l.Bases))
	for i, b := range l.Bases {
		bases[i] = coqLayer(b)
	}
	cms := make([]string, len(l.CmGens))
	for i := range l.CmGens {
		cms[i] = coqGen(&l.CmGens[i])
	}
	secs := make([]string, len(l.SecGens))
	for i := range l.SecGens {
		secs[i] = coqGen(&l.SecGens[i])
	}
	return fmt.Sprintf("(Layer [%s] (mkLdecl %s [%s] [%s] %s (mkGopts %s %s %s %s) %s %s %s %s %s %s))",
		strings.Join(bases, "; "), coqKvs(l.Files), strings.Join(cms, "; "), strings.Join(secs, "; "),
		coqBool(l.HasGenOpts), coqPairs(l.GLabels), coqPairs(l.GAnnos), coqBool(l.GDisable), coqBool(l.GImmutable),
		coqStr(l.Ns), coqStr(l.Prefix), coqStr(l.Suffix), coqPairs(l.Labels), coqPairs(l.Annos), coqBool(l.RefName != "" || l.Plain))
}

// ---------- independent hash H (crypto/sha256 + an encoder written here, not encoding/json) ----------

const hexDigits06 = "0123456789abcdef"

func indepJSONString(s string) string {
	var b strings.Builder
	b.WriteByte('"')
	for i := 0; i < len(s); {
		c := s[i]
		if c < 0x80 {
			switch {
			case c == '"' || c == '\\':
				b.WriteByte('\\')
				b.WriteByte(c)
			case c == '\n':
				b.WriteString(`\n`)
			case c == '\r':
				b.WriteString(`\r`)
			case c == '\t':
				b.WriteString(`\t`)
			case c == '\b':
				b.WriteString(`\b`)
			case c == '\f':
				b.WriteString(`\f`)
			case c < 0x20 || c == '<' || c == '>' || c == '&':
				b.WriteString(`\u00`)
				b.WriteByte(hexDigits06[c>>4])
				b.WriteByte(hexDigits06[c&15])
			default:
				b.WriteByte(c)
			}
			i++
			continue
		}
		r, n := utf8.DecodeRuneInString(s[i:])
		switch {
		case r == utf8.RuneError && n == 1:
			b.WriteString(`\ufffd`)
		case r == 0x2028:
			b.WriteString(`\u2028`)
		case r == 0x2029:
			b.WriteString(`\u2029`)
		default:
			b.WriteString(s[i : i+n])
		}
		i += n
	}
	b.WriteByte('"')
	return b.String()
}

func indepJSONMap(m map[string]string) string {
	keys := make([]string, 0, len(m))
	for k := range m {
		keys = append(keys, k)
	}
	sort.Strings(keys)
	parts := make([]string, len(keys))
	for i, k := range keys {
		parts[i] = indepJSONString(k) + ":" + indepJSONString(m[k])
	}
	return "{" + strings.Join(parts, ",") + "}"
}

// indepSuffix computes the expected name suffix of an object from its observable content.
// dataPresent distinguishes `data: {}` (a generated Secret without entries) from an absent field.
func indepSuffix(secret bool, data map[string]string, dataPresent bool, bin map[string]string, typ string) string {
	d := `""`
	if dataPresent {
		d = indepJSONMap(data)
	}
	var enc string
	if secret {
		enc = `{"data":` + d + `,"kind":"Secret","name":"","type":` + indepJSONString(typ) + `}`
	} else {
		enc = "{"
		if len(bin) > 0 {
			enc += `"binaryData":` + indepJSONMap(bin) + ","
		}
		enc += `"data":` + d + `,"kind":"ConfigMap","name":""}`
	}
	sum := sha256.Sum256([]byte(enc))
	h := hex.EncodeToString(sum[:])[:10]
	out := []byte(h)
	for i, c := range out {
		switch c {
		case '0':
			out[i] = 'g'
		case '1':
			out[i] = 'h'
		case '3':
			out[i] = 'k'
		case 'a':
			out[i] = 'm'
		case 'e':
			out[i] = 't'
		}
	}
	return string(out)
}

func indepBase64(s string) string {
	e := base64.StdEncoding.EncodeToString([]byte(s))
	if len(e) < 70 {
		return e
	}
	var b strings.Builder
	for i := 0; i < len(e); i += 70 {
		j := i + 70
		if j > len(e) {
			j = len(e)
		}
		b.WriteString(e[i:j])
		b.WriteByte('\n')
	}
	return b.String()
}

// ---------- running the implementation ----------

type memLdr06 struct{ files map[string]string }

func (l memLdr06) Repo() string                   { return "" }
func (l memLdr06) Root() string                   { return "/" }
func (l memLdr06) New(string) (ifc.Loader, error) { return l, nil }
func (l memLdr06) Cleanup() error                 { return nil }
func (l memLdr06) Load(p string) ([]byte, error) {
	if c, ok := l.files[p]; ok {
		return []byte(c), nil
	}
	return nil, fmt.Errorf("no such file %q", p)
}

func strs06(l []bstr) []string {
	if len(l) == 0 {
		return nil
	}
	out := make([]string, len(l))
	for i, s := range l {
		out[i] = string(s)
	}
	return out
}

func pairsMap(l [][2]string) map[string]string {
	if len(l) == 0 {
		return nil
	}
	m := map[string]string{}
	for _, p := range l {
		m[p[0]] = p[1]
	}
	return m
}

func genArgs06(g *gen06) types.GeneratorArgs {
	a := types.GeneratorArgs{Name: g.Name, Namespace: g.Ns, Behavior: g.Behavior,
		KvPairSources: types.KvPairSources{EnvSources: strs06(g.Envs), LiteralSources: strs06(g.Literals), FileSources: strs06(g.Files)}}
	if g.HasOpts {
		a.Options = &types.GeneratorOptions{Labels: pairsMap(g.Labels), Annotations: pairsMap(g.Annos),
			DisableNameSuffixHash: g.DisableHash, Immutable: g.Immutable}
	}
	return a
}

type genObs06 struct {
	clsMake, msgMake string
	data, bin        map[string]string
	typ              string
	clsHash, msgHash string
	suffix           string
}

func fieldValue06(r *resource.Resource, name string) string {
	f := r.Field(name)
	if f == nil || f.Value == nil || f.Value.YNode() == nil {
		return ""
	}
	return f.Value.YNode().Value
}

func execGen06(files []kv06, g *gen06) genObs06 {
	var o genObs06
	fm := map[string]string{}
	for _, f := range files {
		fm[string(f.K)] = string(f.V)
	}
	dp := provider.NewDefaultDepProvider()
	rf := dp.GetResourceFactory()
	ldr := kv.NewLoader(memLdr06{fm}, dp.GetFieldValidator())
	var r *resource.Resource
	o.clsMake, o.msgMake = protect(func() error {
		var err error
		if g.Secret {
			r, err = rf.MakeSecret(ldr, &types.SecretArgs{GeneratorArgs: genArgs06(g), Type: g.Type})
		} else {
			r, err = rf.MakeConfigMap(ldr, &types.ConfigMapArgs{GeneratorArgs: genArgs06(g)})
		}
		return err
	})
	if o.clsMake != ClsOk {
		return o
	}
	o.data, o.bin, o.typ = r.GetDataMap(), r.GetBinaryDataMap(), fieldValue06(r, "type")
	o.clsHash, o.msgHash = protect(func() error {
		var err error
		o.suffix, err = (&hasher.Hasher{}).Hash(&r.RNode)
		return err
	})
	return o
}

type obj06 struct {
	Secret    bool
	Name, Ns  string
	Labels    map[string]string
	Annos     map[string]string
	Data, Bin map[string]string
	DataField bool // the data field exists (possibly empty)
	Type      string
	Immutable bool
}

type buildObs06 struct {
	cls, msg string
	objs     []obj06
	refs     []string // configMapRef names found in Deployments
}

// double-quoted YAML scalar, everything outside printable ASCII escaped
func yq06(s string) string {
	var b strings.Builder
	b.WriteByte('"')
	for _, r := range s {
		switch {
		case r == '\\':
			b.WriteString(`\\`)
		case r == '"':
			b.WriteString(`\"`)
		case r == '\n':
			b.WriteString(`\n`)
		case r == '\t':
			b.WriteString(`\t`)
		case r >= 0x20 && r < 0x7f:
			b.WriteRune(r)
		case r < 0x100:
			fmt.Fprintf(&b, `\x%02x`, r)
		case r < 0x10000:
			fmt.Fprintf(&b, `\u%04x`, r)
		default:
			fmt.Fprintf(&b, `\U%08x`, r)
		}
	}
	b.WriteByte('"')
	return b.String()
}

func writeMap06(b *strings.Builder, indent, key string, l [][2]string) {
	if len(l) == 0 {
		return
	}
	fmt.Fprintf(b, "%s%s:\n", indent, key)
	for _, p := range l {
		fmt.Fprintf(b, "%s  %s: %s\n", indent, yq06(p[0]), yq06(p[1]))
	}
}

func writeList06(b *strings.Builder, indent, key string, l []bstr) {
	if len(l) == 0 {
		return
	}
	fmt.Fprintf(b, "%s%s:\n", indent, key)
	for _, s := range l {
		fmt.Fprintf(b, "%s- %s\n", indent, yq06(string(s)))
	}
}

func writeGens06(b *strings.Builder, key string, gens []gen06) {
	if len(gens) == 0 {
		return
	}
	fmt.Fprintf(b, "%s:\n", key)
	for i := range gens {
		g := &gens[i]
		fmt.Fprintf(b, "- name: %s\n", yq06(g.Name))
		if g.Ns != "" {
			fmt.Fprintf(b, "  namespace: %s\n", yq06(g.Ns))
		}
		if g.Behavior != "" {
			fmt.Fprintf(b, "  behavior: %s\n", yq06(g.Behavior))
		}
		if g.Secret && g.Type != "" {
			fmt.Fprintf(b, "  type: %s\n", yq06(g.Type))
		}
		writeList06(b, "  ", "envs", g.Envs)
		writeList06(b, "  ", "literals", g.Literals)
		writeList06(b, "  ", "files", g.Files)
		if g.HasOpts {
			if len(g.Labels) == 0 && len(g.Annos) == 0 && !g.DisableHash && !g.Immutable {
				b.WriteString("  options: {}\n")
			} else {
				b.WriteString("  options:\n")
				writeMap06(b, "    ", "labels", g.Labels)
				writeMap06(b, "    ", "annotations", g.Annos)
				if g.DisableHash {
					b.WriteString("    disableNameSuffixHash: true\n")
				}
				if g.Immutable {
					b.WriteString("    immutable: true\n")
				}
			}
		}
	}
}

func deployment06(ref string) string {
	return `apiVersion: apps/v1
kind: Deployment
metadata:
  name: web
spec:
  template:
    spec:
      containers:
      - name: c
        image: img
        envFrom:
        - configMapRef:
            name: ` + ref + `
      volumes:
      - name: v
        configMap:
          name: ` + ref + "\n"
}

// writeTree06 writes the layer (and its bases) into fs; returns the directory of l.
func writeTree06(fs filesys.FileSystem, l *layer06, id string) string {
	dir := "/k/" + id
	var b strings.Builder
	b.WriteString("apiVersion: kustomize.config.k8s.io/v1beta1\nkind: Kustomization\n")
	var res []string
	for i, base := range l.Bases {
		bid := fmt.Sprintf("%s%d", id, i)
		writeTree06(fs, base, bid)
		res = append(res, "../"+bid)
	}
	if l.RefName != "" {
		res = append(res, "deploy.yaml")
		_ = fs.WriteFile(dir+"/deploy.yaml", []byte(deployment06(l.RefName)))
	}
	if l.Plain {
		res = append(res, "sa.yaml")
		_ = fs.WriteFile(dir+"/sa.yaml", []byte("apiVersion: v1\nkind: ServiceAccount\nmetadata:\n  name: web\n"))
	}
	if len(res) > 0 {
		b.WriteString("resources:\n")
		for _, r := range res {
			fmt.Fprintf(&b, "- %s\n", yq06(r))
		}
	}
	if l.Ns != "" {
		fmt.Fprintf(&b, "namespace: %s\n", yq06(l.Ns))
	}
	if l.Prefix != "" {
		fmt.Fprintf(&b, "namePrefix: %s\n", yq06(l.Prefix))
	}
	if l.Suffix != "" {
		fmt.Fprintf(&b, "nameSuffix: %s\n", yq06(l.Suffix))
	}
	writeMap06(&b, "", "commonLabels", l.Labels)
	writeMap06(&b, "", "commonAnnotations", l.Annos)
	if l.HasGenOpts {
		if len(l.GLabels) == 0 && len(l.GAnnos) == 0 && !l.GDisable && !l.GImmutable {
			b.WriteString("generatorOptions: {}\n")
		} else {
			b.WriteString("generatorOptions:\n")
			writeMap06(&b, "  ", "labels", l.GLabels)
			writeMap06(&b, "  ", "annotations", l.GAnnos)
			if l.GDisable {
				b.WriteString("  disableNameSuffixHash: true\n")
			}
			if l.GImmutable {
				b.WriteString("  immutable: true\n")
			}
		}
	}
	writeGens06(&b, "configMapGenerator", l.CmGens)
	writeGens06(&b, "secretGenerator", l.SecGens)
	_ = fs.WriteFile(dir+"/kustomization.yaml", []byte(b.String()))
	for _, f := range l.Files {
		_ = fs.WriteFile(dir+"/"+string(f.K), []byte(f.V))
	}
	return dir
}

func execBuild06(t *layer06) buildObs06 {
	var o buildObs06
	fs := filesys.MakeFsInMemory()
	dir := writeTree06(fs, t, "t")
	var m resmap.ResMap
	done := make(chan struct{})
	go func() {
		defer close(done)
		o.cls, o.msg = protect(func() error {
			var err error
			m, err = krusty.MakeKustomizer(krusty.MakeDefaultOptions()).Run(fs, dir)
			return err
		})
	}()
	select {
	case <-done:
	case <-time.After(90 * time.Second):
		return buildObs06{cls: ClsDiverge, msg: "timeout"}
	}
	if o.cls != ClsOk {
		return o
	}
	for _, r := range m.Resources() {
		switch r.GetKind() {
		case "ConfigMap", "Secret":
			ob := obj06{Secret: r.GetKind() == "Secret", Name: r.GetName(), Ns: r.GetNamespace(),
				Labels: r.GetLabels(), Annos: r.GetAnnotations(), Data: r.GetDataMap(), Bin: r.GetBinaryDataMap(),
				DataField: r.Field("data") != nil, Type: fieldValue06(r, "type"), Immutable: fieldValue06(r, "immutable") == "true"}
			o.objs = append(o.objs, ob)
		case "Deployment":
			for _, p := range []string{"spec.template.spec.containers.0.envFrom.0.configMapRef.name", "spec.template.spec.volumes.0.configMap.name"} {
				if v, err := r.GetString(p); err == nil {
					o.refs = append(o.refs, v)
				} else {
					o.refs = append(o.refs, "<"+err.Error()+">")
				}
			}
		}
	}
	sort.SliceStable(o.objs, func(i, j int) bool {
		a, b := o.objs[i], o.objs[j]
		if a.Secret != b.Secret {
			return !a.Secret
		}
		if a.Ns != b.Ns {
			return a.Ns < b.Ns
		}
		return a.Name < b.Name
	})
	return o
}

func coqObs06(o obj06) string {
	return fmt.Sprintf("(mkObs %s %s %s %s %s %s %s %s %s)", coqBool(o.Secret), coqStr(o.Name), coqStr(o.Ns),
		coqMap(o.Labels), coqMap(o.Annos), coqMap(o.Data), coqMap(o.Bin), coqStr(o.Type), coqBool(o.Immutable))
}

// ---------- generators of inputs ----------

var advValues06 = []string{
	"", "", "1", "v", "value", "true", "null", "~", "123", "1e3", "0x1f", "- x", "a: b", "#c", "a #c", "{a}", "[1]", "*x", "&x", "!t", "|", ">", "%x", "@x", "`x",
	"<>&", "a<b>c&d", "<script>alert(1)</script>", "&amp;", "\"q\"", "'q'", "\"", "'", "'a\"", "\"\"", "''", "x=y", "=", "a=b=c",
	"line1\nline2\n", "line1\nline2", "\n", "\n\n", " \n", "x \ny", "x\n y", "\nx", "x\n\n\ny\n\n", "a\r\nb\r\n", "a\rb", "\r",
	" lead", "trail ", "  ", " ", "\t", "a\tb", "\tx", "x\t\ny", "\tx\ny", "\t\n", "\tkey: v\n\tother: w\n", "\tx\ny z\n",
	"h\u00e9llo", "\u2713 ok", "x\u2028y", "x\u2029y\nz", "x\u2028y\nz", "\u00a0nbsp", "\U0001F600", "\U0001F600\nx", "\ufeffbom", "\ufffd", "\u4e2d\u6587\n\u4e2d",
	"\x01", "\x00", "a\x00b", "\x1b[0m", "\x7f", "\x08\x0c", "x\u0085y", "\u0085", "\uffff", "\ufffe\nx", "\u009f",
}

var binValues06 = []string{
	"\xff", "\xff\xfe\x00abc", "\x80abc", "\xc0\xaf", "\xed\xa0\x80", "\xe2\x82", "\xf4\x90\x80\x80", "\xf0\x9f\x98", "ok\xffok", "\xc3", "\xfe\xff\n\x00",
	"\tx\n\xff", "caf\xe9",
}

var keys06 = []string{"a", "b", "c", "key", "k.1", "k-2", "_u", "UP", "a", "b", "c", "key"}
var oddKeys06 = []string{"0", "true", "~", "null", "NULL", "Null", "<<", "nUll", "null", "NULL", "a b", " lead", "trail ", "\u00fc", "<k>", "k\"q", "k'q", "k:v", "#k", "-", "k\nl", "&k", "k\u2028", "\tk", "k\x01", "\U0001F600",
	strings.Repeat("k", 100), "a/b", ".", "..", "k\\", "[k]", "{k}", "k,", "!k", "*", "%", "@k", "`", "|", ">", "'", "\""}

func longValue06(rng *Rng) string {
	lens := []int{50, 55, 56, 57, 62, 63, 64, 65, 100, 119, 120, 121, 127, 128, 129, 200, 300, 513}
	n := lens[rng.Intn(len(lens))]
	var b strings.Builder
	alpha := "abcdefghijklmnopqrstuvwxyz0123456789 <>&\"\\\n\u00e9"
	runes := []rune(alpha)
	for b.Len() < n {
		b.WriteRune(runes[rng.Intn(len(runes))])
	}
	return b.String()
}

func randBytes06(rng *Rng, n int) string {
	b := make([]byte, n)
	for i := range b {
		b[i] = byte(rng.Intn(256))
	}
	return string(b)
}

// yamlSafe06: strings that may be written into kustomization.yaml. The plugin configuration of every
// generator is marshalled to YAML and read back by kustomize (configureBuiltinPlugin); that round trip is
// outside the model. It rejects U+007F-U+009F, U+FFFE, U+FFFF, folds U+0085, and fails on a leading TAB
// in a multi-line string, so such strings are only fed through files.
func yamlSafe06(s string) bool {
	if !utf8.ValidString(s) {
		return false
	}
	if strings.HasPrefix(s, "\t") {
		return false
	}
	for _, r := range s {
		if (r >= 0x7f && r <= 0x9f) || r == 0xfffe || r == 0xffff || r == utf8.RuneError {
			return false
		}
	}
	return true
}

func genValue06(rng *Rng, allowBin bool) string {
	k := rng.Intn(100)
	switch {
	case k < 30:
		return rng.Pick([]string{"1", "v", "value", "x y", "2", "prod", "dev"})
	case k < 66:
		return rng.Pick(advValues06)
	case k < 76:
		return longValue06(rng)
	case k < 94 && allowBin:
		if rng.Chance(70) {
			return rng.Pick(binValues06)
		}
		return randBytes06(rng, 1+rng.Intn(120))
	default:
		return rng.Pick(advValues06)
	}
}

func genKey06(rng *Rng) string {
	if rng.Chance(12) {
		return rng.Pick(oddKeys06)
	}
	return rng.Pick(keys06)
}

// names the in-memory file system accepts as a path element
func fileNameOK06(k string) bool {
	if k == "" || k == "." || k == ".." || len(k) > 60 {
		return false
	}
	for i := 0; i < len(k); i++ {
		c := k[i]
		if !(c >= 'a' && c <= 'z' || c >= 'A' && c <= 'Z' || c >= '0' && c <= '9' || c == '.' || c == '_' || c == '-') {
			return false
		}
	}
	return true
}

func quoted06(v string) bool {
	return len(v) >= 2 && v[0] == v[len(v)-1] && (v[0] == '"' || v[0] == '\'')
}

var uspace06 = []string{" ", "\t", "\n", "\v", "\f", "\r", "\u0085", "\u00a0", "\u1680", "\u2000", "\u2001", "\u2002", "\u2003", "\u2004", "\u2005", "\u2006", "\u2007", "\u2008", "\u2009", "\u200a", "\u2028", "\u2029", "\u202f", "\u205f", "\u3000"}

func envKeyOK06(k string) bool {
	if k == "" || strings.ContainsAny(k, "=\n") || !utf8.ValidString(k) || strings.HasPrefix(k, "#") || strings.HasPrefix(k, "\ufeff") {
		return false
	}
	for _, sp := range uspace06 {
		if strings.HasPrefix(k, sp) {
			return false
		}
	}
	return true
}

func envValOK06(v string) bool {
	return utf8.ValidString(v) && !strings.Contains(v, "\n") && !strings.HasSuffix(v, "\r")
}

// renderSources06 turns intended pairs into env/literal/file sources that are expected to define exactly them.
func renderSources06(rng *Rng, g *gen06, files *[]kv06, fileSeq *int) {
	var envLines []string
	for _, p := range g.Intent {
		k, v := string(p.K), string(p.V)
		var opts []string
		if k != "" && !strings.Contains(k, "=") && yamlSafe06(k) && yamlSafe06(v) {
			opts = append(opts, "literal", "literal")
		}
		if envKeyOK06(k) && envValOK06(v) {
			opts = append(opts, "env")
		}
		if k != "" && !strings.Contains(k, "=") && yamlSafe06(k) {
			opts = append(opts, "file")
			if fileNameOK06(k) {
				opts = append(opts, "basefile")
			}
		}
		if len(opts) == 0 {
			// cannot be expressed: drop it from the intent
			g.IntentKnown = false
			continue
		}
		switch rng.Pick(opts) {
		case "literal":
			lit := v
			if quoted06(v) || rng.Chance(25) {
				q := rng.Pick([]string{"\"", "'"})
				lit = q + v + q
			}
			g.Literals = append(g.Literals, bstr(k+"="+lit))
		case "env":
			line := k + "=" + v
			if v == "" && rng.Chance(40) {
				line = k
			}
			envLines = append(envLines, line)
		case "file":
			*fileSeq++
			path := fmt.Sprintf("f%d.dat", *fileSeq)
			if rng.Chance(30) {
				path = fmt.Sprintf("sub/f%d.txt", *fileSeq)
			}
			*files = append(*files, kv06{bstr(path), bstr(v)})
			g.Files = append(g.Files, bstr(k+"="+path))
		case "basefile":
			*fileSeq++
			path := fmt.Sprintf("d%d/%s", *fileSeq, k)
			*files = append(*files, kv06{bstr(path), bstr(v)})
			g.Files = append(g.Files, bstr(path))
		}
	}
	if len(envLines) > 0 {
		*fileSeq++
		path := fmt.Sprintf("e%d.env", *fileSeq)
		var b strings.Builder
		if rng.Chance(20) {
			b.WriteString("\ufeff")
		}
		for i, l := range envLines {
			if rng.Chance(15) {
				b.WriteString(rng.Pick([]string{"# comment\n", "\n", "   \n", " \t# indented comment\n", "=ignored\n"}))
			}
			if rng.Chance(15) {
				b.WriteString(rng.Pick(uspace06[:2]))
				if rng.Chance(30) {
					b.WriteString(rng.Pick(uspace06))
				}
			}
			b.WriteString(l)
			if i < len(envLines)-1 || rng.Chance(70) {
				if rng.Chance(20) {
					b.WriteString("\r")
				}
				b.WriteString("\n")
			}
		}
		*files = append(*files, kv06{bstr(path), bstr(b.String())})
		g.Envs = append(g.Envs, bstr(path))
	}
}

var labelKeys06 = []string{"app", "env", "tier", "l1"}
var labelVals06 = []string{"x", "y", "prod", "v2", "web"}

func genPairs06(rng *Rng, max int) [][2]string {
	n := rng.Intn(max + 1)
	used := map[string]bool{}
	var out [][2]string
	for i := 0; i < n; i++ {
		k := rng.Pick(labelKeys06)
		if used[k] {
			continue
		}
		used[k] = true
		out = append(out, [2]string{k, rng.Pick(labelVals06)})
	}
	sort.Slice(out, func(i, j int) bool { return out[i][0] < out[j][0] })
	return out
}

var genNames06 = []string{"cfg", "app", "cfg", "cfg"}

var malformedPct06 = 3

// pairs declared so far for each object of the tree being generated (reset per tree; derived from the Rng only)
var declared06 = map[key06][]kv06{}
var redeclared06 int

type key06 struct {
	secret   bool
	name, ns string
}

// genGen06: one generator declaration. known = the generated objects that exist where it is absorbed
// (by their original kind/name/namespace); most declarations are consistent with it (create something new,
// merge/replace something present), the rest is arbitrary.
func genGen06(rng *Rng, depth int, secretOnly int, files *[]kv06, fileSeq *int, allowBin bool, known *[]key06) gen06 {
	g := gen06{Name: rng.Pick(genNames06), IntentKnown: true}
	switch secretOnly {
	case 1:
		g.Secret = true
	case 0:
		g.Secret = false
	}
	switch k := rng.Intn(100); {
	case k < 88:
	case k < 94:
		g.Ns = "ns1"
	case k < 98:
		g.Ns = "default"
	default:
		g.Ns = "ns2"
	}
	consistent := known != nil && rng.Chance(80)
	if consistent {
		has := func(k key06) bool {
			for _, x := range *known {
				if x == k {
					return true
				}
			}
			return false
		}
		if len(*known) > 0 && rng.Chance(68) {
			k := (*known)[rng.Intn(len(*known))]
			g.Secret, g.Name, g.Ns = k.secret, k.name, k.ns
			g.Behavior = rng.Pick([]string{"merge", "merge", "merge", "replace", "replace"})
		} else {
			for try := 0; try < 6 && has(key06{g.Secret, g.Name, g.Ns}); try++ {
				g.Name = rng.Pick(genNames06)
				if secretOnly < 0 {
					g.Secret = rng.Chance(30)
				}
			}
			if has(key06{g.Secret, g.Name, g.Ns}) {
				g.Behavior = rng.Pick([]string{"merge", "replace"})
			} else {
				g.Behavior = rng.Pick([]string{"", "", "create", "Create"})
				*known = append(*known, key06{g.Secret, g.Name, g.Ns})
			}
		}
	} else {
		if rng.Chance(4) {
			g.Name = ""
		}
		if depth == 0 {
			g.Behavior = rng.Pick([]string{"", "", "create", "create", "", "merge", "replace", "Create"})
		} else {
			g.Behavior = rng.Pick([]string{"merge", "merge", "merge", "replace", "replace", "create", "", "MERGE", "bogus"})
		}
		if known != nil && g.Name != "" && (behaviorOf06(g.Behavior) == "create" || behaviorOf06(g.Behavior) == "unspecified") {
			*known = append(*known, key06{g.Secret, g.Name, g.Ns})
		}
	}
	if g.Secret && rng.Chance(35) {
		g.Type = rng.Pick([]string{"Opaque", "kubernetes.io/tls", "my/type", "t<>&"})
	}
	if rng.Chance(22) {
		g.HasOpts = true
		g.Labels = genPairs06(rng, 2)
		g.Annos = genPairs06(rng, 1)
		g.DisableHash = rng.Chance(35)
		g.Immutable = rng.Chance(20)
	}
	n := rng.Intn(4)
	used := map[string]bool{}
	for i := 0; i < n; i++ {
		k := genKey06(rng)
		if used[k] {
			continue
		}
		used[k] = true
		g.Intent = append(g.Intent, kv06{bstr(k), bstr(genValue06(rng, allowBin))})
	}
	// an overlay that merges/replaces an existing object re-declares some of the keys lower layers gave it:
	// same key, different value of the same kind (binary over binary, text over text) or of the other kind
	if prior := declared06[key06{g.Secret, g.Name, g.Ns}]; known != nil && len(prior) > 0 &&
		(g.Behavior == "merge" || g.Behavior == "replace") {
		for tries := 0; tries < 3; tries++ {
			p := prior[rng.Intn(len(prior))]
			if rng.Chance(60) { // prefer a key whose current value is binary
				for _, q := range prior {
					if !utf8.ValidString(string(q.V)) && !used[string(q.K)] {
						p = q
					}
				}
			}
			k, old := string(p.K), string(p.V)
			if used[k] || !rng.Chance(60) {
				continue
			}
			used[k] = true
			var v string
			sameKind := rng.Chance(75)
			if utf8.ValidString(old) == sameKind { // new value is text
				v = rng.Pick([]string{"over", "new value", "2", "x\ny\n", "<&>", ""})
				if v == old {
					v = old + "!"
				}
			} else {
				v = rng.Pick(binValues06)
				if rng.Chance(40) {
					v = "\xff" + randBytes06(rng, 1+rng.Intn(90))
				}
				if v == old {
					v = old + "\xfe"
				}
			}
			g.Intent = append(g.Intent, kv06{bstr(k), bstr(v)})
			redeclared06++
		}
	}
	renderSources06(rng, &g, files, fileSeq)
	if known != nil && g.Name != "" {
		kk := key06{g.Secret, g.Name, g.Ns}
		declared06[kk] = append(declared06[kk], g.Intent...)
	}
	if !g.IntentKnown {
		// keep only the expressible pairs as the intent
		var kept []kv06
		for _, p := range g.Intent {
			k := string(p.K)
			if k != "" && !strings.Contains(k, "=") && (yamlSafe06(k) || envKeyOK06(k)) {
				kept = append(kept, p)
			}
		}
		g.Intent = kept
	}
	// deliberately malformed sources
	if rng.Chance(malformedPct06) {
		g.IntentErr = true
		switch rng.Intn(8) {
		case 0:
			g.Literals = append(g.Literals, "novalue")
		case 1:
			g.Literals = append(g.Literals, "=v")
		case 2:
			g.Files = append(g.Files, "=f1.dat")
		case 3:
			g.Files = append(g.Files, "k=")
		case 4:
			g.Files = append(g.Files, "a=b=c")
		case 5:
			g.Files = append(g.Files, "zz=missing.txt")
		case 6:
			*fileSeq++
			path := fmt.Sprintf("bad%d.env", *fileSeq)
			*files = append(*files, kv06{bstr(path), bstr("OK=1\nBAD=\xff\n")})
			g.Envs = append(g.Envs, bstr(path))
		case 7:
			if len(g.Intent) > 0 && yamlSafe06(string(g.Intent[0].K)) && !strings.Contains(string(g.Intent[0].K), "=") && g.Intent[0].K != "" {
				g.Literals = append(g.Literals, g.Intent[0].K+"=dup")
			} else {
				g.Literals = append(g.Literals, "", "x")
			}
		}
	}
	return g
}

func genLayer06(rng *Rng, depth int, known *[]key06) *layer06 {
	l := &layer06{}
	fileSeq := 0
	ng := []int{0, 1, 1, 1, 1, 1, 2, 2, 3}[rng.Intn(9)]
	if depth == 0 && ng == 0 && rng.Chance(80) {
		ng = 1
	}
	for i := 0; i < ng; i++ {
		sec := 0
		if rng.Chance(30) {
			sec = 1
		}
		g := genGen06(rng, depth, sec, &l.Files, &fileSeq, true, known)
		if g.Secret {
			l.SecGens = append(l.SecGens, g)
		} else {
			l.CmGens = append(l.CmGens, g)
		}
	}
	if rng.Chance(25) {
		l.Ns = rng.Pick([]string{"ns1", "ns2", "default"})
	}
	if rng.Chance(35) {
		l.Prefix = rng.Pick([]string{"p-", "q-", "pre"})
	}
	if rng.Chance(20) {
		l.Suffix = rng.Pick([]string{"-s", "-v2"})
	}
	if rng.Chance(30) {
		l.Labels = genPairs06(rng, 2)
	}
	if rng.Chance(20) {
		l.Annos = genPairs06(rng, 2)
	}
	if rng.Chance(25) {
		l.HasGenOpts = true
		l.GLabels = genPairs06(rng, 2)
		l.GAnnos = genPairs06(rng, 1)
		l.GDisable = rng.Chance(35)
		l.GImmutable = rng.Chance(20)
	}
	return l
}

// genTree06: chains of 1-3 layers (top last), sometimes a top layer over two independent bases.
func genTree06(rng *Rng) *layer06 {
	declared06 = map[key06][]kv06{}
	if rng.Chance(14) {
		var k0, k1 []key06
		b0 := genLayer06(rng, 0, &k0)
		b1 := genLayer06(rng, 0, &k1)
		if rng.Chance(60) {
			b0.Prefix, b1.Prefix = "x-", "y-"
		}
		if rng.Chance(40) {
			mid := genLayer06(rng, 1, &k0)
			mid.Bases = []*layer06{b0}
			b0 = mid
		}
		known := append(append([]key06{}, k0...), k1...)
		top := genLayer06(rng, 1, &known)
		top.Bases = []*layer06{b0, b1}
		return top
	}
	n := []int{1, 1, 2, 2, 2, 2, 3, 3, 3}[rng.Intn(9)]
	var cur *layer06
	var known []key06
	for d := 0; d < n; d++ {
		l := genLayer06(rng, d, &known)
		if cur != nil {
			l.Bases = []*layer06{cur}
		}
		if d == 0 && rng.Chance(35) {
			// a Deployment referring to a ConfigMap this layer creates
			for _, g := range l.CmGens {
				if g.Name != "" && g.Ns == "" {
					l.RefName = g.Name
					break
				}
			}
		}
		cur = l
	}
	return cur
}

// demoteRefs06: name references are not part of the C06 model (FixBackReferences is C03's; it can reject a build
// with "found multiple possible referrals" when two generated ConfigMaps of different namespaces share a name).
// Trees compared with the model therefore list a ServiceAccount instead of the referring Deployment; the
// Deployment stays in the implementation-only law cases.
func demoteRefs06(l *layer06) {
	for _, b := range l.Bases {
		demoteRefs06(b)
	}
	if l.RefName != "" {
		l.RefName = ""
		l.Plain = true
	}
}

// ---------- the law oracles (implementation only) ----------

func isChain06(t *layer06) ([]*layer06, bool) {
	var rev []*layer06
	for cur := t; cur != nil; {
		rev = append(rev, cur)
		switch len(cur.Bases) {
		case 0:
			cur = nil
		case 1:
			cur = cur.Bases[0]
		default:
			return nil, false
		}
	}
	out := make([]*layer06, len(rev))
	for i, l := range rev {
		out[len(rev)-1-i] = l
	}
	return out, true
}

func layerEmpty06(l *layer06) bool {
	return len(l.Bases) == 0 && l.RefName == "" && !l.Plain && len(l.CmGens) == 0 && len(l.SecGens) == 0 && !l.HasGenOpts &&
		l.Ns == "" && l.Prefix == "" && l.Suffix == "" && len(l.Labels) == 0 && len(l.Annos) == 0
}

func behaviorOf06(s string) string {
	switch s {
	case "merge", "replace", "create":
		return s
	}
	return "unspecified"
}

type expObj06 struct {
	secret bool
	orig   string
	name   string
	dict   map[string]string // the single dictionary key -> raw value
	order  []string
	typ    string
	hash   bool
	sawData bool // a Secret was created (data field exists) and never merged
}

type expect06 struct {
	inDomain bool
	err      bool
	objs     []*expObj06
	tabRisk  bool // some declared value has the leading-TAB multi-line shape
	mergeKey bool // some declared key is <<
}

func tabShape06(v string) bool {
	return strings.HasPrefix(v, "\t") && strings.Contains(v, "\n")
}

// expectChain06: the property's reading of a chain, coded independently of the implementation:
// a dictionary per (kind, name); create defines, merge overrides entry-wise, replace substitutes,
// merge/replace of nothing and create of something fail.
func expectChain06(t *layer06) expect06 {
	var e expect06
	chain, ok := isChain06(t)
	if !ok {
		return e
	}
	e.inDomain = true
	find := func(secret bool, name string) *expObj06 {
		for _, o := range e.objs {
			if o.secret == secret && o.orig == name {
				return o
			}
		}
		return nil
	}
	for _, l := range chain {
		if layerEmpty06(l) {
			e.err = true
		}
		gens := append(append([]gen06{}, l.CmGens...), l.SecGens...)
		for i := range gens {
			g := &gens[i]
			if g.Ns != "" || !g.IntentKnown {
				e.inDomain = false
				return e
			}
			if g.IntentErr || g.Name == "" {
				e.err = true
				continue
			}
			d := map[string]string{}
			for _, p := range g.Intent {
				d[string(p.K)] = string(p.V)
				if tabShape06(string(p.V)) {
					e.tabRisk = true
				}
				if p.K == "<<" {
					e.mergeKey = true
				}
			}
			hash := !(l.HasGenOpts && l.GDisable) && !(g.HasOpts && g.DisableHash)
			typ := ""
			if g.Secret {
				typ = g.Type
				if typ == "" {
					typ = "Opaque"
				}
			}
			old := find(g.Secret, g.Name)
			switch behaviorOf06(g.Behavior) {
			case "create", "unspecified":
				if old != nil {
					e.err = true
					continue
				}
				e.objs = append(e.objs, &expObj06{secret: g.Secret, orig: g.Name, name: g.Name, dict: d, typ: typ, hash: hash, sawData: true})
			case "replace":
				if old == nil {
					e.err = true
					continue
				}
				old.dict, old.typ, old.hash, old.sawData = d, typ, old.hash && hash, true
			case "merge":
				if old == nil {
					e.err = true
					continue
				}
				for k, v := range d {
					old.dict[k] = v
				}
				old.typ, old.hash, old.sawData = typ, old.hash && hash, false
			}
		}
		for _, o := range e.objs {
			o.name = l.Prefix + o.name + l.Suffix
		}
	}
	return e
}

func splitExpected06(o *expObj06) (data, bin map[string]string) {
	data, bin = map[string]string{}, map[string]string{}
	for k, v := range o.dict {
		switch {
		case o.secret:
			data[k] = indepBase64(v)
		case utf8.ValidString(v):
			data[k] = v
		default:
			bin[k] = indepBase64(v)
		}
	}
	return
}

func mapsEqual06(a, b map[string]string) bool {
	if len(a) != len(b) {
		return false
	}
	for k, v := range a {
		if w, ok := b[k]; !ok || w != v {
			return false
		}
	}
	return true
}

// staleOnly06: got = want plus keys that also live in the other map of the same object (the stale entry kept by a merge)
func staleOnly06(got, want, other map[string]string) bool {
	for k, v := range want {
		if w, ok := got[k]; !ok || w != v {
			return false
		}
	}
	for k := range got {
		if _, ok := want[k]; !ok {
			if _, inOther := other[k]; !inOther {
				return false
			}
		}
	}
	return true
}

func suffixOf06(name string) string {
	i := strings.LastIndex(name, "-")
	if i < 0 {
		return ""
	}
	return name[i+1:]
}

const (
	clsTab06   = "hash-yaml-roundtrip-leading-tab"
	clsStale06 = "merge-key-in-data-and-binaryData"
	clsNel06   = "literal-nel-folded-to-space"
	clsNull06  = "hash-ignores-null-named-keys"
	clsMerge06 = "hash-yaml-roundtrip-merge-key"
	clsFatal06 = "build-exits-log.Fatal:null-named-key"
)

func treeHasNullKey06(l *layer06) bool {
	for _, b := range l.Bases {
		if treeHasNullKey06(b) {
			return true
		}
	}
	for _, gs := range [][]gen06{l.CmGens, l.SecGens} {
		for _, g := range gs {
			for _, p := range g.Intent {
				switch string(p.K) {
				case "~", "null", "Null", "NULL":
					return true
				}
			}
		}
	}
	return false
}

// keys go-yaml resolves to null when the hasher reads its own YAML text back
func nullKey06(m map[string]string) bool {
	for _, k := range []string{"~", "null", "Null", "NULL"} {
		if _, ok := m[k]; ok {
			return true
		}
	}
	return false
}

func laws06(r *Run, c case06, ob buildObs06) {
	t := c.Tree
	viol := func(law, class, detail string) {
		r.Violation(OracleViolation{Law: law, Class: class, Detail: detail, Replay: c})
	}
	if ob.cls == ClsPanic || ob.cls == ClsDiverge {
		// the one listed shape: the name-reference error message is built with Resource.MustYaml, which calls
		// log.Fatal when a candidate object has a null-spelled key (its JSON form has a map[interface{}]interface{})
		if ob.cls == ClsPanic && strings.HasPrefix(ob.msg, "log.Fatal:") &&
			strings.Contains(ob.msg, "unsupported type: map[interface {}]interface {}") && treeHasNullKey06(t) {
			viol("no-panic", clsFatal06, ob.msg)
			return
		}
		viol("no-panic", "build-"+ob.cls, ob.msg)
		return
	}
	// --- laws that need no expectation: name = base-"H(final content)", key sets disjoint
	if ob.cls == ClsOk {
		for _, o := range ob.objs {
			for k := range o.Data {
				if _, both := o.Bin[k]; both {
					viol("keys_disjoint", clsStale06, fmt.Sprintf("object %s: key %q is in data and in binaryData", o.Name, k))
				}
			}
		}
	}
	e := expectChain06(t)
	if !e.inDomain {
		return
	}
	r.Count("oracle", "chain-in-domain")
	if e.err {
		if ob.cls == ClsOk {
			viol("error_laws", "error-law-accepted", "the chain must be rejected (merge/replace of nothing, create of something, malformed source) but the build succeeded")
		}
		return
	}
	if ob.cls != ClsOk {
		if e.tabRisk && strings.Contains(ob.msg, "found a tab character") {
			viol("name_is_hash", clsTab06, "build fails while hashing a value that starts with a TAB and has several lines: "+ob.msg)
			return
		}
		if e.mergeKey && strings.Contains(ob.msg, "map merge requires") {
			viol("name_is_hash", clsMerge06, "build fails while hashing an object with the key <<: "+ob.msg)
			return
		}
		viol("dictionary", "valid-chain-rejected", "a well-formed chain was rejected: "+ob.msg)
		return
	}
	if len(ob.objs) != len(e.objs) {
		viol("dictionary", "object-count", fmt.Sprintf("expected %d generated objects, got %d", len(e.objs), len(ob.objs)))
		return
	}
	for _, x := range e.objs {
		// find the observed object by its expected name stem
		var got *obj06
		for i := range ob.objs {
			o := &ob.objs[i]
			if o.Secret != x.secret {
				continue
			}
			if o.Name == x.name || (x.hash && strings.HasPrefix(o.Name, x.name+"-") && len(o.Name) == len(x.name)+11) {
				got = o
			}
		}
		if got == nil {
			viol("name_is_hash", "name-stem", fmt.Sprintf("no generated object named %s[-hash]", x.name))
			continue
		}
		wantData, wantBin := splitExpected06(x)
		if !mapsEqual06(got.Data, wantData) || !mapsEqual06(got.Bin, wantBin) {
			if staleOnly06(got.Data, wantData, got.Bin) && staleOnly06(got.Bin, wantBin, got.Data) {
				viol("dictionary", clsStale06, fmt.Sprintf("object %s keeps an overridden entry: data=%q binaryData=%q, dictionary fold gives data=%q binaryData=%q", got.Name, got.Data, got.Bin, wantData, wantBin))
			} else {
				viol("dictionary", "dictionary-fold", fmt.Sprintf("object %s: data=%q binaryData=%q, dictionary fold gives data=%q binaryData=%q", got.Name, got.Data, got.Bin, wantData, wantBin))
			}
		}
		if x.secret && got.Type != x.typ {
			viol("dictionary", "secret-type", fmt.Sprintf("object %s: type %q, expected %q", got.Name, got.Type, x.typ))
		}
		// the suffix is H of the FINAL (observed) content
		if x.hash {
			want := x.name + "-" + indepSuffix(got.Secret, got.Data, got.DataField, got.Bin, got.Type)
			if got.Name != want {
				cls := "suffix-not-hash-of-final-content"
				if nullKey06(got.Data) || nullKey06(got.Bin) {
					cls = clsNull06
				}
				viol("name_is_hash", cls, fmt.Sprintf("name %s, H over all entries of the final content gives %s (data=%q binaryData=%q)", got.Name, want, got.Data, got.Bin))
			}
		} else if got.Name != x.name {
			viol("name_is_hash", "suffix-though-disabled", fmt.Sprintf("name %s, expected %s", got.Name, x.name))
		}
		// references follow
		if !x.secret {
			for _, l := range chainOf06(t) {
				if l.RefName == x.orig {
					r.Count("oracle", "refs-checked")
					for _, ref := range ob.refs {
						if ref != got.Name {
							viol("refs_follow", "reference-not-updated", fmt.Sprintf("Deployment refers to %q, the ConfigMap is %q", ref, got.Name))
						}
					}
				}
			}
		}
	}
}

func chainOf06(t *layer06) []*layer06 {
	c, _ := isChain06(t)
	return c
}

// metamorphic laws on an accepted chain: metadata changes keep every suffix, a data change moves it
func metamorphic06(r *Run, rng *Rng, c case06, ob buildObs06) {
	if ob.cls != ClsOk || len(ob.objs) == 0 {
		return
	}
	e := expectChain06(c.Tree)
	if !e.inDomain || e.err {
		return
	}
	clone := func() *layer06 {
		var t layer06
		b, _ := json.Marshal(c.Tree)
		_ = json.Unmarshal(b, &t)
		return &t
	}
	// (a) labels / annotations / namespace
	t2 := clone()
	for _, l := range chainOf06(t2) {
		l.Labels = append([][2]string{}, [2]string{"zz", "meta"})
		l.Annos = [][2]string{{"note", "changed"}}
		if l.HasGenOpts {
			l.GLabels, l.GAnnos = [][2]string{{"gl", "1"}}, nil
		}
		for i := range l.CmGens {
			if l.CmGens[i].HasOpts {
				l.CmGens[i].Labels, l.CmGens[i].Annos = nil, [][2]string{{"ga", "2"}}
			}
		}
		for i := range l.SecGens {
			if l.SecGens[i].HasOpts {
				l.SecGens[i].Labels, l.SecGens[i].Annos = [][2]string{{"gs", "3"}}, nil
			}
		}
	}
	if t2.Ns == "" {
		t2.Ns = "moved"
	} else {
		t2.Ns = t2.Ns + "x"
	}
	ob2 := execBuild06(t2)
	r.AddEval("meta-a", true)
	r.Count("oracle", "metamorphic-metadata")
	names := func(o buildObs06) []string {
		var out []string
		for _, x := range o.objs {
			out = append(out, fmt.Sprintf("%v/%s", x.Secret, x.Name))
		}
		sort.Strings(out)
		return out
	}
	if ob2.cls != ClsOk {
		r.Violation(OracleViolation{Law: "invariance", Class: "metadata-change-breaks-build", Detail: ob2.msg, Replay: case06{Kind: "build", Tree: t2}})
	} else if strings.Join(names(ob), ",") != strings.Join(names(ob2), ",") {
		r.Violation(OracleViolation{Law: "invariance", Class: "suffix-depends-on-metadata",
			Detail: fmt.Sprintf("names %v became %v after changing only labels/annotations/namespace", names(ob), names(ob2)), Replay: c})
	}
	// (b) a data change in the last declaration of one hashed object
	t3 := clone()
	ch := chainOf06(t3)
	// the last declaration of the whole absorb sequence: nothing later can discard its entries
	var target *gen06
	for i := len(ch) - 1; i >= 0 && target == nil; i-- {
		if n := len(ch[i].SecGens); n > 0 {
			target = &ch[i].SecGens[n-1]
		} else if n := len(ch[i].CmGens); n > 0 {
			target = &ch[i].CmGens[n-1]
		}
	}
	if target == nil {
		return
	}
	target.Literals = append(target.Literals, "zzfresh=1")
	ob3 := execBuild06(t3)
	r.AddEval("meta-b", true)
	r.Count("oracle", "metamorphic-data-change")
	if ob3.cls != ClsOk {
		r.Violation(OracleViolation{Law: "fresh_name", Class: "added-entry-breaks-build", Detail: ob3.msg, Replay: case06{Kind: "build", Tree: t3}})
		return
	}
	// exactly the object that received the entry must change its suffix (when it has one)
	changed := 0
	for _, o := range ob3.objs {
		if _, has := o.Data["zzfresh"]; has {
			found := false
			for _, p := range ob.objs {
				if p.Secret == o.Secret && p.Name == o.Name {
					found = true
				}
			}
			hashed := false
			for _, x := range e.objs {
				if x.secret == o.Secret && x.orig == target.Name && x.hash {
					hashed = true
				}
			}
			if found && hashed {
				r.Violation(OracleViolation{Law: "fresh_name", Class: "same-name-after-data-change",
					Detail: fmt.Sprintf("object %s kept its name although an entry was added", o.Name), Replay: c})
			}
			changed++
		}
	}
	if changed != 1 {
		r.Violation(OracleViolation{Law: "dictionary", Class: "added-entry-lost", Detail: fmt.Sprintf("%d objects carry the added entry", changed), Replay: case06{Kind: "build", Tree: t3}})
	}
}

// ---------- cases ----------

func runOne06(r *Run, rng *Rng, c case06, toModel bool) {
	switch c.Kind {
	case "sha":
		sum := sha256.Sum256([]byte(c.Input))
		r.Count("kind", "sha")
		r.Count("sha_blocks", fmt.Sprint((len(c.Input)+9+63)/64))
		r.AddCase(fmt.Sprintf("(CSha %s %s)", coqStr(string(c.Input)), coqStr(hex.EncodeToString(sum[:]))), c, true)
	case "json":
		out, err := json.Marshal(string(c.Input))
		if err != nil {
			r.Meta.Skipped++
			return
		}
		r.Count("kind", "json")
		r.AddCase(fmt.Sprintf("(CJson %s %s)", coqStr(string(c.Input)), coqStr(string(out))), c, string(out) != `"`+string(c.Input)+`"`)
	case "gen":
		o := execGen06(c.Files, c.Gen)
		r.Count("kind", "gen")
		r.Count("gen_make", o.clsMake)
		if o.clsMake == ClsOk {
			r.Count("gen_hash", o.clsHash)
			r.Count("gen_entries", fmt.Sprintf("data=%d,bin=%d", min06(len(o.data), 3), min06(len(o.bin), 3)))
		}
		if o.clsMake == ClsPanic || o.clsHash == ClsPanic {
			r.Violation(OracleViolation{Law: "no-panic", Class: "generator-panic", Detail: o.msgMake + o.msgHash, Replay: c})
		}
		clsHash := o.clsHash
		if clsHash == "" {
			clsHash = ClsOk
		}
		r.AddCase(fmt.Sprintf("(CGen %s %s %s %s %s %s %s %s)", coqKvs(c.Files), coqGen(c.Gen), o.clsMake,
			coqMap(o.data), coqMap(o.bin), coqStr(o.typ), clsHash, coqStr(o.suffix)), c, o.clsMake == ClsOk)
		// law on the implementation: the suffix is H(content) for the independent H, or the known TAB failure
		if o.clsMake == ClsOk {
			if o.clsHash == ClsOk {
				dataPresent := c.Gen.Secret || len(o.data) > 0
				if want := indepSuffix(c.Gen.Secret, o.data, dataPresent, o.bin, o.typ); want != o.suffix {
					cls := "hash-differs-from-independent-H"
					if nullKey06(o.data) || nullKey06(o.bin) {
						cls = clsNull06
					}
					r.Violation(OracleViolation{Law: "name_is_hash", Class: cls, Detail: fmt.Sprintf("hash %s, independent H over all entries %s, data=%q binaryData=%q", o.suffix, want, o.data, o.bin), Replay: c})
				}
			} else {
				tab := false
				for _, v := range o.data {
					if tabShape06(v) {
						tab = true
					}
				}
				_, mk1 := o.data["<<"]
				_, mk2 := o.bin["<<"]
				if tab && strings.Contains(o.msgHash, "found a tab character") {
					r.Violation(OracleViolation{Law: "name_is_hash", Class: clsTab06, Detail: "Hasher.Hash fails on a value that starts with a TAB and has several lines: " + o.msgHash, Replay: c})
				} else if (mk1 || mk2) && strings.Contains(o.msgHash, "map merge requires") {
					r.Violation(OracleViolation{Law: "name_is_hash", Class: clsMerge06, Detail: "Hasher.Hash fails on the key <<: " + o.msgHash, Replay: c})
				} else {
					r.Violation(OracleViolation{Law: "name_is_hash", Class: "hash-error", Detail: o.msgHash, Replay: c})
				}
			}
		}
	case "build":
		ob := execBuild06(c.Tree)
		r.Count("kind", "build")
		r.Count("build_class", ob.cls)
		chain, isChain := isChain06(c.Tree)
		if isChain {
			r.Count("shape", fmt.Sprintf("chain-%d", len(chain)))
		} else {
			r.Count("shape", "two-bases")
		}
		countTree06(r, c.Tree)
		redeclStats06(r, c.Tree, map[key06]map[string]string{})
		if ob.cls == ClsOk {
			r.Count("objects", fmt.Sprint(min06(len(ob.objs), 4)))
			for _, o := range ob.objs {
				if len(o.Bin) > 0 {
					r.Count("content", "binaryData")
				}
				if len(o.Data) > 0 {
					r.Count("content", "data")
				}
				if len(o.Data) == 0 && len(o.Bin) == 0 {
					r.Count("content", "empty")
				}
			}
		} else {
			r.Count("build_error", errKind06(ob.msg))
		}
		if toModel {
			outs := make([]string, len(ob.objs))
			for i, o := range ob.objs {
				outs[i] = coqObs06(o)
			}
			r.AddCase(fmt.Sprintf("(CBuild %s %s [%s])", coqLayer(c.Tree), ob.cls, strings.Join(outs, "; ")), c, ob.cls == ClsOk && len(ob.objs) > 0)
		} else {
			b, _ := json.Marshal(c)
			r.AddEval(string(b), ob.cls == ClsOk && len(ob.objs) > 0)
		}
		laws06(r, c, ob)
		if rng != nil && rng.Chance(35) {
			metamorphic06(r, rng, c, ob)
		}
	}
}

func min06(a, b int) int {
	if a < b {
		return a
	}
	return b
}

func errKind06(msg string) string {
	for _, k := range []string{"does not exist; cannot merge or replace", "behavior must be merge or replace", "found multiple objects",
		"may not add resource with an already registered id", "namespace transformation produces ID conflict", "kustomization.yaml is empty",
		"must have a name", "illegally repeats the key", "invalid literal source", "missing key name", "missing file path", "contains '='",
		"found a tab character", "invalid utf8", "no such file", "must resolve to a file", "control characters"} {
		if strings.Contains(msg, k) {
			return k
		}
	}
	if len(msg) > 60 {
		return "other: " + msg[len(msg)-60:]
	}
	return "other: " + msg
}

// redeclStats06 counts merge declarations that re-declare a key an earlier declaration of the same object had
func redeclStats06(r *Run, l *layer06, seen map[key06]map[string]string) {
	for _, b := range l.Bases {
		redeclStats06(r, b, seen)
	}
	for _, gs := range [][]gen06{l.CmGens, l.SecGens} {
		for _, g := range gs {
			kk := key06{g.Secret, g.Name, g.Ns}
			if seen[kk] == nil {
				seen[kk] = map[string]string{}
			}
			for _, p := range g.Intent {
				if old, ok := seen[kk][string(p.K)]; ok && old != string(p.V) && behaviorOf06(g.Behavior) == "merge" && !g.Secret {
					switch ob, nb := !utf8.ValidString(old), !utf8.ValidString(string(p.V)); {
					case ob && nb:
						r.Count("redeclare", "merge-binary-over-binary")
					case !ob && !nb:
						r.Count("redeclare", "merge-text-over-text")
					default:
						r.Count("redeclare", "merge-cross-kind")
					}
				}
				seen[kk][string(p.K)] = string(p.V)
			}
		}
	}
}

func countTree06(r *Run, l *layer06) {
	for _, b := range l.Bases {
		countTree06(r, b)
	}
	for _, gs := range [][]gen06{l.CmGens, l.SecGens} {
		for _, g := range gs {
			r.Count("behavior", behaviorOf06(g.Behavior))
			if len(g.Envs) > 0 {
				r.Count("source", "env")
			}
			if len(g.Literals) > 0 {
				r.Count("source", "literal")
			}
			if len(g.Files) > 0 {
				r.Count("source", "file")
			}
			if g.IntentErr {
				r.Count("source", "malformed")
			}
		}
	}
	if l.Ns != "" {
		r.Count("directive", "namespace")
	}
	if l.Prefix != "" {
		r.Count("directive", "prefix")
	}
	if l.Suffix != "" {
		r.Count("directive", "suffix")
	}
	if l.HasGenOpts {
		r.Count("directive", "generatorOptions")
	}
}

func genShaInput06(rng *Rng) string {
	lens := []int{0, 1, 3, 54, 55, 56, 57, 63, 64, 65, 111, 119, 120, 121, 127, 128, 129, 191, 192, 255, 256, 300, 511, 512, 1000}
	n := lens[rng.Intn(len(lens))]
	if rng.Chance(30) {
		n = rng.Intn(400)
	}
	return randBytes06(rng, n)
}

func genJSONInput06(rng *Rng) string {
	if rng.Chance(25) {
		return randBytes06(rng, rng.Intn(40))
	}
	parts := append(append([]string{}, advValues06...), binValues06...)
	parts = append(parts, oddKeys06...)
	n := 1 + rng.Intn(4)
	var b strings.Builder
	for i := 0; i < n; i++ {
		b.WriteString(rng.Pick(parts))
	}
	s := b.String()
	if rng.Chance(20) && len(s) > 1 {
		s = s[:len(s)-1] // possibly cuts a multi-byte character
	}
	return s
}

func genGenCase06(rng *Rng) case06 {
	var files []kv06
	seq := 0
	g := genGen06(rng, rng.Intn(2), -1, &files, &seq, true, nil)
	if rng.Chance(30) {
		g.Secret = true
		if rng.Chance(40) {
			g.Type = rng.Pick([]string{"Opaque", "kubernetes.io/tls", "t<>&\u2028"})
		}
	}
	g.Ns = ""
	// the factory is called directly: no YAML in between, so raw adversarial sources are possible
	if rng.Chance(35) {
		k := genKey06(rng)
		v := genValue06(rng, true)
		switch rng.Intn(4) {
		case 0:
			g.Literals = append(g.Literals, bstr(k+"="+v))
		case 1:
			seq++
			p := fmt.Sprintf("raw%d.env", seq)
			files = append(files, kv06{bstr(p), bstr(rng.Pick(uspace06) + k + "=" + v + rng.Pick([]string{"", "\n", "\r\n", "\n\n#x"}))})
			g.Envs = append(g.Envs, bstr(p))
		case 2:
			seq++
			p := fmt.Sprintf("raw%d", seq)
			files = append(files, kv06{bstr(p), bstr(v)})
			g.Files = append(g.Files, bstr(rng.Pick([]string{p, k + "=" + p, "dir/../" + p, p + "/", "/" + p})))
		case 3:
			g.Literals = append(g.Literals, bstr(rng.Pick([]string{"k=", "k", "=", "k==", "k='", "k=\"\"", "k='x", "k=x'", " k = v ", "k=\"a\"b\""})))
		}
	}
	return case06{Kind: "gen", Files: files, Gen: &g}
}

func loadCorpus06() []case06 {
	out := []case06{}
	data, err := os.ReadFile(verifRoot() + "/corpus/C06/cases.json")
	if err != nil {
		return out
	}
	_ = json.Unmarshal(data, &out)
	return out
}

// nelProbe06: the declared literal must arrive unchanged (implementation only; the plugin-configuration
// YAML round trip that folds U+0085 is outside the model, which is why such strings are kept out of the model cases)
func nelProbe06(r *Run) {
	t := &layer06{CmGens: []gen06{{Name: "cfg", Literals: []bstr{"k=x\u0085y"}, IntentKnown: true, Intent: []kv06{{"k", "x\u0085y"}}}}}
	ob := execBuild06(t)
	r.AddEval("nel-probe", true)
	if ob.cls == ClsOk && len(ob.objs) == 1 && ob.objs[0].Data["k"] != "x\u0085y" {
		r.Violation(OracleViolation{Law: "dictionary", Class: clsNel06,
			Detail: fmt.Sprintf("literal k=x\\u0085y arrives as %q", ob.objs[0].Data["k"]), Replay: case06{Kind: "build", Tree: t}})
	}
}

// ---------- the structured family: 3-layer behaviour chains over every source kind ----------
// Every combination of (behaviour at layer 0, 1, 2) x (where the hash suffix is disabled: generatorOptions or the
// generator's own options, at layer 0, 1 or 2, or nowhere) x ConfigMap/Secret, with env files, files with explicit
// keys, a file keyed by its base name, binary content (re-declared with other bytes in layer 1), literals with quotes
// and '=' in the value, immutable set through generatorOptions or local options at rotating layers, and rotating
// namespace / prefix / suffix directives.
func sysTrees06() []*layer06 {
	var out []*layer06
	idx := 0
	for _, secret := range []bool{false, true} {
		for _, b0 := range []string{"", "create"} {
			for _, b1 := range []string{"merge", "replace", "create", ""} {
				for _, b2 := range []string{"merge", "replace"} {
					for _, dis := range []string{"none", "g0", "g1", "g2", "l0", "l1", "l2"} {
						idx++
						mk := func(layer int, beh string) gen06 {
							g := gen06{Secret: secret, Name: "cfg", Behavior: beh, IntentKnown: true}
							if secret && layer == 0 {
								g.Type = "kubernetes.io/tls"
							}
							if dis == fmt.Sprintf("l%d", layer) {
								g.HasOpts, g.DisableHash = true, true
							}
							if idx%4 == 1 && layer == 1 {
								g.HasOpts, g.Immutable = true, true
							}
							return g
						}
						l0 := &layer06{}
						g0 := mk(0, b0)
						g0.Envs = []bstr{"base.env"}
						g0.Files = []bstr{"blob=blob.bin", "sub/cfgfile.txt"}
						l0.Files = []kv06{{"base.env", "\ufeffA=1\nB=two\n# comment\n\nEMPTY\n"}, {"blob.bin", "\xff\x00\x01"}, {"sub/cfgfile.txt", "line1\nline2\n"}}
						g0.Intent = []kv06{{"A", "1"}, {"B", "two"}, {"EMPTY", ""}, {"blob", "\xff\x00\x01"}, {"cfgfile.txt", "line1\nline2\n"}}
						l1 := &layer06{Bases: []*layer06{l0}}
						g1 := mk(1, b1)
						g1.Files = []bstr{"B=b.txt"}
						g1.Literals = []bstr{"C=3"}
						l1.Files = []kv06{{"b.txt", "b from file\n"}}
						g1.Intent = []kv06{{"B", "b from file\n"}, {"C", "3"}}
						if idx%2 == 0 {
							g1.Files = append(g1.Files, "blob=blob2.bin")
							l1.Files = append(l1.Files, kv06{"blob2.bin", "\xfe\x02"})
							g1.Intent = append(g1.Intent, kv06{"blob", "\xfe\x02"})
						}
						l2 := &layer06{Bases: []*layer06{l1}}
						g2 := mk(2, b2)
						g2.Literals = []bstr{"A='quoted'", "D=x=y"}
						g2.Envs = []bstr{"top.env"}
						l2.Files = []kv06{{"top.env", " \tB=top\r\n"}}
						g2.Intent = []kv06{{"A", "quoted"}, {"D", "x=y"}, {"B", "top"}}
						for i, l := range []*layer06{l0, l1, l2} {
							g := []gen06{g0, g1, g2}[i]
							if secret {
								l.SecGens = []gen06{g}
							} else {
								l.CmGens = []gen06{g}
							}
							if dis == fmt.Sprintf("g%d", i) {
								l.HasGenOpts, l.GDisable = true, true
							}
							if idx%4 == 2 && i == 0 || idx%4 == 3 && i == 2 {
								l.HasGenOpts, l.GImmutable = true, true
							}
						}
						switch idx % 3 {
						case 0:
							l0.Prefix, l1.Ns, l2.Suffix = "p-", "ns1", "-s"
						case 1:
							l1.Prefix, l2.Ns = "q-", "ns2"
						}
						out = append(out, l2)
					}
				}
			}
		}
	}
	return out
}

func runC06(r *Run, rng *Rng, tier string) error {
	nSha, nJSON, nGen, nBuild, nLaw := 60, 250, 350, 420, 500
	if tier == "thorough" {
		nSha, nJSON, nGen, nBuild, nLaw = 300, 2000, 3000, 3000, 8000
	}
	r.shard = 60
	r.Meta.Rule = "sha: random byte strings around the 64-byte block boundaries; json: concatenations of adversarial fragments (HTML characters, control bytes, U+2028/9, " +
		"invalid/truncated UTF-8) and random bytes; gen: one generator declaration (env/literal/file sources rendered from intended pairs over the adversarial key/value alphabet, " +
		"raw malformed sources, non-UTF-8 file contents) through MakeConfigMap/MakeSecret + Hasher.Hash; build: chains of 1-3 kustomizations (14% a top layer over two bases) " +
		"declaring 0-3 generators named cfg/app with behaviours create/merge/replace/unspecified/unknown, generatorOptions, namespace/namePrefix/nameSuffix/commonLabels/commonAnnotations, " +
		"optionally a Deployment referring to the ConfigMap (implementation-only cases); systematic: all 224 three-layer chains of (behaviour x behaviour x behaviour) x (hash disabled via generatorOptions / own options at layer 0/1/2 / nowhere) x ConfigMap/Secret with env files, explicit-key files, base-name files, binary content re-declared, quoted literals, immutable. non-trivial = a generated object came out; distinct by hash of the case term"
	for _, c := range loadCorpus06() {
		if c.Kind == "build" && !c.LawOnly {
			demoteRefs06(c.Tree)
		}
		runOne06(r, rng.Fork(), c, !c.LawOnly)
	}
	nelProbe06(r)
	for _, t := range sysTrees06() {
		ch := chainOf06(t)
		g := func(l *layer06) gen06 {
			if len(l.SecGens) > 0 {
				return l.SecGens[0]
			}
			return l.CmGens[0]
		}
		r.Count("systematic_behaviors", behaviorOf06(g(ch[0]).Behavior)+"/"+behaviorOf06(g(ch[1]).Behavior)+"/"+behaviorOf06(g(ch[2]).Behavior))
		for i, l := range ch {
			if l.HasGenOpts && l.GDisable {
				r.Count("systematic_options", fmt.Sprintf("generatorOptions.disableNameSuffixHash@layer%d", i))
			}
			if l.HasGenOpts && l.GImmutable {
				r.Count("systematic_options", fmt.Sprintf("generatorOptions.immutable@layer%d", i))
			}
			if g(l).HasOpts && g(l).DisableHash {
				r.Count("systematic_options", fmt.Sprintf("options.disableNameSuffixHash@layer%d", i))
			}
			if g(l).HasOpts && g(l).Immutable {
				r.Count("systematic_options", fmt.Sprintf("options.immutable@layer%d", i))
			}
		}
		runOne06(r, rng.Fork(), case06{Kind: "build", Tree: t}, true)
	}
	for _, s := range []string{"", "abc", "abcdbcdecdefdefgefghfghighijhijkijkljklmklmnlmnomnopnopq"} {
		runOne06(r, nil, case06{Kind: "sha", Input: bstr(s)}, true)
	}
	for i := 0; i < nSha; i++ {
		runOne06(r, nil, case06{Kind: "sha", Input: bstr(genShaInput06(rng.Fork()))}, true)
	}
	for i := 0; i < nJSON; i++ {
		runOne06(r, nil, case06{Kind: "json", Input: bstr(genJSONInput06(rng.Fork()))}, true)
	}
	for i := 0; i < nGen; i++ {
		runOne06(r, nil, genGenCase06(rng.Fork()), true)
	}
	for i := 0; i < nBuild; i++ {
		g := rng.Fork()
		t := genTree06(g)
		demoteRefs06(t)
		runOne06(r, g, case06{Kind: "build", Tree: t}, true)
	}
	for i := 0; i < nLaw; i++ {
		g := rng.Fork()
		runOne06(r, g, case06{Kind: "build", Tree: genTree06(g)}, false)
	}
	return nil
}

func replayC06(path string) (bool, string, error) {
	data, err := os.ReadFile(path)
	if err != nil {
		return false, "", err
	}
	var rp struct {
		Case case06 `json:"case"`
		Cls  string `json:"cls"`
	}
	if err := json.Unmarshal(data, &rp); err != nil {
		return false, "", err
	}
	r := NewRun("C06", "replay", 0, "", "")
	c := rp.Case
	var detail string
	switch c.Kind {
	case "build":
		ob := execBuild06(c.Tree)
		detail = fmt.Sprintf("class=%s msg=%q", ob.cls, ob.msg)
		for _, o := range ob.objs {
			detail += fmt.Sprintf("\n  secret=%v name=%s ns=%s data=%q binaryData=%q type=%q labels=%v annotations=%v", o.Secret, o.Name, o.Ns, o.Data, o.Bin, o.Type, o.Labels, o.Annos)
		}
		laws06(r, c, ob)
		metamorphic06(r, NewRng(1), c, ob)
		if rp.Cls == clsNel06 {
			nelProbe06(r)
		}
	case "gen":
		runOne06(r, nil, c, true)
		o := execGen06(c.Files, c.Gen)
		detail = fmt.Sprintf("make=%s %q data=%q binaryData=%q hash=%s %q suffix=%s", o.clsMake, o.msgMake, o.data, o.bin, o.clsHash, o.msgHash, o.suffix)
	default:
		runOne06(r, nil, c, true)
	}
	if len(r.Meta.Violations) > 0 {
		v := r.Meta.Violations[0]
		return true, detail + "\nLAW " + v.Law + " class=" + v.Class + ": " + v.Detail, nil
	}
	return false, detail, nil
}
