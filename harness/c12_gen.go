package main

// C12 generators: valid kustomization trees, structural and byte-level mutators, shrinker.

import (
	"bytes"
	"fmt"
	"sort"
	"strings"

	yaml "sigs.k8s.io/yaml/goyaml.v3"
)

// ---------- YAML construction helpers ----------

func ys(v string) *yaml.Node { return &yaml.Node{Kind: yaml.ScalarNode, Tag: "!!str", Value: v} }
func yi(n int) *yaml.Node {
	return &yaml.Node{Kind: yaml.ScalarNode, Tag: "!!int", Value: fmt.Sprint(n)}
}
func yb(b bool) *yaml.Node {
	return &yaml.Node{Kind: yaml.ScalarNode, Tag: "!!bool", Value: fmt.Sprint(b)}
}
func ynull() *yaml.Node { return &yaml.Node{Kind: yaml.ScalarNode, Tag: "!!null", Value: "null"} }
func yraw(tag, v string) *yaml.Node {
	return &yaml.Node{Kind: yaml.ScalarNode, Tag: tag, Value: v}
}

// ym builds a mapping from alternating key (string) / value (*yaml.Node); nil values are skipped.
func ym(kv ...interface{}) *yaml.Node {
	n := &yaml.Node{Kind: yaml.MappingNode, Tag: "!!map"}
	for i := 0; i+1 < len(kv); i += 2 {
		v, _ := kv[i+1].(*yaml.Node)
		if v == nil {
			continue
		}
		n.Content = append(n.Content, ys(kv[i].(string)), v)
	}
	return n
}
func yl(items ...*yaml.Node) *yaml.Node {
	n := &yaml.Node{Kind: yaml.SequenceNode, Tag: "!!seq"}
	for _, it := range items {
		if it != nil {
			n.Content = append(n.Content, it)
		}
	}
	return n
}
func ystrs(l ...string) *yaml.Node {
	n := &yaml.Node{Kind: yaml.SequenceNode, Tag: "!!seq"}
	for _, s := range l {
		n.Content = append(n.Content, ys(s))
	}
	return n
}
func ymss(m map[string]string) *yaml.Node {
	n := &yaml.Node{Kind: yaml.MappingNode, Tag: "!!map"}
	keys := make([]string, 0, len(m))
	for k := range m {
		keys = append(keys, k)
	}
	sort.Strings(keys)
	for _, k := range keys {
		n.Content = append(n.Content, ys(k), ys(m[k]))
	}
	return n
}

func mapSet(m *yaml.Node, key string, v *yaml.Node) {
	for i := 0; i+1 < len(m.Content); i += 2 {
		if m.Content[i].Value == key {
			m.Content[i+1] = v
			return
		}
	}
	m.Content = append(m.Content, ys(key), v)
}

func mapGet(m *yaml.Node, key string) *yaml.Node {
	if m == nil || m.Kind != yaml.MappingNode {
		return nil
	}
	for i := 0; i+1 < len(m.Content); i += 2 {
		if m.Content[i].Value == key {
			return m.Content[i+1]
		}
	}
	return nil
}

func copyNode(n *yaml.Node) *yaml.Node {
	if n == nil {
		return nil
	}
	c := *n
	c.Alias = nil
	c.Content = nil
	for _, ch := range n.Content {
		c.Content = append(c.Content, copyNode(ch))
	}
	return &c
}

func encodeDocs(docs []*yaml.Node) (out []byte, err error) {
	defer func() {
		if r := recover(); r != nil {
			err = fmt.Errorf("encode: %v", r)
		}
	}()
	var buf bytes.Buffer
	for i, d := range docs {
		if i > 0 {
			buf.WriteString("---\n")
		}
		var b bytes.Buffer
		enc := yaml.NewEncoder(&b)
		enc.SetIndent(2)
		if err := enc.Encode(d); err != nil {
			return nil, err
		}
		enc.Close()
		buf.Write(b.Bytes())
	}
	return buf.Bytes(), nil
}

func decodeDocs(data []byte) (docs []*yaml.Node, err error) {
	defer func() {
		if r := recover(); r != nil {
			err = fmt.Errorf("decode: %v", r)
		}
	}()
	dec := yaml.NewDecoder(bytes.NewReader(data))
	for {
		var n yaml.Node
		if e := dec.Decode(&n); e != nil {
			if e.Error() == "EOF" {
				break
			}
			return nil, e
		}
		if n.Kind == yaml.DocumentNode && len(n.Content) == 1 {
			docs = append(docs, n.Content[0])
		} else {
			docs = append(docs, &n)
		}
		if len(docs) > 200 {
			break
		}
	}
	return docs, nil
}

// ---------- trees ----------

type c12File struct {
	path string
	docs []*yaml.Node // YAML files
	raw  []byte       // other files (env files, literal payloads)
	role string       // kustomization | resources | patch | config | data
}

type c12Tree struct {
	files []*c12File
	dir   string
	objs  []c12Obj // objects defined by the resource files of the layers (not of components)
}

func (t *c12Tree) toCase() c12Case {
	c := c12Case{Kind: "build", Dir: t.dir, Files: map[string]blob{}}
	for _, f := range t.files {
		if f.docs != nil {
			b, err := encodeDocs(f.docs)
			if err != nil {
				b = []byte("# unencodable: " + err.Error() + "\n")
			}
			c.Files[f.path] = b
		} else {
			c.Files[f.path] = f.raw
		}
	}
	for _, b := range c.Files {
		if bytes.Contains(b, []byte("openapi")) {
			c.Fresh = true // a custom schema stays in the worker's global state
		}
	}
	return c
}

type c12Gen struct{ forceMyKind bool }

func newC12Gen() *c12Gen { return &c12Gen{} }

var c12Images = []string{"nginx", "nginx:1.14.2", "busybox:latest", "gcr.io/proj/app:v1", "redis@sha256:24a0c4b4a4c0eb97a1aabb8e29f18e917d05abfe1b7a7c07857230879ce7d3d3", "localhost:5000/x/y:1.0"}
var c12NsPool = []string{"ns1", "prod", "default", "kube-system"}

type c12Obj struct {
	kind, apiVersion, name, ns string
	generated                  int // layer that introduced it
}

// field paths that exist in every generated object of the kind (replacement sources / targets)
func (o c12Obj) paths() []string {
	ps := []string{"metadata.name"}
	if o.ns != "" {
		ps = append(ps, "metadata.namespace")
	}
	switch o.kind {
	case "Deployment", "StatefulSet":
		ps = append(ps, "spec.replicas", "spec.template.spec.containers.0.image", "spec.template.spec.containers.[name=main].image",
			"spec.template.spec.containers.*.image", "spec.template.metadata.labels.app", "metadata.labels.app", "spec.selector.matchLabels.app")
	case "DaemonSet":
		ps = append(ps, "spec.template.spec.containers.0.image", "spec.template.spec.containers.[name=main].image", "metadata.labels.app")
	case "Pod":
		ps = append(ps, "spec.containers.0.image", "spec.containers.[name=main].image", "metadata.labels.app")
	case "ConfigMap":
		ps = append(ps, "data.a")
	case "Service":
		ps = append(ps, "spec.ports.0.port", "spec.ports.[name=http].targetPort", "spec.selector.app", "metadata.labels.app")
	case "RoleBinding", "ClusterRoleBinding":
		ps = append(ps, "roleRef.name", "subjects.0.name", "subjects.*.name")
	case "MyKind":
		ps = append(ps, "spec.list.[name=a].value", "spec.ref.name", "spec.image", "spec.list.*.value")
	case "Ingress":
		ps = append(ps, "spec.rules.0.host", "spec.rules.0.http.paths.0.backend.service.name")
	case "Role", "ClusterRole":
		ps = append(ps, "rules.0.verbs.0")
	}
	return ps
}

// resource templates ------------------------------------------------------------------

func c12PodSpec(g *Rng, cms, secrets, sas []string, useVars bool) *yaml.Node {
	nCont := 1 + g.Intn(2)
	conts := yl()
	for i := 0; i < nCont; i++ {
		c := ym("name", ys([]string{"main", "sidecar", "app"}[i%3]), "image", ys(g.Pick(c12Images)))
		if g.Chance(40) {
			mapSet(c, "ports", yl(ym("containerPort", yi(80+g.Intn(3)), "protocol", ys(g.Pick([]string{"TCP", "UDP"})))))
		}
		if g.Chance(50) {
			env := yl()
			if len(cms) > 0 && g.Chance(60) {
				env.Content = append(env.Content, ym("name", ys("FROM_CM"), "valueFrom", ym("configMapKeyRef", ym("name", ys(g.Pick(cms)), "key", ys("a")))))
			}
			if len(secrets) > 0 && g.Chance(50) {
				env.Content = append(env.Content, ym("name", ys("FROM_SECRET"), "valueFrom", ym("secretKeyRef", ym("name", ys(g.Pick(secrets)), "key", ys("p")))))
			}
			if useVars && g.Chance(60) {
				env.Content = append(env.Content, ym("name", ys("V"), "value", ys("$(MYVAR)")))
			}
			env.Content = append(env.Content, ym("name", ys("PLAIN"), "value", ys(g.Pick([]string{"x", "1", "true", ""}))))
			mapSet(c, "env", env)
		}
		if len(cms) > 0 && g.Chance(25) {
			mapSet(c, "envFrom", yl(ym("configMapRef", ym("name", ys(g.Pick(cms))))))
		}
		if useVars && g.Chance(40) {
			mapSet(c, "args", ystrs("--name", "$(MYVAR)", "--x=$(MYVAR)-y"))
		} else if g.Chance(20) {
			mapSet(c, "command", ystrs("/bin/sh", "-c", "echo hi"))
		}
		if g.Chance(20) {
			mapSet(c, "resources", ym("limits", ym("cpu", ys("100m"), "memory", ys("64Mi"))))
		}
		if g.Chance(20) {
			mapSet(c, "volumeMounts", yl(ym("name", ys("vol"), "mountPath", ys("/data"))))
		}
		conts.Content = append(conts.Content, c)
	}
	spec := ym("containers", conts)
	if g.Chance(20) {
		mapSet(spec, "initContainers", yl(ym("name", ys("init"), "image", ys(g.Pick(c12Images)))))
	}
	if len(sas) > 0 && g.Chance(50) {
		mapSet(spec, "serviceAccountName", ys(g.Pick(sas)))
	}
	if g.Chance(30) {
		vols := yl()
		if len(cms) > 0 && g.Chance(60) {
			vols.Content = append(vols.Content, ym("name", ys("vol"), "configMap", ym("name", ys(g.Pick(cms)))))
		} else if len(secrets) > 0 {
			vols.Content = append(vols.Content, ym("name", ys("vol"), "secret", ym("secretName", ys(g.Pick(secrets)))))
		} else {
			vols.Content = append(vols.Content, ym("name", ys("vol"), "emptyDir", ym()))
		}
		mapSet(spec, "volumes", vols)
	}
	return spec
}

func meta(name, ns string, labels map[string]string, g *Rng) *yaml.Node {
	m := ym("name", ys(name))
	if ns != "" {
		mapSet(m, "namespace", ys(ns))
	}
	if labels != nil {
		mapSet(m, "labels", ymss(labels))
	}
	if g.Chance(20) {
		mapSet(m, "annotations", ymss(map[string]string{"note": g.Pick([]string{"x", "true", "123", "a,b"})}))
	}
	return m
}

// genResources returns the documents of one layer and the objects they define.
func (gen *c12Gen) genResources(g *Rng, suffix string, useVars bool) ([]*yaml.Node, []c12Obj) {
	var docs []*yaml.Node
	var objs []c12Obj
	ns := ""
	if g.Chance(40) {
		ns = g.Pick(c12NsPool)
	}
	lbl := map[string]string{"app": "a" + suffix}
	add := func(av, kind, name string, body ...interface{}) {
		d := ym("apiVersion", ys(av), "kind", ys(kind))
		for i := 0; i+1 < len(body); i += 2 {
			if v, _ := body[i+1].(*yaml.Node); v != nil {
				mapSet(d, body[i].(string), v)
			}
		}
		docs = append(docs, d)
		o := c12Obj{kind: kind, apiVersion: av, name: name}
		if md := mapGet(d, "metadata"); md != nil {
			if n := mapGet(md, "namespace"); n != nil {
				o.ns = n.Value
			}
		}
		objs = append(objs, o)
	}
	var cms, secrets, sas, svcs, deps, roles, croles []string
	if g.Chance(70) {
		n := "cm" + suffix
		cms = append(cms, n)
		add("v1", "ConfigMap", n, "metadata", meta(n, ns, nil, g), "data", ymss(map[string]string{"a": "1", "b": g.Pick([]string{"x", "y: z", "true"})}))
	}
	if g.Chance(40) {
		n := "sec" + suffix
		secrets = append(secrets, n)
		add("v1", "Secret", n, "metadata", meta(n, ns, nil, g), "type", ys("Opaque"), "data", ymss(map[string]string{"p": "cGFzcw=="}))
	}
	if g.Chance(60) {
		n := "sa" + suffix
		sas = append(sas, n)
		add("v1", "ServiceAccount", n, "metadata", meta(n, ns, nil, g))
	}
	if g.Chance(80) {
		n := "dep" + suffix
		deps = append(deps, n)
		add("apps/v1", "Deployment", n, "metadata", meta(n, ns, lbl, g),
			"spec", ym("replicas", yi(1+g.Intn(3)), "selector", ym("matchLabels", ymss(lbl)),
				"template", ym("metadata", ym("labels", ymss(lbl)), "spec", c12PodSpec(g, cms, secrets, sas, useVars))))
	}
	if g.Chance(30) {
		n := "sts" + suffix
		add("apps/v1", "StatefulSet", n, "metadata", meta(n, ns, lbl, g),
			"spec", ym("serviceName", ys("svc"+suffix), "replicas", yi(2), "selector", ym("matchLabels", ymss(lbl)),
				"template", ym("metadata", ym("labels", ymss(lbl)), "spec", c12PodSpec(g, cms, secrets, sas, false)),
				"volumeClaimTemplates", yl(ym("metadata", ym("name", ys("data")), "spec", ym("accessModes", ystrs("ReadWriteOnce"), "resources", ym("requests", ym("storage", ys("1Gi"))))))))
	}
	if g.Chance(20) {
		n := "ds" + suffix
		add("apps/v1", "DaemonSet", n, "metadata", meta(n, ns, lbl, g),
			"spec", ym("selector", ym("matchLabels", ymss(lbl)), "template", ym("metadata", ym("labels", ymss(lbl)), "spec", c12PodSpec(g, cms, secrets, sas, false))))
	}
	if g.Chance(20) {
		n := "job" + suffix
		add("batch/v1", "Job", n, "metadata", meta(n, ns, nil, g),
			"spec", ym("template", ym("spec", c12PodSpec(g, cms, secrets, sas, false))))
	}
	if g.Chance(20) {
		n := "cron" + suffix
		add("batch/v1", "CronJob", n, "metadata", meta(n, ns, nil, g),
			"spec", ym("schedule", ys("*/5 * * * *"), "jobTemplate", ym("spec", ym("template", ym("spec", c12PodSpec(g, cms, secrets, sas, false))))))
	}
	if g.Chance(20) {
		n := "pod" + suffix
		add("v1", "Pod", n, "metadata", meta(n, ns, lbl, g), "spec", c12PodSpec(g, cms, secrets, sas, false))
	}
	if g.Chance(60) {
		n := "svc" + suffix
		svcs = append(svcs, n)
		add("v1", "Service", n, "metadata", meta(n, ns, lbl, g),
			"spec", ym("selector", ymss(lbl), "ports", yl(ym("port", yi(80), "targetPort", yi(8080), "protocol", ys("TCP"), "name", ys("http")))))
	}
	if len(svcs) > 0 && g.Chance(30) {
		n := "ing" + suffix
		add("networking.k8s.io/v1", "Ingress", n, "metadata", meta(n, ns, nil, g),
			"spec", ym("rules", yl(ym("host", ys("x.example.com"), "http", ym("paths", yl(ym("path", ys("/"), "pathType", ys("Prefix"),
				"backend", ym("service", ym("name", ys(g.Pick(svcs)), "port", ym("number", yi(80)))))))))))
	}
	if g.Chance(40) {
		n := "role" + suffix
		roles = append(roles, n)
		add("rbac.authorization.k8s.io/v1", "Role", n, "metadata", meta(n, ns, nil, g),
			"rules", yl(ym("apiGroups", ystrs(""), "resources", ystrs("pods", "configmaps"), "verbs", ystrs("get", "list"),
				"resourceNames", func() *yaml.Node {
					if len(cms) > 0 {
						return ystrs(cms[0])
					}
					return nil
				}())))
	}
	if g.Chance(25) {
		n := "crole" + suffix
		croles = append(croles, n)
		add("rbac.authorization.k8s.io/v1", "ClusterRole", n, "metadata", meta(n, "", nil, g),
			"rules", yl(ym("apiGroups", ystrs("apps"), "resources", ystrs("deployments"), "verbs", ystrs("get"))))
	}
	subjects := func() *yaml.Node {
		l := yl()
		k := 1 + g.Intn(2)
		for i := 0; i < k; i++ {
			switch g.Intn(4) {
			case 0, 1:
				san := "default"
				if len(sas) > 0 {
					san = g.Pick(sas)
				}
				s := ym("kind", ys("ServiceAccount"), "name", ys(san))
				if g.Chance(80) {
					mapSet(s, "namespace", ys(orStr(ns, g.Pick(c12NsPool))))
				}
				l.Content = append(l.Content, s)
			case 2:
				l.Content = append(l.Content, ym("kind", ys("User"), "name", ys("jane"), "apiGroup", ys("rbac.authorization.k8s.io")))
			default:
				l.Content = append(l.Content, ym("kind", ys("Group"), "name", ys("devs"), "apiGroup", ys("rbac.authorization.k8s.io"), "namespace", ys("x")))
			}
		}
		return l
	}
	if g.Chance(55) {
		n := "rb" + suffix
		ref := ym("apiGroup", ys("rbac.authorization.k8s.io"), "kind", ys("Role"), "name", ys("role"+suffix))
		if len(roles) == 0 && len(croles) > 0 {
			ref = ym("apiGroup", ys("rbac.authorization.k8s.io"), "kind", ys("ClusterRole"), "name", ys(croles[0]))
		}
		add("rbac.authorization.k8s.io/v1", "RoleBinding", n, "metadata", meta(n, ns, nil, g), "subjects", subjects(), "roleRef", ref)
	}
	if g.Chance(35) {
		n := "crb" + suffix
		add("rbac.authorization.k8s.io/v1", "ClusterRoleBinding", n, "metadata", meta(n, "", nil, g), "subjects", subjects(),
			"roleRef", ym("apiGroup", ys("rbac.authorization.k8s.io"), "kind", ys("ClusterRole"), "name", ys("crole"+suffix)))
	}
	if g.Chance(15) {
		n := "pvc" + suffix
		add("v1", "PersistentVolumeClaim", n, "metadata", meta(n, ns, nil, g),
			"spec", ym("accessModes", ystrs("ReadWriteOnce"), "resources", ym("requests", ym("storage", ys("1Gi")))))
	}
	if len(deps) > 0 && g.Chance(20) {
		n := "hpa" + suffix
		add("autoscaling/v2", "HorizontalPodAutoscaler", n, "metadata", meta(n, ns, nil, g),
			"spec", ym("scaleTargetRef", ym("apiVersion", ys("apps/v1"), "kind", ys("Deployment"), "name", ys(deps[0])), "minReplicas", yi(1), "maxReplicas", yi(5)))
	}
	if g.Chance(15) {
		n := orStr(ns, "ns1")
		add("v1", "Namespace", n, "metadata", ym("name", ys(n)))
	}
	if g.Chance(20) || gen.forceMyKind {
		n := "my" + suffix
		add("example.com/v1", "MyKind", n, "metadata", meta(n, ns, nil, g),
			"spec", ym("replicas", yi(1), "image", ys("nginx:1"), "list", yl(ym("name", ys("a"), "value", ys("1")), ym("name", ys("b"), "value", ys("2"))),
				"ref", ym("name", ys("cm"+suffix))))
	}
	if g.Chance(8) {
		add("v1", "List", "", "items", yl(ym("apiVersion", ys("v1"), "kind", ys("ConfigMap"), "metadata", ym("name", ys("inlist"+suffix)), "data", ymss(map[string]string{"a": "v"}))))
		objs = objs[:len(objs)-1]
		objs = append(objs, c12Obj{kind: "ConfigMap", apiVersion: "v1", name: "inlist" + suffix})
	}
	if len(docs) == 0 {
		n := "cm" + suffix
		add("v1", "ConfigMap", n, "metadata", meta(n, ns, nil, g), "data", ymss(map[string]string{"a": "1"}))
	}
	return docs, objs
}

func pickObj(g *Rng, objs []c12Obj, kinds ...string) (c12Obj, bool) {
	var c []c12Obj
	for _, o := range objs {
		if len(kinds) == 0 {
			c = append(c, o)
			continue
		}
		for _, k := range kinds {
			if o.kind == k {
				c = append(c, o)
			}
		}
	}
	if len(c) == 0 {
		return c12Obj{}, false
	}
	return c[g.Intn(len(c))], true
}

var c12FieldPaths = []string{
	"metadata.name", "metadata.namespace", "metadata.labels.app", "metadata.annotations.note", "spec.replicas",
	"spec.template.spec.containers.0.image", "spec.template.spec.containers.[name=main].image",
	"spec.template.spec.containers.*.image", "spec.template.spec.containers.[name=main].env.[name=PLAIN].value",
	"spec.template.spec.serviceAccountName", "data.a", "data.b", "spec.selector.app", "spec.ports.0.port",
	"spec.template.metadata.labels.app", "subjects.0.name", "subjects.[kind=ServiceAccount].namespace", "roleRef.name",
	"spec.list.[name=a].value", "spec.ref.name", "metadata.labels.[app.kubernetes.io/name]", "spec.template.spec.containers.[name=sidecar].args.0",
}

// kustomization of one layer
func (gen *c12Gen) genKustomization(g *Rng, dir string, resources []string, objs []c12Obj, layer int, extra *[]*c12File, useVars bool, useOpenAPI bool) *yaml.Node {
	k := ym()
	if useOpenAPI {
		item := ym("type", ys("object"), "properties", ym("name", ym("type", ys("string")), "value", ym("type", ys("string"))))
		mykind := ym("type", ys("object"),
			"x-kubernetes-group-version-kind", yl(ym("group", ys("example.com"), "kind", ys("MyKind"), "version", ys("v1"))),
			"properties", ym(
				"apiVersion", ym("type", ys("string")), "kind", ym("type", ys("string")),
				"metadata", ym("$ref", ys("#/definitions/io.k8s.apimachinery.pkg.apis.meta.v1.ObjectMeta")),
				"spec", ym("type", ys("object"), "properties", ym(
					"replicas", ym("type", ys("integer")),
					"image", ym("type", ys("string")),
					"list", ym("type", ys("array"), "items", ym("$ref", ys("#/definitions/com.example.v1.Item")),
						"x-kubernetes-patch-merge-key", ys("name"), "x-kubernetes-patch-strategy", ys(g.Pick([]string{"merge", "replace", "merge,retainKeys"}))),
					"ref", ym("type", ys("object"), "properties", ym("name", ym("type", ys("string"))))))))
		if g.Chance(30) {
			mapSet(mapGet(mapGet(mapGet(mykind, "properties"), "spec"), "properties"), "list",
				ym("type", ys("array"), "items", ym("$ref", ys("#/definitions/com.example.v1.Item")),
					"x-kubernetes-list-map-keys", ystrs("name"), "x-kubernetes-list-type", ys("map"), "x-kubernetes-patch-strategy", ys("merge")))
		}
		schema := ym("swagger", ys("2.0"), "info", ym("title", ys("t"), "version", ys("v1")), "paths", ym(),
			"definitions", ym("com.example.v1.MyKind", mykind, "com.example.v1.Item", item,
				"io.k8s.apimachinery.pkg.apis.meta.v1.ObjectMeta", ym("type", ys("object"), "properties", ym("name", ym("type", ys("string")), "namespace", ym("type", ys("string")),
					"labels", ym("type", ys("object"), "additionalProperties", ym("type", ys("string"))), "annotations", ym("type", ys("object"), "additionalProperties", ym("type", ys("string")))))))
		*extra = append(*extra, &c12File{path: dir + "/schema.yaml", docs: []*yaml.Node{schema}, role: "config"})
		mapSet(k, "openapi", ym("path", ys("schema.yaml")))
	}
	if g.Chance(60) {
		mapSet(k, "apiVersion", ys("kustomize.config.k8s.io/v1beta1"))
		mapSet(k, "kind", ys("Kustomization"))
	}
	mapSet(k, "resources", ystrs(resources...))
	p := func(pc int) bool { return g.Chance(pc) }
	if p(35) {
		mapSet(k, "namePrefix", ys(g.Pick([]string{"p-", "dev-", "x"})))
	}
	if p(15) {
		mapSet(k, "nameSuffix", ys(g.Pick([]string{"-s", "-v2"})))
	}
	if p(35) {
		mapSet(k, "namespace", ys(g.Pick(c12NsPool)))
	}
	if p(30) {
		mapSet(k, "commonLabels", ymss(map[string]string{"team": g.Pick([]string{"a", "b"}), "env": "dev"}))
	}
	if p(20) {
		mapSet(k, "labels", yl(ym("pairs", ymss(map[string]string{"tier": "web"}), "includeSelectors", yb(g.Bool()), "includeTemplates", yb(g.Bool()))))
	}
	if p(20) {
		mapSet(k, "commonAnnotations", ymss(map[string]string{"owner": "me", "num": "1"}))
	}
	if p(35) {
		l := yl()
		for i := 0; i < 1+g.Intn(2); i++ {
			e := ym("name", ys(g.Pick([]string{"nginx", "busybox", "gcr.io/proj/app", "redis", "localhost:5000/x/y"})))
			if g.Chance(60) {
				mapSet(e, "newName", ys(g.Pick([]string{"my/nginx", "reg.io/b"})))
			}
			if g.Chance(60) {
				mapSet(e, "newTag", ys(g.Pick([]string{"1.2.3", "latest", "v2"})))
			} else if g.Chance(40) {
				mapSet(e, "digest", ys("sha256:24a0c4b4a4c0eb97a1aabb8e29f18e917d05abfe1b7a7c07857230879ce7d3d3"))
			}
			l.Content = append(l.Content, e)
		}
		mapSet(k, "images", l)
	}
	if o, ok := pickObj(g, objs, "Deployment", "StatefulSet"); ok && p(30) {
		mapSet(k, "replicas", yl(ym("name", ys(o.name), "count", yi(g.Intn(5)))))
	}
	addFile := func(name, role string, docs []*yaml.Node, raw []byte) string {
		*extra = append(*extra, &c12File{path: dir + "/" + name, docs: docs, raw: raw, role: role})
		return name
	}
	smp := func(o c12Obj) *yaml.Node {
		d := ym("apiVersion", ys(o.apiVersion), "kind", ys(o.kind), "metadata", ym("name", ys(o.name)))
		switch o.kind {
		case "Deployment", "StatefulSet", "DaemonSet":
			c := ym("name", ys("main"), "image", ys("patched:1"))
			if g.Chance(40) {
				mapSet(c, "env", yl(ym("name", ys("ADDED"), "value", ys("1")), ym("name", ys("PLAIN"), "$patch", ys("delete"))))
			}
			mapSet(d, "spec", ym("template", ym("spec", ym("containers", yl(c)))))
			if g.Chance(30) {
				mapSet(mapGet(d, "spec"), "replicas", yi(7))
			}
		case "MyKind":
			mapSet(d, "spec", ym("list", yl(ym("name", ys("a"), "value", ys("patched")), ym("name", ys("c"), "value", ys("3")))))
		case "ConfigMap":
			mapSet(d, "data", ymss(map[string]string{"patched": "yes"}))
		case "Service":
			mapSet(d, "spec", ym("ports", yl(ym("port", yi(80), "name", ys("web"), "$patch", ys(g.Pick([]string{"replace", "merge"}))))))
		case "RoleBinding", "ClusterRoleBinding":
			mapSet(d, "subjects", yl(ym("kind", ys("ServiceAccount"), "name", ys("added"), "namespace", ys("ns1"))))
		default:
			mapSet(mapGet(d, "metadata"), "labels", ymss(map[string]string{"patched": "true"}))
		}
		if o.ns != "" {
			mapSet(mapGet(d, "metadata"), "namespace", ys(o.ns))
		}
		return d
	}
	inline := func(n *yaml.Node) *yaml.Node {
		b, _ := encodeDocs([]*yaml.Node{n})
		return &yaml.Node{Kind: yaml.ScalarNode, Tag: "!!str", Value: string(b), Style: yaml.LiteralStyle}
	}
	json6902 := func(o c12Obj) *yaml.Node {
		ops := yl()
		for i := 0; i < 1+g.Intn(2); i++ {
			switch g.Intn(4) {
			case 0:
				ops.Content = append(ops.Content, ym("op", ys("add"), "path", ys("/metadata/labels"), "value", ymss(map[string]string{"j6902": "yes"})))
			case 1:
				ops.Content = append(ops.Content, ym("op", ys("replace"), "path", ys("/metadata/name"), "value", ys(o.name)))
			case 2:
				ops.Content = append(ops.Content, ym("op", ys("add"), "path", ys("/metadata/annotations"), "value", ymss(map[string]string{"j": "1"})))
			default:
				ops.Content = append(ops.Content, ym("op", ys("test"), "path", ys("/kind"), "value", ys(o.kind)))
			}
		}
		return ops
	}
	if len(objs) > 0 && p(40) {
		l := yl()
		for i := 0; i < 1+g.Intn(2); i++ {
			o, _ := pickObj(g, objs)
			e := ym()
			isJ := g.Chance(30)
			var body *yaml.Node
			if isJ {
				body = json6902(o)
			} else {
				body = smp(o)
			}
			if g.Chance(50) {
				mapSet(e, "patch", inline(body))
			} else {
				mapSet(e, "path", ys(addFile(fmt.Sprintf("patch%d_%d.yaml", layer, i), "patch", []*yaml.Node{body}, nil)))
			}
			if isJ || g.Chance(50) {
				tg := ym("kind", ys(o.kind))
				if g.Chance(60) {
					mapSet(tg, "name", ys(g.Pick([]string{o.name, o.name + ".*", ".*", "dep.*"})))
				}
				if g.Chance(20) {
					mapSet(tg, "labelSelector", ys(g.Pick([]string{"app", "app=a0", "app in (a0,a1)", "!x"})))
				}
				if g.Chance(15) {
					mapSet(tg, "annotationSelector", ys("note"))
				}
				if g.Chance(20) {
					mapSet(tg, "namespace", ys(orStr(o.ns, "ns1")))
				}
				if g.Chance(20) {
					gv := strings.Split(o.apiVersion, "/")
					if len(gv) == 2 {
						mapSet(tg, "group", ys(gv[0]))
						mapSet(tg, "version", ys(gv[1]))
					} else {
						mapSet(tg, "version", ys(gv[0]))
					}
				}
				mapSet(e, "target", tg)
			}
			if g.Chance(15) {
				mapSet(e, "options", ym("allowNameChange", yb(g.Bool()), "allowKindChange", yb(g.Bool())))
			}
			l.Content = append(l.Content, e)
		}
		mapSet(k, "patches", l)
	}
	if o, ok := pickObj(g, objs); ok && p(25) {
		l := yl()
		if g.Chance(50) {
			l.Content = append(l.Content, ys(addFile(fmt.Sprintf("smp%d.yaml", layer), "patch", []*yaml.Node{smp(o)}, nil)))
		} else {
			l.Content = append(l.Content, inline(smp(o)))
		}
		mapSet(k, "patchesStrategicMerge", l)
	}
	if o, ok := pickObj(g, objs); ok && p(15) {
		gv := strings.Split(o.apiVersion, "/")
		tg := ym("version", ys(gv[len(gv)-1]), "kind", ys(o.kind), "name", ys(o.name))
		if len(gv) == 2 {
			mapSet(tg, "group", ys(gv[0]))
		}
		e := ym("target", tg)
		if g.Chance(50) {
			mapSet(e, "patch", inline(json6902(o)))
		} else {
			mapSet(e, "path", ys(addFile(fmt.Sprintf("j%d.yaml", layer), "patch", []*yaml.Node{json6902(o)}, nil)))
		}
		mapSet(k, "patchesJson6902", yl(e))
	}
	if p(40) {
		l := yl()
		e := ym("name", ys(fmt.Sprintf("gen-cm%d", layer)))
		var existing *c12Obj
		for i := range objs {
			if objs[i].kind == "ConfigMap" && objs[i].generated < layer && g.Chance(50) {
				existing = &objs[i]
			}
		}
		if existing != nil && g.Chance(45) {
			e = ym("name", ys(existing.name), "behavior", ys(g.Pick([]string{"merge", "replace"})))
			if existing.ns != "" {
				mapSet(e, "namespace", ys(existing.ns))
			}
		} else if g.Chance(20) {
			mapSet(e, "behavior", ys("create"))
		}
		if g.Chance(70) || existing != nil {
			mapSet(e, "literals", ystrs("k1=v1", g.Pick([]string{"k2=v=2", "k2=", "k2='quoted'"})))
		}
		if g.Chance(30) {
			mapSet(e, "files", ystrs(g.Pick([]string{"", "renamed="})+addFile(fmt.Sprintf("payload%d.txt", layer), "data", nil, []byte("hello\nworld\n"))))
		}
		if g.Chance(25) {
			mapSet(e, "envs", ystrs(addFile(fmt.Sprintf("vars%d.env", layer), "data", nil, []byte("A=1\n# c\nB=two\n\nC\n"))))
		}
		if g.Chance(25) {
			mapSet(e, "options", ym("disableNameSuffixHash", yb(g.Bool()), "labels", ymss(map[string]string{"g": "1"}), "immutable", yb(g.Bool())))
		}
		l.Content = append(l.Content, e)
		mapSet(k, "configMapGenerator", l)
	}
	if p(20) {
		e := ym("name", ys(fmt.Sprintf("gen-sec%d", layer)), "literals", ystrs("user=admin", "pass=1234"))
		if g.Chance(50) {
			mapSet(e, "type", ys(g.Pick([]string{"Opaque", "kubernetes.io/tls"})))
		}
		mapSet(k, "secretGenerator", yl(e))
	}
	if p(15) {
		mapSet(k, "generatorOptions", ym("disableNameSuffixHash", yb(g.Bool()), "labels", ymss(map[string]string{"go": "1"}), "annotations", ymss(map[string]string{"ga": "1"})))
	}
	if len(objs) > 1 && p(40) {
		l := yl()
		for i := 0; i < 1+g.Intn(2); i++ {
			src, _ := pickObj(g, objs)
			tgt, _ := pickObj(g, objs)
			s := ym("kind", ys(src.kind), "name", ys(src.name))
			if g.Chance(70) {
				sp := g.Pick(src.paths())
				if strings.Contains(sp, "*") {
					sp = "metadata.name"
				}
				mapSet(s, "fieldPath", ys(sp))
			}
			if g.Chance(30) {
				mapSet(s, "options", ym("delimiter", ys(g.Pick([]string{":", "/", "-"})), "index", yi(0)))
			}
			if src.ns != "" && g.Chance(25) {
				mapSet(s, "namespace", ys(src.ns))
			}
			if g.Chance(10) {
				gv := strings.Split(src.apiVersion, "/")
				mapSet(s, "version", ys(gv[len(gv)-1]))
				if len(gv) == 2 {
					mapSet(s, "group", ys(gv[0]))
				}
			}
			t := ym("select", ym("kind", ys(tgt.kind)))
			if g.Chance(88) {
				mapSet(mapGet(t, "select"), "name", ys(tgt.name))
			}
			if g.Chance(25) {
				mapSet(t, "reject", yl(ym("name", ys(g.Pick([]string{"other", "zzz"})))))
			}
			fps := yl()
			create := false
			for j := 0; j < 1+g.Intn(2); j++ {
				switch {
				case g.Chance(75):
					tp := g.Pick(tgt.paths())
					if tp == "spec.replicas" || strings.Contains(tp, "ort") {
						tp = "metadata.name" // a string must not land in an integer field
					}
					fps.Content = append(fps.Content, ys(tp))
				case g.Chance(80):
					create = true
					fps.Content = append(fps.Content, ys(g.Pick([]string{"metadata.annotations.repl", "metadata.labels.[x.io/y]", "spec.extra.list.[name=n].value", "spec.extra.0.v"})))
				default:
					fps.Content = append(fps.Content, ys(g.Pick(c12FieldPaths)))
				}
			}
			mapSet(t, "fieldPaths", fps)
			if create || g.Chance(30) {
				o := ym()
				if create || g.Chance(50) {
					mapSet(o, "create", yb(create || g.Chance(70)))
				}
				if !create && g.Chance(30) {
					mapSet(o, "delimiter", ys(g.Pick([]string{":", "/", "-"})))
					mapSet(o, "index", yi(g.Intn(2)-1))
				}
				mapSet(t, "options", o)
			}
			l.Content = append(l.Content, ym("source", s, "targets", yl(t)))
		}
		if g.Chance(20) {
			fn := addFile(fmt.Sprintf("repl%d.yaml", layer), "config", []*yaml.Node{l}, nil)
			mapSet(k, "replacements", yl(ym("path", ys(fn))))
		} else {
			mapSet(k, "replacements", l)
		}
	}
	if p(15) {
		so := ym("order", ys(g.Pick([]string{"legacy", "fifo"})))
		if mapGet(so, "order").Value == "legacy" && g.Chance(60) {
			mapSet(so, "legacySortOptions", ym("orderFirst", ystrs("Namespace", "ConfigMap"), "orderLast", ystrs("Deployment")))
		}
		mapSet(k, "sortOptions", so)
	}
	if p(20) {
		opts := []string{"managedByLabel", "originAnnotations", "transformerAnnotations"}
		l := yl()
		for _, o := range opts {
			if g.Bool() {
				l.Content = append(l.Content, ys(o))
			}
		}
		mapSet(k, "buildMetadata", l)
	}
	if useVars {
		if o, ok := pickObj(g, objs, "Service", "ConfigMap", "Deployment"); ok {
			v := ym("name", ys("MYVAR"), "objref", ym("kind", ys(o.kind), "name", ys(o.name), "apiVersion", ys(o.apiVersion)))
			if g.Chance(60) {
				fp := map[string][]string{"Service": {"metadata.name", "spec.ports[0].port", "metadata.labels.app"}, "ConfigMap": {"metadata.name", "data.a"},
					"Deployment": {"metadata.name", "spec.replicas", "metadata.labels.app", "spec.template.spec.containers[0].image"}}[o.kind]
				mapSet(v, "fieldref", ym("fieldpath", ys(g.Pick(fp))))
			}
			mapSet(k, "vars", yl(v))
		}
	}
	if p(12) {
		cfg := ym()
		if g.Chance(50) {
			mapSet(cfg, "namePrefix", yl(ym("path", ys("metadata/name")), ym("path", ys(g.Pick([]string{"spec/ref/name", "spec/list/name", "spec/template/spec/containers[]/name"})), "kind", ys("MyKind"))))
		}
		if g.Chance(50) {
			mapSet(cfg, "nameReference", yl(ym("kind", ys("ConfigMap"), "version", ys("v1"), "fieldSpecs", yl(ym("kind", ys("MyKind"), "path", ys("spec/ref/name"))))))
		}
		if g.Chance(40) {
			mapSet(cfg, "images", yl(ym("path", ys("spec/image"), "kind", ys("MyKind"))))
		}
		if g.Chance(40) {
			mapSet(cfg, "commonLabels", yl(ym("path", ys("spec/selector"), "create", yb(true), "kind", ys("MyKind"))))
		}
		if g.Chance(30) {
			mapSet(cfg, "varReference", yl(ym("path", ys("spec/image"), "kind", ys("MyKind"))))
		}
		if g.Chance(30) {
			mapSet(cfg, "replicas", yl(ym("path", ys("spec/replicas"), "create", yb(true), "kind", ys("MyKind"))))
		}
		mapSet(k, "configurations", ystrs(addFile(fmt.Sprintf("kconfig%d.yaml", layer), "config", []*yaml.Node{cfg}, nil)))
	}
	if p(8) {
		// crds: OpenAPI definitions (JSON or YAML) from which name-reference / label field specs are derived
		def := ym("com.example.v1.MyKind", ym("Schema", ym("type", ys("object"), "properties", ym(
			"apiVersion", ym("type", ys("string")), "kind", ym("type", ys("string")),
			"metadata", ym("$ref", ys("k8s.io/apimachinery/pkg/apis/meta/v1.ObjectMeta")),
			"spec", ym("$ref", ys("com.example.v1.MyKindSpec")))), "Dependencies", ystrs("com.example.v1.MyKindSpec")),
			"com.example.v1.MyKindSpec", ym("Schema", ym("type", ys("object"), "properties", ym(
				"ref", ym("x-kubernetes-object-ref-api-version", ys("v1"), "x-kubernetes-object-ref-kind", ys("ConfigMap"), "type", ys("object")),
				"image", ym("type", ys("string")))), "Dependencies", ystrs()))
		mapSet(k, "crds", ystrs(addFile(fmt.Sprintf("crd%d.yaml", layer), "config", []*yaml.Node{def}, nil)))
	}
	if p(12) {
		var t *yaml.Node
		switch g.Intn(5) {
		case 0:
			t = ym("apiVersion", ys("builtin"), "kind", ys("PrefixTransformer"), "metadata", ym("name", ys("t1")), "prefix", ys("tp-"),
				"fieldSpecs", yl(ym("path", ys("metadata/name"))))
		case 1:
			t = ym("apiVersion", ys("builtin"), "kind", ys("LabelTransformer"), "metadata", ym("name", ys("t2")), "labels", ymss(map[string]string{"tl": "1"}),
				"fieldSpecs", yl(ym("path", ys("metadata/labels"), "create", yb(true)), ym("path", ys("spec/template/metadata/labels"), "create", yb(false), "kind", ys("Deployment"))))
		case 2:
			t = ym("apiVersion", ys("builtin"), "kind", ys("ValueAddTransformer"), "metadata", ym("name", ys("t3")), "value", ys("added"),
				"targets", yl(ym("selector", ym("kind", ys("Deployment")), "fieldPath", ys("metadata/labels/va"))))
		case 3:
			t = ym("apiVersion", ys("builtin"), "kind", ys("AnnotationsTransformer"), "metadata", ym("name", ys("t4")), "annotations", ymss(map[string]string{"ta": "1"}),
				"fieldSpecs", yl(ym("path", ys("metadata/annotations"), "create", yb(true))))
		default:
			t = ym("apiVersion", ys("builtin"), "kind", ys("NamespaceTransformer"), "metadata", ym("name", ys("t5"), "namespace", ys("tns")),
				"unsetOnly", yb(g.Bool()), "fieldSpecs", yl(ym("path", ys("metadata/namespace"), "create", yb(true))))
		}
		if g.Chance(50) {
			mapSet(k, "transformers", yl(inline(t)))
		} else {
			mapSet(k, "transformers", ystrs(addFile(fmt.Sprintf("tr%d.yaml", layer), "config", []*yaml.Node{t}, nil)))
		}
	}
	return k
}

// tree generates a valid 1-3 layer kustomization tree rooted at /t.
func (gen *c12Gen) tree(g *Rng) *c12Tree {
	layers := 1 + g.Intn(3)
	t := &c12Tree{}
	var allObjs []c12Obj
	dirs := []string{"/t/base", "/t/mid", "/t/top"}
	useVars := g.Chance(15)
	useOpenAPI := g.Chance(6)
	gen.forceMyKind = useOpenAPI
	defer func() { gen.forceMyKind = false }()
	for l := 0; l < layers; l++ {
		dir := dirs[l]
		if l == layers-1 {
			t.dir = dir
		}
		var resources []string
		if l > 0 {
			resources = append(resources, "../"+dirs[l-1][3:])
		}
		if l == 0 || g.Chance(40) {
			docs, objs := gen.genResources(g, fmt.Sprint(l), useVars && l == 0)
			for i := range objs {
				objs[i].generated = l - 1 // resources of this layer may be merged into by this layer's generators
			}
			allObjs = append(allObjs, objs...)
			// spread the documents over 1-3 files
			nf := 1 + g.Intn(3)
			if nf > len(docs) {
				nf = len(docs)
			}
			per := (len(docs) + nf - 1) / nf
			for i := 0; i < nf; i++ {
				lo, hi := i*per, (i+1)*per
				if hi > len(docs) {
					hi = len(docs)
				}
				if lo >= hi {
					continue
				}
				name := fmt.Sprintf("res%d.yaml", i)
				t.files = append(t.files, &c12File{path: dir + "/" + name, docs: docs[lo:hi], role: "resources"})
				resources = append(resources, name)
			}
		}
		if l > 0 && g.Chance(10) {
			// a component
			cdir := fmt.Sprintf("/t/comp%d", l)
			cdocs, cobjs := gen.genResources(g, fmt.Sprintf("c%d", l), false)
			if len(cdocs) > 2 {
				cdocs = cdocs[:2]
			}
			_ = cobjs
			t.files = append(t.files, &c12File{path: cdir + "/r.yaml", docs: cdocs, role: "resources"})
			ck := ym("apiVersion", ys("kustomize.config.k8s.io/v1alpha1"), "kind", ys("Component"), "resources", ystrs("r.yaml"))
			if g.Chance(50) {
				mapSet(ck, "namePrefix", ys("c-"))
			}
			t.files = append(t.files, &c12File{path: cdir + "/kustomization.yaml", docs: []*yaml.Node{ck}, role: "kustomization"})
		}
		var extra []*c12File
		k := gen.genKustomization(g, dir, resources, allObjs, l, &extra, useVars && l == layers-1, useOpenAPI && l == layers-1)
		if l > 0 {
			for _, f := range t.files {
				if f.path == fmt.Sprintf("/t/comp%d/kustomization.yaml", l) {
					mapSet(k, "components", ystrs(fmt.Sprintf("../comp%d", l)))
				}
			}
		}
		t.files = append(t.files, &c12File{path: dir + "/kustomization.yaml", docs: []*yaml.Node{k}, role: "kustomization"})
		t.files = append(t.files, extra...)
	}
	t.objs = allObjs
	return t
}

// ---------- structural mutation ----------

type nodeRef struct {
	file   *c12File
	doc    int
	parent *yaml.Node // nil for a document root
	idx    int        // index in parent.Content (value position for mappings)
	node   *yaml.Node
	path   string
}

func collectRefs(f *c12File) []nodeRef {
	var out []nodeRef
	var rec func(doc int, parent *yaml.Node, idx int, n *yaml.Node, path string)
	rec = func(doc int, parent *yaml.Node, idx int, n *yaml.Node, path string) {
		out = append(out, nodeRef{file: f, doc: doc, parent: parent, idx: idx, node: n, path: path})
		switch n.Kind {
		case yaml.MappingNode:
			for i := 0; i+1 < len(n.Content); i += 2 {
				rec(doc, n, i+1, n.Content[i+1], path+"/"+n.Content[i].Value)
			}
		case yaml.SequenceNode:
			for i, c := range n.Content {
				rec(doc, n, i, c, fmt.Sprintf("%s/%d", path, i))
			}
		}
	}
	for i, d := range f.docs {
		rec(i, nil, 0, d, "")
	}
	return out
}

var c12Meta = []string{"(", ")", "[", "]", ",", "*", "^zz$", "..", "\\", "---", "{", "}", ":", "#", "$(X)", "$(MYVAR)", "|", "?", "+", "=", "/", "~", ".", "-",
	"[name=", "[=x]", "[name=^zz$]", ".*", "a(", "a,b", "\n", " ", "\t", "'", "\"", "%", "&", "!", "<", ">", "../", "/..", "//", "\x00", "é", "0x", "1e9"}

var c12ScalarJunk = []*yaml.Node{
	yraw("!!str", "foo"), yraw("!!int", "5"), yraw("!!int", "-1"), yraw("!!bool", "true"), yraw("!!str", ""), yraw("!!float", "1.5"),
	yraw("!!int", "99999999999999999999"), yraw("!!float", ".inf"), yraw("!!str", "null"), yraw("!!str", "~"), yraw("!!str", "a,b"), yraw("!!str", "^zz$"),
	yraw("!!str", "*"), yraw("!!str", "-"), yraw("!!str", "a("), yraw("!!str", "[x"), yraw("!!str", "x.y.[name=^zz$].z"), yraw("!!binary", "aGk="), yraw("!!timestamp", "2001-12-14"),
}

func junkNode(g *Rng, depth int) *yaml.Node {
	switch k := g.Intn(10); {
	case k < 4 || depth <= 0:
		return copyNode(c12ScalarJunk[g.Intn(len(c12ScalarJunk))])
	case k < 5:
		return ynull()
	case k < 8:
		m := ym()
		for i := 0; i < g.Intn(3); i++ {
			m.Content = append(m.Content, ys(g.Pick([]string{"name", "kind", "namespace", "junk", "path", "x", "metadata", "spec", "value"})), junkNode(g, depth-1))
		}
		return m
	default:
		l := yl()
		for i := 0; i < g.Intn(3); i++ {
			l.Content = append(l.Content, junkNode(g, depth-1))
		}
		return l
	}
}

var c12Keys = []string{"name", "namespace", "kind", "apiVersion", "metadata", "spec", "path", "patch", "target", "select", "reject", "fieldPaths", "fieldPath",
	"options", "create", "source", "targets", "literals", "files", "envs", "behavior", "labels", "annotations", "subjects", "containers", "image", "resources",
	"data", "count", "newTag", "newName", "digest", "pairs", "group", "version", "delimiter", "index", "objref", "fieldref", "fieldpath", "items", "order", "value", "op"}

func replaceRef(ref nodeRef, n *yaml.Node) {
	if ref.parent == nil {
		ref.file.docs[ref.doc] = n
	} else {
		ref.parent.Content[ref.idx] = n
	}
}

// mutateOnce applies one structural mutation somewhere in the tree; returns its description ("" = nothing done).
func (gen *c12Gen) mutateOnce(g *Rng, t *c12Tree) string {
	// choose the file: kustomizations most often
	var yamls []*c12File
	for _, f := range t.files {
		if f.docs != nil {
			yamls = append(yamls, f)
		}
	}
	if len(yamls) == 0 {
		return ""
	}
	var f *c12File
	for tries := 0; tries < 8; tries++ {
		f = yamls[g.Intn(len(yamls))]
		w := map[string]int{"kustomization": 100, "resources": 45, "patch": 60, "config": 80}[f.role]
		if g.Chance(w) {
			break
		}
	}
	refs := collectRefs(f)
	if len(refs) == 0 {
		return ""
	}
	ref := refs[g.Intn(len(refs))]
	// option values of the directives (counts, indices, flags, delimiters) are few among many nodes:
	// aim at a scalar leaf of a kustomization / config file now and then
	leafMode := false
	if (f.role == "kustomization" || f.role == "config") && g.Chance(22) {
		var leaves []nodeRef
		for _, r := range refs {
			if r.node.Kind == yaml.ScalarNode && r.parent != nil {
				leaves = append(leaves, r)
			}
		}
		if len(leaves) > 0 {
			// prefer numbers and flags
			var nums []nodeRef
			for _, r := range leaves {
				if r.node.Tag == "!!int" || r.node.Tag == "!!bool" {
					nums = append(nums, r)
				}
			}
			if len(nums) > 0 && g.Chance(50) {
				ref = nums[g.Intn(len(nums))]
			} else {
				ref = leaves[g.Intn(len(leaves))]
			}
			leafMode = true
		}
	}
	// bias: avoid replacing a whole document most of the time
	if ref.parent == nil && len(refs) > 1 && g.Chance(85) {
		ref = refs[1+g.Intn(len(refs)-1)]
	}
	// ill-typed object metadata is where the build keeps its own book-keeping: aim there now and then
	if g.Chance(7) {
		var cands []nodeRef
		for _, r := range refs {
			if strings.HasSuffix(r.path, "/metadata") || strings.HasSuffix(r.path, "/metadata/labels") || strings.HasSuffix(r.path, "/metadata/annotations") ||
				strings.HasSuffix(r.path, "/metadata/name") || strings.HasSuffix(r.path, "/metadata/namespace") || strings.HasSuffix(r.path, "/kind") || strings.HasSuffix(r.path, "/apiVersion") {
				cands = append(cands, r)
			}
		}
		if len(cands) > 0 {
			r := cands[g.Intn(len(cands))]
			var nn *yaml.Node
			switch g.Intn(7) {
			case 0:
				nn = yl(ys("a"), ys("b"))
			case 1:
				nn = yl(ys("a"))
			case 2:
				nn = yl(ym(), ym())
			case 3:
				nn = ym("k", yl(ys("v")))
			case 4:
				nn = ym("k", ym("x", ys("y")))
			case 5:
				nn = ym("k", ynull(), "5", yi(5), "true", yb(true))
			default:
				nn = junkNode(g, 2)
			}
			if r.parent != nil && r.parent.Kind == yaml.MappingNode && g.Chance(40) {
				// or add the missing sibling
				r.parent.Content = append(r.parent.Content, ys(g.Pick([]string{"labels", "annotations"})), nn)
				return fmt.Sprintf("metadata:add @%s:%d%s", f.path, r.doc, r.path)
			}
			replaceRef(r, nn)
			return fmt.Sprintf("metadata:retype @%s:%d%s", f.path, r.doc, r.path)
		}
	}
	where := fmt.Sprintf("@%s:%d%s", f.path, ref.doc, ref.path)
	n := ref.node
	op := g.Intn(100)
	if leafMode {
		op = 70 + g.Intn(20) // string / number extension
	}
	switch {
	case op < 26: // retype
		var nn *yaml.Node
		var what string
		switch g.Intn(8) {
		case 0:
			nn, what = ynull(), "null"
		case 1:
			nn, what = ym(), "emptymap"
		case 2:
			nn, what = yl(), "emptylist"
		case 3:
			nn, what = copyNode(c12ScalarJunk[g.Intn(len(c12ScalarJunk))]), "scalar"
		case 4:
			nn, what = yl(copyNode(n)), "wraplist"
		case 5:
			nn, what = ym(g.Pick(c12Keys), copyNode(n)), "wrapmap"
		case 6:
			nn, what = yl(ynull()), "listofnull"
		default:
			nn, what = yl(ys("foo"), yi(1)), "listofscalars"
		}
		replaceRef(ref, nn)
		return "retype:" + what + " " + where
	case op < 36: // delete
		if ref.parent == nil {
			if len(f.docs) > 1 {
				f.docs = append(f.docs[:ref.doc], f.docs[ref.doc+1:]...)
				return "delete:doc " + where
			}
			replaceRef(ref, ynull())
			return "retype:null " + where
		}
		if ref.parent.Kind == yaml.MappingNode {
			ref.parent.Content = append(ref.parent.Content[:ref.idx-1], ref.parent.Content[ref.idx+1:]...)
		} else {
			ref.parent.Content = append(ref.parent.Content[:ref.idx], ref.parent.Content[ref.idx+1:]...)
		}
		return "delete " + where
	case op < 44: // duplicate
		if ref.parent == nil {
			f.docs = append(f.docs, copyNode(n))
			return "duplicate:doc " + where
		}
		if ref.parent.Kind == yaml.MappingNode {
			ref.parent.Content = append(ref.parent.Content, copyNode(ref.parent.Content[ref.idx-1]), copyNode(n))
		} else {
			ref.parent.Content = append(ref.parent.Content, copyNode(n))
		}
		return "duplicate " + where
	case op < 56: // splice another subtree (from any YAML file)
		src := yamls[g.Intn(len(yamls))]
		srefs := collectRefs(src)
		if len(srefs) == 0 {
			return ""
		}
		s := srefs[g.Intn(len(srefs))]
		replaceRef(ref, copyNode(s.node))
		return fmt.Sprintf("splice:%s:%d%s %s", src.path, s.doc, s.path, where)
	case op < 68: // append junk
		switch n.Kind {
		case yaml.MappingNode:
			n.Content = append(n.Content, ys(g.Pick(c12Keys)), junkNode(g, 2))
			return "junk:field " + where
		case yaml.SequenceNode:
			j := junkNode(g, 2)
			if g.Chance(50) {
				n.Content = append(n.Content, j)
			} else {
				n.Content = append([]*yaml.Node{j}, n.Content...)
			}
			return "junk:element " + where
		default:
			replaceRef(ref, junkNode(g, 2))
			return "junk:replace " + where
		}
	case op < 71: // anchors and aliases: a reused node, a merge key, or a node that contains itself
		tgt := n
		if tgt.Kind == yaml.ScalarNode && ref.parent != nil {
			tgt = ref.parent
		}
		if tgt.Kind != yaml.MappingNode && tgt.Kind != yaml.SequenceNode {
			return ""
		}
		name := g.Pick([]string{"x", "a", "anchor1"})
		tgt.Anchor = name
		alias := &yaml.Node{Kind: yaml.AliasNode, Value: name, Alias: tgt}
		what := ""
		switch g.Intn(4) {
		case 0, 1: // the node refers to itself
			if tgt.Kind == yaml.MappingNode {
				tgt.Content = append(tgt.Content, ys(g.Pick([]string{"b", "self", "name"})), alias)
			} else {
				tgt.Content = append(tgt.Content, alias)
			}
			what = "self"
		case 2: // merge key pointing at the enclosing mapping
			if tgt.Kind == yaml.MappingNode {
				tgt.Content = append(tgt.Content, &yaml.Node{Kind: yaml.ScalarNode, Tag: "!!merge", Value: "<<"}, alias)
				what = "selfmerge"
			} else {
				tgt.Content = append(tgt.Content, alias)
				what = "self"
			}
		default: // an ordinary alias elsewhere in the same document (valid YAML)
			root := f.docs[ref.doc]
			if root.Kind == yaml.MappingNode && root != tgt {
				root.Content = append(root.Content, ys("aliased"), alias)
				what = "reuse"
			} else {
				tgt.Anchor = ""
				return ""
			}
		}
		return "anchor:" + what + " " + where
	case op < 92: // extend a string with meta-characters
		// find a scalar at or below the node
		sc := n
		for sc.Kind != yaml.ScalarNode && len(sc.Content) > 0 {
			sc = sc.Content[len(sc.Content)-1-g.Intn((len(sc.Content)+1)/2)]
		}
		if sc.Kind != yaml.ScalarNode {
			replaceRef(ref, ys(g.Pick(c12Meta)))
			return "meta:replace " + where
		}
		m := g.Pick(c12Meta)
		old := sc.Value
		if (sc.Tag == "!!int" || sc.Tag == "!!bool") && g.Chance(70) {
			// boundary values for numbers and flags: off-by-one territory
			sc.Value = g.Pick([]string{"-1", "0", "1", "2", "3", "99", "-99", "2147483648", "9223372036854775808", "-9223372036854775809", "1.5", "1e3", "true", "false", "0x10", "010"})
			sc.Tag = ""
			if g.Chance(15) {
				sc.Tag = "!!str"
			}
			return fmt.Sprintf("meta:number %s %s", sc.Value, where)
		}
		switch g.Intn(5) {
		case 0:
			sc.Value = m + old
		case 1:
			sc.Value = old + m
		case 2:
			sc.Value = m
		case 3:
			if len(old) > 0 {
				i := g.Intn(len(old) + 1)
				sc.Value = old[:i] + m + old[i:]
			} else {
				sc.Value = m
			}
		default:
			sc.Value = old + m + g.Pick(c12Meta)
		}
		sc.Tag = "!!str"
		if sc.Style == yaml.LiteralStyle && strings.ContainsAny(sc.Value, "\x00") {
			sc.Style = 0
		}
		return fmt.Sprintf("meta:%q %s", m, where)
	default: // rename the key / swap for a known key
		if ref.parent != nil && ref.parent.Kind == yaml.MappingNode {
			kn := ref.parent.Content[ref.idx-1]
			if g.Chance(60) {
				kn.Value = g.Pick(c12Keys)
			} else {
				kn.Value = kn.Value + g.Pick([]string{"s", "x", " ", "[]", "/"})
			}
			return "rekey:" + kn.Value + " " + where
		}
		replaceRef(ref, junkNode(g, 1))
		return "junk:replace " + where
	}
}

// mutateTree copies nothing: the tree is consumed. It returns the mutated case.
func (gen *c12Gen) mutateTree(g *Rng, t *c12Tree) (c12Case, bool) {
	if g.Chance(12) {
		// byte-level mutation of one resource (or patch) file
		var cands []*c12File
		for _, f := range t.files {
			if f.role == "resources" || (f.role != "data" && g.Chance(25)) {
				cands = append(cands, f)
			}
		}
		c := t.toCase()
		if len(cands) > 0 {
			f := cands[g.Intn(len(cands))]
			data, desc := mutateBytes(g, []byte(c.Files[f.path]))
			c.Files[f.path] = data
			c.Muts = append(c.Muts, "bytes:"+desc+" @"+f.path+":")
			return c, true
		}
		return c, false
	}
	if g.Chance(38) {
		// directed mutation (c12_directed.go), now and then followed by a blind one
		if d := gen.directedOnce(g, t); d != "" {
			muts := []string{d}
			if g.Chance(15) {
				if d2 := gen.mutateOnce(g, t); d2 != "" {
					muts = append(muts, d2)
				}
			}
			c := t.toCase()
			c.Muts = muts
			return c, true
		}
	}
	n := 1
	if g.Chance(25) {
		n = 2 + g.Intn(2)
	}
	var muts []string
	for i := 0; i < n; i++ {
		if d := gen.mutateOnce(g, t); d != "" {
			muts = append(muts, d)
		}
	}
	c := t.toCase()
	c.Muts = muts
	return c, len(muts) > 0
}

// ---------- byte-level mutation ----------

var c12ByteChunks = []string{"---\n", "\n---\n", "--- ", "...\n", "\t", ": ", "- ", "{", "}", "[", "]", "&a ", "*a", "!!", "!!binary ", "|", ">", "\"", "'", "#", "%",
	"\x00", "\xff", "\xef\xbb\xbf", "\r\n", "\r", " ", "  ", "\n", "? ", ",", "<<: ", "!!set", "- - - -", "{{", ": : :", "@", "`", "\\", " ", "0x1F", "kind: List\n", "items:\n"}

func mutateBytes(g *Rng, data []byte) ([]byte, string) {
	d := append([]byte{}, data...)
	n := 1 + g.Intn(3)
	var desc []string
	for i := 0; i < n; i++ {
		pos := 0
		if len(d) > 0 {
			pos = g.Intn(len(d) + 1)
		}
		switch g.Intn(9) {
		case 0: // flip
			if len(d) > 0 {
				p := g.Intn(len(d))
				d[p] ^= byte(1 << uint(g.Intn(8)))
				desc = append(desc, "flip")
			}
		case 1, 2: // insert chunk
			ch := g.Pick(c12ByteChunks)
			d = append(d[:pos], append([]byte(ch), d[pos:]...)...)
			desc = append(desc, fmt.Sprintf("insert%q", ch))
		case 3: // delete range
			if len(d) > 0 {
				p := g.Intn(len(d))
				l := 1 + g.Intn(12)
				if p+l > len(d) {
					l = len(d) - p
				}
				d = append(d[:p], d[p+l:]...)
				desc = append(desc, "delete")
			}
		case 4: // truncate
			d = d[:pos]
			desc = append(desc, "truncate")
		case 5: // duplicate a line
			lines := bytes.SplitAfter(d, []byte("\n"))
			if len(lines) > 0 {
				j := g.Intn(len(lines))
				var nd []byte
				for k, l := range lines {
					nd = append(nd, l...)
					if k == j {
						nd = append(nd, l...)
					}
				}
				d = nd
				desc = append(desc, "dupline")
			}
		case 6: // swap two lines
			lines := bytes.SplitAfter(d, []byte("\n"))
			if len(lines) > 1 {
				a, b := g.Intn(len(lines)), g.Intn(len(lines))
				lines[a], lines[b] = lines[b], lines[a]
				d = bytes.Join(lines, nil)
				desc = append(desc, "swaplines")
			}
		case 7: // change the indentation of a line
			lines := bytes.SplitAfter(d, []byte("\n"))
			if len(lines) > 0 {
				j := g.Intn(len(lines))
				if g.Bool() {
					lines[j] = append([]byte(g.Pick([]string{" ", "  ", "\t"})), lines[j]...)
				} else {
					lines[j] = bytes.TrimLeft(lines[j], " ")
				}
				d = bytes.Join(lines, nil)
				desc = append(desc, "indent")
			}
		default: // replace a byte with a random one
			if len(d) > 0 {
				d[g.Intn(len(d))] = byte(g.Intn(256))
				desc = append(desc, "randbyte")
			}
		}
	}
	return d, strings.Join(desc, "+")
}

// byteCase: a resource stream (valid multi-document file, byte-mutated) for the YAML readers.
func (gen *c12Gen) byteCase(g *Rng) c12Case {
	docs, _ := gen.genResources(g, fmt.Sprint(g.Intn(3)), false)
	if len(docs) > 4 {
		docs = docs[:4]
	}
	var data []byte
	var muts []string
	if g.Chance(35) {
		// structural first
		f := &c12File{path: "/stream.yaml", docs: docs, role: "resources"}
		t := &c12Tree{files: []*c12File{f}}
		if d := gen.mutateOnce(g, t); d != "" {
			muts = append(muts, d)
		}
		docs = f.docs
	}
	data, err := encodeDocs(docs)
	if err != nil {
		data = []byte("a: b\n")
	}
	if len(muts) == 0 || g.Chance(60) {
		var desc string
		data, desc = mutateBytes(g, data)
		muts = append(muts, "bytes:"+desc)
	}
	kind := []string{"kio", "factory", "kio-keep", "factory"}[g.Intn(4)]
	return c12Case{Kind: kind, Data: data, Muts: muts}
}

// ---------- shrinking ----------

// c12Shrink tries to make a failing case smaller while its class stays the same.
// Bounded: at most maxTries executions (hangs are expensive: their budget is smaller).
func c12Shrink(c c12Case, res c12Result) (c12Case, c12Result, int) {
	maxTries := 240
	to := 0
	if res.Outcome == "hang" || res.Outcome == "mem" {
		maxTries = 12
		to = 2500
	}
	var p *c12Proc
	defer func() { p.kill() }()
	tries, steps := 0, 0
	cur, curRes := c, res
	try := func(cand c12Case) bool {
		if tries >= maxTries {
			return false
		}
		tries++
		cand.TimeoutMs = to
		r := c12Exec(&p, cand)
		if r.Class == res.Class {
			cand.TimeoutMs = c.TimeoutMs
			cur, curRes = cand, r
			steps++
			return true
		}
		return false
	}
	if c.Kind != "build" {
		// line-wise deletion
		for pass := 0; pass < 2; pass++ {
			lines := bytes.SplitAfter(cur.Data, []byte("\n"))
			for i := len(lines) - 1; i >= 0 && tries < maxTries; i-- {
				cand := cur
				var nd []byte
				for j, l := range lines {
					if j != i {
						nd = append(nd, l...)
					}
				}
				cand.Data = nd
				if try(cand) {
					lines = bytes.SplitAfter(cur.Data, []byte("\n"))
				}
			}
		}
		return cur, curRes, steps
	}
	// whole files first (unreferenced leftovers, then anything the failure does not need)
	{
		names := make([]string, 0, len(cur.Files))
		for pth := range cur.Files {
			names = append(names, pth)
		}
		sort.Strings(names)
		for _, pth := range names {
			if tries >= maxTries/3 {
				break
			}
			cand := cur
			cand.Files = map[string]blob{}
			for k, v := range cur.Files {
				if k != pth {
					cand.Files[k] = v
				}
			}
			try(cand)
		}
	}
	// structural deletion inside every YAML file, biggest subtrees first (directives, documents, fields)
	paths := make([]string, 0, len(cur.Files))
	for pth := range cur.Files {
		paths = append(paths, pth)
	}
	sort.Strings(paths)
	for pass := 0; pass < 3 && tries < maxTries; pass++ {
		progress := false
		for _, pth := range paths {
			if !(strings.HasSuffix(pth, ".yaml")) {
				continue
			}
			if _, present := cur.Files[pth]; !present {
				continue
			}
			docs, err := decodeDocs(cur.Files[pth])
			if err != nil || len(docs) == 0 {
				continue
			}
			f := &c12File{path: pth, docs: docs}
			for depthLimit := 1; depthLimit <= 6 && tries < maxTries; depthLimit++ {
				for {
					refs := collectRefs(f)
					done := true
					for i := len(refs) - 1; i >= 0 && tries < maxTries; i-- {
						ref := refs[i]
						if ref.parent == nil && len(f.docs) <= 1 {
							continue
						}
						if strings.Count(ref.path, "/") != depthLimit && !(ref.parent == nil && depthLimit == 1) {
							continue
						}
						// candidate: the file without this node
						saveDocs := f.docs
						var saveContent []*yaml.Node
						if ref.parent == nil {
							nd := append([]*yaml.Node{}, f.docs[:ref.doc]...)
							f.docs = append(nd, f.docs[ref.doc+1:]...)
						} else {
							saveContent = ref.parent.Content
							nc := append([]*yaml.Node{}, ref.parent.Content...)
							if ref.parent.Kind == yaml.MappingNode {
								nc = append(nc[:ref.idx-1], nc[ref.idx+1:]...)
							} else {
								nc = append(nc[:ref.idx], nc[ref.idx+1:]...)
							}
							ref.parent.Content = nc
						}
						b, err := encodeDocs(f.docs)
						ok := false
						if err == nil {
							cand := cur
							cand.Files = map[string]blob{}
							for k, v := range cur.Files {
								cand.Files[k] = v
							}
							cand.Files[pth] = b
							ok = try(cand)
						}
						if ok {
							progress = true
							done = false
							break // refs are stale
						}
						// undo
						if ref.parent == nil {
							f.docs = saveDocs
						} else {
							ref.parent.Content = saveContent
						}
					}
					if done || tries >= maxTries {
						break
					}
				}
			}
		}
		if !progress {
			break
		}
	}
	return cur, curRes, steps
}
