package main

import (
	"fmt"
	"strings"

	"sigs.k8s.io/kustomize/api/krusty"
	"sigs.k8s.io/kustomize/api/provider"
	"sigs.k8s.io/kustomize/api/resource"
	"sigs.k8s.io/kustomize/kyaml/filesys"
	kyaml "sigs.k8s.io/kustomize/kyaml/yaml"
)

// C04, identity layer: api/resource Resource.ApplySmPatch (and resWrangler.ApplySmPatch through krusty builds)
// must leave the target's kind / name / namespace as they were, unless the patch carries allowKindChange /
// allowNameChange (the namespace is never taken from the patch; a target without namespace stays without).
//
//   level "resource":        Resource.ApplySmPatch on factory-made resources; sent to the model (CI cases of
//                            Corr/C04.v: outcome class, deleted?, GetKind/GetName/GetNamespace) and checked by the law
//   level "krusty-patches":  kustomization with `patches:` + target selector + options (law only)
//   level "krusty-psm":      kustomization with `patchesStrategicMerge:` (matched by id; law only)

type ident04 struct {
	kind, name, ns string
}

func identOf(r *resource.Resource) ident04 {
	return ident04{r.GetKind(), r.GetName(), r.GetNamespace()}
}

var resFactory04 = provider.NewDefaultDepProvider().GetResourceFactory()

// genIdent04 builds one identity case.
func genIdent04(rng *Rng) case04 {
	type tk struct{ kind, av, other string }
	kinds := []tk{{"ConfigMap", "v1", "Secret"}, {"Deployment", "apps/v1", "StatefulSet"}, {"Service", "v1", "ConfigMap"}, {"Foo", "example.com/v1", "Bar"}}
	k := kinds[rng.Intn(len(kinds))]
	md := gM("name", "obj")
	tns := rng.Pick([]string{"", "", "ns1", "default"})
	if tns != "" {
		md.set("namespace", gS(tns))
	}
	if rng.Chance(40) {
		md.set("labels", genStrMap(rng, 2))
	}
	t := gM("apiVersion", k.av, "kind", k.kind, "metadata", md)
	switch k.kind {
	case "ConfigMap":
		t.set("data", genStrMap(rng, 3))
	case "Deployment":
		t.set("spec", gM("replicas", "1", "template", gM("spec", gM("containers", gL(genContainer(rng, "a"))))))
	case "Service":
		t.set("spec", gM("type", "ClusterIP", "ports", genPorts(rng, "port")))
	default:
		t.set("spec", genCustomBody(rng, 1))
	}
	// the patch text: its own idea of kind / name / namespace
	pmd := gM("name", "obj")
	nameMode := rng.Pick([]string{"same", "same", "other"})
	if nameMode == "other" {
		pmd.set("name", gS("renamed"))
	}
	nsMode := rng.Pick([]string{"absent", "equal", "different", "default"})
	switch nsMode {
	case "equal":
		if tns != "" {
			pmd.set("namespace", gS(tns))
		}
	case "different":
		pmd.set("namespace", gS("elsewhere"))
	case "default":
		pmd.set("namespace", gS("default"))
	}
	if rng.Chance(30) {
		pmd.set("labels", gM("patched", `"yes"`))
	}
	pkind := k.kind
	kindMode := "same"
	if rng.Chance(30) {
		pkind, kindMode = k.other, "other"
	}
	p := gM("apiVersion", k.av, "kind", pkind, "metadata", pmd)
	switch k.kind {
	case "ConfigMap":
		p.set("data", gM("added", "v"))
	case "Deployment":
		p.set("spec", gM("replicas", "3"))
	case "Service":
		p.set("spec", gM("type", "NodePort"))
	default:
		p.set("spec", gM("added", "v"))
	}
	if rng.Chance(4) {
		p.set("$patch", gS("delete")) // the resource is deleted: nothing to restore
	}
	c := case04{Target: t.yaml(), Patch: p.yaml(), Prepend: true,
		AllowName: rng.Chance(35), AllowKind: rng.Chance(35), Domain: "I"}
	c.Note = fmt.Sprintf("target-ns=%q patch-ns=%s patch-name=%s patch-kind=%s", tns, nsMode, nameMode, kindMode)
	switch r := rng.Intn(100); {
	case r < 50:
		c.Level = "resource"
	case r < 85:
		c.Level = "krusty-patches"
	default:
		c.Level = "krusty-psm"
		// matched by id: the patch must name the target (kind, name; namespace equal, or "" ~ default)
		pmd.set("name", gS("obj"))
		p.set("kind", gS(k.kind))
		pmd.keys = filterOut(pmd.keys, "namespace", &pmd.vals)
		if tns == "" || tns == "default" {
			if rng.Bool() {
				pmd.set("namespace", gS("default"))
			}
		} else {
			pmd.set("namespace", gS(tns))
		}
		c.AllowName, c.AllowKind = false, false
		c.Patch = p.yaml()
		pns := "absent"
		if v := pmd.get("namespace"); v != nil {
			pns = v.text
		}
		c.Note = fmt.Sprintf("target-ns=%q patch-ns=%s patch-name=same patch-kind=same (matched by id)", tns, pns)
	}
	return c
}

// applyIdentResource runs Resource.ApplySmPatch; t and p are fresh resources.
func applyIdentResource(c case04) (t, p *resource.Resource, cls, msg string, before ident04, err error) {
	t, err = resFactory04.FromBytes([]byte(c.Target))
	if err != nil {
		return
	}
	p, err = resFactory04.FromBytes([]byte(c.Patch))
	if err != nil {
		return
	}
	if c.AllowName {
		p.AllowNameChange()
	}
	if c.AllowKind {
		p.AllowKindChange()
	}
	before = identOf(t)
	return
}

// identLaw: output identity == target identity unless allowed.
func identLaw(level string, c case04, before, after ident04) []law04 {
	var out []law04
	add := func(what, b, a string) {
		out = append(out, law04{"identity", "C04/identity/" + what + "-changed",
			fmt.Sprintf("%s: %s of the target was %q, after the patch it is %q (allowNameChange=%v allowKindChange=%v; %s)",
				level, what, b, a, c.AllowName, c.AllowKind, c.Note)})
	}
	if !c.AllowKind && before.kind != after.kind {
		add("kind", before.kind, after.kind)
	}
	if !c.AllowName && before.name != after.name {
		add("name", before.name, after.name)
	}
	if before.ns != after.ns {
		add("namespace", before.ns, after.ns)
	}
	return out
}

// lawsIdent04 evaluates the identity law for a case at its level.
func lawsIdent04(c case04) []law04 {
	switch c.Level {
	case "resource":
		t, p, _, _, before, err := applyIdentResource(c)
		if err != nil {
			return nil
		}
		cls, _ := protect(func() error { return t.ApplySmPatch(p) })
		if cls == ClsPanic {
			return []law04{{"identity", "C04/identity/panic", "Resource.ApplySmPatch panics"}}
		}
		if cls != ClsOk || t.IsNilOrEmpty() {
			return nil
		}
		return identLaw("Resource.ApplySmPatch", c, before, identOf(t))
	case "krusty-patches", "krusty-psm":
		return krustyIdent04(c)
	}
	return nil
}

var lastKrusty04 string // outcome of the last krusty identity build (for the distribution)

func krustyIdent04(c case04) []law04 {
	lastKrusty04 = "factory-error"
	t, err := resFactory04.FromBytes([]byte(c.Target))
	if err != nil {
		return nil
	}
	before := identOf(t)
	fs := filesys.MakeFsInMemory()
	_ = fs.WriteFile("/app/target.yaml", []byte(c.Target))
	_ = fs.WriteFile("/app/patch.yaml", []byte(c.Patch))
	var k strings.Builder
	k.WriteString("apiVersion: kustomize.config.k8s.io/v1beta1\nkind: Kustomization\nresources:\n  - target.yaml\n")
	if c.Level == "krusty-psm" {
		k.WriteString("patchesStrategicMerge:\n  - patch.yaml\n")
	} else {
		fmt.Fprintf(&k, "patches:\n  - path: patch.yaml\n    target:\n      kind: %s\n      name: %s\n    options:\n      allowNameChange: %v\n      allowKindChange: %v\n",
			before.kind, before.name, c.AllowName, c.AllowKind)
	}
	_ = fs.WriteFile("/app/kustomization.yaml", []byte(k.String()))
	var after []ident04
	cls, _ := protect(func() error {
		m, err := krusty.MakeKustomizer(krusty.MakeDefaultOptions()).Run(fs, "/app")
		if err != nil {
			return err
		}
		for _, r := range m.Resources() {
			after = append(after, identOf(r))
		}
		return nil
	})
	if cls == ClsPanic {
		lastKrusty04 = "panic"
		return []law04{{"identity", "C04/identity/panic", "krusty build panics"}}
	}
	if cls != ClsOk || len(after) == 0 {
		lastKrusty04 = "build-error"
		if cls == ClsOk {
			lastKrusty04 = "deleted"
		}
		return nil // build error (e.g. no matching target) or the resource was deleted
	}
	lastKrusty04 = "built"
	if len(after) != 1 {
		return []law04{{"identity", "C04/identity/resource-count", fmt.Sprintf("one target in, %d resources out", len(after))}}
	}
	return identLaw(c.Level, c, before, after[0])
}

// identCaseTerm04: the CI term of a resource-level case (inputs taken before the call mutates them).
func identCaseTerm04(c case04) (string, string, bool) {
	t, p, _, _, _, err := applyIdentResource(c)
	if err != nil {
		return "", "factory-error", false
	}
	if hasAlias(t.YNode()) || hasAlias(p.YNode()) {
		return "", "unrepresentable", false
	}
	tt, ok1 := mNode(t.YNode())
	pt, ok2 := mNode(p.YNode())
	if !ok1 || !ok2 {
		return "", "unrepresentable", false
	}
	sch := dumpSchemaTree(&t.RNode, &p.RNode)
	ns := nonstrOf(&t.RNode, &p.RNode)
	cls, _ := protect(func() error { return t.ApplySmPatch(p) })
	deleted := false
	after := ident04{}
	if cls == ClsOk {
		deleted = t.IsNilOrEmpty()
		if !deleted {
			after = identOf(t)
		}
	}
	term := fmt.Sprintf("(CI (mk04i %s %s %s %s %s %s %s %s %s %s))", pt, tt, mStrList(kyaml.AssociativeSequenceKeys), sch,
		mStrList(ns), cls, coqBool(deleted), qs(after.kind), qs(after.name), qs(after.ns))
	return term, cls, true
}

func runIdent04(r *Run, c case04) {
	r.Count("identity_level", c.Level)
	if i := strings.Index(c.Note, "patch-ns="); i >= 0 {
		r.Count("identity_shape", c.Note[i:])
	}
	if c.Level == "resource" {
		term, cls, ok := identCaseTerm04(c)
		if !ok {
			r.Meta.Skipped++
			r.Count("skipped", cls)
		} else {
			r.Count("identity_class", cls)
			r.AddCase(term, c, true)
		}
	} else {
		r.AddEval(c.Level+c.Target+c.Patch, true)
	}
	vs := lawsIdent04(c)
	if c.Level != "resource" {
		r.Count("identity_krusty", c.Level+":"+lastKrusty04)
	}
	for _, v := range vs {
		r.Count("law_failures", v.Class)
		r.Violation(OracleViolation{Law: v.Law, Class: v.Class, Detail: v.Detail, Replay: c})
	}
}
