package main

import (
	"encoding/json"
	"fmt"
	"os"
	"sort"
	"strings"

	"sigs.k8s.io/kustomize/api/filters/patchstrategicmerge"
	kyaml "sigs.k8s.io/kustomize/kyaml/yaml"
	"sigs.k8s.io/kustomize/kyaml/yaml/merge2"
	"sigs.k8s.io/kustomize/kyaml/yaml/walk"
)

// C04: strategic-merge patch semantics (kyaml merge2 on the generic walker).
// Correspondence: walk.Walker{[target, patch], merge2.Merger{}} / merge2.Merge / patchstrategicmerge.Filter
// vs KV.Yaml.Merge2.merge2 on (patch, target, options, schema projection) cases.
// Search: idempotence, frame and the reference semantics evaluated directly on the implementation.

func init() {
	register("C04", propDef{
		header:     "From KV Require Import Corr.C04.\nOpen Scope string_scope.\n",
		caseType:   "case04x",
		mismatchFn: "mismatches04x",
		run:        runC04,
		replay:     replayC04,
	})
}

// ---------- generated documents: a small ordered tree, emitted as block YAML ----------

type g4 struct {
	kind int // 0 scalar (text is YAML source), 1 map, 2 seq
	text string
	keys []string
	vals []*g4
}

func gS(t string) *g4 { return &g4{kind: 0, text: t} }
func gM(kv ...interface{}) *g4 {
	g := &g4{kind: 1}
	for i := 0; i+1 < len(kv); i += 2 {
		g.keys = append(g.keys, kv[i].(string))
		switch v := kv[i+1].(type) {
		case *g4:
			g.vals = append(g.vals, v)
		case string:
			g.vals = append(g.vals, gS(v))
		}
	}
	return g
}
func gL(vs ...*g4) *g4 { return &g4{kind: 2, vals: vs} }

func (g *g4) get(k string) *g4 {
	if g == nil || g.kind != 1 {
		return nil
	}
	for i, x := range g.keys {
		if x == k {
			return g.vals[i]
		}
	}
	return nil
}
func (g *g4) set(k string, v *g4) {
	for i, x := range g.keys {
		if x == k {
			g.vals[i] = v
			return
		}
	}
	g.keys = append(g.keys, k)
	g.vals = append(g.vals, v)
}
func (g *g4) clone() *g4 {
	if g == nil {
		return nil
	}
	c := &g4{kind: g.kind, text: g.text, keys: append([]string{}, g.keys...)}
	for _, v := range g.vals {
		c.vals = append(c.vals, v.clone())
	}
	return c
}

func (g *g4) leafish() bool {
	return g.kind == 0 || (g.kind == 1 && len(g.keys) == 0) || (g.kind == 2 && len(g.vals) == 0)
}

func (g *g4) emit(b *strings.Builder, indent int, inline bool) {
	pad := strings.Repeat("  ", indent)
	switch g.kind {
	case 0:
		b.WriteString(g.text)
		b.WriteString("\n")
	case 1:
		if len(g.keys) == 0 {
			b.WriteString("{}\n")
			return
		}
		for i, k := range g.keys {
			if i > 0 || !inline {
				b.WriteString(pad)
			}
			b.WriteString(k)
			b.WriteString(":")
			v := g.vals[i]
			if v.leafish() {
				if v.kind == 0 && v.text == "" {
					b.WriteString("\n")
				} else {
					b.WriteString(" ")
					v.emit(b, indent+1, true)
				}
			} else {
				b.WriteString("\n")
				v.emit(b, indent+1, false)
			}
		}
	case 2:
		if len(g.vals) == 0 {
			b.WriteString("[]\n")
			return
		}
		for i, v := range g.vals {
			if i > 0 || !inline {
				b.WriteString(pad)
			}
			b.WriteString("- ")
			if v.kind == 0 && v.text == "" {
				b.WriteString("\n")
			} else {
				v.emit(b, indent+1, true)
			}
		}
	}
}

func (g *g4) yaml() string {
	var b strings.Builder
	g.emit(&b, 0, false)
	return b.String()
}

// ---------- target generators ----------

var c04Names = []string{"a", "b", "c", "web", "db"}
var c04Scalars = []string{"x", "y", "1", `"1"`, "true", `"true"`, "v2", "8080", "0.5", `"on"`, "no", "z w"}
var c04Keys = []string{"alpha", "beta", "gamma", "zeta", "Aa", "m", "name"}

func pickN(rng *Rng, l []string, n int) []string {
	idx := map[int]bool{}
	out := []string{}
	for len(out) < n && len(idx) < len(l) {
		i := rng.Intn(len(l))
		if idx[i] {
			continue
		}
		idx[i] = true
		out = append(out, l[i])
	}
	return out
}

func genStrMap(rng *Rng, max int) *g4 {
	g := &g4{kind: 1}
	for _, k := range pickN(rng, c04Keys, rng.Intn(max+1)) {
		g.keys = append(g.keys, k)
		g.vals = append(g.vals, gS(rng.Pick(c04Scalars)))
	}
	return g
}

func genScalarList(rng *Rng, max int) *g4 {
	g := &g4{kind: 2}
	for _, s := range pickN(rng, []string{"p", "q", "r", `"1"`, "--v=2", "x y"}, rng.Intn(max+1)) {
		g.vals = append(g.vals, gS(s))
	}
	return g
}

func genEnv(rng *Rng) *g4 {
	g := &g4{kind: 2}
	for _, n := range pickN(rng, []string{"X", "Y", "Z", "PATH"}, 1+rng.Intn(3)) {
		if rng.Chance(25) {
			g.vals = append(g.vals, gM("name", n, "valueFrom", gM("configMapKeyRef", gM("name", "cm", "key", rng.Pick(c04Names)))))
		} else {
			g.vals = append(g.vals, gM("name", n, "value", rng.Pick([]string{`"1"`, "v", `"true"`, "a b"})))
		}
	}
	return g
}

// secondaryKey: the second merge key of the lists with a composite key ("" for single-key lists)
func secondaryKey(primary string) string {
	switch primary {
	case "containerPort", "port":
		return "protocol"
	case "topologyKey":
		return "whenUnsatisfiable"
	}
	return ""
}

// Pod spec.topologySpreadConstraints: merge keys [topologyKey, whenUnsatisfiable]
func genTSC(rng *Rng) *g4 {
	g := &g4{kind: 2}
	mode := rng.Intn(100)
	for _, k := range pickN(rng, []string{"zone", "hostname", "region"}, 1+rng.Intn(2)) {
		e := gM("topologyKey", k)
		if mode >= 70 || (mode >= 40 && rng.Chance(50)) {
			e.set("whenUnsatisfiable", gS(rng.Pick([]string{"DoNotSchedule", "ScheduleAnyway"})))
		}
		if rng.Chance(60) {
			e.set("maxSkew", gS(rng.Pick([]string{"1", "2"})))
		}
		g.vals = append(g.vals, e)
	}
	if mode >= 40 && rng.Chance(20) {
		k := g.vals[0].get("topologyKey").text
		g.vals[0].set("whenUnsatisfiable", gS("DoNotSchedule"))
		g.vals = append(g.vals, gM("topologyKey", k, "whenUnsatisfiable", "ScheduleAnyway"))
	}
	return g
}

func genPorts(rng *Rng, key string) *g4 {
	g := &g4{kind: 2}
	// the secondary merge key (protocol): written on no element (the usual hand-written style), on every element,
	// or on some
	mode := rng.Intn(100)
	for _, p := range pickN(rng, []string{"80", "8080", "443", "53"}, 1+rng.Intn(3)) {
		e := gM(key, p)
		if mode >= 70 || (mode >= 40 && rng.Chance(50)) {
			e.set("protocol", gS(rng.Pick([]string{"TCP", "UDP"})))
		}
		if rng.Chance(40) {
			e.set("name", gS("p"+p))
		}
		if key == "port" && rng.Chance(50) {
			e.set("targetPort", gS(rng.Pick([]string{"8080", "http"})))
		}
		g.vals = append(g.vals, e)
	}
	// sometimes the same port twice with different protocols (the multi-key case)
	if mode >= 40 && rng.Chance(20) && len(g.vals) > 0 {
		p := g.vals[0].get(key).text
		g.vals[0].set("protocol", gS("TCP"))
		g.vals = append(g.vals, gM(key, p, "protocol", "UDP"))
	}
	return g
}

func genContainer(rng *Rng, name string) *g4 {
	c := gM("name", name, "image", name+":"+rng.Pick([]string{"1", "2", "latest"}))
	if rng.Chance(40) {
		a := genScalarList(rng, 3)
		if rng.Chance(30) {
			a.vals = append(a.vals, gS("1")) // atomic lists may mix types
		}
		c.set("args", a)
	}
	if rng.Chance(50) {
		c.set("env", genEnv(rng))
	}
	if rng.Chance(40) {
		c.set("ports", genPorts(rng, "containerPort"))
	}
	if rng.Chance(30) {
		vm := &g4{kind: 2}
		for _, m := range pickN(rng, []string{"/data", "/etc/x", "/tmp"}, 1+rng.Intn(2)) {
			vm.vals = append(vm.vals, gM("name", rng.Pick([]string{"v1", "v2"}), "mountPath", m))
		}
		c.set("volumeMounts", vm)
	}
	if rng.Chance(30) {
		c.set("resources", gM("limits", gM("cpu", rng.Pick([]string{"1", `"500m"`}), "memory", "1Gi")))
	}
	if rng.Chance(15) {
		c.set("securityContext", gM("capabilities", gM("add", genScalarList(rng, 2))))
	}
	return c
}

func genPodSpec(rng *Rng) *g4 {
	cs := &g4{kind: 2}
	for _, n := range pickN(rng, c04Names, 1+rng.Intn(3)) {
		cs.vals = append(cs.vals, genContainer(rng, n))
	}
	ps := gM("containers", cs)
	if rng.Chance(25) {
		ic := &g4{kind: 2}
		for _, n := range pickN(rng, []string{"init1", "init2"}, 1+rng.Intn(2)) {
			ic.vals = append(ic.vals, genContainer(rng, n))
		}
		ps.set("initContainers", ic)
	}
	if rng.Chance(40) {
		vs := &g4{kind: 2}
		for _, n := range pickN(rng, []string{"v1", "v2", "v3"}, 1+rng.Intn(2)) {
			if rng.Bool() {
				vs.vals = append(vs.vals, gM("name", n, "emptyDir", gM()))
			} else {
				vs.vals = append(vs.vals, gM("name", n, "configMap", gM("name", "cm-"+n)))
			}
		}
		ps.set("volumes", vs)
	}
	if rng.Chance(30) {
		ps.set("nodeSelector", genStrMap(rng, 2))
	}
	if rng.Chance(25) {
		t := &g4{kind: 2}
		for _, k := range pickN(rng, []string{"k1", "k2"}, 1+rng.Intn(2)) {
			t.vals = append(t.vals, gM("key", k, "operator", "Exists"))
		}
		ps.set("tolerations", t)
	}
	if rng.Chance(20) {
		ps.set("imagePullSecrets", gL(gM("name", "reg1"), gM("name", "reg2")))
	}
	if rng.Chance(20) {
		ps.set("serviceAccountName", gS("sa"))
	}
	if rng.Chance(20) {
		ps.set("topologySpreadConstraints", genTSC(rng))
	}
	return ps
}

func genMeta(rng *Rng, name string) *g4 {
	m := gM("name", name)
	if rng.Chance(40) {
		m.set("namespace", gS(rng.Pick([]string{"ns1", "ns2"})))
	}
	if rng.Chance(60) {
		m.set("labels", genStrMap(rng, 3))
	}
	if rng.Chance(40) {
		m.set("annotations", genStrMap(rng, 3))
	}
	if rng.Chance(25) {
		f := &g4{kind: 2}
		for _, s := range pickN(rng, []string{"p", "q", "r", "x y", "--v=2"}, rng.Intn(4)) {
			f.vals = append(f.vals, gS(s))
		}
		m.set("finalizers", f)
	}
	if rng.Chance(10) {
		m.set("creationTimestamp", gS("null"))
	}
	return m
}

// genCustomBody: arbitrary nesting for the schema-less kind (its lists are atomic unless infer is on)
func genCustomBody(rng *Rng, depth int) *g4 {
	g := &g4{kind: 1}
	for _, k := range pickN(rng, c04Keys, 1+rng.Intn(4)) {
		var v *g4
		r := rng.Intn(10)
		switch {
		case depth <= 0 || r < 4:
			v = gS(rng.Pick(c04Scalars))
		case r < 7:
			v = genCustomBody(rng, depth-1)
		case r < 8:
			v = genScalarList(rng, 3)
		default:
			v = &g4{kind: 2}
			for _, n := range pickN(rng, c04Names, 1+rng.Intn(3)) {
				e := genCustomBody(rng, depth-1)
				e.keys = append([]string{"name"}, filterOut(e.keys, "name", &e.vals)...)
				e.vals = append([]*g4{gS(n)}, e.vals...)
				v.vals = append(v.vals, e)
			}
		}
		g.keys = append(g.keys, k)
		g.vals = append(g.vals, v)
	}
	return g
}

func filterOut(keys []string, drop string, vals *[]*g4) []string {
	ks := []string{}
	vs := []*g4{}
	for i, k := range keys {
		if k == drop {
			continue
		}
		ks = append(ks, k)
		vs = append(vs, (*vals)[i])
	}
	*vals = vs
	return ks
}

type kindSpec struct{ kind, apiVersion string }

var c04Kinds = []kindSpec{
	{"Deployment", "apps/v1"}, {"Deployment", "apps/v1"}, {"StatefulSet", "apps/v1"},
	{"Service", "v1"}, {"ConfigMap", "v1"}, {"Pod", "v1"}, {"Foo", "example.com/v1"}, {"Foo", "example.com/v1"},
}

func genTarget(rng *Rng) (*g4, kindSpec) {
	ks := c04Kinds[rng.Intn(len(c04Kinds))]
	t := gM("apiVersion", ks.apiVersion, "kind", ks.kind, "metadata", genMeta(rng, "obj"))
	switch ks.kind {
	case "Deployment", "StatefulSet":
		spec := gM("replicas", rng.Pick([]string{"1", "2", "3"}))
		spec.set("selector", gM("matchLabels", genStrMap(rng, 2)))
		if rng.Chance(30) {
			spec.set("strategy", gM("type", "RollingUpdate", "rollingUpdate", gM("maxSurge", rng.Pick([]string{"1", `"25%"`}))))
		}
		spec.set("template", gM("metadata", gM("labels", genStrMap(rng, 2)), "spec", genPodSpec(rng)))
		t.set("spec", spec)
	case "Pod":
		t.set("spec", genPodSpec(rng))
	case "Service":
		spec := gM("type", rng.Pick([]string{"ClusterIP", "NodePort"}))
		spec.set("selector", genStrMap(rng, 2))
		spec.set("ports", genPorts(rng, "port"))
		t.set("spec", spec)
	case "ConfigMap":
		t.set("data", genStrMap(rng, 4))
		if rng.Chance(20) {
			t.set("immutable", gS("true"))
		}
	default:
		t.set("spec", genCustomBody(rng, 3))
		if rng.Chance(30) {
			// an embedded typed object: the walker picks a schema up from kind/apiVersion wherever it has none
			ks.kind = "Foo+embedded"
			t.get("spec").set("template", gM("apiVersion", "v1", "kind", "Pod", "metadata", gM("name", "p"), "spec", genPodSpec(rng)))
		}
	}
	return t, ks
}

// ---------- patch generator (relative to the target) ----------

// listKeyOf guesses the merge key the elements of a list of maps are addressed by.
func listKeyOf(l *g4) string {
	for _, k := range []string{"containerPort", "port", "topologyKey", "mountPath", "name", "key"} {
		all := len(l.vals) > 0
		for _, e := range l.vals {
			if e.kind != 1 || e.get(k) == nil {
				all = false
			}
		}
		if all {
			return k
		}
	}
	return ""
}

type pgen struct {
	rng *Rng
	adv int // percentage of adversarial choices
	ops map[string]int
	// keyed: lists of mappings are addressed element-wise (the kind has a schema, or inference is on);
	// otherwise the grammar only replaces lists
	keyed bool
}

func (p *pgen) op(s string) { p.ops[s]++ }

func (p *pgen) newScalar(old string) *g4 {
	for i := 0; i < 4; i++ {
		s := p.rng.Pick(c04Scalars)
		if s != old {
			return gS(s)
		}
	}
	return gS("changed")
}

func (p *pgen) newValue(depth int) *g4 {
	r := p.rng.Intn(10)
	switch {
	case r < 5 || depth <= 0:
		return gS(p.rng.Pick(c04Scalars))
	case r < 8:
		m := genStrMap(p.rng, 2)
		if p.rng.Chance(p.adv) && len(m.keys) > 0 {
			m.vals[0] = gS(p.rng.Pick([]string{"null", "", "~"})) // null inside added content
			p.op("adv:null-in-added")
		}
		return m
	default:
		return genScalarList(p.rng, 2)
	}
}

// patchMap builds a patch for the mapping t.
func (p *pgen) patchMap(t *g4, depth int, root bool) *g4 {
	out := &g4{kind: 1}
	rng := p.rng
	for i, k := range t.keys {
		v := t.vals[i]
		if root && (k == "apiVersion" || k == "kind" || k == "metadata") {
			continue
		}
		touch := 22
		if v.kind != 0 {
			touch = 62 // descend: the keyed lists sit four levels down
		}
		if depth <= 1 {
			touch += 15
		}
		if !rng.Chance(touch) {
			continue
		}
		if pv := p.patchValue(v, depth); pv != nil {
			out.keys = append(out.keys, k)
			out.vals = append(out.vals, pv)
		}
	}
	// additions
	if rng.Chance(30) {
		k := rng.Pick([]string{"added", "extra", "Aa", "beta"})
		if t.get(k) == nil && out.get(k) == nil {
			out.keys = append(out.keys, k)
			out.vals = append(out.vals, p.newValue(2))
			p.op("add-field")
		}
	}
	if rng.Chance(p.adv / 2) {
		k := rng.Pick([]string{"ghost", "gone"})
		if t.get(k) == nil && out.get(k) == nil {
			out.keys = append(out.keys, k)
			switch rng.Intn(4) {
			case 0:
				out.vals = append(out.vals, gS("null"))
				p.op("adv:null-absent")
			case 1:
				out.vals = append(out.vals, gM("$patch", "delete"))
				p.op("adv:delete-absent")
			case 2:
				out.vals = append(out.vals, gM("$patch", "replace", "k", "v"))
				p.op("adv:replace-absent")
			default:
				out.vals = append(out.vals, gM("inner", gM("$patch", "merge", "k", "v"), "n", "null"))
				p.op("adv:directive-in-added")
			}
		}
	}
	return out
}

// patchValue: a patch fragment for target value v (nil = do not mention)
func (p *pgen) patchValue(v *g4, depth int) *g4 {
	rng := p.rng
	switch v.kind {
	case 0:
		r := rng.Intn(100)
		switch {
		case r < 60:
			p.op("set-scalar")
			return p.newScalar(v.text)
		case r < 70:
			p.op("set-scalar-same")
			return gS(v.text)
		case r < 85:
			p.op("null-scalar")
			return gS(rng.Pick([]string{"null", "null", "~", ""}))
		default:
			if rng.Chance(p.adv) {
				p.op("adv:scalar-to-map")
				return gM("k", "v")
			}
			p.op("set-scalar")
			return p.newScalar(v.text)
		}
	case 1:
		r := rng.Intn(100)
		switch {
		case r < 60 && depth > 0:
			m := p.patchMap(v, depth-1, false)
			if len(m.keys) == 0 {
				if rng.Chance(50) {
					return nil
				}
				p.op("empty-map-patch")
			} else {
				p.op("merge-map")
			}
			return m
		case r < 70:
			p.op("null-map")
			return gS("null")
		case r < 78:
			p.op("delete-map")
			m := gM("$patch", "delete")
			if rng.Chance(30) {
				m.set("k", gS("v"))
			}
			return m
		case r < 88:
			p.op("replace-map")
			m := gM("$patch", "replace")
			nm := genStrMap(rng, 2)
			if rng.Chance(50) {
				m = &g4{kind: 1}
				m.keys = append(m.keys, nm.keys...)
				m.vals = append(m.vals, nm.vals...)
				m.set("$patch", gS("replace"))
			} else {
				m.keys = append(m.keys, nm.keys...)
				m.vals = append(m.vals, nm.vals...)
			}
			if len(v.keys) > 0 && rng.Chance(50) {
				m.set(v.keys[0], p.newValue(1))
			}
			return m
		case r < 94:
			p.op("merge-directive-map")
			m := p.patchMap(v, 0, false)
			m.set("$patch", gS("merge"))
			return m
		default:
			if rng.Chance(p.adv) {
				switch rng.Intn(3) {
				case 0:
					p.op("adv:map-to-scalar")
					return gS("flat")
				case 1:
					p.op("adv:unknown-directive")
					return gM("$patch", "frobnicate")
				default:
					p.op("adv:map-to-list")
					return gL(gS("q"))
				}
			}
			p.op("merge-map")
			return p.patchMap(v, 0, false)
		}
	default:
		return p.patchList(v, depth)
	}
}

func (p *pgen) patchList(v *g4, depth int) *g4 {
	rng := p.rng
	if rng.Chance(8) {
		p.op("null-list")
		return gS("null")
	}
	key := listKeyOf(v)
	if key == "key" || (!p.keyed && key != "") {
		// a list of mappings that the implementation treats as atomic: replace it by an edited copy
		p.op("atomic-maplist-replace")
		out := &g4{kind: 2}
		for _, e := range v.vals {
			if rng.Chance(60) {
				out.vals = append(out.vals, e.clone())
			}
		}
		if rng.Chance(60) {
			out.vals = append(out.vals, p.newElem(key, rng.Pick([]string{"new1", "new2"})))
		}
		return out
	}
	if secondaryKey(key) != "" {
		p.op("multi-key-list")
	}
	if key == "" {
		// list of scalars (or mixed): replace / extend
		out := &g4{kind: 2}
		r := rng.Intn(100)
		switch {
		case r < 50:
			p.op("scalar-list-new")
			for _, e := range v.vals {
				if rng.Chance(50) {
					out.vals = append(out.vals, e.clone())
				}
			}
			out.vals = append(out.vals, gS(rng.Pick([]string{"n1", "n2", "p", "x y"})))
		case r < 75:
			p.op("scalar-list-replace")
			out = genScalarList(rng, 3)
		case r < 85:
			p.op("scalar-list-empty")
		default:
			p.op("scalar-list-same")
			out = v.clone()
		}
		if rng.Chance(p.adv / 2) {
			out.vals = append(out.vals, gS(rng.Pick([]string{"null", `""`, "p"})))
			p.op("adv:odd-scalar-elem")
		}
		return out
	}
	out := &g4{kind: 2}
	// list-level directive
	r := rng.Intn(100)
	if r < 10 {
		p.op("list-replace-directive")
		out.vals = append(out.vals, gM("$patch", "replace"))
		for _, n := range pickN(rng, []string{"n1", "n2"}, rng.Intn(3)) {
			out.vals = append(out.vals, p.newElem(key, n))
		}
		if rng.Chance(40) && len(v.vals) > 0 {
			out.vals = append(out.vals, v.vals[0].clone())
		}
		if rng.Chance(30) { // directive not in first position
			out.vals = append(out.vals[1:], out.vals[0])
		}
		return out
	}
	if r < 14 {
		p.op("list-delete-directive")
		out.vals = append(out.vals, gM("$patch", "delete"))
		return out
	}
	if r < 17 {
		p.op("list-merge-directive")
		out.vals = append(out.vals, gM("$patch", "merge"))
	}
	for _, e := range v.vals {
		if !rng.Chance(50) {
			continue
		}
		kv := e.get(key).clone()
		r := rng.Intn(100)
		switch {
		case r < 60:
			p.op("elem-merge")
			pe := &g4{kind: 1}
			if depth > 0 {
				sub := &g4{kind: 1}
				for i, k := range e.keys { // the element without its key field
					if k != key {
						sub.keys = append(sub.keys, k)
						sub.vals = append(sub.vals, e.vals[i])
					}
				}
				pe = p.patchMap(sub, depth-1, false)
			}
			ne := gM(key, kv)
			// multi-key lists: sometimes spell the secondary key too
			if sk := secondaryKey(key); sk != "" {
				if pr := e.get(sk); pr != nil && rng.Chance(60) && pe.get(sk) == nil {
					ne.set(sk, pr.clone())
				}
			}
			ne.keys = append(ne.keys, pe.keys...)
			ne.vals = append(ne.vals, pe.vals...)
			if rng.Chance(20) { // key field not first
				ne.keys = append(ne.keys[1:], ne.keys[0])
				ne.vals = append(ne.vals[1:], ne.vals[0])
			}
			out.vals = append(out.vals, ne)
		case r < 80:
			p.op("elem-delete")
			ne := gM(key, kv, "$patch", "delete")
			if rng.Chance(30) {
				ne = gM("$patch", "delete", key, kv)
			}
			out.vals = append(out.vals, ne)
		case r < 88:
			p.op("elem-same")
			if e.get("ports") != nil || e.get("topologySpreadConstraints") != nil {
				p.op("multi-key-list")
			}
			out.vals = append(out.vals, e.clone())
		case r < 94:
			p.op("elem-replace-directive")
			ne := gM(key, kv, "$patch", "replace", "image", "replaced:1")
			out.vals = append(out.vals, ne)
		default:
			p.op("elem-merge-directive")
			out.vals = append(out.vals, gM(key, kv, "$patch", "merge", "extra", "e"))
		}
	}
	if rng.Chance(40) {
		p.op("elem-add")
		out.vals = append(out.vals, p.newElem(key, rng.Pick([]string{"new1", "new2", "9090", "/new"})))
	}
	if rng.Chance(p.adv) {
		switch rng.Intn(6) {
		case 0:
			p.op("adv:elem-without-key")
			out.vals = append(out.vals, gM("image", "nokey:1"))
		case 1:
			p.op("adv:dup-key-elems")
			out.vals = append(out.vals, p.newElem(key, "dup"), p.newElem(key, "dup"))
		case 2:
			p.op("adv:null-elem")
			out.vals = append(out.vals, gS("null"))
		case 3:
			p.op("adv:scalar-elem")
			out.vals = append(out.vals, gS("loose"))
		case 4:
			p.op("adv:delete-absent-elem")
			out.vals = append(out.vals, gM(key, "nosuch", "$patch", "delete"))
		default:
			p.op("adv:empty-map-elem")
			out.vals = append(out.vals, gM())
		}
	}
	if len(out.vals) == 0 {
		if rng.Chance(50) {
			return nil
		}
		p.op("empty-list-patch")
	}
	return out
}

func (p *pgen) newElem(key, val string) *g4 {
	e := gM(key, val)
	switch key {
	case "name":
		if p.rng.Chance(70) {
			e.set("image", gS("img:"+p.rng.Pick([]string{"1", "2"})))
		}
		if p.rng.Chance(30) {
			e.set("value", gS(p.rng.Pick([]string{`"1"`, "v"})))
		}
		if p.rng.Chance(20) {
			e.set("env", gL(gM("name", "N", "value", "v")))
		}
		if p.rng.Chance(p.adv) {
			e.set("gone", gS("null"))
			p.op("adv:null-in-added-elem")
		}
	case "containerPort", "port":
		if val == "new1" || val == "new2" || val == "/new" || val == "dup" || val == "n1" || val == "n2" {
			e.vals[0] = gS(p.rng.Pick([]string{"9090", "9091", "80"}))
		}
		if p.rng.Chance(50) {
			e.set("protocol", gS(p.rng.Pick([]string{"TCP", "UDP"})))
		}
	case "topologyKey":
		if val == "new1" || val == "new2" || val == "/new" || val == "dup" || val == "n1" || val == "n2" {
			e.vals[0] = gS(p.rng.Pick([]string{"rack", "zone"}))
		}
		if p.rng.Chance(50) {
			e.set("whenUnsatisfiable", gS(p.rng.Pick([]string{"DoNotSchedule", "ScheduleAnyway"})))
		}
		e.set("maxSkew", gS("1"))
	case "mountPath":
		e.set("name", gS("v9"))
	default:
		e.set("operator", gS("Equal"))
	}
	return e
}

// genPatch builds the whole patch document for target t.
func genPatch(rng *Rng, t *g4, adv int, keyed bool) (*g4, map[string]int) {
	p := &pgen{rng: rng, adv: adv, ops: map[string]int{}, keyed: keyed}
	body := p.patchMap(t, 5, true)
	out := &g4{kind: 1}
	// identity fields as kustomize patches carry them
	if !rng.Chance(adv / 3) {
		out.set("apiVersion", t.get("apiVersion").clone())
		out.set("kind", t.get("kind").clone())
	} else if rng.Bool() {
		p.op("adv:patch-without-kind")
	} else {
		p.op("adv:patch-other-kind")
		out.set("apiVersion", gS("v1"))
		out.set("kind", gS("Pod"))
	}
	md := gM("name", t.get("metadata").get("name").clone())
	if rng.Chance(40) {
		mp := p.patchMap(t.get("metadata"), 2, false)
		for i, k := range mp.keys {
			if k != "name" {
				md.set(k, mp.vals[i])
			}
		}
	}
	out.set("metadata", md)
	for i, k := range body.keys {
		out.set(k, body.vals[i])
	}
	return out, p.ops
}

func unknownVersion(kind string) string {
	switch kind {
	case "Deployment", "StatefulSet":
		return "apps/v1beta1"
	case "Pod":
		return "v2"
	case "Service":
		return "v1beta1"
	}
	return ""
}

// ---------- running the implementation ----------

type case04 struct {
	Target  string `json:"target"`
	Patch   string `json:"patch"`
	Infer   bool   `json:"infer"`
	Prepend bool   `json:"prepend"`
	Domain  string `json:"domain,omitempty"` // "D": pure grammar, unique keys; "Dnull": D + a null-valued target field; "": outside
	RefDom  bool   `json:"refdom,omitempty"` // inside the domain of the comparison with the k8s reference implementation
	// identity-layer cases (harness/c04ident.go): Level != "" ("resource", "krusty-patches", "krusty-psm")
	Level     string `json:"level,omitempty"`
	AllowName bool   `json:"allow_name,omitempty"`
	AllowKind bool   `json:"allow_kind,omitempty"`
	Note    string `json:"note,omitempty"`
}

func mergeOpts(prepend bool) kyaml.MergeOptions {
	if prepend {
		return kyaml.MergeOptions{ListIncreaseDirection: kyaml.MergeOptionsListPrepend}
	}
	return kyaml.MergeOptions{ListIncreaseDirection: kyaml.MergeOptionsListAppend}
}

// apply04 runs the implementation on already parsed nodes (both are mutated).
// The entry point depends on the options so that every anchored API is exercised:
//   infer=false, prepend=true  -> patchstrategicmerge.Filter (what kustomize builds call)
//   infer=false, prepend=false -> merge2.Merge
//   infer=true                 -> walk.Walker with merge2.Merger (what merge2.MergeStrings does)
func apply04(patch, target *kyaml.RNode, infer, prepend bool) (cls string, out *kyaml.RNode, msg string) {
	cls, msg = protect(func() error {
		var e error
		switch {
		case !infer && prepend:
			var l []*kyaml.RNode
			l, e = patchstrategicmerge.Filter{Patch: patch}.Filter([]*kyaml.RNode{target})
			if e == nil && len(l) > 0 {
				out = l[0]
			}
		case !infer:
			out, e = merge2.Merge(patch, target, mergeOpts(prepend))
		default:
			out, e = walk.Walker{
				Sources:               []*kyaml.RNode{target, patch},
				Visitor:               merge2.Merger{},
				InferAssociativeLists: true,
				MergeOptions:          mergeOpts(prepend),
			}.Walk()
		}
		return e
	})
	if cls != ClsOk {
		out = nil
	}
	return
}

func exec04(c case04) (cls string, out *kyaml.RNode, msg string) {
	t, err := kyaml.Parse(c.Target)
	if err != nil {
		return "parse-error", nil, err.Error()
	}
	p, err := kyaml.Parse(c.Patch)
	if err != nil {
		return "parse-error", nil, err.Error()
	}
	return apply04(p, t, c.Infer, c.Prepend)
}

// caseTerm04 runs the case and prints the Coq term (input terms are taken before the run: Merge mutates both).
func caseTerm04(c case04) (term string, cls string, out *kyaml.RNode, ok bool) {
	t, err := kyaml.Parse(c.Target)
	if err != nil {
		return "", "parse-error", nil, false
	}
	p, err := kyaml.Parse(c.Patch)
	if err != nil {
		return "", "parse-error", nil, false
	}
	if hasAlias(t.YNode()) || hasAlias(p.YNode()) {
		return "", "unrepresentable", nil, false
	}
	tt, ok1 := mNode(t.YNode())
	pt, ok2 := mNode(p.YNode())
	if !ok1 || !ok2 {
		return "", "unrepresentable", nil, false
	}
	sch := dumpSchemaTree(t, p)
	if multiKeyDirective {
		// Domain restriction of the correspondence (design.d/C04.md): the model does not write directive
		// elisions back into the patch. That is observable only when one key tuple of a multi-key list is
		// walked twice (mergeValues made two tuples equal) and a directive sits below the element.
		return "", "multi-key-list-with-directive", nil, false
	}
	ns := nonstrOf(t, p)
	cls, out, _ = apply04(p, t, c.Infer, c.Prepend)
	res := "oN"
	if cls == ClsOk {
		r, ok := mOptNode(out)
		if !ok {
			return "", cls, out, false
		}
		res = r
	}
	term = fmt.Sprintf("(CM (mk04 %s %s %s %s %s %s %s %s %s))", pt, tt, coqBool(c.Infer), coqBool(c.Prepend),
		mStrList(kyaml.AssociativeSequenceKeys), sch, mStrList(ns), cls, res)
	return term, cls, out, true
}

// ---------- driver ----------

func genCase04(rng *Rng) (case04, map[string]int, kindSpec) {
	t, ks := genTarget(rng)
	adv := 0
	switch r := rng.Intn(10); {
	case r < 5:
		adv = 0
	case r < 8:
		adv = 15
	default:
		adv = 45
	}
	nullTarget := false
	if rng.Chance(12) {
		// targets with a null-valued field (implicit "k:" or explicit null / ~)
		if s := t.get("spec"); s != nil && s.kind == 1 {
			s.set(rng.Pick([]string{"nullish", "zeta"}), gS(rng.Pick([]string{"", "", "null", "~"})))
			nullTarget = true
		}
	}
	c := case04{}
	switch r := rng.Intn(100); {
	case r < 65:
		c.Infer, c.Prepend = false, true
	case r < 80:
		c.Infer, c.Prepend = false, false
	case r < 92:
		c.Infer, c.Prepend = true, false
	default:
		c.Infer, c.Prepend = true, true
	}
	p, ops := genPatch(rng, t, adv, c.Infer || !strings.HasPrefix(ks.kind, "Foo"))
	// same kind, another apiVersion on one side: one the builtin schema does not know (deprecated / made up).
	// Walker.GetSchema falls through to the next source whose version is known.
	if alt := unknownVersion(ks.kind); alt != "" && p.get("apiVersion") != nil && p.get("kind") != nil &&
		p.get("kind").text == ks.kind && rng.Chance(14) {
		if rng.Chance(65) {
			t.set("apiVersion", gS(alt))
			ops["version:target-unknown"]++
		} else {
			// the patch rewrites the very field the schema is chosen by (kustomize itself forces the patch's GVK to
			// the target's): after the first application no source has a known version any more, so a second
			// application runs without schema. Outside D; kept for the correspondence.
			p.set("apiVersion", gS(alt))
			ops["adv:version-patch-unknown"]++
		}
	}
	c.Target, c.Patch = t.yaml(), p.yaml()
	pure := true
	for k := range ops {
		if strings.HasPrefix(k, "adv:") {
			pure = false
		}
	}
	// Domain D of the law oracles (= hypotheses of the theorems / the property's quantifier): pure grammar,
	// unique keys, single merge key (patches that address a port list, keyed by containerPort/port + protocol,
	// are outside), root kinds of the property (no typed object embedded in a schema-less kind).
	if pure && uniqueKeyTuples(t) && uniqueKeyTuples(p) && ops["multi-key-list"] == 0 && ks.kind != "Foo+embedded" {
		c.Domain = "D"
		if nullTarget {
			c.Domain = "Dnull"
		}
		// Reference comparison: outside its domain are (stated in design.d/C04.md)
		//  - "$patch: delete" on a map (the reference leaves {} instead of removing the key),
		//  - "$patch: merge" and a bare list-level "- $patch: delete" (the reference rejects them).
		c.RefDom = ops["delete-map"] == 0 && ops["merge-directive-map"] == 0 && ops["list-merge-directive"] == 0 &&
			ops["elem-merge-directive"] == 0 && ops["list-delete-directive"] == 0
	}
	// Domain M: as D, but the patch addresses a list with a composite merge key (container ports, Service ports).
	// The Kubernetes reference merges these lists by their first key alone, so the comparison is made where the first
	// keys are pairwise different in the target's and in the patch's lists; hygiene and idempotence apply as in D.
	if c.Domain == "" && pure && uniqueKeyTuples(t) && uniqueKeyTuples(p) && ops["multi-key-list"] > 0 &&
		uniqueFirstKeys(t) && uniqueFirstKeys(p) && ks.kind != "Foo+embedded" && !nullTarget {
		c.Domain = "M"
		if _, conflict := tupleRelationOf(c); conflict {
			// the patch writes a different protocol for a port the target has: a second element under the composite
			// key, the same element under the reference's single key -- outside the comparison
			c.Domain = ""
		}
		c.RefDom = ops["delete-map"] == 0 && ops["merge-directive-map"] == 0 && ops["list-merge-directive"] == 0 &&
			ops["elem-merge-directive"] == 0 && ops["list-delete-directive"] == 0
	}
	if c.Domain == "" && !strings.Contains(c.Patch, "$patch") && ops["multi-key-list"] == 0 && ks.kind != "Foo+embedded" &&
		ops["adv:version-patch-unknown"] == 0 && ops["adv:patch-without-kind"] == 0 && ops["adv:patch-other-kind"] == 0 &&
		ops["adv:null-in-added-elem"] == 0 && // the reference keeps a null inside a NEW keyed-list element; kustomize drops it
		uniqueKeyTuples(t) && uniqueKeyTuples(p) && !nullTarget {
		// directive-free patches outside D (nulls / kind changes / odd elements in added or replaced content):
		// idempotence and the reference comparison still apply (domain "A"); used to turn a model/implementation
		// disagreement on such a case into a concrete failing input
		c.Domain = "A"
	}
	return c, ops, ks
}

func runC04(r *Run, rng *Rng, tier string) error {
	nModel := 1600
	if tier == "thorough" {
		nModel = 24000
	}
	r.Meta.Rule = "targets: generated Deployment/StatefulSet/Pod/Service/ConfigMap objects and a schema-less custom kind " +
		"(nested maps, keyed and primitive lists, multi-key port lists, finalizers, rare null fields); patches generated relative " +
		"to the target from {set scalar, add/merge map entry, null, $patch delete|replace|merge on maps, keyed-list element " +
		"add/merge/delete, list-level $patch, atomic-list replace, set-list merge} plus adversarial shapes (directives on absent " +
		"content, unknown directives, kind mismatches, elements without key, duplicate keys, null elements). " +
		"non-trivial = result differs from the target; distinct by hash of the case term"
	// NewRng(seed) states of consecutive seeds are one step apart on the same splitmix stream (seed 2 would
	// replay seed 1 shifted by one case): decorrelate by forking once.
	rng = rng.Fork()
	for _, c := range loadCorpus04() {
		if c.Level != "" {
			runIdent04(r, c)
			continue
		}
		runOne04(r, c, nil, kindSpec{"corpus", ""})
	}
	for i := 0; i < nModel; i++ {
		c, ops, ks := genCase04(rng.Fork())
		runOne04(r, c, ops, ks)
	}
	// identity layer: Resource.ApplySmPatch / krusty builds
	nIdent := 400
	if tier == "thorough" {
		nIdent = 4000
	}
	for i := 0; i < nIdent; i++ {
		runIdent04(r, genIdent04(rng.Fork()))
	}
	r.header += internHeader()
	r.shard = 100
	return nil
}

func runOne04(r *Run, c case04, ops map[string]int, ks kindSpec) {
	term, cls, out, ok := caseTerm04(c)
	if !ok {
		r.Meta.Skipped++
		r.Count("skipped", cls)
		return
	}
	r.Count("class", cls)
	r.Count("kind", ks.kind)
	r.Count("mode", fmt.Sprintf("infer=%v,prepend=%v", c.Infer, c.Prepend))
	for k := range ops {
		r.Count("patch_op", k)
	}
	nontrivial := false
	if cls == ClsOk {
		t0, _ := kyaml.Parse(c.Target)
		a, _ := coqNode(t0.YNode())
		b := ""
		if out != nil && out.YNode() != nil {
			b, _ = coqNode(out.YNode())
		}
		nontrivial = a != b
	}
	r.Count("changed", fmt.Sprint(nontrivial))
	r.AddCase(term, c, nontrivial)
	// law oracles on the implementation, inside the domain of the theorems
	r.Count("domain", "dom="+c.Domain)
	if c.Domain != "" {
		for _, v := range laws04(c, c.Domain) {
			r.Count("law_failures", v.Class)
			r.Violation(OracleViolation{Law: v.Law, Class: v.Class, Detail: v.Detail, Replay: c})
		}
	}
}

func loadCorpus04() []case04 {
	out := []case04{}
	data, err := os.ReadFile(verifRoot() + "/corpus/C04/cases.json")
	if err != nil {
		return out
	}
	_ = json.Unmarshal(data, &out)
	return out
}

func replayC04(path string) (bool, string, error) {
	data, err := os.ReadFile(path)
	if err != nil {
		return false, "", err
	}
	var rp struct {
		Case case04 `json:"case"`
	}
	if err := json.Unmarshal(data, &rp); err != nil {
		return false, "", err
	}
	if rp.Case.Level != "" {
		known := knownClasses("C04")
		detail := "identity case, level " + rp.Case.Level
		bad := 0
		for _, v := range lawsIdent04(rp.Case) {
			if !known[v.Class] {
				bad++
			}
			detail += fmt.Sprintf("\nLAW %s class=%s: %s", v.Law, v.Class, v.Detail)
		}
		return bad > 0, detail, nil
	}
	cls, out, msg := exec04(rp.Case)
	res := "<nil>"
	if out != nil {
		res, _ = out.String()
	}
	detail := fmt.Sprintf("class=%s msg=%q result:\n%s", cls, msg, res)
	_ = sort.Strings
	// the law oracles (hygiene, idempotence, frame, reference) in the domain recorded with the case ("D", "Dnull",
	// "A"; a replay file written by hand without a domain gets all of them); a case generated outside every
	// domain (directives on absent content, duplicate keys ...) has no law to be held to. A failure whose
	// class is a recorded finding does not count.
	known := knownClasses("C04")
	bad := 0
	dom := rp.Case.Domain
	var vs []law04
	if dom != "" || rp.Case.Note == "all-laws" || !strings.Contains(string(data), `"domain"`) && false {
		vs = laws04(rp.Case, dom)
	}
	for _, v := range vs {
		tag := "LAW"
		if known[v.Class] {
			tag = "KNOWN"
		} else {
			bad++
		}
		detail += fmt.Sprintf("\n%s %s class=%s: %s", tag, v.Law, v.Class, v.Detail)
	}
	if dom == "" {
		detail += "\n(case generated outside the domains of the law oracles: only a panic counts)"
	}
	return cls == ClsPanic || bad > 0, detail, nil
}
