package main

import (
	"encoding/json"
	"fmt"
	"reflect"
	"sort"
	"strings"

	"sigs.k8s.io/kustomize/kyaml/openapi"
	kyaml "sigs.k8s.io/kustomize/kyaml/yaml"
)

// C04 law oracles, evaluated directly on the implementation (the failing-input search).
//
// Domain D (mirrors the hypotheses of the theorems / the property text): patches built from the pure
// grammar (no adversarial shape: directives address content present in the target, no unknown
// directive, no kind mismatch, every element of a keyed list is a mapping carrying the key), keyed
// lists with unique key tuples in target and patch. Domain "Dnull" = D plus a null-valued field in the
// target (used by the frame law only, to re-find the implicit-null behaviour).

func toJSONValue(n *kyaml.RNode) (interface{}, error) {
	if n == nil || n.YNode() == nil {
		return nil, nil
	}
	b, err := n.MarshalJSON()
	if err != nil {
		return nil, err
	}
	var v interface{}
	if err := json.Unmarshal(b, &v); err != nil {
		return nil, err
	}
	return v, nil
}

func jsonText(v interface{}) string {
	b, _ := json.Marshal(v)
	return string(b)
}

// keyedView: the list without its list-level directive elements ("- $patch: replace" and the like), which carry no key
func keyedView(g *g4) *g4 {
	h := &g4{kind: 2}
	for _, e := range g.vals {
		if e.kind == 1 && len(e.keys) == 1 && e.keys[0] == "$patch" {
			continue
		}
		h.vals = append(h.vals, e)
	}
	return h
}

// uniqueKeyTuples: every list of mappings that looks keyed has pairwise different (key, protocol) tuples.
func uniqueKeyTuples(g *g4) bool {
	if g == nil {
		return true
	}
	if g.kind == 2 {
		// primitive lists: elements pairwise different as texts ("1" and 1 are the same set-list element)
		texts := map[string]bool{}
		for _, e := range g.vals {
			if e.kind == 0 {
				t := strings.Trim(e.text, `"`)
				if texts[t] {
					return false
				}
				texts[t] = true
			}
		}
		kvw := keyedView(g)
		if k := listKeyOf(kvw); k != "" {
			g := kvw
			seen := map[string]bool{}
			for _, e := range g.vals {
				t := e.get(k).text
				if sk := secondaryKey(k); sk != "" {
					if pr := e.get(sk); pr != nil {
						t += "/" + pr.text
					} else {
						t += "/"
					}
				}
				if seen[t] {
					return false
				}
				seen[t] = true
			}
			// a tuple with and one without protocol for the same port are merged by mergeValues: ambiguous
			if sk := secondaryKey(k); sk != "" {
				ports := map[string]int{}
				for _, e := range g.vals {
					ports[e.get(k).text]++
				}
				for _, e := range g.vals {
					if e.get(sk) == nil && ports[e.get(k).text] > 1 {
						return false
					}
				}
			}
		}
	}
	for _, v := range g.vals {
		if !uniqueKeyTuples(v) {
			return false
		}
	}
	return true
}

// uniqueFirstKeys: port lists have pairwise different first merge keys.
func uniqueFirstKeys(g *g4) bool {
	if g == nil {
		return true
	}
	if g.kind == 2 {
		if k := listKeyOf(keyedView(g)); secondaryKey(k) != "" {
			seen := map[string]bool{}
			for _, e := range keyedView(g).vals {
				t := e.get(k).text
				if seen[t] {
					return false
				}
				seen[t] = true
			}
		}
	}
	for _, v := range g.vals {
		if !uniqueFirstKeys(v) {
			return false
		}
	}
	return true
}

type law04 struct {
	Law    string
	Class  string
	Detail string
}

// laws04 evaluates idempotence and frame for one case. domain: "D", "Dnull" or "" (replay: all laws).
func laws04(c case04, domain string) []law04 {
	var out []law04
	cls, r1, _ := exec04(c)
	if cls != ClsOk || r1 == nil || r1.YNode() == nil {
		return out
	}
	j1, err := toJSONValue(r1)
	if err != nil {
		return out
	}
	// ---- directive hygiene: "$patch" is consumed by the merge, it never reaches the output ----
	if domain != "Dnull" && hasDirectiveKey(j1) {
		out = append(out, law04{"hygiene", "C04/hygiene/directive-key-in-output",
			fmt.Sprintf("a \"$patch\" key is left in the result: %s", jsonText(j1))})
	}
	// ---- idempotence: merge(p, merge(p, t)) == merge(p, t), fresh copy of the patch ----
	if domain != "Dnull" {
		p2, err := kyaml.Parse(c.Patch)
		if err == nil {
			cls2, r2, msg2 := apply04(p2, r1.Copy(), c.Infer, c.Prepend)
			if cls2 != ClsOk {
				out = append(out, law04{"idempotent", "C04/idempotent/second-application-" + cls2,
					fmt.Sprintf("second application of the same patch fails (%s: %s) on %s", cls2, msg2, jsonText(j1))})
			} else {
				j2, err := toJSONValue(r2)
				if err == nil && !reflect.DeepEqual(j1, j2) {
					shape := diffShape(j1, j2)
					if !hasDirectiveKey(j1) && hasDirectiveKey(j2) && listDirectiveOnAbsentList(j1, c.Patch) {
						// the list addressed by a list-level directive is gone after the first application;
						// the second application copies the directive element into the result
						shape = "list-directive-copied-when-target-list-absent"
						if c.Infer {
							// with inferred keys the remaining directive element has no "name": the list is not even
							// recognised as associative any more and is copied as an atomic list
							shape += "-inferred-keys"
						}
					}
					if partial, _ := tupleRelationOf(c); partial && (domain == "M" || domain == "") {
						shape = "composite-key-partial-tuple"
					}
					out = append(out, law04{"idempotent", "C04/idempotent/" + shape,
						fmt.Sprintf("once: %s twice: %s", jsonText(j1), jsonText(j2))})
				}
			}
		}
	}
	// ---- reference: merge(p, t) ~ k8s strategicpatch(p, t), up to the order of keyed-list elements ----
	if domain != "Dnull" && !c.Infer && (c.RefDom || domain == "" || domain == "A") {
		if v := reference04(c, j1); v != nil {
			if partial, _ := tupleRelationOf(c); partial && (domain == "M" || domain == "") &&
				!strings.HasPrefix(v.Class, "C04/reference/reference-rejects:") {
				// a port that one side writes with and the other without its protocol: the two key tuples are merged
				// by mergeValues, but the element is then looked up with the full tuple in both lists and not found
				// on the side that omits the protocol -- the patch for that port is ignored (or, in append mode,
				// added as a second element)
				v.Class = "C04/reference/composite-key-partial-tuple-ignored"
			} else if (domain == "M" || domain == "") && deleteIgnoredMixedOf(c) &&
				!strings.HasPrefix(v.Class, "C04/reference/reference-rejects:") {
				v.Class = "C04/reference/composite-key-delete-ignored-when-protocol-spelled-elsewhere"
			}
			// outside D the reference may simply be stricter (it rejects what kustomize accepts): not a law failure
			if !(domain == "A" && strings.HasPrefix(v.Class, "C04/reference/reference-rejects:")) {
				out = append(out, *v)
			}
		}
	}
	// ---- frame: what the patch does not mention is unchanged ----
	t0, err1 := kyaml.Parse(c.Target)
	p0, err2 := kyaml.Parse(c.Patch)
	if err1 == nil && err2 == nil && domain != "A" && domain != "M" {
		jt, e1 := toJSONValue(t0)
		jp, e2 := toJSONValue(p0)
		if e1 == nil && e2 == nil {
			// the schema the walker uses: first source (target, then patch) whose kind/apiVersion is known
			rs, _, _ := resolveSchema(t0, p0)
			frame04(jt, jp, j1, rs, "", func(shape, path, detail string) {
				out = append(out, law04{"frame", "C04/frame/" + shape,
					fmt.Sprintf("path %s: %s; result %s", path, detail, jsonText(j1))})
			})
		}
	}
	return out
}

// diffShape: a coarse signature of where two JSON values differ (first difference, depth first).
func diffShape(a, b interface{}) string {
	am, ok1 := a.(map[string]interface{})
	bm, ok2 := b.(map[string]interface{})
	if ok1 && ok2 {
		keys := []string{}
		for k := range am {
			keys = append(keys, k)
		}
		for k := range bm {
			if _, ok := am[k]; !ok {
				keys = append(keys, k)
			}
		}
		sort.Strings(keys)
		for _, k := range keys {
			av, aok := am[k]
			bv, bok := bm[k]
			if !aok {
				return "field-appears"
			}
			if !bok {
				return "field-vanishes"
			}
			if !reflect.DeepEqual(av, bv) {
				return diffShape(av, bv)
			}
		}
		return "same"
	}
	al, ok1 := a.([]interface{})
	bl, ok2 := b.([]interface{})
	if ok1 && ok2 {
		if len(al) != len(bl) {
			return "list-length"
		}
		for i := range al {
			if !reflect.DeepEqual(al[i], bl[i]) {
				if s := diffShape(al[i], bl[i]); s != "value" {
					return "list-elem-" + s
				}
				return "list-elem"
			}
		}
		return "same"
	}
	return "value"
}

func directiveOf(m map[string]interface{}) string {
	if d, ok := m["$patch"]; ok {
		return fmt.Sprint(d)
	}
	return ""
}

func frame04(t, p, r interface{}, rs *openapi.ResourceSchema, path string, report func(shape, path, detail string)) {
	tm, ok1 := t.(map[string]interface{})
	pm, ok2 := p.(map[string]interface{})
	if !ok1 || !ok2 {
		return
	}
	if d := directiveOf(pm); d == "delete" || d == "replace" {
		return
	}
	rm, ok := r.(map[string]interface{})
	if !ok {
		report("map-replaced-by-non-map", path, fmt.Sprintf("target %s patch %s", jsonText(t), jsonText(p)))
		return
	}
	keys := make([]string, 0, len(tm))
	for k := range tm {
		keys = append(keys, k)
	}
	sort.Strings(keys)
	for _, k := range keys {
		tv := tm[k]
		pv, mentioned := pm[k]
		rv, present := rm[k]
		sub := path + "/" + k
		var fs *openapi.ResourceSchema
		if rs != nil {
			fs = rs.Field(k)
		}
		if !mentioned {
			if !present {
				if tv == nil {
					report("unmentioned-null-field-dropped", sub, "target field with a null value is not mentioned by the patch and is gone")
				} else {
					report("unmentioned-field-dropped", sub, "target value "+jsonText(tv)+" is gone")
				}
			} else if !reflect.DeepEqual(tv, rv) {
				for _, d := range minimalDiffs(tv, rv, sub) {
					report("unmentioned-"+d[0], d[1], d[2])
				}
			}
			continue
		}
		switch tvv := tv.(type) {
		case map[string]interface{}:
			if _, ok := pv.(map[string]interface{}); ok && present {
				frame04(tvv, pv, rv, fs, sub, report)
			}
		case []interface{}:
			pl, ok := pv.([]interface{})
			if !ok || fs == nil {
				continue
			}
			strategy, mkeys := fs.PatchStrategyAndKeyList()
			if !strings.Contains(","+strategy+",", ",merge,") || len(mkeys) != 1 {
				continue
			}
			frameList04(tvv, pl, rv, mkeys[0], fs.Elements(), sub, report)
		}
	}
}

func frameList04(tl, pl []interface{}, r interface{}, key string, es *openapi.ResourceSchema, path string,
	report func(shape, path, detail string)) {
	for _, pe := range pl {
		if m, ok := pe.(map[string]interface{}); ok && len(m) == 1 && directiveOf(m) != "" {
			return // list-level directive: the whole list is addressed
		}
	}
	rl, _ := r.([]interface{})
	find := func(l []interface{}, kv string) (map[string]interface{}, bool) {
		for _, e := range l {
			if m, ok := e.(map[string]interface{}); ok {
				if v, ok := m[key]; ok && fmt.Sprint(v) == kv {
					return m, true
				}
			}
		}
		return nil, false
	}
	for _, te := range tl {
		tm, ok := te.(map[string]interface{})
		if !ok {
			continue
		}
		kvv, ok := tm[key]
		if !ok {
			continue
		}
		kv := fmt.Sprint(kvv)
		sub := fmt.Sprintf("%s[%s=%s]", path, key, kv)
		pe, mentioned := find(pl, kv)
		re, present := find(rl, kv)
		if !mentioned {
			if !present {
				report("unmentioned-element-dropped", sub, "target element "+jsonText(te)+" is gone")
			} else if !reflect.DeepEqual(tm, re) {
				for _, d := range minimalDiffs(tm, re, sub) {
					report("unmentioned-"+d[0], d[1], d[2])
				}
			}
			continue
		}
		if d := directiveOf(pe); d == "delete" || d == "replace" {
			continue
		}
		if present {
			frame04(tm, pe, re, es, sub, report)
		}
	}
}

// minimalDiffs lists the innermost places where b differs from a: (shape, path, detail).
func minimalDiffs(a, b interface{}, path string) [][3]string {
	var out [][3]string
	am, ok1 := a.(map[string]interface{})
	bm, ok2 := b.(map[string]interface{})
	if ok1 && ok2 {
		keys := []string{}
		for k := range am {
			keys = append(keys, k)
		}
		for k := range bm {
			if _, ok := am[k]; !ok {
				keys = append(keys, k)
			}
		}
		sort.Strings(keys)
		for _, k := range keys {
			av, aok := am[k]
			bv, bok := bm[k]
			switch {
			case !aok:
				out = append(out, [3]string{"field-appeared", path + "/" + k, "new value " + jsonText(bv)})
			case !bok && av == nil:
				out = append(out, [3]string{"null-field-dropped", path + "/" + k, "target field with a null value is not mentioned by the patch and is gone"})
			case !bok:
				out = append(out, [3]string{"field-dropped", path + "/" + k, "target value " + jsonText(av) + " is gone"})
			case !reflect.DeepEqual(av, bv):
				out = append(out, minimalDiffs(av, bv, path+"/"+k)...)
			}
		}
		return out
	}
	al, ok1 := a.([]interface{})
	bl, ok2 := b.([]interface{})
	if ok1 && ok2 && len(al) == len(bl) {
		for i := range al {
			if !reflect.DeepEqual(al[i], bl[i]) {
				out = append(out, minimalDiffs(al[i], bl[i], fmt.Sprintf("%s[%d]", path, i))...)
			}
		}
		return out
	}
	if ok1 && ok2 {
		return [][3]string{{"list-length-changed", path, "target list " + jsonText(a) + " became " + jsonText(b)}}
	}
	return [][3]string{{"value-changed", path, "target value " + jsonText(a) + " became " + jsonText(b)}}
}

// hasDirectiveKey: a "$patch" key anywhere in a JSON value
func hasDirectiveKey(v interface{}) bool {
	switch x := v.(type) {
	case map[string]interface{}:
		if _, ok := x["$patch"]; ok {
			return true
		}
		for _, c := range x {
			if hasDirectiveKey(c) {
				return true
			}
		}
	case []interface{}:
		for _, c := range x {
			if hasDirectiveKey(c) {
				return true
			}
		}
	}
	return false
}

// listDirectiveOnAbsentList: the patch carries a list-level directive element ({$patch: X} alone) at a
// place where the document j has no list.
func listDirectiveOnAbsentList(j interface{}, patchText string) bool {
	p, err := kyaml.Parse(patchText)
	if err != nil {
		return false
	}
	jp, err := toJSONValue(p)
	if err != nil {
		return false
	}
	var rec func(p, t interface{}) bool
	rec = func(p, t interface{}) bool {
		switch pv := p.(type) {
		case map[string]interface{}:
			tm, _ := t.(map[string]interface{})
			for k, c := range pv {
				var tc interface{}
				if tm != nil {
					tc = tm[k]
				}
				if rec(c, tc) {
					return true
				}
			}
		case []interface{}:
			tl, isList := t.([]interface{})
			for _, e := range pv {
				m, ok := e.(map[string]interface{})
				if ok && len(m) == 1 && directiveOf(m) != "" && !isList {
					return true
				}
				if ok && isList {
					// descend into the element with the same name, if any
					for _, te := range tl {
						if tmm, ok := te.(map[string]interface{}); ok && tmm["name"] != nil && fmt.Sprint(tmm["name"]) == fmt.Sprint(m["name"]) {
							if rec(m, tmm) {
								return true
							}
						}
					}
				}
			}
		}
		return false
	}
	return rec(jp, j)
}

// canonLists sorts every list whose elements are all mappings (keyed lists: compared up to order).
func canonLists(v interface{}, rs *openapi.ResourceSchema) interface{} {
	switch x := v.(type) {
	case map[string]interface{}:
		o := map[string]interface{}{}
		for k, c := range x {
			var fs *openapi.ResourceSchema
			if rs != nil {
				fs = rs.Field(k)
			}
			o[k] = canonLists(c, fs)
		}
		return o
	case []interface{}:
		o := make([]interface{}, len(x))
		var es *openapi.ResourceSchema
		mergeList := false
		if rs != nil {
			strategy, _ := rs.PatchStrategyAndKeyList()
			mergeList = strings.Contains(","+strategy+",", ",merge,")
			if len(x) > 0 {
				es = rs.Elements()
			}
		}
		for i, c := range x {
			o[i] = canonLists(c, es)
		}
		if mergeList { // keyed lists and primitive set lists: compared up to order
			sort.SliceStable(o, func(i, j int) bool { return jsonText(o[i]) < jsonText(o[j]) })
		}
		return o
	}
	return v
}

// reference04 compares the implementation's result j1 with the Kubernetes reference implementation
// (k8s.io/apimachinery strategicpatch with a LookupPatchMeta backed by the same openapi package).
func reference04(c case04, j1 interface{}) *law04 {
	t0, err1 := kyaml.Parse(c.Target)
	p0, err2 := kyaml.Parse(c.Patch)
	if err1 != nil || err2 != nil {
		return nil
	}
	rsRef, refKind, refAv := resolveSchema(t0, p0)
	if rsRef == nil {
		m, _ := t0.GetMeta()
		refKind, refAv = m.Kind, m.APIVersion
	}
	tj, e1 := t0.MarshalJSON()
	pj, e2 := p0.MarshalJSON()
	if e1 != nil || e2 != nil {
		return nil
	}
	refOut, err := k8sSMP(refKind, refAv, tj, pj)
	if err != nil {
		return &law04{"reference", "C04/reference/reference-rejects:" + refErrShape(err.Error()),
			fmt.Sprintf("reference implementation fails (%v) where kustomize gives %s", err, jsonText(j1))}
	}
	var jr interface{}
	if err := json.Unmarshal(refOut, &jr); err != nil {
		return nil
	}
	rs := rsRef
	a, b := canonLists(j1, rs), canonLists(jr, rs)
	if reflect.DeepEqual(a, b) {
		return nil
	}
	shape := diffShape(a, b)
	if jp, err := toJSONValue(p0x(c.Patch)); err == nil && hasElemReplaceDirective(jp) {
		// "$patch: replace" on an element of a keyed list: the reference replaces the whole list by the patch's
		// non-directive elements; kustomize leaves the element untouched (prepend) or replaces only it (append)
		shape = "replace-directive-on-keyed-list-element"
	} else if onlyQuotingDiffs(a, b) {
		// a scalar set by the patch keeps the quoting style of the target's old value: the number / boolean of
		// the patch comes out as a string
		shape = "scalar-type-follows-target-quoting"
	}
	return &law04{"reference", "C04/reference/" + shape,
		fmt.Sprintf("kustomize: %s reference: %s", jsonText(a), jsonText(b))}
}

func refErrShape(msg string) string {
	for _, k := range []string{"does not contain declared merge key", "unknown patch type", "invalid patch", "expected a", "panic"} {
		if strings.Contains(msg, k) {
			return strings.ReplaceAll(k, " ", "-")
		}
	}
	if len(msg) > 40 {
		msg = msg[:40]
	}
	return strings.ReplaceAll(msg, " ", "-")
}

// onlyQuotingDiffs: a and b differ, and every difference is a string in a whose text is the JSON
// spelling of the non-string scalar found in b.
func onlyQuotingDiffs(a, b interface{}) bool {
	if reflect.DeepEqual(a, b) {
		return true
	}
	switch x := a.(type) {
	case map[string]interface{}:
		y, ok := b.(map[string]interface{})
		if !ok || len(x) != len(y) {
			return false
		}
		for k, v := range x {
			w, ok := y[k]
			if !ok || !onlyQuotingDiffs(v, w) {
				return false
			}
		}
		return true
	case []interface{}:
		y, ok := b.([]interface{})
		if !ok || len(x) != len(y) {
			return false
		}
		for i := range x {
			if !onlyQuotingDiffs(x[i], y[i]) {
				return false
			}
		}
		return true
	case string:
		switch b.(type) {
		case float64, bool:
			return x == jsonText(b)
		}
	}
	return false
}

func p0x(text string) *kyaml.RNode {
	n, err := kyaml.Parse(text)
	if err != nil {
		return nil
	}
	return n
}

// hasElemReplaceDirective: some list element carries "$patch: replace" next to other fields.
func hasElemReplaceDirective(v interface{}) bool {
	switch x := v.(type) {
	case map[string]interface{}:
		for _, c := range x {
			if hasElemReplaceDirective(c) {
				return true
			}
		}
	case []interface{}:
		for _, e := range x {
			if m, ok := e.(map[string]interface{}); ok && len(m) > 1 && directiveOf(m) == "replace" {
				return true
			}
			if hasElemReplaceDirective(e) {
				return true
			}
		}
	}
	return false
}

// ---------- composite merge keys (container ports, Service ports: containerPort|port + protocol) ----------

func jsonListKey(l []interface{}) string {
	for _, k := range []string{"containerPort", "port", "topologyKey", "mountPath", "name", "key"} {
		all := len(l) > 0
		for _, e := range l {
			m, ok := e.(map[string]interface{})
			if !ok {
				all = false
				break
			}
			if _, dir := m["$patch"]; dir && len(m) == 1 {
				continue // list-level directive element
			}
			if _, has := m[k]; !has {
				all = false
			}
		}
		if all {
			return k
		}
	}
	return ""
}

// tupleRelation walks target and patch in parallel and looks at port lists addressed by the patch:
// partial: some port is in both lists and exactly one side spells the secondary key (protocol);
// conflict: both spell it (or the patch nulls it) and the values differ -- with a composite key these are
// two different elements, with the reference's single key they are one.
func tupleRelation(t, p interface{}, partial, conflict *bool) {
	switch pv := p.(type) {
	case map[string]interface{}:
		tv, ok := t.(map[string]interface{})
		if !ok {
			return
		}
		for k, x := range pv {
			if y, has := tv[k]; has {
				tupleRelation(y, x, partial, conflict)
			}
		}
	case []interface{}:
		tv, ok := t.([]interface{})
		if !ok {
			return
		}
		k := jsonListKey(pv)
		if k == "" || jsonListKey(tv) != k {
			return
		}
		for _, pe := range pv {
			pm := pe.(map[string]interface{})
			for _, te := range tv {
				tm := te.(map[string]interface{})
				if fmt.Sprint(tm[k]) != fmt.Sprint(pm[k]) {
					continue
				}
				if sk := secondaryKey(k); sk != "" {
					tp, th := tm[sk]
					pp, ph := pm[sk]
					switch {
					case th != ph:
						*partial = true
					case th && ph && (pp == nil || fmt.Sprint(tp) != fmt.Sprint(pp)):
						*conflict = true
					}
				} else {
					tupleRelation(tm, pm, partial, conflict)
				}
			}
		}
	}
}

func tupleRelationOf(c case04) (partial, conflict bool) {
	t0, err1 := kyaml.Parse(c.Target)
	p0, err2 := kyaml.Parse(c.Patch)
	if err1 != nil || err2 != nil {
		return
	}
	jt, e1 := toJSONValue(t0)
	jp, e2 := toJSONValue(p0)
	if e1 != nil || e2 != nil {
		return
	}
	tupleRelation(jt, jp, &partial, &conflict)
	return
}

// deleteIgnoredMixed: the patch deletes ("$patch: delete") a port that neither it nor the target writes with a protocol,
// while another element of the target's or the patch's list does write one. validateKeys then keeps "protocol" among
// the valid keys for every tuple of the list, the deletion asks ElementSetter for an element that HAS a protocol field,
// finds none, and the port stays.
func deleteIgnoredMixed(t, p interface{}) bool {
	switch pv := p.(type) {
	case map[string]interface{}:
		tv, ok := t.(map[string]interface{})
		if !ok {
			return false
		}
		for k, x := range pv {
			if y, has := tv[k]; has && deleteIgnoredMixed(y, x) {
				return true
			}
		}
	case []interface{}:
		tv, ok := t.([]interface{})
		if !ok {
			return false
		}
		k := jsonListKey(pv)
		if k == "" || jsonListKey(tv) != k {
			return false
		}
		if sk := secondaryKey(k); sk != "" {
			spelled := false
			for _, l := range [][]interface{}{tv, pv} {
				for _, e := range l {
					if _, has := e.(map[string]interface{})[sk]; has {
						spelled = true
					}
				}
			}
			if !spelled {
				return false
			}
			for _, pe := range pv {
				pm := pe.(map[string]interface{})
				if _, has := pm[sk]; has || directiveOf(pm) != "delete" {
					continue
				}
				for _, te := range tv {
					tm := te.(map[string]interface{})
					if _, has := tm[sk]; !has && fmt.Sprint(tm[k]) == fmt.Sprint(pm[k]) {
						return true
					}
				}
			}
			return false
		}
		for _, pe := range pv {
			pm := pe.(map[string]interface{})
			for _, te := range tv {
				tm := te.(map[string]interface{})
				if fmt.Sprint(tm[k]) == fmt.Sprint(pm[k]) && deleteIgnoredMixed(tm, pm) {
					return true
				}
			}
		}
	}
	return false
}

func deleteIgnoredMixedOf(c case04) bool {
	t0, err1 := kyaml.Parse(c.Target)
	p0, err2 := kyaml.Parse(c.Patch)
	if err1 != nil || err2 != nil {
		return false
	}
	jt, e1 := toJSONValue(t0)
	jp, e2 := toJSONValue(p0)
	if e1 != nil || e2 != nil {
		return false
	}
	return deleteIgnoredMixed(jt, jp)
}
