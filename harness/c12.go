package main

// C12: malformed input yields an error, never a panic, exit or hang.
//
// The detector is a mutation search on the implementation. Every case (a whole in-memory file tree
// to build, or a byte stream for the YAML readers) runs in a WORKER SUBPROCESS (this binary
// re-executed with VERIF_C12_WORKER=1, JSON lines on stdin/stdout) so that
//   - panics are recovered with their stack  -> class  panic:<innermost kustomize frame>:<shape>
//   - os.Exit / log.Fatal / runtime fatal errors kill only the worker -> class exit:<...>
//   - hangs are cut by a per-case watchdog that samples the goroutine's stack -> class hang:<frame>
//   - runaway allocation is cut by a heap watchdog -> class mem:<frame>
// A class listed in findings.d/C12.txt is a known finding; any other class is a VIOLATION.
//
// The kyaml core calls that Props/C12.v proves total (walk / fs_filter) are additionally compared
// with the Coq model on the outcome class (c12_core.go).

import (
	"bufio"
	"bytes"
	"encoding/base64"
	"encoding/json"
	"fmt"
	"io"
	"log"
	"os"
	"os/exec"
	"path/filepath"
	"regexp"
	"runtime"
	"runtime/debug"
	"runtime/metrics"
	"sort"
	"strings"
	"sync"
	"syscall"
	"time"
	"unicode/utf8"

	"sigs.k8s.io/kustomize/api/krusty"
	"sigs.k8s.io/kustomize/api/provider"
	"sigs.k8s.io/kustomize/kyaml/filesys"
	"sigs.k8s.io/kustomize/kyaml/kio"
	kyaml "sigs.k8s.io/kustomize/kyaml/yaml"
)

func init() {
	if os.Getenv("VERIF_C12_WORKER") == "1" {
		c12WorkerMain() // never returns
	}
	register("C12", propDef{
		header:     "From KV Require Import Corr.C12.\nOpen Scope string_scope.\n",
		caseType:   "case12",
		mismatchFn: "mismatches12",
		run:        runC12,
		replay:     replayC12,
	})
}

// ---------- byte strings that survive JSON ----------

// blob marshals as a JSON string when it is valid UTF-8 and as {"b64": "..."} otherwise.
type blob []byte

func (b blob) MarshalJSON() ([]byte, error) {
	if utf8.Valid(b) {
		return json.Marshal(string(b))
	}
	return json.Marshal(map[string]string{"b64": base64.StdEncoding.EncodeToString(b)})
}

func (b *blob) UnmarshalJSON(data []byte) error {
	var s string
	if err := json.Unmarshal(data, &s); err == nil {
		*b = blob(s)
		return nil
	}
	var m map[string]string
	if err := json.Unmarshal(data, &m); err != nil {
		return err
	}
	d, err := base64.StdEncoding.DecodeString(m["b64"])
	if err != nil {
		return err
	}
	*b = blob(d)
	return nil
}

// ---------- cases and results ----------

type c12Case struct {
	Kind      string          `json:"kind"`            // build | kio | factory
	Files     map[string]blob `json:"files,omitempty"` // build: absolute path -> content (in-memory fs)
	Dir       string          `json:"dir,omitempty"`   // build: kustomization root
	Data      blob            `json:"data,omitempty"`  // kio / factory: the byte stream
	Muts      []string        `json:"muts,omitempty"`  // what was done to the valid tree (information only)
	TimeoutMs int             `json:"timeout_ms,omitempty"`
	Fresh     bool            `json:"fresh,omitempty"` // worker must exit after this case (it may leave global state)
	Core      *c12CoreCase    `json:"core,omitempty"`  // core: one kyaml call (Lookup / LookupCreate / fieldspec.Filter)
}

type c12Result struct {
	Outcome string   `json:"outcome"`          // ok | err | panic | hang | mem | exit
	Msg     string   `json:"msg,omitempty"`    // error text / panic value / stderr tail
	PType   string   `json:"ptype,omitempty"`  // %T of the panic value
	Frames  []string `json:"frames,omitempty"` // panic: call stack at the panic, innermost first; hang/mem: common call chain, innermost first
	WallMs  int64    `json:"wall_ms"`
	Class   string   `json:"class,omitempty"` // filled by the parent
}

const c12DefaultTimeoutMs = 5000
const c12HeapLimit = 1536 << 20

// ---------- log.Fatal trap ----------

// log.Fatal* writes its message through the standard logger and then calls os.Exit(1). The trap is
// installed as the logger's output: when a write arrives from log.Fatal* it panics with the message
// and the call stack, which the case's recover turns into outcome "exit" with a frame to blame
// (instead of a dead worker and no stack). Other log output is dropped.
type c12FatalTrap struct{}

type c12FatalSentinel struct {
	msg    string
	frames []string
}

func (c12FatalTrap) Write(p []byte) (int, error) {
	pcs := make([]uintptr, 64)
	n := runtime.Callers(1, pcs)
	fr := runtime.CallersFrames(pcs[:n])
	var after []string
	fatal := false
	for {
		f, more := fr.Next()
		if fatal {
			if strings.HasSuffix(f.Function, "c12CaseGoroutine") || strings.HasSuffix(f.Function, "c12Protect") {
				break
			}
			after = append(after, f.Function)
		} else if strings.HasPrefix(f.Function, "log.Fatal") || strings.HasPrefix(f.Function, "log.(*Logger).Fatal") {
			fatal = true
		}
		if !more {
			break
		}
	}
	if fatal {
		panic(c12FatalSentinel{msg: strings.TrimSpace(string(p)), frames: after})
	}
	return len(p), nil
}

func c12InstallFatalTrap() {
	log.SetFlags(0)
	log.SetOutput(c12FatalTrap{})
}

// c12Recovered turns a recovered panic value into a result (the caller fills in the frames of a real panic).
func c12FatalResult(r interface{}) (c12Result, bool) {
	if s, ok := r.(c12FatalSentinel); ok {
		return c12Result{Outcome: "exit", PType: "log.Fatal", Msg: s.msg, Frames: s.frames}, true
	}
	return c12Result{}, false
}

// ---------- worker ----------

func c12RunCase(c c12Case) error {
	switch c.Kind {
	case "build":
		fs := filesys.MakeFsInMemory()
		paths := make([]string, 0, len(c.Files))
		for p := range c.Files {
			paths = append(paths, p)
		}
		sort.Strings(paths)
		for _, p := range paths {
			if err := fs.MkdirAll(filepath.Dir(p)); err != nil {
				return fmt.Errorf("harness: mkdir: %w", err)
			}
			if err := fs.WriteFile(p, c.Files[p]); err != nil {
				return fmt.Errorf("harness: write: %w", err)
			}
		}
		m, err := krusty.MakeKustomizer(krusty.MakeDefaultOptions()).Run(fs, c.Dir)
		if err != nil {
			return err
		}
		_, err = m.AsYaml()
		return err
	case "kio":
		nodes, err := (&kio.ByteReader{Reader: bytes.NewReader(c.Data)}).Read()
		if err != nil {
			return err
		}
		// the readers hand the nodes on: make sure they can be printed back
		var out bytes.Buffer
		return kio.ByteWriter{Writer: &out}.Write(nodes)
	case "kio-keep":
		// the reader with the other option set: annotations off, seq indent and wrapping kind kept,
		// items of List kinds not unwrapped
		nodes, err := (&kio.ByteReader{Reader: bytes.NewReader(c.Data), OmitReaderAnnotations: true, DisableUnwrapping: true, WrapBareSeqNode: true}).Read()
		if err != nil {
			return err
		}
		for _, n := range nodes {
			if _, err := n.String(); err != nil {
				return err
			}
			_, _ = n.GetValidatedMetadata()
			_, _ = n.HasNilEntryInList()
		}
		return nil
	case "factory":
		rf := provider.NewDefaultDepProvider().GetResourceFactory()
		rs, err := rf.SliceFromBytes(c.Data)
		if err != nil {
			return err
		}
		for _, r := range rs {
			_ = r.CurId()
			_ = r.OrgId()
			if _, err := r.AsYAML(); err != nil {
				return err
			}
		}
		return nil
	case "core":
		if c.Core == nil {
			return fmt.Errorf("harness: core case without body")
		}
		doc, err := kyaml.Parse(c.Core.Doc)
		if err != nil {
			return err
		}
		return c12CoreRun(*c.Core, doc)
	}
	return fmt.Errorf("harness: unknown case kind %q", c.Kind)
}

// c12CaseGoroutine is the marker frame looked for in goroutine dumps.
//
//go:noinline
func c12CaseGoroutine(c c12Case, done chan<- c12Result) {
	t0 := time.Now()
	res := c12Result{}
	defer func() {
		if r := recover(); r != nil {
			if fres, ok := c12FatalResult(r); ok {
				res = fres
				res.WallMs = time.Since(t0).Milliseconds()
				done <- res
				return
			}
			res.Outcome = "panic"
			res.Msg = fmt.Sprint(r)
			res.PType = fmt.Sprintf("%T", r)
			pcs := make([]uintptr, 128)
			n := runtime.Callers(0, pcs)
			fr := runtime.CallersFrames(pcs[:n])
			seenPanic := false
			for {
				f, more := fr.Next()
				if seenPanic {
					if strings.HasSuffix(f.Function, "c12CaseGoroutine") {
						break
					}
					res.Frames = append(res.Frames, f.Function)
				} else if f.Function == "runtime.gopanic" {
					seenPanic = true
				}
				if !more {
					break
				}
			}
		}
		res.WallMs = time.Since(t0).Milliseconds()
		done <- res
	}()
	if err := c12RunCase(c); err != nil {
		res.Outcome = "err"
		res.Msg = err.Error()
		if len(res.Msg) > 400 {
			res.Msg = res.Msg[:400]
		}
	} else {
		res.Outcome = "ok"
	}
}

// c12CaseChain extracts from a full goroutine dump the call chain (outermost first) of the
// goroutine running c12CaseGoroutine, cut at that marker.
func c12CaseChain(dump string) []string {
	for _, g := range strings.Split(dump, "\n\n") {
		if !strings.Contains(g, "main.c12CaseGoroutine") {
			continue
		}
		var inner []string // innermost first
		for _, line := range strings.Split(g, "\n") {
			if line == "" || line[0] == '\t' || strings.HasPrefix(line, "goroutine ") || strings.HasPrefix(line, "created by ") {
				continue
			}
			if strings.HasPrefix(line, "...") {
				continue
			}
			if i := strings.LastIndex(line, "("); i > 0 {
				line = line[:i]
			}
			if line == "main.c12CaseGoroutine" {
				break
			}
			inner = append(inner, line)
		}
		out := make([]string, len(inner))
		for i, f := range inner {
			out[len(inner)-1-i] = f
		}
		return out
	}
	return nil
}

// c12CaseBlocked: the case goroutine is parked on a lock / channel / wait group in three samples taken
// 60 ms apart (a deadlock burns no CPU, so the CPU criterion alone would wait out all six budgets).
// A goroutine that is merely starved of CPU shows as running or runnable and is not "blocked".
func c12CaseBlocked() bool {
	buf := make([]byte, 4<<20)
	for i := 0; i < 3; i++ {
		n := runtime.Stack(buf, true)
		state := ""
		for _, g := range strings.Split(string(buf[:n]), "\n\n") {
			if strings.Contains(g, "main.c12CaseGoroutine") {
				hdr := g
				if j := strings.Index(g, "\n"); j >= 0 {
					hdr = g[:j]
				}
				if a, b := strings.Index(hdr, "["), strings.Index(hdr, "]"); a >= 0 && b > a {
					state = hdr[a+1 : b]
				}
			}
		}
		blocked := false
		for _, w := range []string{"semacquire", "sync.", "chan receive", "chan send", "select", "sleep"} {
			if strings.Contains(state, w) {
				blocked = true
			}
		}
		if !blocked {
			return false
		}
		time.Sleep(60 * time.Millisecond)
	}
	return true
}

// c12SampleChain samples the case goroutine several times and returns the longest common prefix of
// its call chain, innermost first: the last common frame is the function that does not return.
func c12SampleChain(samples int, gap time.Duration) []string {
	var common []string
	buf := make([]byte, 4<<20)
	for i := 0; i < samples; i++ {
		n := runtime.Stack(buf, true)
		ch := c12CaseChain(string(buf[:n]))
		if i == 0 {
			common = ch
		} else {
			k := 0
			for k < len(common) && k < len(ch) && common[k] == ch[k] {
				k++
			}
			common = common[:k]
		}
		time.Sleep(gap)
	}
	out := make([]string, len(common))
	for i, f := range common {
		out[len(common)-1-i] = f
	}
	if len(out) > 40 {
		out = out[:40]
	}
	return out
}

func c12HeapBytes() uint64 {
	s := []metrics.Sample{{Name: "/memory/classes/heap/objects:bytes"}, {Name: "/memory/classes/heap/stacks:bytes"}}
	metrics.Read(s)
	var t uint64
	for _, x := range s {
		if x.Value.Kind() == metrics.KindUint64 {
			t += x.Value.Uint64()
		}
	}
	return t
}

// c12CPU is the CPU time (user+system) the process has consumed.
func c12CPU() time.Duration {
	var ru syscall.Rusage
	if err := syscall.Getrusage(syscall.RUSAGE_SELF, &ru); err != nil {
		return 0
	}
	return time.Duration(ru.Utime.Nano() + ru.Stime.Nano())
}

func c12WorkerMain() {
	// backstop for the heap watchdog
	_ = syscall.Setrlimit(syscall.RLIMIT_AS, &syscall.Rlimit{Cur: 8 << 30, Max: 8 << 30})
	debug.SetTraceback("all")
	debug.SetMaxStack(96 << 20) // unbounded recursion is found after 96 MiB instead of 1 GiB of stack
	c12InstallFatalTrap()
	in := bufio.NewReaderSize(os.Stdin, 1<<20)
	out := bufio.NewWriter(os.Stdout)
	reply := func(r c12Result) {
		b, _ := json.Marshal(r)
		out.Write(b)
		out.WriteByte('\n')
		out.Flush()
	}
	for {
		line, err := in.ReadBytes('\n')
		if len(line) > 0 {
			var c c12Case
			if e := json.Unmarshal(line, &c); e != nil {
				reply(c12Result{Outcome: "err", Msg: "harness: bad case: " + e.Error()})
			} else {
				to := c.TimeoutMs
				if to <= 0 {
					to = c12DefaultTimeoutMs
				}
				done := make(chan c12Result, 1)
				t0 := time.Now()
				cpu0 := c12CPU()
				go c12CaseGoroutine(c, done)
				slice := time.Duration(to) * time.Millisecond
				deadline := time.NewTimer(slice)
				tick := time.NewTicker(20 * time.Millisecond)
				var res c12Result
				fatal := false
			wait:
				for {
					select {
					case res = <-done:
						break wait
					case <-tick.C:
						if c12HeapBytes() > c12HeapLimit {
							res = c12Result{Outcome: "mem", Msg: fmt.Sprintf("heap above %d bytes", c12HeapLimit),
								Frames: c12SampleChain(3, 5*time.Millisecond), WallMs: time.Since(t0).Milliseconds()}
							fatal = true
							break wait
						}
					case <-deadline.C:
						// a hang is a case that has USED its time: on a loaded machine the wall clock alone
						// proves nothing. Wait on while the process has burnt less than 60 % of the budget in
						// CPU time, but never longer than 6 budgets (a blocked goroutine burns nothing).
						used := c12CPU() - cpu0
						if used < slice*6/10 && time.Since(t0) < 6*slice && !c12CaseBlocked() {
							deadline.Reset(slice / 2)
							continue
						}
						res = c12Result{Outcome: "hang", Msg: fmt.Sprintf("no result after %d ms wall / %d ms cpu (budget %d ms)", time.Since(t0).Milliseconds(), used.Milliseconds(), to),
							Frames: c12SampleChain(8, 25*time.Millisecond), WallMs: time.Since(t0).Milliseconds()}
						fatal = true
						break wait
					}
				}
				deadline.Stop()
				tick.Stop()
				reply(res)
				if fatal || c.Fresh {
					os.Exit(0)
				}
			}
		}
		if err != nil {
			os.Exit(0)
		}
	}
}

// ---------- parent side: worker pool ----------

type c12Proc struct {
	cmd    *exec.Cmd
	stdin  io.WriteCloser
	stdout *bufio.Reader
	stderr *c12Tail
}

type c12Tail struct {
	mu  sync.Mutex
	buf []byte
}

func (t *c12Tail) Write(p []byte) (int, error) {
	t.mu.Lock()
	t.buf = append(t.buf, p...)
	if len(t.buf) > 64<<10 {
		t.buf = t.buf[len(t.buf)-(64<<10):]
	}
	t.mu.Unlock()
	return len(p), nil
}
func (t *c12Tail) Reset() { t.mu.Lock(); t.buf = t.buf[:0]; t.mu.Unlock() }
func (t *c12Tail) String() string {
	t.mu.Lock()
	defer t.mu.Unlock()
	return string(t.buf)
}

func c12Spawn() (*c12Proc, error) {
	exe, err := os.Executable()
	if err != nil {
		return nil, err
	}
	cmd := exec.Command(exe)
	cmd.Env = append(os.Environ(), "VERIF_C12_WORKER=1", "GOMAXPROCS=2", "GOTRACEBACK=all")
	stdin, err := cmd.StdinPipe()
	if err != nil {
		return nil, err
	}
	so, err := cmd.StdoutPipe()
	if err != nil {
		return nil, err
	}
	tail := &c12Tail{}
	cmd.Stderr = tail
	if err := cmd.Start(); err != nil {
		return nil, err
	}
	return &c12Proc{cmd: cmd, stdin: stdin, stdout: bufio.NewReaderSize(so, 1<<20), stderr: tail}, nil
}

func (p *c12Proc) kill() {
	if p == nil {
		return
	}
	p.stdin.Close()
	if p.cmd.Process != nil {
		p.cmd.Process.Kill()
	}
	p.cmd.Wait()
}

// c12Exec runs one case on the given worker (spawning one if *pp is nil). A worker that dies, hangs
// or is marked fatal is discarded (*pp = nil).
func c12Exec(pp **c12Proc, c c12Case) c12Result {
	if *pp == nil {
		p, err := c12Spawn()
		if err != nil {
			return c12Result{Outcome: "err", Msg: "harness: cannot spawn worker: " + err.Error()}
		}
		*pp = p
	}
	p := *pp
	p.stderr.Reset()
	to := c.TimeoutMs
	if to <= 0 {
		to = c12DefaultTimeoutMs
	}
	line, _ := json.Marshal(c)
	line = append(line, '\n')
	t0 := time.Now()
	type rd struct {
		b   []byte
		err error
	}
	ch := make(chan rd, 1)
	go func() {
		if _, err := p.stdin.Write(line); err != nil {
			ch <- rd{nil, err}
			return
		}
		b, err := p.stdout.ReadBytes('\n')
		ch <- rd{b, err}
	}()
	var res c12Result
	select {
	case r := <-ch:
		if r.err != nil || len(r.b) == 0 {
			// the worker died: os.Exit / log.Fatal / runtime fatal error
			p.stdin.Close()
			werr := p.cmd.Wait()
			res = c12Result{Outcome: "exit", WallMs: time.Since(t0).Milliseconds()}
			st := "?"
			if werr != nil {
				st = werr.Error()
			} else {
				st = "exit status 0"
			}
			res.PType = st
			res.Msg = p.stderr.String()
			*pp = nil
		} else if err := json.Unmarshal(r.b, &res); err != nil {
			res = c12Result{Outcome: "err", Msg: "harness: bad worker reply: " + err.Error()}
			p.kill()
			*pp = nil
		} else if res.Outcome == "hang" || res.Outcome == "mem" || c.Fresh {
			p.kill()
			*pp = nil
		}
	case <-time.After(6*time.Duration(to)*time.Millisecond + 8*time.Second):
		// even the worker's own watchdog did not answer
		res = c12Result{Outcome: "hang", Msg: "worker unresponsive", WallMs: time.Since(t0).Milliseconds()}
		p.kill()
		*pp = nil
	}
	res.Class = c12Class(res)
	return res
}

// c12RunAll runs the cases on nWorkers subprocesses; results are positionally aligned with cases.
// A first-time hang is re-run once on a fresh worker with twice the time before it counts.
func c12RunAll(cases []c12Case, nWorkers int) []c12Result {
	results := make([]c12Result, len(cases))
	jobs := make(chan int, len(cases))
	for i := range cases {
		jobs <- i
	}
	close(jobs)
	var wg sync.WaitGroup
	for w := 0; w < nWorkers; w++ {
		wg.Add(1)
		go func() {
			defer wg.Done()
			var p *c12Proc
			defer func() { p.kill() }()
			for i := range jobs {
				results[i] = c12ExecConfirm(&p, cases[i])
			}
		}()
	}
	wg.Wait()
	return results
}

func c12ExecConfirm(pp **c12Proc, c c12Case) c12Result {
	r := c12Exec(pp, c)
	if r.Outcome == "hang" {
		c2 := c
		to := c.TimeoutMs
		if to <= 0 {
			to = c12DefaultTimeoutMs
		}
		c2.TimeoutMs = 2 * to
		r2 := c12Exec(pp, c2)
		if r2.Outcome == "ok" || r2.Outcome == "err" {
			r2.Msg = fmt.Sprintf("[slow: first run exceeded %d ms] %s", to, r2.Msg)
		}
		return r2
	}
	return r
}

// ---------- classification ----------

const c12KPrefix = "sigs.k8s.io/kustomize/"

var c12ClosureSuffix = regexp.MustCompile(`(\.func\d+|\.\d+|\.gowrap\d+|\[\.\.\.\])+$`)

func c12ShortFrame(f string) string {
	f = strings.TrimPrefix(f, c12KPrefix)
	f = c12ClosureSuffix.ReplaceAllString(f, "")
	return f
}

// innermost frame of a kustomize package (harness frames are package main). A Must* helper
// (MustYaml, MustString, MustParse ...) fails on behalf of its caller: the caller is part of the site
// ("X.MustYaml<-Y.failureDetails"), otherwise every misuse of the helper would share one class.
func c12KFrame(frames []string) string {
	for i, f := range frames {
		if !strings.HasPrefix(f, c12KPrefix) {
			continue
		}
		short := c12ShortFrame(f)
		base := short[strings.LastIndex(short, ".")+1:]
		if strings.HasPrefix(base, "Must") {
			for _, g := range frames[i+1:] {
				if strings.HasPrefix(g, c12KPrefix) {
					return short + "<-" + c12ShortFrame(g)
				}
			}
		}
		return short
	}
	if len(frames) > 0 {
		return "outside-kustomize:" + c12ShortFrame(frames[0])
	}
	return "unknown"
}

var c12NonWord = regexp.MustCompile(`[^a-z]+`)
var c12Quoted = regexp.MustCompile("\"[^\"]*\"|'[^']*'|`[^`]*`")

func c12Slug(s string, words int) string {
	s = c12Quoted.ReplaceAllString(s, " ")
	s = strings.ToLower(s)
	parts := []string{}
	for _, w := range c12NonWord.Split(s, -1) {
		if w != "" {
			parts = append(parts, w)
		}
		if len(parts) == words {
			break
		}
	}
	if len(parts) == 0 {
		return "empty"
	}
	return strings.Join(parts, "-")
}

var c12ConvRe = regexp.MustCompile(`interface conversion: .*?(?:, not | is not )([^:]+?)(?:: missing method.*)?$`)

// c12PanicShape: which kind of fault, and for failed assertions which type was demanded
// (that identifies the assertion inside the function; the offending dynamic type is input detail).
func c12PanicShape(r c12Result) string {
	m := r.Msg
	switch {
	case strings.Contains(m, "interface conversion:"):
		if g := c12ConvRe.FindStringSubmatch(m); g != nil {
			return "conv->" + strings.ReplaceAll(g[1], " ", "")
		}
		return "conv"
	case strings.Contains(m, "nil pointer dereference"):
		return "nil-deref"
	case strings.Contains(m, "index out of range [-"):
		return "index-neg"
	case strings.Contains(m, "index out of range"):
		return "index-oob"
	case strings.Contains(m, "slice bounds out of range"):
		return "slice-oob"
	case strings.Contains(m, "assignment to entry in nil map"):
		return "nil-map-write"
	case strings.Contains(m, "divide by zero"):
		return "div0"
	case strings.HasPrefix(r.PType, "runtime."):
		return "runtime-" + c12Slug(strings.TrimPrefix(m, "runtime error:"), 5)
	default:
		return "explicit-" + c12Slug(m, 3)
	}
}

var c12LogStamp = regexp.MustCompile(`^\d{4}/\d{2}/\d{2} \d{2}:\d{2}:\d{2} `)

func c12ExitClass(r c12Result) string {
	if r.PType == "log.Fatal" {
		return "exit:log.Fatal:" + c12KFrame(r.Frames)
	}
	lines := strings.Split(strings.TrimSpace(r.Msg), "\n")
	// runtime fatal error?
	for i, l := range lines {
		if strings.HasPrefix(l, "fatal error: ") || strings.HasPrefix(l, "runtime: goroutine stack exceeds") {
			kind := "fatal-" + c12Slug(strings.TrimPrefix(l, "fatal error: "), 4)
			var frames []string
			for _, fl := range lines[i:] {
				if fl == "" || fl[0] == '\t' || strings.HasPrefix(fl, "goroutine ") {
					continue
				}
				if j := strings.LastIndex(fl, "("); j > 0 {
					fl = fl[:j]
				}
				frames = append(frames, fl)
			}
			if strings.Contains(r.Msg, "stack overflow") || strings.Contains(l, "stack exceeds") {
				// unbounded recursion: the frame to blame is the one that recurs - the most frequent
				// kustomize frame of the printed trace (the innermost one is wherever the stack ran out)
				count := map[string]int{}
				best, bestN := "", 0
				for _, f := range frames {
					if strings.HasPrefix(f, c12KPrefix) {
						sf := c12ShortFrame(f)
						count[sf]++
						if count[sf] > bestN || (count[sf] == bestN && sf < best) {
							best, bestN = sf, count[sf]
						}
					}
				}
				if best == "" {
					best = c12KFrame(frames)
				}
				return "exit:fatal-stack-overflow:" + best
			}
			return "exit:" + kind + ":" + c12KFrame(frames)
		}
	}
	last := ""
	for i := len(lines) - 1; i >= 0; i-- {
		if strings.TrimSpace(lines[i]) != "" {
			last = lines[i]
			break
		}
	}
	last = c12LogStamp.ReplaceAllString(last, "")
	st := strings.ReplaceAll(r.PType, " ", "-")
	return "exit:" + st + ":" + c12Slug(last, 6)
}

func c12Class(r c12Result) string {
	switch r.Outcome {
	case "ok", "err":
		return ""
	case "panic":
		return "panic:" + c12KFrame(r.Frames) + ":" + c12PanicShape(r)
	case "hang":
		return "hang:" + c12KFrame(r.Frames)
	case "mem":
		return "mem:" + c12KFrame(r.Frames)
	case "exit":
		return c12ExitClass(r)
	}
	return "unknown-outcome:" + r.Outcome
}

// failures that come from running external programs / the network are outside the property
// (plugins, helm, git: not reachable from builds of local trees with the default options)
func c12OutOfScope(r c12Result) bool {
	for _, f := range r.Frames {
		if strings.HasPrefix(f, c12KPrefix+"api/internal/git.") || strings.HasPrefix(f, "os/exec.") || strings.HasPrefix(f, "net/http.") || strings.HasPrefix(f, "net.") {
			return true
		}
	}
	return false
}

// ---------- known findings (read only; the verdict is taken by ./check) ----------

func c12KnownClasses() map[string]bool {
	out := map[string]bool{}
	paths, _ := filepath.Glob(filepath.Join(verifRoot(), "findings.d", "*.txt"))
	paths = append(paths, filepath.Join(verifRoot(), "known-findings.txt"))
	re := regexp.MustCompile(`^finding:\s+property=C12\s+class=(\S+)`)
	for _, p := range paths {
		data, err := os.ReadFile(p)
		if err != nil {
			continue
		}
		for _, l := range strings.Split(string(data), "\n") {
			if m := re.FindStringSubmatch(strings.TrimSpace(l)); m != nil {
				out[m[1]] = true
			}
		}
	}
	return out
}

// ---------- corpus ----------

type c12CorpusEntry struct {
	Name  string  `json:"name"`
	Class string  `json:"class"` // class the witness is expected to produce
	Note  string  `json:"note,omitempty"`
	Fixed string  `json:"fixed,omitempty"` // commit that repaired the defect: the witness is a regression input and must not fail
	Case  c12Case `json:"case"`
}

func c12LoadCorpus() []c12CorpusEntry {
	var out []c12CorpusEntry
	paths, _ := filepath.Glob(filepath.Join(verifRoot(), "corpus", "C12", "*.json"))
	sort.Strings(paths)
	for _, p := range paths {
		data, err := os.ReadFile(p)
		if err != nil {
			continue
		}
		var e c12CorpusEntry
		if json.Unmarshal(data, &e) == nil && e.Case.Kind != "" {
			if e.Name == "" {
				e.Name = filepath.Base(p)
			}
			out = append(out, e)
		}
	}
	return out
}

// ---------- the run ----------

func c12Fingerprint(c c12Case) string {
	b, _ := json.Marshal(c)
	return string(b)
}

func c12Detail(c c12Case, r c12Result) string {
	fr := r.Frames
	if len(fr) > 12 {
		fr = fr[:12]
	}
	msg := r.Msg
	if len(msg) > 600 {
		msg = msg[len(msg)-600:]
	}
	return fmt.Sprintf("%s case: outcome=%s class=%s after %d ms; value=%q; frames(innermost first)=%v; mutations=%v",
		c.Kind, r.Outcome, r.Class, r.WallMs, msg, fr, c.Muts)
}

func runC12(r *Run, rng *Rng, tier string) error {
	nBuild, nBytes, nCore := 1500, 600, 1500
	if tier == "thorough" {
		nBuild, nBytes, nCore = 60000, 20000, 12000
	}
	if v := os.Getenv("VERIF_C12_NBUILD"); v != "" {
		fmt.Sscan(v, &nBuild)
	}
	if v := os.Getenv("VERIF_C12_NBYTES"); v != "" {
		fmt.Sscan(v, &nBytes)
	}
	nWorkers := 16
	if n := runtime.NumCPU(); n < nWorkers {
		nWorkers = n
	}
	if v := os.Getenv("VERIF_C12_WORKERS"); v != "" {
		fmt.Sscan(v, &nWorkers)
	}
	r.Meta.Rule = "build cases: valid generated kustomization trees (1-3 layers, 19 resource kinds, directives namePrefix/nameSuffix/namespace/" +
		"commonLabels/labels/commonAnnotations/images/replicas/patches/patchesStrategicMerge/patchesJson6902/configMapGenerator/secretGenerator/" +
		"generatorOptions/replacements/sortOptions/buildMetadata/vars/configurations/components/transformers) with 1-3 structural YAML-node mutations " +
		"(retype/delete/duplicate/splice/junk/meta-characters/key rename) or byte-level mutations of a resource file, each built by krusty.Run on an in-memory fs " +
		"inside a worker subprocess (recover+stack, process death, 5 s per-case watchdog with stack sampling, 1.5 GiB heap watchdog); byte cases: the same byte streams through " +
		"kio.ByteReader(+ByteWriter) and resource.Factory.SliceFromBytes; core cases: kyaml Lookup/LookupCreate/fieldspec.Filter on mutated documents, outcome class " +
		"compared with the Coq model. non-trivial = the unmutated tree built successfully and the mutant differs from it; distinct by hash of the case"
	known := c12KnownClasses()
	c12InstallFatalTrap() // core cases run in this process

	// 1. corpus witnesses of the known findings (and regression cases), 2. a sample of unmutated
	// trees (the generator must produce mostly valid input), 3. the mutants - one batch, corpus first
	corpus := c12LoadCorpus()
	gen := newC12Gen()
	var cases []c12Case
	var nontriv []bool
	for _, e := range corpus {
		cases = append(cases, e.Case)
		nontriv = append(nontriv, true)
	}
	nCorpus := len(cases)
	nBase := nBuild / 10
	if nBase > 400 {
		nBase = 400
	}
	vrng := rng.Fork()
	for i := 0; i < nBase; i++ {
		cases = append(cases, gen.tree(vrng.Fork()).toCase())
		nontriv = append(nontriv, false)
	}
	grng := rng.Fork()
	for i := 0; i < nBuild; i++ {
		g := grng.Fork()
		t := gen.tree(g)
		c, changed := gen.mutateTree(g, t)
		cases = append(cases, c)
		nontriv = append(nontriv, changed)
	}
	brng := rng.Fork()
	for i := 0; i < nBytes; i++ {
		cases = append(cases, gen.byteCase(brng.Fork()))
		nontriv = append(nontriv, true)
	}
	t0 := time.Now()
	results := c12RunAll(cases, nWorkers)
	wall := time.Since(t0)
	slow := int64(0)
	for i, res := range results {
		c := cases[i]
		switch {
		case i < nCorpus:
			e := corpus[i]
			r.AddEval("corpus:"+e.Name, true)
			r.Count("corpus", e.Name+" -> "+orStr(res.Class, res.Outcome))
			if res.Class != "" {
				what := "corpus witness "
				if e.Fixed != "" {
					what = "REGRESSION: witness of a defect repaired by " + e.Fixed + " fails again: "
				}
				r.Violation(OracleViolation{Law: "no_panic_exit_hang", Class: res.Class,
					Detail: what + e.Name + ": " + c12Detail(e.Case, res), Replay: e.Case})
			} else if e.Fixed != "" {
				r.Count("corpus_regression_inputs", "still repaired")
			} else if e.Class != "" {
				r.Meta.Notes = append(r.Meta.Notes, fmt.Sprintf("corpus witness %s no longer fails (expected class %s): repaired?", e.Name, e.Class))
			}
			continue
		case i < nCorpus+nBase:
			r.Count("unmutated_tree_outcome", res.Outcome)
			if os.Getenv("VERIF_C12_DEBUG") != "" && res.Outcome != "ok" {
				fmt.Fprintf(os.Stderr, "BASE %s: %s\n", res.Outcome, res.Msg)
			}
			if res.Outcome == "err" && len(r.Meta.Notes) < 4 {
				r.Meta.Notes = append(r.Meta.Notes, "unmutated tree rejected: "+firstLine(res.Msg))
			}
			if res.Class != "" {
				c12Report(r, known, c, res, nWorkers, "unmutated")
			}
			continue
		}
		r.AddEval(c12Fingerprint(c), nontriv[i])
		r.Count("case_kind", c.Kind)
		r.Count("outcome", res.Outcome)
		r.Count("outcome_"+c.Kind, res.Outcome)
		for _, m := range c.Muts {
			if strings.HasPrefix(m, "directed:") {
				w := strings.Fields(m)
				key := w[0]
				if len(w) > 1 && w[0] != "directed:openapi-layers" && w[0] != "directed:emptyfile" && w[0] != "directed:crdcycle" {
					key += " " + strings.SplitN(w[1], "=", 2)[0]
				} else if len(w) > 1 && w[0] == "directed:emptyfile" {
					key += " " + w[1]
				}
				r.Count("directed", key)
				r.Count("directed_outcome", strings.SplitN(w[0], ":", 3)[1]+" -> "+res.Outcome)
			}
			r.Count("mutation", strings.SplitN(m, " ", 2)[0])
			if j := strings.Index(m, " @"); j >= 0 {
				if k := strings.Index(m[j+2:], ":"); k >= 0 {
					r.Count("mutated_file", filepath.Base(m[j+2:j+2+k]))
				}
			}
		}
		if res.Outcome == "err" {
			r.Count("error_kind", c12Slug(c12ErrTail(res.Msg), 4))
		}
		if res.WallMs > slow && (res.Outcome == "ok" || res.Outcome == "err") {
			slow = res.WallMs
		}
		if res.WallMs > 1500 && (res.Outcome == "ok" || res.Outcome == "err") {
			r.Count("slow_cases_over_1500ms", c.Kind)
			if os.Getenv("VERIF_C12_DEBUG") != "" {
				b, _ := json.Marshal(c)
				fmt.Fprintf(os.Stderr, "SLOW %d ms %s: %s\nSLOWCASE %s\n", res.WallMs, res.Outcome, firstLine(res.Msg), b)
			}
		}
		if strings.HasPrefix(res.Msg, "[slow:") {
			r.Count("slow", "first-run-timeout-second-run-finished")
		}
		if res.Class != "" {
			r.Count("failure_class", res.Class)
			c12Report(r, known, c, res, nWorkers, "mutant")
		}
	}
	r.Meta.Notes = append(r.Meta.Notes, fmt.Sprintf("%d corpus + %d unmutated + %d mutant cases on %d worker processes in %.1fs; slowest finished case %d ms",
		nCorpus, nBase, len(cases)-nCorpus-nBase, nWorkers, wall.Seconds(), slow))
	r.Meta.Notes = append(r.Meta.Notes, fmt.Sprintf("per-case time bound: %d ms budget inside the worker (a case counts as hang only when it has burnt >= 60 %% of the budget in CPU time, "+
		"or its goroutine is blocked, or 6 budgets of wall time have passed; then it is re-run once on a fresh worker with twice the budget and must hang again); "+
		"the parent gives up on a silent worker after 6 budgets + 8 s and kills it; heap watchdog %d MiB (20 ms tick), RLIMIT_AS 8 GiB, max goroutine stack 96 MiB",
		c12DefaultTimeoutMs, c12HeapLimit>>20))
	r.Meta.Notes = append(r.Meta.Notes, fmt.Sprintf("worker isolation: every case runs in one of %d re-exec'ed worker processes (JSON lines over pipes, in-memory file system per case, no network, no exec plugins); "+
		"a worker is discarded and replaced after a hang, a heap overrun, a process death (os.Exit, log.Fatal, runtime fatal error such as stack overflow or concurrent map write) and after every case "+
		"that may leave process-global state behind (cases mentioning openapi run with fresh=true); a recovered panic leaves the worker in place (the in-memory fs and the resource factory are per case); "+
		"the death of a worker is attributed to the case it was running, never to its neighbours", nWorkers))

	// 3. kyaml core: outcome class of Lookup / LookupCreate / fieldspec.Filter vs the Coq model
	c12CoreCases(r, rng.Fork(), gen, nCore)
	return nil
}

func orStr(a, b string) string {
	if a != "" {
		return a
	}
	return b
}

func firstLine(s string) string {
	if i := strings.Index(s, "\n"); i >= 0 {
		s = s[:i]
	}
	if len(s) > 160 {
		s = s[:160]
	}
	return s
}

// the innermost message of a wrapped error
func c12ErrTail(s string) string {
	s = firstLine(s)
	parts := strings.Split(s, ": ")
	if len(parts) > 2 {
		parts = parts[len(parts)-2:]
	}
	return strings.Join(parts, " ")
}

var c12Reported = map[string]int{}

// c12Report records a failing case. Unknown classes are shrunk first (bounded effort).
func c12Report(r *Run, known map[string]bool, c c12Case, res c12Result, nWorkers int, origin string) {
	if c12OutOfScope(res) {
		r.Count("out_of_scope", res.Class)
		return
	}
	c12Reported[res.Class]++
	if c12Reported[res.Class] > 3 {
		return // enough witnesses of this class in the report
	}
	if !known[res.Class] && c12Reported[res.Class] == 1 {
		c2, res2, steps := c12Shrink(c, res)
		if steps > 0 {
			c2.Muts = append(append([]string{}, c.Muts...), fmt.Sprintf("shrunk in %d steps", steps))
			c, res = c2, res2
		}
	}
	r.Violation(OracleViolation{Law: "no_panic_exit_hang", Class: res.Class, Detail: origin + " " + c12Detail(c, res), Replay: c})
}

// ---------- replay ----------

func replayC12(path string) (bool, string, error) {
	data, err := os.ReadFile(path)
	if err != nil {
		return false, "", err
	}
	var rp struct {
		Case c12Case `json:"case"`
	}
	if err := json.Unmarshal(data, &rp); err != nil {
		return false, "", err
	}
	if rp.Case.Kind == "" {
		// a bare corpus entry or case
		var e c12CorpusEntry
		if json.Unmarshal(data, &e) == nil && e.Case.Kind != "" {
			rp.Case = e.Case
		} else if err := json.Unmarshal(data, &rp.Case); err != nil || rp.Case.Kind == "" {
			return false, "", fmt.Errorf("no case in %s", path)
		}
	}
	var p *c12Proc
	res := c12ExecConfirm(&p, rp.Case)
	p.kill()
	var b strings.Builder
	fmt.Fprintf(&b, "C12 replay: kind=%s outcome=%s class=%s wall=%dms\n", rp.Case.Kind, res.Outcome, res.Class, res.WallMs)
	if rp.Case.Kind == "build" {
		paths := []string{}
		for p := range rp.Case.Files {
			paths = append(paths, p)
		}
		sort.Strings(paths)
		fmt.Fprintf(&b, "build root: %s\n", rp.Case.Dir)
		for _, p := range paths {
			fmt.Fprintf(&b, "--- %s\n%s\n", p, string(rp.Case.Files[p]))
		}
	} else {
		fmt.Fprintf(&b, "--- data\n%q\n", string(rp.Case.Data))
	}
	fmt.Fprintf(&b, "value/message: %s\n", res.Msg)
	for _, f := range res.Frames {
		fmt.Fprintf(&b, "  at %s\n", f)
	}
	known := c12KnownClasses()
	if res.Class != "" && known[res.Class] {
		fmt.Fprintf(&b, "class %s is a listed known finding\n", res.Class)
	}
	return res.Class != "" && !c12OutOfScope(res), b.String(), nil
}
