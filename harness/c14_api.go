package main

import (
	"fmt"
	"strconv"
	"strings"

	kyaml "sigs.k8s.io/kustomize/kyaml/yaml"
)

// C14, node-API part: ElementMatcher / ElementSetter / ElementAppender / FieldMatcher / FieldClearer{IfEmpty} /
// Tee / SetLabel / SetAnnotation / SetK8sName and the readers Fields / VisitFields / Elements / ElementValues /
// GetKind / GetApiVersion / Field / GetFieldValue / GetString / GetSlice, also on hand-built nodes with an
// arbitrary Content slice, vs KV.Yaml.Elems / KV.Yaml.NodeApi.

type apiSpec struct {
	Keys     []string `json:"keys,omitempty"`
	Values   []string `json:"values,omitempty"`
	Any      bool     `json:"any,omitempty"`
	Create   *vspec   `json:"create,omitempty"`
	Element  *vspec   `json:"element,omitempty"`
	Elements []vspec  `json:"elements,omitempty"`
	Name     string   `json:"name,omitempty"`
	HasValue bool     `json:"hasValue,omitempty"`
	ValueStr string   `json:"valueStr,omitempty"`
	IfEmpty  bool     `json:"ifEmpty,omitempty"`
	K        string   `json:"k,omitempty"`
	V        string   `json:"v,omitempty"`
	PathStr  string   `json:"pathStr,omitempty"`
	RawKind  string   `json:"rawKind,omitempty"` // RKMap | RKSeq
	Raw      []vspec  `json:"raw,omitempty"`     // the Content slice of a hand-built node
}

var apiOps = map[string]bool{
	"elemmatch": true, "elemset": true, "elemappend": true, "fieldmatch": true, "fieldclear": true, "teeset": true,
	"setlabel": true, "setannotation": true, "setk8smeta": true,
	"fields": true, "visitfields": true, "elements": true, "elementvalues": true, "mapfieldtext": true, "field": true,
	"getfieldvalue": true, "getstring": true, "getslice": true,
	"rawfield": true, "rawmapfieldvalue": true, "rawfields": true,
}

func optNode(v *vspec) *kyaml.RNode {
	if v == nil {
		return nil
	}
	return v.build()
}

func coqOptNodeSpec(v *vspec) (string, bool) {
	if v == nil {
		return "None", true
	}
	t, ok := nodeTerm(v.build())
	return "(Some " + t + ")", ok
}

func coqNodeList(l []*kyaml.Node) (string, bool) {
	parts := []string{}
	for _, n := range l {
		t, ok := coqNode(n)
		if !ok {
			return "", false
		}
		parts = append(parts, t)
	}
	return "[" + strings.Join(parts, "; ") + "]", true
}

func (a *apiSpec) rawNode() *kyaml.RNode {
	n := &kyaml.Node{Kind: kyaml.MappingNode}
	if a.RawKind == "RKSeq" {
		n.Kind = kyaml.SequenceNode
	}
	for _, v := range a.Raw {
		n.Content = append(n.Content, v.build().YNode())
	}
	return kyaml.NewRNode(n)
}

// execAPI14 runs one node-API operation; obs is the Coq term of what a reader returned.
func execAPI14(doc *kyaml.RNode, c case14) (cls string, found *kyaml.RNode, obs string, msg string) {
	a := c.API
	obs = "ObNone"
	piped := func(f kyaml.Filter) error {
		var e error
		found, e = doc.Pipe(kyaml.Lookup(c.Path...), f)
		return e
	}
	readAt := func(f func(x *kyaml.RNode) error) error {
		x, e := doc.Pipe(kyaml.Lookup(c.Path...))
		if e != nil {
			return e
		}
		if x == nil {
			obs = "ObNotFound"
			return nil
		}
		return f(x)
	}
	nodesObs := func(l []*kyaml.Node) error {
		t, ok := coqNodeList(l)
		if !ok {
			return fmt.Errorf("unrepresentable")
		}
		obs = "(ObNodes " + t + ")"
		return nil
	}
	cls, msg = protect14(func() error {
		switch c.Op {
		case "elemmatch":
			return piped(kyaml.ElementMatcher{Keys: a.Keys, Values: a.Values, MatchAnyValue: a.Any, Create: optNode(a.Create)})
		case "elemset":
			var el *kyaml.Node
			if a.Element != nil {
				el = a.Element.build().YNode()
			}
			return piped(kyaml.ElementSetter{Keys: a.Keys, Values: a.Values, Element: el})
		case "elemappend":
			els := []*kyaml.Node{}
			for _, v := range a.Elements {
				els = append(els, v.build().YNode())
			}
			return piped(kyaml.ElementAppender{Elements: els})
		case "fieldmatch":
			fm := kyaml.FieldMatcher{Name: a.Name, Create: optNode(a.Create)}
			if a.HasValue {
				fm.Value = kyaml.NewScalarRNode(a.ValueStr)
			}
			return piped(fm)
		case "fieldclear":
			return piped(kyaml.FieldClearer{Name: a.Name, IfEmpty: a.IfEmpty})
		case "teeset":
			return piped(kyaml.Tee(kyaml.SetField(a.Name, a.Element.build())))
		case "setlabel":
			var e error
			found, e = doc.Pipe(kyaml.SetLabel(a.K, a.V))
			return e
		case "setannotation":
			_, e := doc.Pipe(kyaml.SetAnnotation(a.K, a.V))
			return e
		case "setk8smeta":
			if a.K == "namespace" {
				_, e := doc.Pipe(kyaml.SetK8sNamespace(a.V))
				return e
			}
			_, e := doc.Pipe(kyaml.SetK8sName(a.V))
			return e
		case "fields":
			return readAt(func(x *kyaml.RNode) error {
				l, e := x.Fields()
				obs = "(ObStrs " + coqStrList(l) + ")"
				return e
			})
		case "visitfields":
			return readAt(func(x *kyaml.RNode) error {
				parts := []string{}
				e := x.VisitFields(func(mn *kyaml.MapNode) error {
					if mn == nil {
						parts = append(parts, `("<nil>", None)`)
						return nil
					}
					t, ok := coqNode(mn.Value.YNode())
					if !ok {
						return fmt.Errorf("unrepresentable")
					}
					parts = append(parts, fmt.Sprintf("(%s, Some %s)", coqStr(mn.Key.YNode().Value), t))
					return nil
				})
				obs = "(ObPairs [" + strings.Join(parts, "; ") + "])"
				return e
			})
		case "elements":
			return readAt(func(x *kyaml.RNode) error {
				l, e := x.Elements()
				if e != nil {
					return e
				}
				ns := []*kyaml.Node{}
				for _, r := range l {
					ns = append(ns, r.YNode())
				}
				return nodesObs(ns)
			})
		case "elementvalues":
			return readAt(func(x *kyaml.RNode) error {
				l, e := x.ElementValues(a.Name)
				obs = "(ObStrs " + coqStrList(l) + ")"
				return e
			})
		case "mapfieldtext":
			return readAt(func(x *kyaml.RNode) error {
				s := ""
				if a.Name == "apiVersion" {
					s = x.GetApiVersion()
				} else {
					s = x.GetKind()
				}
				obs = "(ObStr " + coqStr(s) + ")"
				return nil
			})
		case "field":
			return readAt(func(x *kyaml.RNode) error {
				mn := x.Field(a.Name)
				if mn == nil {
					return nodesObs(nil)
				}
				return nodesObs([]*kyaml.Node{mn.Value.YNode()})
			})
		case "getfieldvalue":
			v, e := doc.GetFieldValue(a.PathStr)
			if e != nil {
				return e
			}
			switch x := v.(type) {
			case map[string]interface{}:
				obs = "(ObVal GMap)"
			case []interface{}:
				obs = "(ObVal GSlice)"
			case string:
				obs = "(ObVal (GStr " + coqStr(x) + "))"
			case int:
				neg, mag := "false", x
				if x < 0 {
					neg, mag = "true", -x
				}
				obs = fmt.Sprintf("(ObVal (GInt %s %d%%N))", neg, mag)
			case float64:
				obs = `(ObVal (GFloat ""))`
			case bool:
				obs = "(ObVal (GBool " + coqBool(x) + "))"
			default:
				return fmt.Errorf("unrepresentable value %T", v)
			}
			return nil
		case "getstring":
			s, e := doc.GetString(a.PathStr)
			obs = "(ObStr " + coqStr(s) + ")"
			return e
		case "getslice":
			_, e := doc.GetSlice(a.PathStr)
			return e
		case "rawfield":
			mn := a.rawNode().Field(a.Name)
			if mn == nil {
				return nodesObs(nil)
			}
			return nodesObs([]*kyaml.Node{mn.Value.YNode()})
		case "rawmapfieldvalue":
			// getMapFieldValue is reached through GetKind / GetApiVersion: observe through a Lookup-free reader
			rn := a.rawNode()
			var got string
			if a.Name == "apiVersion" {
				got = rn.GetApiVersion()
			} else {
				got = rn.GetKind()
			}
			// the model returns the node; only its Value is observable here
			if got == "" {
				obs = "(ObStr \"\")"
			} else {
				obs = "(ObStr " + coqStr(got) + ")"
			}
			return nil
		case "rawfields":
			l, e := a.rawNode().Fields()
			obs = "(ObStrs " + coqStrList(l) + ")"
			return e
		}
		return fmt.Errorf("bad op")
	})
	return cls, found, obs, msg
}

// coqOp of a node-API case
func (a *apiSpec) coqOp(op string) (string, bool) {
	optStr := func(has bool, s string) string {
		if !has {
			return "None"
		}
		return "(Some " + coqStr(s) + ")"
	}
	rawContent := func() (string, bool) {
		ns := []*kyaml.Node{}
		for _, v := range a.Raw {
			ns = append(ns, v.build().YNode())
		}
		return coqNodeList(ns)
	}
	switch op {
	case "elemmatch":
		cr, ok := coqOptNodeSpec(a.Create)
		return fmt.Sprintf("(OElemMatch %s %s %s %s)", coqStrList(a.Keys), coqStrList(a.Values), coqBool(a.Any), cr), ok
	case "elemset":
		el, ok := coqOptNodeSpec(a.Element)
		return fmt.Sprintf("(OElemSet %s %s %s)", coqStrList(a.Keys), coqStrList(a.Values), el), ok
	case "elemappend":
		ns := []*kyaml.Node{}
		for _, v := range a.Elements {
			ns = append(ns, v.build().YNode())
		}
		t, ok := coqNodeList(ns)
		return "(OElemAppend " + t + ")", ok
	case "fieldmatch":
		cr, ok := coqOptNodeSpec(a.Create)
		return fmt.Sprintf("(OFieldMatch %s %s %s)", coqStr(a.Name), optStr(a.HasValue, a.ValueStr), cr), ok
	case "fieldclear":
		return fmt.Sprintf("(OFieldClear %s %s)", coqStr(a.Name), coqBool(a.IfEmpty)), true
	case "teeset":
		t, ok := nodeTerm(a.Element.build())
		return fmt.Sprintf("(OTeeSet %s %s)", coqStr(a.Name), t), ok
	case "setlabel":
		return fmt.Sprintf("(OSetLabel %s %s)", coqStr(a.K), coqStr(a.V)), true
	case "setannotation":
		return fmt.Sprintf("(OSetAnnotation %s %s)", coqStr(a.K), coqStr(a.V)), true
	case "setk8smeta":
		return fmt.Sprintf("(OSetK8sMeta %s %s)", coqStr(a.K), coqStr(a.V)), true
	case "fields":
		return "OFields", true
	case "visitfields":
		return "OVisitFields", true
	case "elements":
		return "OElements", true
	case "elementvalues":
		return "(OElementValues " + coqStr(a.Name) + ")", true
	case "mapfieldtext":
		return "(OMapFieldText " + coqStr(a.Name) + ")", true
	case "field":
		return "(OField " + coqStr(a.Name) + ")", true
	case "getfieldvalue":
		return "(OGetFieldValue " + coqStr(a.PathStr) + ")", true
	case "getstring":
		return "(OGetString " + coqStr(a.PathStr) + ")", true
	case "getslice":
		return "(OGetSlice " + coqStr(a.PathStr) + ")", true
	case "rawfield":
		t, ok := rawContent()
		return fmt.Sprintf("(ORawField %s %s %s)", a.RawKind, t, coqStr(a.Name)), ok
	case "rawmapfieldvalue":
		t, ok := rawContent()
		return fmt.Sprintf("(ORawMapFieldValue %s %s %s)", a.RawKind, t, coqStr(a.Name)), ok
	case "rawfields":
		t, ok := rawContent()
		return fmt.Sprintf("(ORawFields %s %s)", a.RawKind, t), ok
	}
	return "", false
}

// scalar texts of the values an API case brings along (for the nonstr / floatok tables)
func (a *apiSpec) scalarTexts(acc map[string]bool) {
	for _, v := range []*vspec{a.Create, a.Element} {
		if v != nil {
			scalarValues(v.build().YNode(), acc)
		}
	}
	for _, v := range a.Elements {
		scalarValues(v.build().YNode(), acc)
	}
	for _, v := range a.Raw {
		scalarValues(v.build().YNode(), acc)
	}
	acc[a.V] = true
	acc[a.ValueStr] = true
}

// ---------- generators ----------

type seqAt struct {
	path []string
	seq  *gnode
}

// every sequence / mapping of the document with the path leading to it (keys and indices only)
func collect14(g *gnode, path []string, seqs *[]seqAt, maps *[]seqAt, depth int) {
	switch g.kind {
	case 1:
		*maps = append(*maps, seqAt{append([]string{}, path...), g})
		seen := map[string]bool{}
		for i, k := range g.keys {
			if seen[k] {
				continue
			}
			seen[k] = true
			collect14(g.vals[i], append(path, k), seqs, maps, depth+1)
		}
	case 2:
		*seqs = append(*seqs, seqAt{append([]string{}, path...), g})
		for i, e := range g.vals {
			collect14(e, append(path, strconv.Itoa(i)), seqs, maps, depth+1)
		}
	}
}

var apiElemValues = []vspec{
	{"parse", "{name: x, v: new}"}, {"parse", "{name: y}"}, {"parse", "{name: z, a: 1}"}, {"parse", "{a: 1, name: x}"},
	{"parse", "x"}, {"parse", "null"}, {"parse", "{}"}, {"parse", "[p]"}, {"scalar", "yes"}, {"parse", "{b: x}"},
}

func pickV(g *Rng, l []vspec) *vspec {
	v := l[g.Intn(len(l))]
	return &v
}

// genDocAPI14: like genNode14 but with empty-map and null elements in lists now and then
func genDocAPI14(g *Rng) *gnode {
	root := genNode14(g, 3, true)
	var rec func(x *gnode)
	rec = func(x *gnode) {
		if x.kind == 2 && g.Chance(25) {
			ins := &gnode{kind: 1}
			if g.Bool() {
				ins = &gnode{kind: 0, text: "null"}
			}
			pos := g.Intn(len(x.vals) + 1)
			x.vals = append(x.vals[:pos], append([]*gnode{ins}, x.vals[pos:]...)...)
		}
		for _, c := range x.vals {
			rec(c)
		}
	}
	rec(root)
	return root
}

func hasSeq14(x *gnode) bool {
	if x.kind == 2 {
		return true
	}
	for _, c := range x.vals {
		if hasSeq14(c) {
			return true
		}
	}
	return false
}

// every node with the path (keys, indices) leading to it
func collectAll14(x *gnode, path []string, out *[]seqAt) {
	*out = append(*out, seqAt{append([]string{}, path...), x})
	switch x.kind {
	case 1:
		seen := map[string]bool{}
		for i, k := range x.keys {
			if !seen[k] {
				seen[k] = true
				collectAll14(x.vals[i], append(path, k), out)
			}
		}
	case 2:
		for i, e := range x.vals {
			collectAll14(e, append(path, strconv.Itoa(i)), out)
		}
	}
}

func genAPICase14(g *Rng) case14 {
	root := genDocAPI14(g)
	for try := 0; try < 6 && !hasSeq14(root); try++ {
		root = genDocAPI14(g)
	}
	if g.Chance(30) { // k8s-looking top level
		meta := &gnode{kind: 1}
		switch g.Intn(5) {
		case 0:
			meta.keys, meta.vals = []string{"name"}, []*gnode{{kind: 0, text: "n1"}}
		case 1:
			meta.keys, meta.vals = []string{"labels", "annotations"}, []*gnode{{kind: 1, keys: []string{"a"}, vals: []*gnode{{kind: 0, text: "x"}}}, {kind: 1}}
		case 2:
			meta.keys, meta.vals = []string{"annotations"}, []*gnode{{kind: 0, text: "null"}}
		case 3:
			meta = &gnode{kind: 0, text: "null"}
		}
		root.keys = append([]string{"kind", "metadata"}, root.keys...)
		root.vals = append([]*gnode{{kind: 0, text: g.Pick([]string{"Deployment", "x", "1"})}, meta}, root.vals...)
	}
	doc := root.yaml()
	seqs, maps := []seqAt{}, []seqAt{}
	collect14(root, nil, &seqs, &maps, 0)
	a := &apiSpec{}
	c := case14{Doc: doc, Path: []string{}, API: a}
	pickSeq := func() *gnode {
		if len(seqs) > 0 && !g.Chance(12) {
			s := seqs[g.Intn(len(seqs))]
			c.Path = s.path
			return s.seq
		}
		c.Path = genPathGuided14(g, root, 3)
		return nil
	}
	pickMap := func() *gnode {
		if len(maps) > 0 && !g.Chance(12) {
			m := maps[g.Intn(len(maps))]
			c.Path = m.path
			return m.seq
		}
		c.Path = genPathGuided14(g, root, 3)
		return nil
	}
	// a key/value pair taken from an element of the list (or random)
	kvOf := func(s *gnode) (string, string) {
		if s != nil && len(s.vals) > 0 && !g.Chance(25) {
			e := s.vals[g.Intn(len(s.vals))]
			if e.kind == 1 && len(e.keys) > 0 {
				j := g.Intn(len(e.keys))
				if e.vals[j].kind == 0 {
					return e.keys[j], strings.Trim(e.vals[j].text, `"`)
				}
				return e.keys[j], ""
			}
			if e.kind == 0 {
				return "", strings.Trim(e.text, `"`)
			}
		}
		return g.Pick([]string{"name", "a", "b", ""}), g.Pick([]string{"x", "y", "z", "1", ""})
	}
	ops := []string{"elemmatch", "elemmatch", "elemset", "elemset", "elemset", "elemappend", "fieldmatch", "fieldmatch", "fieldclear", "teeset",
		"setlabel", "setannotation", "setk8smeta", "fields", "visitfields", "elements", "elementvalues", "mapfieldtext", "field",
		"getfieldvalue", "getfieldvalue", "getstring", "getslice", "rawfield", "rawmapfieldvalue", "rawfields"}
	c.Op = g.Pick(ops)
	switch c.Op {
	case "elemmatch", "elemset":
		s := pickSeq()
		k, v := kvOf(s)
		a.Keys, a.Values = []string{k}, []string{v}
		switch g.Intn(10) {
		case 0: // two keys
			k2, v2 := kvOf(s)
			a.Keys, a.Values = append(a.Keys, k2), append(a.Values, v2)
		case 1: // lengths differ
			a.Keys = append(a.Keys, g.Pick([]string{"a", "", "name"}))
		case 2:
			a.Values = []string{}
		case 3:
			a.Keys = []string{}
		case 4:
			a.Values = append(a.Values, "x")
		}
		if c.Op == "elemmatch" {
			a.Any = g.Chance(18)
			if a.Any && g.Chance(70) {
				a.Values = []string{}
			}
			if g.Chance(30) {
				a.Create = pickV(g, apiElemValues)
			}
		} else if !g.Chance(15) {
			a.Element = pickV(g, apiElemValues)
			if g.Chance(50) && k != "" { // an element that answers to the key itself
				a.Element = &vspec{"parse", "{" + k + ": " + quoteFlow(v) + ", extra: e}"}
			}
		}
	case "elemappend":
		pickSeq()
		for n := g.Intn(3); n >= 0; n-- {
			a.Elements = append(a.Elements, *pickV(g, apiElemValues))
		}
		if g.Chance(10) {
			a.Elements = nil
		}
	case "fieldmatch":
		m := pickMap()
		a.Name = g.Pick(c14Keys)
		if m != nil && len(m.keys) > 0 && g.Chance(70) {
			j := g.Intn(len(m.keys))
			a.Name = m.keys[j]
			if m.vals[j].kind == 0 && g.Chance(60) {
				a.HasValue, a.ValueStr = true, strings.Trim(m.vals[j].text, `"`)
			}
		}
		if g.Chance(12) {
			a.Name = ""
		}
		if !a.HasValue && g.Chance(35) {
			a.HasValue, a.ValueStr = true, g.Pick([]string{"x", "y", "1", ""})
		}
		if g.Chance(35) {
			a.Create = pickV(g, c14Values)
		}
	case "fieldclear":
		m := pickMap()
		a.Name = g.Pick(c14Keys)
		if m != nil && len(m.keys) > 0 && g.Chance(75) {
			a.Name = m.keys[g.Intn(len(m.keys))]
		}
		a.IfEmpty = g.Bool()
	case "teeset":
		pickMap()
		a.Name = g.Pick(c14Keys)
		a.Element = pickV(g, c14Values)
	case "setlabel", "setannotation":
		a.K, a.V = g.Pick([]string{"a", "b", "app", "config.kubernetes.io/index"}), g.Pick([]string{"x", "1", "yes", "", "true"})
	case "setk8smeta":
		a.K, a.V = g.Pick([]string{"name", "namespace"}), g.Pick([]string{"x", "1", "yes", "012"})
	case "fields", "visitfields", "field", "mapfieldtext":
		pickMap()
		if g.Chance(15) {
			pickSeq()
		}
		a.Name = g.Pick([]string{"kind", "apiVersion"})
		if c.Op == "field" {
			a.Name = g.Pick(c14Keys)
		}
	case "elements", "elementvalues":
		pickSeq()
		a.Name = g.Pick([]string{"name", "a", "b"})
	case "getfieldvalue", "getstring", "getslice":
		p := genPathGuided14(g, root, 4)
		if !g.Chance(25) {
			all := []seqAt{}
			collectAll14(root, nil, &all)
			want := -1 // any
			if c.Op == "getstring" {
				want = 0
			} else if c.Op == "getslice" {
				want = 2
			}
			cand := []seqAt{}
			for _, x := range all {
				if len(x.path) > 0 && (want < 0 || x.seq.kind == want) {
					cand = append(cand, x)
				}
			}
			if len(cand) > 0 {
				p = cand[g.Intn(len(cand))].path
			}
		}
		a.PathStr = dotPath14(g, p)
	case "rawfield", "rawmapfieldvalue", "rawfields":
		a.RawKind = g.Pick([]string{"RKMap", "RKMap", "RKSeq"})
		n := g.Intn(6)
		for i := 0; i < n; i++ {
			if i%2 == 0 && !g.Chance(10) {
				a.Raw = append(a.Raw, vspec{"parse", g.Pick([]string{"kind", "apiVersion", "a", "b"})})
			} else {
				a.Raw = append(a.Raw, *pickV(g, c14Values))
			}
		}
		a.Name = g.Pick([]string{"kind", "apiVersion"})
		if c.Op == "rawfield" {
			a.Name = g.Pick([]string{"kind", "apiVersion", "a", "b", "zz"})
		}
	}
	return c
}

func quoteFlow(v string) string {
	if v == "" {
		return `""`
	}
	return v
}

// dotPath14 joins path parts the way GetFieldValue expects them: '.'-separated, an index as name[i] now and then,
// a bracketed selector kept whole by SmarterPathSplitter
func dotPath14(g *Rng, parts []string) string {
	out := []string{}
	for _, p := range parts {
		p = strings.TrimSpace(p)
		if _, err := strconv.Atoi(p); err == nil && len(out) > 0 && g.Chance(60) {
			out[len(out)-1] += "[" + p + "]"
			continue
		}
		out = append(out, p)
	}
	s := strings.Join(out, ".")
	if g.Chance(5) {
		s += g.Pick([]string{".", "[", "]", "[x]", "\\."})
	}
	return s
}

// floatTexts: the scalar texts strconv.ParseFloat accepts
func floatTexts(acc map[string]bool) []string {
	out := []string{}
	for _, s := range sortedKeys(acc) {
		if _, err := strconv.ParseFloat(s, 64); err == nil {
			out = append(out, s)
		}
	}
	return out
}
