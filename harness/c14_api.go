package main

import (
	"fmt"
	"regexp"
	"regexp/syntax"
	"strconv"
	"strings"
	"sync"

	"sigs.k8s.io/kustomize/kyaml/utils"
	kyaml "sigs.k8s.io/kustomize/kyaml/yaml"
)

// C14, node-API part: ElementMatcher / ElementSetter / ElementAppender / FieldMatcher / FieldClearer{IfEmpty} /
// Tee / SetLabel / SetAnnotation / SetK8sName and the readers Fields / VisitFields / Elements / ElementValues /
// GetKind / GetApiVersion / Field / GetFieldValue / GetString / GetSlice, also on hand-built nodes with an
// arbitrary Content slice, vs KV.Yaml.Elems / KV.Yaml.NodeApi.

type apiSpec struct {
	Keys     []string `json:"keys,omitempty"`
	Values   []string `json:"values,omitempty"`
	Any      bool     `json:"any,omitempty"`
	Create   *vspec   `json:"create,omitempty"`
	Element  *vspec   `json:"element,omitempty"`
	Elements []vspec  `json:"elements,omitempty"`
	Name     string   `json:"name,omitempty"`
	HasValue bool     `json:"hasValue,omitempty"`
	ValueStr string   `json:"valueStr,omitempty"`
	IfEmpty  bool     `json:"ifEmpty,omitempty"`
	K        string   `json:"k,omitempty"`
	V        string   `json:"v,omitempty"`
	PathStr  string   `json:"pathStr,omitempty"`
	RawKind  string   `json:"rawKind,omitempty"` // RKMap | RKSeq
	Raw      []vspec  `json:"raw,omitempty"`     // the Content slice of a hand-built node
}

var apiOps = map[string]bool{
	"elemmatch": true, "elemset": true, "elemappend": true, "fieldmatch": true, "fieldmatchre": true, "fieldclear": true, "teeset": true,
	"setlabel": true, "setannotation": true, "setk8smeta": true,
	"fields": true, "visitfields": true, "elements": true, "elementvalues": true, "mapfieldtext": true, "field": true,
	"getfieldvalue": true, "getstring": true, "getslice": true,
	"rawfield": true, "rawmapfieldvalue": true, "rawfields": true,
	"pathsplit": true, "pathsplitc": true, "smartsplit": true,
}

func optNode(v *vspec) *kyaml.RNode {
	if v == nil {
		return nil
	}
	return v.build()
}

func coqOptNodeSpec(v *vspec) (string, bool) {
	if v == nil {
		return "None", true
	}
	t, ok := nodeTerm(v.build())
	return "(Some " + t + ")", ok
}

func coqNodeList(l []*kyaml.Node) (string, bool) {
	parts := []string{}
	for _, n := range l {
		t, ok := coqNode(n)
		if !ok {
			return "", false
		}
		parts = append(parts, t)
	}
	return "[" + strings.Join(parts, "; ") + "]", true
}

func (a *apiSpec) rawNode() *kyaml.RNode {
	n := &kyaml.Node{Kind: kyaml.MappingNode}
	if a.RawKind == "RKSeq" {
		n.Kind = kyaml.SequenceNode
	}
	for _, v := range a.Raw {
		n.Content = append(n.Content, v.build().YNode())
	}
	return kyaml.NewRNode(n)
}

// execAPI14 runs one node-API operation; obs is the Coq term of what a reader returned.
func execAPI14(doc *kyaml.RNode, c case14) (cls string, found *kyaml.RNode, obs string, msg string) {
	a := c.API
	obs = "ObNone"
	piped := func(f kyaml.Filter) error {
		var e error
		found, e = doc.Pipe(kyaml.Lookup(c.Path...), f)
		return e
	}
	readAt := func(f func(x *kyaml.RNode) error) error {
		x, e := doc.Pipe(kyaml.Lookup(c.Path...))
		if e != nil {
			return e
		}
		if x == nil {
			obs = "ObNotFound"
			return nil
		}
		return f(x)
	}
	nodesObs := func(l []*kyaml.Node) error {
		t, ok := coqNodeList(l)
		if !ok {
			return fmt.Errorf("unrepresentable")
		}
		obs = "(ObNodes " + t + ")"
		return nil
	}
	cls, msg = protect14(func() error {
		switch c.Op {
		case "elemmatch":
			return piped(kyaml.ElementMatcher{Keys: a.Keys, Values: a.Values, MatchAnyValue: a.Any, Create: optNode(a.Create)})
		case "elemset":
			var el *kyaml.Node
			if a.Element != nil {
				el = a.Element.build().YNode()
			}
			return piped(kyaml.ElementSetter{Keys: a.Keys, Values: a.Values, Element: el})
		case "elemappend":
			els := []*kyaml.Node{}
			for _, v := range a.Elements {
				els = append(els, v.build().YNode())
			}
			return piped(kyaml.ElementAppender{Elements: els})
		case "fieldmatch":
			fm := kyaml.FieldMatcher{Name: a.Name, Create: optNode(a.Create)}
			if a.HasValue {
				fm.Value = kyaml.NewScalarRNode(a.ValueStr)
			}
			return piped(fm)
		case "fieldmatchre":
			return piped(kyaml.FieldMatcher{Name: a.Name, StringRegexValue: a.ValueStr})
		case "fieldclear":
			return piped(kyaml.FieldClearer{Name: a.Name, IfEmpty: a.IfEmpty})
		case "teeset":
			return piped(kyaml.Tee(kyaml.SetField(a.Name, a.Element.build())))
		case "setlabel":
			var e error
			found, e = doc.Pipe(kyaml.SetLabel(a.K, a.V))
			return e
		case "setannotation":
			_, e := doc.Pipe(kyaml.SetAnnotation(a.K, a.V))
			return e
		case "setk8smeta":
			if a.K == "namespace" {
				_, e := doc.Pipe(kyaml.SetK8sNamespace(a.V))
				return e
			}
			_, e := doc.Pipe(kyaml.SetK8sName(a.V))
			return e
		case "fields":
			return readAt(func(x *kyaml.RNode) error {
				l, e := x.Fields()
				obs = "(ObStrs " + coqStrList(l) + ")"
				return e
			})
		case "visitfields":
			return readAt(func(x *kyaml.RNode) error {
				parts := []string{}
				e := x.VisitFields(func(mn *kyaml.MapNode) error {
					if mn == nil {
						parts = append(parts, `("<nil>", None)`)
						return nil
					}
					t, ok := coqNode(mn.Value.YNode())
					if !ok {
						return fmt.Errorf("unrepresentable")
					}
					parts = append(parts, fmt.Sprintf("(%s, Some %s)", coqStr(mn.Key.YNode().Value), t))
					return nil
				})
				obs = "(ObPairs [" + strings.Join(parts, "; ") + "])"
				return e
			})
		case "elements":
			return readAt(func(x *kyaml.RNode) error {
				l, e := x.Elements()
				if e != nil {
					return e
				}
				ns := []*kyaml.Node{}
				for _, r := range l {
					ns = append(ns, r.YNode())
				}
				return nodesObs(ns)
			})
		case "elementvalues":
			return readAt(func(x *kyaml.RNode) error {
				l, e := x.ElementValues(a.Name)
				obs = "(ObStrs " + coqStrList(l) + ")"
				return e
			})
		case "mapfieldtext":
			return readAt(func(x *kyaml.RNode) error {
				s := ""
				if a.Name == "apiVersion" {
					s = x.GetApiVersion()
				} else {
					s = x.GetKind()
				}
				obs = "(ObStr " + coqStr(s) + ")"
				return nil
			})
		case "field":
			return readAt(func(x *kyaml.RNode) error {
				mn := x.Field(a.Name)
				if mn == nil {
					return nodesObs(nil)
				}
				return nodesObs([]*kyaml.Node{mn.Value.YNode()})
			})
		case "getfieldvalue":
			v, e := doc.GetFieldValue(a.PathStr)
			if e != nil {
				return e
			}
			switch x := v.(type) {
			case map[string]interface{}:
				obs = "(ObVal GMap)"
			case []interface{}:
				obs = "(ObVal GSlice)"
			case string:
				obs = "(ObVal (GStr " + coqStr(x) + "))"
			case int:
				neg, mag := "false", x
				if x < 0 {
					neg, mag = "true", -x
				}
				obs = fmt.Sprintf("(ObVal (GInt %s %d%%N))", neg, mag)
			case float64:
				obs = `(ObVal (GFloat ""))`
			case bool:
				obs = "(ObVal (GBool " + coqBool(x) + "))"
			default:
				return fmt.Errorf("unrepresentable value %T", v)
			}
			return nil
		case "getstring":
			s, e := doc.GetString(a.PathStr)
			obs = "(ObStr " + coqStr(s) + ")"
			return e
		case "getslice":
			_, e := doc.GetSlice(a.PathStr)
			return e
		case "rawfield":
			mn := a.rawNode().Field(a.Name)
			if mn == nil {
				return nodesObs(nil)
			}
			return nodesObs([]*kyaml.Node{mn.Value.YNode()})
		case "rawmapfieldvalue":
			// getMapFieldValue is reached through GetKind / GetApiVersion: observe through a Lookup-free reader
			rn := a.rawNode()
			var got string
			if a.Name == "apiVersion" {
				got = rn.GetApiVersion()
			} else {
				got = rn.GetKind()
			}
			// the model returns the node; only its Value is observable here
			if got == "" {
				obs = "(ObStr \"\")"
			} else {
				obs = "(ObStr " + coqStr(got) + ")"
			}
			return nil
		case "rawfields":
			l, e := a.rawNode().Fields()
			obs = "(ObStrs " + coqStrList(l) + ")"
			return e
		case "pathsplit":
			obs = "(ObStrs " + coqStrList(utils.PathSplitter(a.PathStr, "/")) + ")"
			return nil
		case "pathsplitc":
			obs = "(ObStrs " + coqStrList(utils.PathSplitter(a.PathStr, a.K)) + ")"
			return nil
		case "smartsplit":
			obs = "(ObStrs " + coqStrList(utils.SmarterPathSplitter(a.PathStr, a.K)) + ")"
			return nil
		}
		return fmt.Errorf("bad op")
	})
	return cls, found, obs, msg
}

// coqOp of a node-API case
func (a *apiSpec) coqOp(op string) (string, bool) {
	optStr := func(has bool, s string) string {
		if !has {
			return "None"
		}
		return "(Some " + coqStr(s) + ")"
	}
	rawContent := func() (string, bool) {
		ns := []*kyaml.Node{}
		for _, v := range a.Raw {
			ns = append(ns, v.build().YNode())
		}
		return coqNodeList(ns)
	}
	switch op {
	case "elemmatch":
		cr, ok := coqOptNodeSpec(a.Create)
		return fmt.Sprintf("(OElemMatch %s %s %s %s)", coqStrList(a.Keys), coqStrList(a.Values), coqBool(a.Any), cr), ok
	case "elemset":
		el, ok := coqOptNodeSpec(a.Element)
		return fmt.Sprintf("(OElemSet %s %s %s)", coqStrList(a.Keys), coqStrList(a.Values), el), ok
	case "elemappend":
		ns := []*kyaml.Node{}
		for _, v := range a.Elements {
			ns = append(ns, v.build().YNode())
		}
		t, ok := coqNodeList(ns)
		return "(OElemAppend " + t + ")", ok
	case "fieldmatch":
		cr, ok := coqOptNodeSpec(a.Create)
		return fmt.Sprintf("(OFieldMatch %s %s %s)", coqStr(a.Name), optStr(a.HasValue, a.ValueStr), cr), ok
	case "fieldmatchre":
		// the compiled expression travels with the case (regexp/syntax tree -> KV.Base.Regex term)
		cre := "None"
		if re, err := syntax.Parse(a.ValueStr, syntax.Perl); err == nil {
			t, ok := c10Re(re.Simplify())
			if !ok {
				return "", false
			}
			cre = "(Some " + t + ")"
		}
		return fmt.Sprintf("(OFieldMatchRe %s %s)", coqStr(a.Name), cre), true
	case "fieldclear":
		return fmt.Sprintf("(OFieldClear %s %s)", coqStr(a.Name), coqBool(a.IfEmpty)), true
	case "teeset":
		t, ok := nodeTerm(a.Element.build())
		return fmt.Sprintf("(OTeeSet %s %s)", coqStr(a.Name), t), ok
	case "setlabel":
		return fmt.Sprintf("(OSetLabel %s %s)", coqStr(a.K), coqStr(a.V)), true
	case "setannotation":
		return fmt.Sprintf("(OSetAnnotation %s %s)", coqStr(a.K), coqStr(a.V)), true
	case "setk8smeta":
		return fmt.Sprintf("(OSetK8sMeta %s %s)", coqStr(a.K), coqStr(a.V)), true
	case "fields":
		return "OFields", true
	case "visitfields":
		return "OVisitFields", true
	case "elements":
		return "OElements", true
	case "elementvalues":
		return "(OElementValues " + coqStr(a.Name) + ")", true
	case "mapfieldtext":
		return "(OMapFieldText " + coqStr(a.Name) + ")", true
	case "field":
		return "(OField " + coqStr(a.Name) + ")", true
	case "getfieldvalue":
		return "(OGetFieldValue " + coqStr(a.PathStr) + ")", true
	case "getstring":
		return "(OGetString " + coqStr(a.PathStr) + ")", true
	case "getslice":
		return "(OGetSlice " + coqStr(a.PathStr) + ")", true
	case "rawfield":
		t, ok := rawContent()
		return fmt.Sprintf("(ORawField %s %s %s)", a.RawKind, t, coqStr(a.Name)), ok
	case "rawmapfieldvalue":
		t, ok := rawContent()
		return fmt.Sprintf("(ORawMapFieldValue %s %s %s)", a.RawKind, t, coqStr(a.Name)), ok
	case "rawfields":
		t, ok := rawContent()
		return fmt.Sprintf("(ORawFields %s %s)", a.RawKind, t), ok
	case "pathsplit":
		return "(OPathSplit " + coqStr(a.PathStr) + ")", true
	case "pathsplitc":
		return fmt.Sprintf("(OPathSplitC %s%%char %s)", coqStr(a.K), coqStr(a.PathStr)), len(a.K) == 1
	case "smartsplit":
		return fmt.Sprintf("(OSmartSplit %s%%char %s)", coqStr(a.K), coqStr(a.PathStr)), len(a.K) == 1
	}
	return "", false
}

// scalar texts of the values an API case brings along (for the nonstr / floatok tables)
func (a *apiSpec) scalarTexts(acc map[string]bool) {
	for _, v := range []*vspec{a.Create, a.Element} {
		if v != nil {
			scalarValues(v.build().YNode(), acc)
		}
	}
	for _, v := range a.Elements {
		scalarValues(v.build().YNode(), acc)
	}
	for _, v := range a.Raw {
		scalarValues(v.build().YNode(), acc)
	}
	acc[a.V] = true
	acc[a.ValueStr] = true
}

// ---------- generators ----------

type seqAt struct {
	path []string
	seq  *gnode
}

// every sequence / mapping of the document with the path leading to it (keys and indices only)
func collect14(g *gnode, path []string, seqs *[]seqAt, maps *[]seqAt, depth int) {
	switch g.kind {
	case 1:
		*maps = append(*maps, seqAt{append([]string{}, path...), g})
		seen := map[string]bool{}
		for i, k := range g.keys {
			if seen[k] {
				continue
			}
			seen[k] = true
			collect14(g.vals[i], append(path, k), seqs, maps, depth+1)
		}
	case 2:
		*seqs = append(*seqs, seqAt{append([]string{}, path...), g})
		for i, e := range g.vals {
			collect14(e, append(path, strconv.Itoa(i)), seqs, maps, depth+1)
		}
	}
}

var apiElemValues = []vspec{
	{"parse", "{name: x, v: new}"}, {"parse", "{name: y}"}, {"parse", "{name: z, a: 1}"}, {"parse", "{a: 1, name: x}"},
	{"parse", "x"}, {"parse", "null"}, {"parse", "{}"}, {"parse", "[p]"}, {"scalar", "yes"}, {"parse", "{b: x}"},
}

func pickV(g *Rng, l []vspec) *vspec {
	v := l[g.Intn(len(l))]
	return &v
}

// genDocAPI14: like genNode14 but with empty-map and null elements in lists now and then
func genDocAPI14(g *Rng) *gnode {
	root := genNode14(g, 3, true)
	var rec func(x *gnode)
	rec = func(x *gnode) {
		if x.kind == 2 && g.Chance(30) {
			ins := &gnode{kind: 1}
			switch g.Intn(6) {
			case 0, 1:
				ins = &gnode{kind: 0, text: "null"}
			case 2:
				ins = &gnode{kind: 2} // []
			case 3:
				ins = &gnode{kind: 0, text: g.Pick([]string{`""`, "0", "false"})}
			}
			pos := g.Intn(len(x.vals) + 1)
			x.vals = append(x.vals[:pos], append([]*gnode{ins}, x.vals[pos:]...)...)
		}
		for _, c := range x.vals {
			rec(c)
		}
	}
	rec(root)
	return root
}

func hasSeq14(x *gnode) bool {
	if x.kind == 2 {
		return true
	}
	for _, c := range x.vals {
		if hasSeq14(c) {
			return true
		}
	}
	return false
}

// every node with the path (keys, indices) leading to it
func collectAll14(x *gnode, path []string, out *[]seqAt) {
	*out = append(*out, seqAt{append([]string{}, path...), x})
	switch x.kind {
	case 1:
		seen := map[string]bool{}
		for i, k := range x.keys {
			if !seen[k] {
				seen[k] = true
				collectAll14(x.vals[i], append(path, k), out)
			}
		}
	case 2:
		for i, e := range x.vals {
			collectAll14(e, append(path, strconv.Itoa(i)), out)
		}
	}
}

func genAPICase14(g *Rng) case14 {
	root := genDocAPI14(g)
	if g.Chance(50) {
		root = genNode14(g, 3, true) // lists without inserted null / empty-mapping elements
		var rec func(x *gnode)
		rec = func(x *gnode) { // ... but with siblings ElementSetter has to keep: [], "", 0, [x]
			if x.kind == 2 && g.Chance(35) {
				ins := []*gnode{{kind: 2}, {kind: 0, text: `""`}, {kind: 0, text: "0"}, {kind: 2, vals: []*gnode{{kind: 0, text: "x"}}}}[g.Intn(4)]
				pos := g.Intn(len(x.vals) + 1)
				x.vals = append(x.vals[:pos], append([]*gnode{ins}, x.vals[pos:]...)...)
			}
			for _, ch := range x.vals {
				rec(ch)
			}
		}
		rec(root)
	}
	for try := 0; try < 6 && !hasSeq14(root); try++ {
		root = genNode14(g, 3, true)
	}
	if g.Chance(30) { // k8s-looking top level
		meta := &gnode{kind: 1}
		switch g.Intn(5) {
		case 0:
			meta.keys, meta.vals = []string{"name"}, []*gnode{{kind: 0, text: "n1"}}
		case 1:
			meta.keys, meta.vals = []string{"labels", "annotations"}, []*gnode{{kind: 1, keys: []string{"a"}, vals: []*gnode{{kind: 0, text: "x"}}}, {kind: 1}}
		case 2:
			meta.keys, meta.vals = []string{"annotations"}, []*gnode{{kind: 0, text: "null"}}
		case 3:
			meta = &gnode{kind: 0, text: "null"}
		}
		root.keys = append([]string{"kind", "metadata"}, root.keys...)
		root.vals = append([]*gnode{{kind: 0, text: g.Pick([]string{"Deployment", "x", "1"})}, meta}, root.vals...)
	}
	doc := root.yaml()
	seqs, maps := []seqAt{}, []seqAt{}
	collect14(root, nil, &seqs, &maps, 0)
	a := &apiSpec{}
	c := case14{Doc: doc, Path: []string{}, API: a}
	pickSeq := func() *gnode {
		if len(seqs) > 0 && !g.Chance(12) {
			s := seqs[g.Intn(len(seqs))]
			c.Path = s.path
			return s.seq
		}
		c.Path = genPathGuided14(g, root, 3)
		return nil
	}
	pickMap := func() *gnode {
		if len(maps) > 0 && !g.Chance(12) {
			m := maps[g.Intn(len(maps))]
			c.Path = m.path
			return m.seq
		}
		c.Path = genPathGuided14(g, root, 3)
		return nil
	}
	// a key/value pair taken from an element of the list (or random)
	kvOf := func(s *gnode) (string, string) {
		if s != nil && len(s.vals) > 0 && !g.Chance(25) {
			e := s.vals[g.Intn(len(s.vals))]
			if e.kind == 1 && len(e.keys) > 0 {
				j := g.Intn(len(e.keys))
				if e.vals[j].kind == 0 {
					return e.keys[j], strings.Trim(e.vals[j].text, `"`)
				}
				return e.keys[j], ""
			}
			if e.kind == 0 {
				return "", strings.Trim(e.text, `"`)
			}
		}
		return g.Pick([]string{"name", "a", "b", ""}), g.Pick([]string{"x", "y", "z", "1", ""})
	}
	ops := []string{"elemmatch", "elemmatch", "elemset", "elemset", "elemset", "elemappend", "fieldmatch", "fieldmatch", "fieldmatchre", "fieldclear", "teeset",
		"setlabel", "setannotation", "setk8smeta", "fields", "visitfields", "elements", "elementvalues", "mapfieldtext", "field",
		"getfieldvalue", "getfieldvalue", "getstring", "getslice", "rawfield", "rawmapfieldvalue", "rawfields",
		"pathsplit", "pathsplit", "pathsplitc", "smartsplit", "smartsplit"}
	c.Op = g.Pick(ops)
	switch c.Op {
	case "elemmatch", "elemset":
		s := pickSeq()
		k, v := kvOf(s)
		a.Keys, a.Values = []string{k}, []string{v}
		switch g.Intn(14) {
		case 0: // two keys
			k2, v2 := kvOf(s)
			a.Keys, a.Values = append(a.Keys, k2), append(a.Values, v2)
		case 1: // lengths differ
			a.Keys = append(a.Keys, g.Pick([]string{"a", "", "name"}))
		case 2:
			a.Values = []string{}
		case 3:
			a.Keys = []string{}
		case 4:
			a.Values = append(a.Values, "x")
		}
		if c.Op == "elemmatch" {
			a.Any = g.Chance(18)
			if a.Any && g.Chance(70) {
				a.Values = []string{}
			}
			if g.Chance(30) {
				a.Create = pickV(g, apiElemValues)
			}
		} else if !g.Chance(15) {
			a.Element = pickV(g, apiElemValues)
			if g.Chance(50) && k != "" { // an element that answers to the key itself
				a.Element = &vspec{"parse", "{" + k + ": " + quoteFlow(v) + ", extra: e}"}
			}
		}
	case "elemappend":
		pickSeq()
		for n := g.Intn(3); n >= 0; n-- {
			a.Elements = append(a.Elements, *pickV(g, apiElemValues))
		}
		if g.Chance(10) {
			a.Elements = nil
		}
	case "fieldmatch":
		m := pickMap()
		a.Name = g.Pick(c14Keys)
		if m != nil && len(m.keys) > 0 && g.Chance(70) {
			j := g.Intn(len(m.keys))
			a.Name = m.keys[j]
			if m.vals[j].kind == 0 && g.Chance(60) {
				a.HasValue, a.ValueStr = true, strings.Trim(m.vals[j].text, `"`)
			}
		}
		if g.Chance(12) {
			a.Name = ""
		}
		if !a.HasValue && g.Chance(35) {
			a.HasValue, a.ValueStr = true, g.Pick([]string{"x", "y", "1", ""})
		}
		if g.Chance(35) {
			a.Create = pickV(g, c14Values)
		}
	case "fieldmatchre":
		// the expression is searched in the Value of a scalar (Name empty); with a Name it is ignored
		all := []seqAt{}
		collectAll14(root, nil, &all)
		sc := []seqAt{}
		for _, x := range all {
			if x.seq.kind == 0 {
				sc = append(sc, x)
			}
		}
		c.Path = genPathGuided14(g, root, 3)
		txt := "x"
		if len(sc) > 0 && !g.Chance(15) {
			x := sc[g.Intn(len(sc))]
			c.Path, txt = x.path, strings.Trim(x.seq.text, `"`)
		}
		a.ValueStr = g.Pick([]string{txt, "^" + txt + "$", "^(?:" + txt + ")$", "x", "^x", "y$", "[xy]", "^[0-9]+$", "tr.e", "a|x|1", "x*", "(", "[a", "x{2}", "^$", "."})
		if g.Chance(15) {
			a.Name = g.Pick(c14Keys)
			pickMap()
		}
	case "fieldclear":
		m := pickMap()
		a.Name = g.Pick(c14Keys)
		if m != nil && len(m.keys) > 0 && g.Chance(75) {
			a.Name = m.keys[g.Intn(len(m.keys))]
		}
		a.IfEmpty = g.Bool()
	case "teeset":
		pickMap()
		a.Name = g.Pick(c14Keys)
		a.Element = pickV(g, c14Values)
	case "setlabel", "setannotation":
		a.K, a.V = g.Pick([]string{"a", "b", "app", "config.kubernetes.io/index"}), g.Pick([]string{"x", "1", "yes", "", "true"})
	case "setk8smeta":
		a.K, a.V = g.Pick([]string{"name", "namespace"}), g.Pick([]string{"x", "1", "yes", "012"})
	case "fields", "visitfields", "field", "mapfieldtext":
		pickMap()
		if g.Chance(15) {
			pickSeq()
		}
		a.Name = g.Pick([]string{"kind", "apiVersion"})
		if c.Op == "field" {
			a.Name = g.Pick(c14Keys)
		}
	case "elements", "elementvalues":
		pickSeq()
		a.Name = g.Pick([]string{"name", "a", "b"})
	case "getfieldvalue", "getstring", "getslice":
		p := genPathGuided14(g, root, 4)
		if !g.Chance(25) {
			all := []seqAt{}
			collectAll14(root, nil, &all)
			want := -1 // any
			if c.Op == "getstring" {
				want = 0
			} else if c.Op == "getslice" {
				want = 2
			}
			cand := []seqAt{}
			for _, x := range all {
				if len(x.path) > 0 && (want < 0 || x.seq.kind == want) {
					cand = append(cand, x)
				}
			}
			if len(cand) > 0 {
				p = cand[g.Intn(len(cand))].path
			}
		}
		a.PathStr = dotPath14(g, p)
	case "pathsplit", "pathsplitc", "smartsplit":
		a.K = "/"
		if c.Op != "pathsplit" {
			a.K = g.Pick([]string{"/", ".", ".", "|"})
		}
		a.PathStr = genSplitPath14(g, a.K)
	case "rawfield", "rawmapfieldvalue", "rawfields":
		a.RawKind = g.Pick([]string{"RKMap", "RKMap", "RKSeq"})
		n := g.Intn(6)
		for i := 0; i < n; i++ {
			if i%2 == 0 && !g.Chance(10) {
				a.Raw = append(a.Raw, vspec{"parse", g.Pick([]string{"kind", "apiVersion", "a", "b"})})
			} else {
				a.Raw = append(a.Raw, *pickV(g, c14Values))
			}
		}
		a.Name = g.Pick([]string{"kind", "apiVersion"})
		if c.Op == "rawfield" {
			a.Name = g.Pick([]string{"kind", "apiVersion", "a", "b", "zz"})
		}
	}
	return c
}

func quoteFlow(v string) string {
	if v == "" {
		return `""`
	}
	return v
}

// dotPath14 joins path parts the way GetFieldValue expects them: '.'-separated, an index as name[i] now and then,
// a bracketed selector kept whole by SmarterPathSplitter
func dotPath14(g *Rng, parts []string) string {
	out := []string{}
	for _, p := range parts {
		p = strings.TrimSpace(p)
		if _, err := strconv.Atoi(p); err == nil && len(out) > 0 && g.Chance(60) {
			out[len(out)-1] += "[" + p + "]"
			continue
		}
		out = append(out, p)
	}
	s := strings.Join(out, ".")
	if g.Chance(5) {
		s += g.Pick([]string{".", "[", "]", "[x]", "\\."})
	}
	return s
}

// floatTexts: the scalar texts strconv.ParseFloat accepts
func floatTexts(acc map[string]bool) []string {
	out := []string{}
	for _, s := range sortedKeys(acc) {
		if _, err := strconv.ParseFloat(s, 64); err == nil {
			out = append(out, s)
		}
	}
	return out
}

// ---------- law oracles for the node API (mirrors of the theorems of ElemsProofs / NodeApiProofs / MatchAgreeProofs) ----------

func selMatches14(k, v string, e *kyaml.Node) bool {
	if k == "" {
		return e.Value == v
	}
	if e.Kind != kyaml.MappingNode {
		return false
	}
	for i := 0; i+1 < len(e.Content); i += 2 {
		if e.Content[i].Value == k {
			return e.Content[i+1].Value == v
		}
	}
	return false
}

func cleanList14(n *kyaml.Node) bool {
	for _, e := range n.Content {
		if e.Tag == kyaml.NodeTagNull || (e.Kind == kyaml.MappingNode && len(e.Content) == 0) {
			return false
		}
	}
	return true
}

func plainPart14(p string) bool {
	return p != "" && p == strings.TrimSpace(p) && classify14(p).kind == pkKey
}

func lawsAPI14(s sink, c case14, d *docCtx14) (string, bool) {
	a := c.API
	report := func(law, detail string) {
		s.Violation(OracleViolation{Law: law, Class: "C14/" + law, Detail: detail, Replay: c})
	}
	doc := d.ref.Copy()
	cls, found, _, msg := execAPI14(doc, c)
	if cls == ClsPanic {
		var target *kyaml.Node
		switch c.Op {
		case "rawfield", "rawmapfieldvalue", "rawfields":
			target = a.rawNode().YNode()
		default:
			if _, x, _ := lookupOn(d.orig, c.Path); x != nil {
				target = x.YNode()
			}
		}
		_ = target
		class := panicClass14(msg) // no reader may panic (C14_raw_reader_no_panic): every panic is unlisted
		s.Violation(OracleViolation{Law: "no_panic", Class: class, Detail: fmt.Sprintf("op %s panics: %s", c.Op, msg), Replay: c})
		return cls, false
	}
	checkWellFormed14(s, c, cls, doc)
	if cls == ClsOk && (c.Op == "fieldclear" || c.Op == "elemset" || c.Op == "elemappend" || c.Op == "teeset" || c.Op == "fieldmatch") {
		d2 := d.ref.Copy()
		if cls2, _, _, _ := execAPI14(d2, c); cls2 == ClsOk {
			lawCopyIndependent14(s, c, d2, c.Path)
		}
	}
	_, at, _ := lookupOn(d.orig, c.Path) // the node the filter is applied to (in the original)
	switch c.Op {
	case "elemmatch":
		// match_element_is_selector: Lookup(path) | MatchElement(k, v)  ==  Lookup(path..., "[k=v]")
		if len(a.Keys) == 1 && len(a.Values) == 1 && !a.Any && a.Create == nil && !strings.Contains(a.Keys[0], "=") {
			sel := "[" + a.Keys[0] + "=" + a.Values[0] + "]"
			if pt := classify14(sel); pt.kind == pkSel && pt.nm == a.Keys[0] && pt.val == a.Values[0] && sel == strings.TrimSpace(sel) {
				s.Count("law_domain", "elemmatch-is-selector")
				d2 := d.ref.Copy()
				cls2, f2, _ := lookupOn(d2, append(append([]string{}, c.Path...), sel))
				if cls2 != cls || !eqR14(f2, found) {
					report("match_element_is_selector", fmt.Sprintf("MatchElement gives %s %s, the selector path gives %s %s", cls, optString(found), cls2, optString(f2)))
				}
			}
		}
	case "elemappend":
		if cls == ClsOk && at != nil && at.YNode().Kind == kyaml.SequenceNode && len(a.Elements) == 1 {
			s.Count("law_domain", "elemappend")
			_, last, _ := lookupOn(doc, append(append([]string{}, c.Path...), "-"))
			if last == nil || !eqNode14(last.YNode(), a.Elements[0].build().YNode(), true) {
				report("elem_append_get", "after ElementAppender the last element is not the appended one: "+optString(last))
			}
			_, after, _ := lookupOn(doc, c.Path)
			for i, e := range at.YNode().Content {
				if after == nil || i >= len(after.YNode().Content) || !eqNode14(after.YNode().Content[i], e, true) {
					report("elem_append_frame", fmt.Sprintf("ElementAppender changed element %d", i))
					break
				}
			}
		}
	case "elemset":
		if len(a.Keys) != 1 || len(a.Values) != 1 || a.Keys[0] == "" || a.Values[0] == "" || cls != ClsOk ||
			at == nil || at.YNode().Kind != kyaml.SequenceNode || !cleanList14(at.YNode()) {
			break
		}
		k, v := a.Keys[0], a.Values[0]
		_, after, _ := lookupOn(doc, c.Path)
		if after == nil {
			break
		}
		if a.Element == nil {
			// elem_setter_delete: nothing answers to the key afterwards; the others keep their order
			s.Count("law_domain", "elemset-delete")
			want := []*kyaml.Node{}
			for _, e := range at.YNode().Content {
				if !selMatches14(k, v, e) {
					want = append(want, e)
				}
			}
			ok := len(want) == len(after.YNode().Content)
			for i := 0; ok && i < len(want); i++ {
				ok = eqNode14(want[i], after.YNode().Content[i], true)
			}
			if !ok {
				report("elem_setter_delete", "deleting by key did not leave exactly the other elements: "+optString(after))
			}
			break
		}
		x := a.Element.build()
		if kyaml.IsMissingOrNull(x) || !selMatches14(k, v, x.YNode()) {
			break
		}
		s.Count("law_domain", "elemset-laws")
		// elem_setter_spec: every element answering to the key is replaced, nothing else changes, the element is
		// appended when none answered
		{
			want := []*kyaml.Node{}
			hit := false
			for _, e := range at.YNode().Content {
				if selMatches14(k, v, e) {
					want = append(want, x.YNode())
					hit = true
				} else {
					want = append(want, e)
				}
			}
			if !hit {
				want = append(want, x.YNode())
			}
			ok := len(want) == len(after.YNode().Content)
			for i := 0; ok && i < len(want); i++ {
				ok = eqNode14(want[i], after.YNode().Content[i], true)
			}
			if !ok {
				report("elem_setter_spec", "ElementSetter did not leave exactly the list with the matching elements replaced: "+optString(after))
			}
		}
		// put-get
		var got *kyaml.RNode
		protect14(func() error { var e error; got, e = after.Pipe(kyaml.MatchElement(k, v)); return e })
		if got == nil || !eqR14(got, x) {
			report("elem_setter_put_get", "after ElementSetter MatchElement finds "+optString(got)+", want "+docString(x))
		}
		// put-put (idempotence)
		doc2 := doc.Copy()
		c2 := c
		cls2, _, _, _ := execAPI14(doc2, c2)
		if cls2 != ClsOk || !eqR14(doc2, doc) {
			report("elem_setter_put_put", "a second identical ElementSetter changed the document: "+docString(doc)+" -> "+docString(doc2))
		}
		// frame: elements answering to another value of the key
		seen := map[string]bool{v: true}
		for _, e := range at.YNode().Content {
			if e.Kind != kyaml.MappingNode {
				continue
			}
			for i := 0; i+1 < len(e.Content); i += 2 {
				if e.Content[i].Value == k && !seen[e.Content[i+1].Value] {
					w := e.Content[i+1].Value
					seen[w] = true
					var b, f *kyaml.RNode
					protect14(func() error { var er error; b, er = at.Pipe(kyaml.MatchElement(k, w)); return er })
					protect14(func() error { var er error; f, er = after.Pipe(kyaml.MatchElement(k, w)); return er })
					if !eqR14(b, f) {
						report("elem_setter_frame", fmt.Sprintf("ElementSetter %s=%s changed the element %s=%s", k, v, k, w))
					}
				}
			}
		}
		// get-put: the element found is the only match
		n := 0
		var only *kyaml.Node
		for _, e := range at.YNode().Content {
			if selMatches14(k, v, e) {
				n++
				only = e
			}
		}
		if n == 1 {
			doc3 := d.ref.Copy()
			cls3, _ := protect14(func() error {
				_, e := doc3.Pipe(kyaml.Lookup(c.Path...), kyaml.ElementSetter{Keys: []string{k}, Values: []string{v}, Element: kyaml.CopyYNode(only)})
				return e
			})
			if cls3 != ClsOk || !eqR14(doc3, d.ref) {
				report("elem_setter_get_put", "writing back the element found changed the document: "+docString(d.ref)+" -> "+docString(doc3))
			}
		}
	case "teeset":
		// walk_tee: the document changes as under the wrapped filter; the node at the path is returned
		d2 := d.ref.Copy()
		var f2 *kyaml.RNode
		cls2, _ := protect14(func() error {
			var e error
			f2, e = d2.Pipe(kyaml.Lookup(c.Path...), kyaml.SetField(a.Name, a.Element.build()))
			return e
		})
		_ = f2
		if cls2 != cls || (cls == ClsOk && !eqR14(d2, doc)) {
			report("tee", fmt.Sprintf("Tee(SetField) gives %s %s, SetField alone %s %s", cls, docString(doc), cls2, docString(d2)))
		}
		if cls == ClsOk && found != nil && stable14(c.Path, a.Name) { // (H1): the path still selects the node afterwards
			if _, x, _ := lookupOn(doc, c.Path); x == nil || x.YNode() != found.YNode() {
				report("tee", "Tee did not return the node it was applied to")
			}
		}
	case "setlabel", "setannotation":
		fld := "labels"
		if c.Op == "setannotation" {
			fld = "annotations"
		}
		if cls != ClsOk {
			break
		}
		base := d.ref.Copy()
		if c.Op == "setannotation" {
			if e := kyaml.ClearEmptyAnnotations(base); e != nil {
				break
			}
		}
		// set_label_is_put / set_annotation_is_put
		v := kyaml.NewStringRNode(a.V)
		v.YNode().Style = kyaml.SingleQuotedStyle
		clsP, _, _ := putOn(base, []string{"metadata", fld}, a.K, v)
		if clsP != ClsOk || !eqR14(base, doc) {
			report("meta_setter_is_put", fmt.Sprintf("Set%s differs from the put on metadata.%s: %s vs %s (%s)", fld, fld, docString(doc), docString(base), clsP))
		}
		// put-get (no null on metadata.<fld>)
		pre := d.ref.Copy()
		if c.Op == "setannotation" {
			_ = kyaml.ClearEmptyAnnotations(pre)
		}
		if !nullOnPath14(pre, []string{"metadata", fld}) {
			s.Count("law_domain", "meta-setter-put-get")
			_, got, _ := lookupOn(doc, []string{"metadata", fld, a.K})
			if plainPart14(a.K) && (got == nil || got.YNode().Value != a.V) {
				report("meta_setter_put_get", "after the setter the value is "+optString(got))
			}
		}
	case "visitfields":
		// visit_fields_nodup: every field once, in document order, when no key is repeated
		if cls == ClsOk && at != nil && at.YNode().Kind == kyaml.MappingNode && !hasDupKeysTop14(at.YNode()) {
			s.Count("law_domain", "visitfields-order")
			i := 0
			ok := true
			_ = at.VisitFields(func(mn *kyaml.MapNode) error {
				y := at.YNode()
				if 2*i+1 >= len(y.Content) || mn == nil || mn.Key.YNode() != y.Content[2*i] || mn.Value.YNode() != y.Content[2*i+1] {
					ok = false
				}
				i++
				return nil
			})
			if !ok || 2*i != len(at.YNode().Content) {
				report("visit_fields_order", "VisitFields did not visit the fields once each in document order")
			}
		}
	case "fieldclear":
		if cls == ClsOk && !a.IfEmpty && at != nil && at.YNode().Kind == kyaml.MappingNode && !hasDupKeysTop14(at.YNode()) {
			s.Count("law_domain", "fieldclear")
			_, after, _ := lookupOn(doc, c.Path)
			if after == nil {
				break
			}
			if after.Field(a.Name) != nil {
				report("field_clearer_get", "the field is still there after FieldClearer")
			}
			y := at.YNode()
			j := 0
			for i := 0; i+1 < len(y.Content); i += 2 {
				if y.Content[i].Value == a.Name {
					continue
				}
				ay := after.YNode()
				if j+1 >= len(ay.Content) || ay.Content[j].Value != y.Content[i].Value || !eqNode14(ay.Content[j+1], y.Content[i+1], true) {
					report("field_clearer_frame", "FieldClearer changed another field: "+y.Content[i].Value)
					break
				}
				j += 2
			}
		}
	}
	return cls, found != nil
}

func hasDupKeysTop14(y *kyaml.Node) bool {
	seen := map[string]bool{}
	for i := 0; i+1 < len(y.Content); i += 2 {
		if seen[y.Content[i].Value] {
			return true
		}
		seen[y.Content[i].Value] = true
	}
	return false
}

// lawPM14: lookup_pm_agree on the implementation: for a path of plain field names, Lookup and PathMatcher (no Create)
// find the same node, or both nothing, or both fail.
// comm14 = MatchAgreeProofs.comm: plain names, indices in range (never on a null node), selectors [k=v] on a field
// whose regular expression is faithful to string equality on the list at hand and which at most one element answers to
var reCache14 sync.Map // expression -> *regexp.Regexp (nil: does not compile)

func comm14(path []string, n *kyaml.Node) bool {
	if len(path) == 0 {
		return true
	}
	p, rest := path[0], path[1:]
	if p != strings.TrimSpace(p) || p == "" {
		return false
	}
	pt := classify14(p)
	switch pt.kind {
	case pkKey:
		if n.Kind == kyaml.MappingNode {
			for i := 0; i+1 < len(n.Content); i += 2 {
				if n.Content[i].Value == p {
					return comm14(rest, n.Content[i+1])
				}
			}
		}
		return true
	case pkIdx:
		if n.Kind == kyaml.SequenceNode {
			return pt.idx < len(n.Content) && comm14(rest, n.Content[pt.idx])
		}
		return n.Tag != kyaml.NodeTagNull
	case pkSel:
		if pt.nm == "" {
			return false
		}
		if n.Kind != kyaml.SequenceNode {
			return true
		}
		var re *regexp.Regexp
		if c, ok := reCache14.Load(pt.val); ok {
			re, _ = c.(*regexp.Regexp)
		} else {
			re, _ = regexp.Compile(pt.val)
			reCache14.Store(pt.val, re)
		}
		if re == nil {
			return false
		}
		var first *kyaml.Node
		count := 0
		for _, e := range n.Content {
			if e.Kind != kyaml.MappingNode {
				continue
			}
			for i := 0; i+1 < len(e.Content); i += 2 {
				if e.Content[i].Value == pt.nm {
					x := e.Content[i+1]
					txt, err := kyaml.NewRNode(x).String()
					if err != nil || re.MatchString(strings.TrimSpace(txt)) != (x.Value == pt.val) {
						return false
					}
					if x.Value == pt.val {
						count++
						if first == nil {
							first = e
						}
					}
					break
				}
			}
		}
		return count <= 1 && (first == nil || comm14(rest, first))
	}
	return false
}

func lawPM14(s sink, c case14, d *docCtx14) {
	if !comm14(c.Path, d.ref.YNode()) {
		return
	}
	plain := true
	for _, p := range c.Path {
		plain = plain && plainPart14(p)
	}
	if plain {
		s.Count("law_domain", "lookup-pathmatcher-agree")
	} else {
		s.Count("law_domain", "lookup-pathmatcher-agree-idx-sel")
	}
	cls, found, _ := lookupOn(d.orig, c.Path)
	d2 := d.ref.Copy()
	var res *kyaml.RNode
	pm := &kyaml.PathMatcher{Path: c.Path}
	cls2, _ := protect14(func() error { var e error; res, e = pm.Filter(d2); return e })
	ok := cls == cls2
	if ok && cls == ClsOk {
		n := 0
		if res != nil {
			n = len(res.YNode().Content)
		}
		if found == nil {
			ok = n == 0
		} else {
			ok = n == 1 && eqNode14(res.YNode().Content[0], found.YNode(), true) && eqR14(d2, d.ref)
		}
	}
	if !ok {
		s.Violation(OracleViolation{Law: "lookup_pm_agree", Class: "C14/lookup_pm_agree",
			Detail: fmt.Sprintf("Lookup gives %s %s, PathMatcher %s %s", cls, optString(found), cls2, optString(res)), Replay: c})
	}
}

// genSplitPath14: delimiter-separated paths with escaped delimiters (several per element), bracketed parts,
// leading / trailing / doubled delimiters and stray backslashes
func genSplitPath14(g *Rng, d string) string {
	atoms := []string{"a", "b", "example.com", "x", "", "[name=x]", "[a" + d + "b]", "[a" + d + "b=c]", "[", "]", "k8s.io"}
	n := 1 + g.Intn(4)
	parts := []string{}
	for i := 0; i < n; i++ {
		p := g.Pick(atoms)
		for e := g.Intn(4); e > 0; e-- { // 0..3 escaped delimiters inside the element
			p += "\\" + d + g.Pick([]string{"team", "owner", "y", ""})
		}
		if g.Chance(6) {
			p += "\\"
		}
		parts = append(parts, p)
	}
	s := strings.Join(parts, d)
	if g.Chance(12) {
		s = d + s
	}
	if g.Chance(5) {
		s += d
	}
	return s
}

// lawSplit14: PathSplitter undoes "escape every delimiter inside an element and join": for elements without
// backslash, with a non-empty first element.
func lawSplit14(s sink, c case14, g *Rng) {
	d := g.Pick([]string{"/", "."})
	n := 1 + g.Intn(4)
	parts := []string{}
	for i := 0; i < n; i++ {
		p := g.Pick([]string{"a", "metadata", "example.com", "x"})
		for e := g.Intn(4); e > 0; e-- {
			p += d + g.Pick([]string{"team", "owner", "y", "v1"})
		}
		parts = append(parts, p)
	}
	esc := []string{}
	for _, p := range parts {
		esc = append(esc, strings.ReplaceAll(p, d, "\\"+d))
	}
	got := utils.PathSplitter(strings.Join(esc, d), d)
	ok := len(got) == len(parts)
	for i := 0; ok && i < len(parts); i++ {
		ok = got[i] == parts[i]
	}
	s.Count("law_domain", "pathsplitter-roundtrip")
	if !ok {
		cc := c
		cc.Op, cc.API = "pathsplitc", &apiSpec{K: d, PathStr: strings.Join(esc, d)}
		s.Violation(OracleViolation{Law: "path_splitter_roundtrip", Class: "C14/path_splitter_roundtrip",
			Detail: fmt.Sprintf("PathSplitter(%q, %q) = %q, want %q", strings.Join(esc, d), d, got, parts), Replay: cc})
	}
}

// ---------- documents with anchors, aliases and merge keys ----------
// The model's node type has no alias constructor. Such documents enter the model after RNode.DeAnchor()
// (modelled by w-c05: Yaml/Anchor.v, deanchor : anode -> res node, alias-free result); the same operation on the
// document as written is run on the implementation only and counted as skipped (unrepresentable).

var aliasDocs14 = []string{
	"a: &x\n  name: x\n  b: 1\nb: *x\nc:\n  - *x\n  - name: y\n",
	"base: &b\n  a: 1\n  b: 2\nc:\n  <<: *b\n  b: 3\nname: x\n",
	"d1: &d1\n  a: 1\nd2: &d2\n  b: 2\nc:\n  <<: [*d1, *d2]\n  name: z\n",
	"a: &s x\nb: *s\nc: [*s, y, *s]\n",
	"l: &l\n  - name: x\n    a: 1\n  - name: y\nb: *l\nc:\n  name: *l\n",
	"n1: &n1\n  a: 1\nn2: &n2\n  <<: *n1\n  b: 2\nc:\n  <<: *n2\n",
	"a: &e {}\nb: *e\nc: &n null\nname: *n\n",
	"a:\n  - &i\n    name: x\n  - *i\n  - name: y\n    b: *i\n",
}

func genAliasCase14(g *Rng, s sink) (case14, case14, bool) {
	text := g.Pick(aliasDocs14)
	ops := []string{"lookup", "lookup", "put", "clear", "putscalar", "lookupcreate"}
	c := case14{Op: g.Pick(ops), Doc: text, Path: genPath14(g, 3)}
	switch c.Op {
	case "lookupcreate":
		c.Kind = g.Pick([]string{"KScalar", "KMap", "KSeq"})
	case "put":
		c.Name = g.Pick(c14Keys)
		v, v2 := c14Values[g.Intn(len(c14Values))], c14Values[g.Intn(len(c14Values))]
		c.Value, c.Value2 = &v, &v2
		c.Probes = genProbes14(g, append(append([]string{}, c.Path...), c.Name))
	case "putscalar":
		v := c14Values[g.Intn(len(c14Values))]
		c.Value = &v
	case "clear":
		c.Name = g.Pick(c14Keys)
	}
	raw := c
	doc, err := kyaml.Parse(text)
	if err != nil {
		return c, raw, false
	}
	cls, _ := protect14(func() error { return doc.DeAnchor() })
	s.Count("deanchor", cls)
	if cls != ClsOk {
		return c, raw, false
	}
	t2, err := doc.String()
	if err != nil {
		return c, raw, false
	}
	c.Doc = t2
	return c, raw, true
}
